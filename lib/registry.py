"""Per-property registration (harness name, assumptions, what is modelled)."""
from vlib import Check

CHECKS = {}


def reg(c):
    CHECKS[c.pid] = c


reg(Check(
    "C09", "c09",
    assumptions=[
        "values stored in the tree are non-nil (a nil-valued leaf is indistinguishable from an empty node in ctree)",
        "single goroutine (C10 covers concurrency)",
    ],
    modelled=["ctree/tree.go: Add, Get, GetLeaf, GetLeafValue, Query, Walk, WalkSorted, Delete, DeleteConditional, WalkDeleted, Children, IsBranch (String() not modelled)"],
))

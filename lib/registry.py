"""Collects the per-property registrations from lib/props/*.py."""
import importlib
import os
import pkgutil

from vlib import Check  # noqa: F401  (re-exported for props modules)

CHECKS = {}
MANIFEST = {}


def reg(check, level_text=None, level_note=None, technique=None, design_ref=None):
    CHECKS[check.pid] = check
    MANIFEST[check.pid] = dict(level_text=level_text or "", level_note=level_note or "",
                               technique=technique or "Coq proof over hand-written model + differential correspondence check",
                               design_ref=design_ref or ("DESIGN.md section 6, " + check.pid))


def _load():
    import props
    for m in sorted(pkgutil.iter_modules(props.__path__), key=lambda x: x.name):
        try:
            importlib.import_module("props." + m.name)
        except Exception as e:  # one broken registration must not take the others down
            import sys
            print("registry: props.%s not loaded: %r" % (m.name, e), file=sys.stderr)


_load()

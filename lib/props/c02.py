from registry import reg, Check

reg(Check(
    "C02", "c02",
    coq_targets=["Cache/C02Check.vo", "Cache/CacheProofs.vo", "Props/C02.vo"],
    assumptions=[
        "single goroutine per target (C04/C10 cover concurrency)",
        "one clock reading per API call (cache.Now constant during a call)",
        "timestamp differences do not overflow int64 (model uses unbounded Z)",
        "typed values and value.Equal are those of coq/Value/ValueModel.v (b19's model, every arm of the oneof; floats as IEEE-754 bit patterns)",
        "cache created without latency windows and server name",
    ],
    search_seeds=1,
    modelled=["cache/cache.go: Cache.GnmiUpdate, Target.GnmiUpdate, gnmiUpdate, gnmiRemove, toDeleteNotification, checkTimestamp, Reset, Remove, Add, updateMeta/generateMetaUpdates, Query; metadata/metadata.go counters; ctree via CTreeModel; path.ToStrings/joinPrefixAndPath via PathModel"],
),
    level_text="Theorems in coq/Props/C02.v state the timestamp discipline over the Gallina model of cache.Target for all notification histories (per-leaf refinement to a four-line recursion, stale / equal-timestamp / delete / future / collision clauses); the model is tied to cache/cache.go by a correspondence run (all short histories on one leaf + seeded random histories) evaluated inside Coq, which also applies a flat-map specification of the property to the implementation's own Query results and error classes.",
    level_note="Trusted: Coq kernel + vm_compute, the hand-written model (validated only on the explored cases), the Go harness projection. One clock reading per call, single goroutine. Since round 7 the history refinement holds for all panic-free histories with refusal (collision) and the latest accepted timestamp both decided on the specification side (C02_leaf_holds_newest_all / _spec): K_P's flat-map bookkeeping is refined by the model.")

from registry import reg, Check

reg(Check(
    "C19", "c19",
    coq_targets=["Path/C19Check.vo", "Path/C19CheckProofs.vo", "Props/C19.vo"],
    assumptions=[
        "key maps of path elements have pairwise distinct key names (they are Go maps)",
        "a plain query element is valid UTF-8 (the ygot parser ranges over runes and replaces invalid bytes by U+FFFD; modelled, and compared with the implementation on invalid input too)",
        "integers handed to FromScalar fit their Go type; typed-nil oneof wrappers (which the protobuf runtime never produces) are excluded",
        "the query round trip requires that the last element does not end in '/' (known finding KF-C19-3)",
    ],
    modelled=["path/path.go: ToStrings, sortedVals, CompletePath; cache/cache.go: joinPrefixAndPath; client/gnmi/client.go: pathToString, subscribe (path construction only); ygot v0.29.20 StringToPath = util.SplitPath, PathStringToElements, extractKV, addKey, elemToString (byte level); value/value.go: FromScalar, ToScalar (decimalToFloat symbolic, encoding/json validity as an oracle), Equal"],
    extra_trusted=["unicode/utf8.ValidString and the rune decoding of a Go range loop are ported to Gallina (Value/Utf8.v: utf8_valid, sanitize) and validated by the correspondence run only"],
),
    level_text="Theorems in coq/Props/C19.v state, over the Gallina models of path/path.go, the client query construction (client/gnmi + the ygot path parser) and value/value.go, for all inputs: index independence of key-map order, key values in key-name order, target/origin only when requested and non-empty, the CompletePath accept/reject rule, the client-query round trip for plain elements, the scalar round trip, and totality / symmetry / soundness of Equal. The models are tied to the Go code by a correspondence run evaluated inside Coq (each path indexed 20 times on fresh maps, all origin/prefix combinations, all ordered pairs of a TypedValue basis covering every oneof arm, nil, NaN, +-0), which also applies an independently written executable specification to the implementation's own answers.",
    level_note="Trusted: Coq kernel + vm_compute, the hand-written models (validated only on the explored cases), the Go harness projection. decimalToFloat is symbolic, encoding/json validity an oracle. Fixed through this check: value.Equal / value.ToScalar nil dereferences (b28d6aa, e8be1b1). Known finding: the last query element is dropped by the ygot path parser when it ends in '/'.")

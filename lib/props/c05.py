from registry import reg, Check

reg(Check(
    "C05", "c05",
    coq_targets=["Subscribe/C05Check.vo", "Subscribe/C07Check.vo", "Subscribe/SubProofs.vo", "Subscribe/SubCheckProofs.vo", "Props/C05.vo"],
    assumptions=[
        "sequential script: the subscriber is quiescent between two steps (a poll trigger is issued only after the previous sync_response was received; cache edits happen between polls, not during a walk); once_weak for concurrent writers is stated over an interleaving model with per-tree atomic queries",
        "cache content is data only: no paths under 'meta', no deprecated 'element' paths, int values, updates do not set an origin in both prefix and path, default cache options (no future threshold, event-driven emulation on)",
        "the order of responses within one walk is Go map order and is not specified: groups are compared as multisets; a leaf offered k times to the coalescing queue counts k times whichever way the duplicates were coalesced",
        "gRPC transport, protobuf codec and the real gnmi.GNMI_SubscribeServer are replaced by an in-memory stream whose context carries a peer (as gRPC guarantees)",
    ],
    modelled=["subscribe/subscribe.go: Subscribe request validation, processSubscription, processPollingSubscription, sendStreamingResults/sendSubscribeResponse, addSubscription, isTargetDelete",
              "path/path.go: ToStrings, CompletePath",
              "cache/cache.go as content: Target.GnmiUpdate/gnmiUpdate/gnmiRemove/toDeleteNotification, Cache.Query/HasTarget/Remove (no metadata)",
              "match/match.go: the update relation for one client",
              "coalesce/coalesce.go: as 'every offer is delivered, duplicates counted' (C11 models the queue itself)"],
),
    level_text="Theorems in coq/Props/C05.v state over the Gallina model of the Subscribe responder that, for every well-formed cache, every ONCE request and every POLL script (any number of triggers with arbitrary cache edits in between), each snapshot is exactly the set of stored leaves whose index path the completed subscription paths match (wildcards at any position, origins, target '*'), with current values, followed by exactly one sync, last, and status OK. The model is tied to subscribe.go/cache.go/path.go by a correspondence run over an in-memory stream (a grid of all glob/origin placements on a fixed cache plus seeded random scripts) evaluated inside Coq, which also applies the specification to the implementation's own responses and cache dump.",
    level_note="Trusted: Coq kernel + vm_compute, the hand-written model (validated only on the explored cases), the Go harness projection and its quiescence detection. Sequential scripts; the concurrent-writer clause is proved over an interleaving model only (partial).")

from registry import reg, Check

reg(Check(
    "C09", "c09",
    coq_targets=["CTree/CTreeCheck.vo", "CTree/CTreeHandle.vo", "CTree/CTreeExamples.vo", "Props/C09.vo"],
    assumptions=[
        "values stored in the tree are non-nil (a nil-valued leaf is indistinguishable from an empty node in ctree)",
        "single goroutine (C10 covers concurrency)",
    ],
    modelled=["ctree/tree.go: Add, Get, GetLeaf, GetLeafValue, Query, Walk, WalkSorted, Delete, DeleteConditional, WalkDeleted, Children, IsBranch, Leaf.Value, Leaf.Update through handles kept across later operations (String() and DetachedLeaf not modelled)"],
),
    level_text="Theorems in coq/Props/C09.v state the property over the Gallina model of ctree for all operation sequences (refinement to a flat prefix-free map, exact query/walk/delete sets, sorted walks, pruning; leaf handles: a live handle is the stored leaf, a handle whose leaf was deleted is inert); the model is tied to ctree/tree.go by a correspondence run (all short operation sequences over a fixed alphabet + seeded random sequences) evaluated inside Coq, which also applies the flat-map specification to the implementation's own answers.",
    level_note="Trusted: Coq kernel + vm_compute, the hand-written model (validated only on the explored cases), the Go harness projection. Non-nil values, single goroutine.")

from registry import reg, Check

reg(Check(
    "C07", "c07",
    coq_targets=["Subscribe/C05Check.vo", "Subscribe/C07Check.vo", "Subscribe/SubProofs.vo", "Subscribe/SubCheckProofs.vo", "Props/C07.vo"],
    assumptions=[
        "the ACL is an oracle allow(user, target) that does not change during one RPC; NewRPCACL either fails or yields the per-RPC check of one user",
        "sequential script: the subscriber is quiescent between two steps (one cache operation at a time, its responses drained before the next); the never_sends_denied invariant does not depend on this, the completeness clause is stated for such scripts; two overlapping calls on one server are modelled as independent responders over the same cache script",
        "cache content is data only (no 'meta' paths, no deprecated 'element' paths, int values); responses carry a non-nil prefix (the cache rejects notifications without one)",
        "gRPC transport replaced by an in-memory stream whose context carries a peer; every response passed to Send is observed",
    ],
    modelled=["subscribe/subscribe.go: the three ACL checks (NewRPCACL failure, single-target check before any goroutine starts, per-response prefix-target check before Send) around the C05 responder and the streaming sender (addSubscription, UpdateNotification offers, isTargetDelete close)",
              "cache/cache.go feed: leaves handed to the cache client by GnmiUpdate (updates, suppressed equal values, subtree deletes, Cache.Remove)",
              "match/match.go: the update relation for one client"],
),
    level_text="Theorems in coq/Props/C07.v state over the Gallina model of the Subscribe responder, with the ACL as a section variable allow : user -> target -> bool, for all caches, requests, modes and scripts of cache operations / poll triggers: no per-call ACL => Unauthenticated and nothing sent; single denied target => PermissionDenied and nothing sent; every update or delete response ever sent has an allowed prefix target (snapshot, streamed updates, deletes, target removal); and the sent sequence is exactly the un-ACL'd sequence with the denied responses removed, with the same final status. The model is tied to subscribe.go by a correspondence run (every script executed with a table-driven fake ACL and again without ACL over an in-memory stream recording every Send) evaluated inside Coq, which also applies the four clauses to the implementation's own responses.",
    level_note="Trusted: Coq kernel + vm_compute, the hand-written model (validated only on the explored cases), the Go harness projection and its quiescence detection. Sequential scripts.")

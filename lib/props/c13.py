from registry import reg, Check

reg(Check(
    "C13", "c13",
    coq_targets=["Manager/ManagerModel.vo", "Manager/ManagerCheck.vo", "Manager/ManagerProofs.vo", "Manager/ManagerProofs2.vo", "Props/C13.vo"],
    assumptions=[
        "callbacks do not call back into the Manager for their own target (Remove from inside a callback deadlocks by construction) and return",
        "the injected ConnectionManager / stream return when their context is done (a Recv that ignores cancellation blocks Remove for ever)",
        "all six Config callbacks are set (a nil callback is simply skipped by the code)",
        "Add/Remove/Reconnect for one name are issued sequentially by the client (different names concurrently)",
        "a receive timeout of one hour or more does not expire during a run (the model is then told 'no timeout' although the timer goroutine exists)",
        "time: the model has no clock (backoff and timers are 'eventually fires'); only a lower bound on every observed backoff gap (>= 90% of RetryBaseDelay*(1-RetryRandomization)) is checked at run time; the post-Remove silence is observed for 30 ms (quick) / 300 ms (thorough) at run time, the theorem is unbounded",
    ],
    modelled=["manager/manager.go: Add, Remove, Reconnect, reconnectCtx, retryMonitor, monitor, createConn, subscribe, handleUpdates (incl. the receive-timeout goroutine), handleGNMIUpdate; gRPCMeta only as 'credentials lookup succeeds or fails'; backoff durations abstracted to 'the timer eventually fires'"],
),
    level_text="Theorems in coq/Props/C13.v state the session discipline over a per-target LTS model of manager.go (hidden steps for context cancellation and the select race) for every environment script and every timing of Remove/Reconnect: the callback projection of every producible log is a word of the session language, Connect only after the first message of a stream, updates/syncs delivered in stream order inside the session, one Reset per stream, silence after Remove, refusals of duplicate Add / unknown Remove, and enabledness of the retry loop while managed; the executable acceptance function and the property monitors are proved sound. The model is tied to manager.go by a mode-A correspondence run (real Manager, scripted ConnectionManager / credentials / streams, control actions at every log position) whose logs must be accepted by the model and pass the monitors inside Coq; every measured backoff gap must reach the policy's minimum.",
    level_note="Trusted: Coq kernel + vm_compute, the hand-written model (validated on the explored logs only), the Go harness (log order = order of log appends under one mutex). Post-Remove silence is observed for a finite window at run time; backoff durations are not modelled.")

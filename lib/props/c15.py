from registry import reg, Check

reg(Check(
    "C15", "c15",
    coq_targets=["Cache/MultiCache.vo", "Cache/C14Check.vo", "Latency/LatencyModel.vo", "Cache/C15Check.vo",
                 "Latency/LatencyProofs.vo", "Cache/C15Proofs.vo", "Props/C15.vo"],
    assumptions=[
        "single goroutine per target for the counter laws (the concurrency clause is a lockset annotation, see C15_no_unprotected_access_*)",
        "one clock reading per API call; the clock (cache.Now, latency.Now) does not run backwards",
        "no int64 overflow of accumulated durations / counters (model uses unbounded Z)",
        "cache created without latency windows, server name and excluded metadata; latency.Latency is driven directly for the window statistics",
        "typed values restricted to string/int/uint/bool/bytes/json/empty; json size of a leaf abstracted (UpdateSize stores the sum the harness computes itself)",
    ],
    modelled=["cache/cache.go counter updates on every branch of Target.GnmiUpdate / gnmiUpdate / gnmiRemove, checkTimestamp, updateMeta, updateSize, Reset (CacheModel.v + MultiCache.v); metadata/metadata.go; latency/latency.go: New, Compute, UpdateReset, UpdateLast, window add / slide / isCovered / setAvg / setMax / setMin (LatencyModel.v)"],
),
    level_text="Theorems in coq/Props/C15.v state over the Gallina models of cache.Target and latency.Latency, for all histories: leaf count = added - deleted; every ingest unit lands in exactly one of updated/suppressed/stale/future or is returned as an error, empty notifications in empty; the latest timestamp is the greatest accepted one; every exported latency statistic lies within the sample bounds of the retained slots (average within the precision); the lockset annotation of the shared fields is checked (meta, lat protected; sync, ts refuted = known finding). The models are tied to the Go code by a correspondence run evaluated inside Coq, which also applies the executable specification to the implementation's own counters, Query results and exported statistics.",
    level_note="Trusted: Coq kernel + vm_compute, the hand-written models (validated only on the explored cases), the Go harness projection, that the lockset annotation matches the code (race detector run in the thorough tier as supporting evidence only).")

import os
import re
import subprocess

import vlib
from registry import reg, Check


class C15(Check):
    """Adds, in the thorough tier, a -race build of a refresh || update workload
    (supporting evidence for the lockset annotation; never in place of a theorem)."""

    def race_run(self):
        binary, blog = vlib.go_build(self.harness, race=True)
        if binary is None:
            return None, "race build failed:\n" + blog[-2000:]
        d = self.rundir("race")
        env = dict(os.environ, VERIF_C15_RACE="1", GORACE="halt_on_error=0 history_size=3")
        p = subprocess.run([binary, "-out", d], cwd=d, env=env, stdout=subprocess.PIPE,
                           stderr=subprocess.PIPE, text=True, errors="replace", timeout=900)
        open(os.path.join(d, "race.log"), "w").write(p.stdout + "\n--- stderr ---\n" + p.stderr)
        return p, os.path.join(d, "race.log")

    def conc_run(self):
        """Quick-tier concurrent family: update stream || UpdateMetadata loop || UpdateSize
        loop on one target, free running, in a child process.  K_P: the process neither
        crashes nor hangs, and at quiescence targetLeaves = added - deleted = stored."""
        binary, blog = vlib.go_build(self.harness)
        if binary is None:
            return None
        d = self.rundir("conc")
        try:
            p = subprocess.run([binary, "-out", d], cwd=d, env=dict(os.environ, VERIF_C15_CONC="1"),
                               stdout=subprocess.PIPE, stderr=subprocess.PIPE, text=True, errors="replace", timeout=120)
            out, err, rc = p.stdout, p.stderr, p.returncode
        except subprocess.TimeoutExpired as e:
            out, err, rc = (e.stdout or ""), (e.stderr or ""), "timeout"
            out = out if isinstance(out, str) else out.decode(errors="replace")
            err = err if isinstance(err, str) else err.decode(errors="replace")
        open(os.path.join(d, "conc.log"), "w").write(out + "\n--- stderr ---\n" + err)
        bad = []
        if rc != 0 or "conc-done" not in out:
            first = [l for l in err.splitlines() if l.startswith("fatal error") or l.startswith("panic")]
            bad.append("child process ended with %s: %s" % (rc, (first or err.splitlines()[:1] or ["no output"])[0]))
        reps = 0
        for line in out.splitlines():
            m = re.match(r"quiescent rep=(\d+) leaves=(-?\d+) added=(-?\d+) deleted=(-?\d+) stored=(-?\d+)", line)
            if m:
                reps += 1
                lv, ad, dl, st = (int(m.group(i)) for i in (2, 3, 4, 5))
                if lv != ad - dl or lv != st:
                    bad.append("counter equations broken at quiescence: " + line)
        return dict(bad=bad, reps=reps, log=os.path.join(d, "conc.log"), stderr=err[:3000])

    def main(self, tier, seed, replay=None):
        rc = super().main(tier, seed, replay)
        if replay:
            return rc
        cr = self.conc_run()
        if cr is not None:
            vlib.log("C15 concurrent family: %d repetitions of update || UpdateMetadata || UpdateSize on one target, %s"
                     % (cr["reps"], "ok" if not cr["bad"] else "; ".join(cr["bad"])[:300]))
            if cr["bad"]:
                rp = self.replay_path(dict(property="C15", kind="concurrent", tag=7, failures=cr["bad"],
                                           stderr=cr["stderr"], log=cr["log"],
                                           replay_cmd="VERIF_C15_CONC=1 <harness binary> -out <dir>"))
                vlib.log("VIOLATION property=C15 replay=%s" % rp)
                return 1
        if tier != "thorough":
            return rc
        p, logp = self.race_run()
        if p is None:
            vlib.log("NOTE: " + logp)
            return rc
        reports = re.split(r"(?=WARNING: DATA RACE)", p.stderr)[1:]
        known, other = 0, []
        for rep in reports:
            other.append(rep)
        vlib.log("C15 race run: %d reports, log %s" % (len(reports), logp))
        for line in p.stdout.splitlines():
            m = re.match(r"quiescent (\S+) leaves=(-?\d+) added=(-?\d+) deleted=(-?\d+) stored=(-?\d+)", line)
            if m and (int(m.group(2)) != int(m.group(3)) - int(m.group(4)) or int(m.group(2)) != int(m.group(5))):
                other.append("counter law broken at quiescence: " + line)
        if other:
            rp = self.replay_path(dict(property="C15", kind="race", reports=other[:3], log=logp))
            vlib.log("VIOLATION property=C15 replay=%s no-failing-input-found" % rp)
            return 1
        return rc


reg(C15(
    "C15", "c15",
    coq_targets=["Cache/MultiCache.vo", "Cache/C14Check.vo", "Latency/LatencyModel.vo", "Cache/C15Check.vo",
                 "Latency/LatencyProofs.vo", "Cache/C14Proofs.vo", "Cache/C15Proofs.vo", "Cache/C15Count.vo", "Props/C15.vo"],
    assumptions=[
        "single goroutine per target for the counter laws (the concurrency clause is a lockset annotation, see C15_no_unprotected_access)",
        "one clock reading per API call; the clock (cache.Now, latency.Now) does not run backwards",
        "no int64 overflow of accumulated durations / counters (model uses unbounded Z)",
        "counter families: cache created without latency windows, server name and excluded metadata; window statistics: latency.Latency driven directly, and a cache built WITH latency windows whose exported statistics are checked against the ACCEPTED (announced) post-sync non-metadata updates (suppressed and refused updates are not samples, as on HEAD)",
        "typed values restricted to string/int/uint/bool/bytes/json/empty; json size of a leaf abstracted (UpdateSize stores the sum the harness computes itself)",
        "no delete addressed to the metadata leaf of one of the counters themselves (such a delete resets that counter)",
    ],
    modelled=["cache/cache.go counter updates on every branch of Target.GnmiUpdate / gnmiUpdate / gnmiRemove, checkTimestamp, updateMeta, updateSize, Reset (CacheModel.v + MultiCache.v); metadata/metadata.go; latency/latency.go: New, Compute, UpdateReset, UpdateLast, window add / slide / isCovered / setAvg / setMax / setMin (LatencyModel.v)"],
),
    level_text="Theorems in coq/Props/C15.v state over the Gallina models of cache.Target and latency.Latency, for all histories: leaf count = stored non-metadata leaves and moves by added - deleted; every ingest unit lands in exactly one of updated/suppressed/stale/future or is returned as an error, empty notifications in empty; the latest timestamp never decreases and moves only to an accepted tracked timestamp; every exported latency statistic lies within the sample bounds of the retained slots (average within the precision); every conflicting pair of access sites of the shared fields (sync, ts, metadata values, latency accumulators, tree) shares a mutex over the lockset annotation (true since b865e5c; a -race build of a refresh||update workload is supporting evidence in the thorough tier). The leaf-count equation was false before the fix ccc875e this check led to. The models are tied to the Go code by a correspondence run evaluated inside Coq, which also applies the executable specification to the implementation's own counters, Query results and exported statistics.",
    level_note="Trusted: Coq kernel + vm_compute, the hand-written models (validated only on the explored cases), the Go harness projection, that the lockset annotation matches the code (race detector run in the thorough tier as supporting evidence only). Since round 7 the one-call law of the latest timestamp is exact including multi notifications (C15_latest_exact_partial); the whole-history form is still stepwise.")

from registry import reg, Check

reg(Check(
    "C11", "c11",
    coq_targets=["Coalesce/QueueCheck.vo", "Props/C11.vo"],
    assumptions=[
        "one consumer per queue (the way subscribe.go uses it); any number of producers",
        "the uint32 duplicate counter does not wrap (fewer than 2^32 coalesced insertions of one pending item)",
        "a non-blocking channel send/receive and close(chan) are atomic steps (Go channel operations are linearizable); the mutex makes insert/next/Len/Close critical sections",
        "liveness (every locked insert delivered; Close/Cancel make Next return; drain then closed) is proved for runs in which the consumer and, for coalesced inserts, the producers are weakly fair; that goroutines are scheduled fairly is the Go runtime's",
        "an Insert that overlaps Close (closed check passed before Close ran) may be accepted after the consumer was told the queue is closed; the property covers insertions that completed before the close (C11_insert_close_overlap_example)",
    ],
    modelled=["coalesce/coalesce.go: NewQueue, Insert, insert, Next, next, Len, Close, IsClosed (as a transition system whose atomic steps are the critical sections and channel operations)"],
),
    level_text="Theorems in coq/Props/C11.v state the property over a transition system of coalesce.Queue for all schedules of any number of producers, one consumer, Close and cancellation (refinement to an abstract coalescing queue, conservation, drain-before-closed, refusal after close, no lost wake-up as enabledness, and delivery / wake-up by Close and Cancel / drain-then-closed on weakly fair runs, with a refutation for an unbuffered wake-up channel); the model is tied to coalesce/coalesce.go by (E) all short single-goroutine operation sequences + random ones, (S) forced schedules through the verif hook points under a barrier scheduler, every recorded step validated against the transition system inside Coq, and a stress family, with the abstract-queue specification applied to the implementation's own observations.",
    level_note="Trusted: Coq kernel + vm_compute, the hand-written model (validated on the explored sequences and schedules), the Go harness and its barrier scheduler (goroutine states read from runtime.Stack). One consumer; liveness under weak fairness; uint32 wrap ignored. Since round 7 the wake-up, refusal and drain clauses of the mode-S K_P have soundness theorems against declarative statements over recorded runs (C11_kp_*_sound), tied to the LTS by shared point predicates and, for refusal (full) and drain/wake (partial), by a trace-abstraction theorem from validate_run.")

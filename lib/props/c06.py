from registry import reg, Check

reg(Check(
    "C06", "c06",
    coq_targets=["Match/MatchCheck.vo", "Match/MatchProofs.vo", "Props/C06.vo"],
    assumptions=[
        "lock discipline of Match.mu is modelled as an LTS (Update/UpdateOnce = RLock; client callbacks inside the read-locked section; RUnlock -- removal closure / AddQuery = Lock; change; Unlock) over a lock that admits a reader iff no writer holds it and a writer iff nobody holds it; sync.RWMutex itself (incl. its writer preference, which only removes behaviours) and the Go memory model are trusted, not modelled",
        "the shared `updated` map of one notification is used by one goroutine (UpdateNotification is sequential); concurrent AddQuery for the very pair whose removal is considered is excluded in C06_no_delivery_after_remove_concurrent",
        "notification Update entries are non-nil messages (a nil *gnmi.Update inside the repeated field cannot come off the wire)",
    ],
    modelled=["match/match.go: AddQuery and its removal closure, removeQuery pruning, Update, UpdateOnce, branch.update; subscribe/subscribe.go: UpdateNotification, Server.Update, addSubscription (incl. Go slice/append semantics of the captured query; the pre-fix variants are kept as _gen false); path.ToStrings / CompletePath via Path/PathModel.v; ctree Add/Query via CTree/CTreeModel.v for the snapshot side"],
),
    level_text="Theorems in coq/Props/C06.v state the property over the Gallina model of the subscription trie and of subscribe's UpdateNotification/addSubscription for all registration/removal histories and all paths (offered iff compatible, containment of ctree.Query's relation, at most one offer per notification, nothing after removal -- also for every interleaving of concurrent Update / removal / AddQuery calls under the lock discipline of Match.mu --, other clients unaffected, pruning); the model is tied to match/match.go and subscribe/subscribe.go by a correspondence run (every query/update pair to length 4 over {a,b,*}, two-query tries to length 3, seeded subscribe-level, concurrent (removal closures called from inside a client callback; registration racing another subscriber's registration/removal on a shared prefix) and mixed sequences) evaluated inside Coq, which also applies the set-of-registrations specification to the implementation's own observations.",
    level_note="Trusted: Coq kernel + vm_compute, the hand-written model (validated only on the explored cases), the Go harness projection (offers counted through the real coalescing queue as 1 + duplicates). sync.RWMutex trusted.")

import re

from registry import reg, Check
from vlib import load_case


class C16Check(Check):
    """Forced-schedule check.  A case that Coq flags is played again twice
    before it counts: the verdict rests only on observations the real code
    reproduces (a scheduler hiccup under load must not raise an alarm)."""

    def run_harness(self, binary, outdir, seed, tier, replay=None):
        self._bin, self._seed, self._tier = binary, seed, tier
        return super().run_harness(binary, outdir, seed, tier, replay)

    def classify(self, ev):
        mism, fails, known = super().classify(ev)
        flagged = sorted(set((f, ci) for (f, ci, _, _) in mism + fails + known))
        if not flagged or getattr(self, "_confirming", False):
            return mism, fails, known
        self._confirming = True
        try:
            # free-running families report what the real code did on its own
            # observations (no schedule is inferred): nothing to confirm
            flagged = [(f, ci) for (f, ci) in flagged if load_case(f, ci).get("family") not in ("stress",)]
            if not flagged:
                return mism, fails, known
            sample = flagged[:40]
            cases = [dict(load_case(f, ci), obs=None) for (f, ci) in sample]
            keep = set(range(len(sample)))
            for rnd in range(2):
                ev2 = self.eval_cases(self._bin, cases, self._seed, self._tier, "confirm%d" % rnd)
                if ev2 is None:
                    break
                again = set()
                for f2, r in ev2.items():
                    base = int(re.findall(r"cases_(\d+)\.v", f2)[0])
                    for (ci, _, _) in r["results"]:
                        again.add(base * 400 + ci)
                keep &= again
            dropped = set(s for k, s in enumerate(sample) if k not in keep)
            if dropped:
                print("NOTE: %d flagged case(s) did not reproduce on re-execution and were dropped" % len(dropped), flush=True)
            f = lambda l: [x for x in l if (x[0], x[1]) not in dropped]
            return f(mism), f(fails), f(known)
        finally:
            self._confirming = False


reg(C16Check(
    "C16", "c16",
    coq_targets=["Conn/ConnCheck.vo", "Conn/ConnProofs.vo", "Conn/ConnLive.vo", "Conn/ConnKSound.vo", "Props/C16.vo"],
    assumptions=[
        "each requester goroutine issues one Connection call and calls the done function it was given only after that call returned",
        "sync.Mutex, sync.Once and close/receive on the ready channel behave as documented; a critical section is one atomic step",
        "the Dial function returns a non-nil *grpc.ClientConn whenever it returns a nil error",
        "(*grpc.ClientConn).Close moves the connection to connectivity.Shutdown and nothing else does",
    ],
    modelled=["manager/manager.go createConn/monitor/Remove are exercised (manager family: every dialled connection closed after Remove) but not modelled", "connection/connection.go: Manager.Connection, Manager.dial, connection.done, Manager.remove (NewManager/NewManagerCustom argument checks are not modelled)"],
),
    level_text="Theorems in coq/Props/C16.v state every clause of the property over a labelled transition system whose steps are the critical sections and channel operations of connection/connection.go, for every reachable state, i.e. every interleaving of any number of requester, dialer and releasing goroutines over any number of addresses and every choice of dial outcomes (success, error, context cancelled, unknown dialer): one attempt and one Dial call in flight per address, joiners share the attempt's result, no handle closed while a holder (returned or still joining) has not released, closed at most once and exactly when the last holder releases, closed entries forgotten and the next request dials afresh, second release (sequential or concurrent with the first, wherever scheduled) and release after failure are identities on the state, Manager.remove never takes its nil-dereferencing branch, no waiter is stuck; and liveness over fair runs (Conn/ConnLive.v): under weak fairness of requester and dialer and the hypothesis that every started Dial completes or is cancelled, every request returns with the outcome of the attempt it joined (all joiners the same), an entered done function runs to its end and the last one closes the handle and deletes the entry, a later request gets a fresh Dial call; the return statement is refuted for the dead-entry mechanism of seeded change seed_va. The model is tied to the Go code by forced-schedule runs: a barrier scheduler plays event scripts (request / pass the join point / let the scripted Dial succeed, succeed with a handle whose Close parks, or fail / pass the failure point / release / request held inside its critical section (schedule point connection:locked) / call the same done function from one more goroutine while a call is in flight / cancel / let a parked Close return / drive a handle to TRANSIENT_FAILURE; Dials that fail with several error kinds or ignore their context; address strings incl. the empty one) against the real Manager with real lazy grpc.ClientConns, waits for quiescence by reading goroutine states, and Coq replays each script through the LTS (all states visited are proved reachable) and through an independent executable specification applied to the implementation's own observations; two free-running families are checked on their observations alone (stress: goroutines cycling Connection()/done() never see a held connection Shutdown, nothing left open; manager: a real manager.Manager with credentials / dial / Subscribe faults leaves every dialled connection closed after Remove); property tags (2 dial where forbidden / missing, 3 outcome not shared, 4 closed while held, 5 not closed at last release, 6 panic or hang) mean a clause fails on the observations, progress-only deviations are correspondence (tag 1); two clauses (holder sees Shutdown, two Dial calls in flight for one address) are also checked on the observations alone.",
    level_note="Trusted: Coq kernel + vm_compute, the hand-written LTS (validated only on the explored scripts: all applicable scripts of 6 events over 3 threads / 1 address incl. handles whose Close is held open by the script, 1500 random walks over 5 threads / 3 addresses), the Go harness (scheduler, projection). Interleavings inside a critical section and the Go memory model are not modelled; the harness serialises at hook points, so windows without a hook (between the dialer's Unlock and close(ready) on failure) are covered by the theorems only. Since round 7 every clause of K_P has a declarative statement with a soundness theorem over recorded runs (C16_kp_*_sound); the no-leak clause uses an over-approximated entitlement.")

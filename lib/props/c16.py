from registry import reg, Check

reg(Check(
    "C16", "c16",
    coq_targets=["Conn/ConnCheck.vo", "Conn/ConnProofs.vo", "Props/C16.vo"],
    assumptions=[
        "each requester goroutine issues one Connection call; releases happen after the call returned",
    ],
    modelled=["connection/connection.go: Manager.Connection, Manager.dial, connection.done, Manager.remove"],
),
    level_text="",
    level_note="")

from registry import reg, Check

reg(Check(
    "C10", "c10",
    coq_targets=["CTree/C10Check.vo", "Props/C10.vo"],
    assumptions=[
        "values stored in the tree are non-nil",
        "visitor / condition callbacks do not re-enter the tree",
    ],
    modelled=["ctree/tree.go locking protocol: Add (terminalAdd, intermediateAdd incl. the RUnlock->Lock exchange, slowAdd re-check), Get/GetLeafValue, Query/Walk, Delete, Leaf.Value/Update"],
))

import json
import os
import re
import subprocess

import vlib
from registry import reg, Check


class C10Check(Check):
    """C10: in the thorough tier the same harness is also built with -race and
    runs an unsynchronised workload; its reports are handed to the normal
    harness run, which turns every report into a case (CEvent 4: tag 5, a
    violation; the former exemption for Leaf.Update / Children vs Delete went
    away with repo commit 3480f62)."""

    def run_harness(self, binary, outdir, seed, tier, replay=None):
        self.env.pop("VERIF_C10_RACE", None)
        if tier == "thorough" and not replay:
            rb, blog = vlib.go_build(self.harness, race=True)
            if rb is None:
                return False, "race build failed:\n" + blog[-2000:]
            rdir = os.path.join(outdir, "race")
            os.makedirs(rdir, exist_ok=True)
            try:
                p = subprocess.run([rb, "-seed", str(seed), "-tier", tier, "-out", rdir, "-race-workload"],
                                   cwd=rdir, stdout=subprocess.PIPE, stderr=subprocess.STDOUT,
                                   timeout=900, text=True, errors="replace",
                                   env=dict(os.environ, GORACE="halt_on_error=0"))
                out = p.stdout
            except subprocess.TimeoutExpired:
                return False, "race workload timed out"
            kf, other, msg = 0, 0, ""
            for blk in out.split("==================")[1:]:
                if "DATA RACE" not in blk:
                    continue
                other += 1
                if not msg:
                    fns = re.findall(r"^\s+(\S+\(\))\s*$", blk, flags=re.M)
                    msg = " / ".join(fns[:6])
            if "fatal error" in out:
                other += 1
                msg = msg or out[out.index("fatal error"):][:200]
            rf = os.path.join(rdir, "race_in.json")
            json.dump(dict(kf=kf, other=other, msg=msg), open(rf, "w"))
            open(os.path.join(rdir, "race_output.txt"), "w").write(out[-200000:])
            self.env["VERIF_C10_RACE"] = rf
        return super().run_harness(binary, outdir, seed, tier, replay)


reg(C10Check(
    "C10", "c10",
    coq_targets=["CTree/CTreeConcProofs.vo", "CTree/CTreeConcLin.vo", "CTree/CTreeConcAbs.vo", "CTree/CTreeConcDel.vo", "CTree/CTreeConcGet.vo", "CTree/C10Check.vo", "Props/C10.vo"],
    assumptions=[
        "values stored in the tree are non-nil",
        "visitor / condition / delete callbacks do not re-enter the tree (as ctree documents for VisitFunc)",
        "sync.RWMutex behaves as documented (modelled: readers count, writer flag, announced writers; safety proved for every admission order of readers vs. announced writers, progress for strict writer preference)",
        "each critical section on one node between two lock operations is one atomic step (justified by C10_no_data_race, which is stated on those sections)",
        "leaf handles are taken to leaves only (a handle to a branch is KF-C09-1)",
    ],
    modelled=["ctree/tree.go locking protocol: Add (terminalAdd, intermediateAdd incl. the RUnlock->Lock exchange at hook add:upgrade, slowAdd with its re-check), Get + Value (GetLeafValue), Query/Walk (queryInternal/enumerateChildren), Delete (DeleteConditional with the always-true condition: root write lock, then lockedDelete/internalDelete with the write lock of every visited node), Leaf.Value / Leaf.Update through retained handles; not modelled: WalkSorted, WalkDeleted and DeleteConditional with a real condition (same locking as Walk / Delete), Children, IsBranch, String"],
),
    level_text="Theorems in coq/Props/C10.v are stated over a labelled transition system of the ctree locking protocol (heap of nodes with RWMutex state, one thread per API call, one step per lock operation or guarded critical section) for all programs and all interleavings: lock coupling, strictly increasing lock order, deadlock freedom, a returned call holds no lock, absence of data races (unconditional for the current Delete, which locks every node it visits; the pre-3480f62 variant is kept as CDeleteUnlocked with a refutation witness), exclusivity of Delete, every reachable heap is a tree, the effect of every single step on the abstraction 'value stored at a path' (Add's write = upd, Delete only removes). For programs of Add / GetLeafValue / Query / Walk / Leaf.Value / Delete (everything except Leaf.Update through a handle), proved over the LTS (coq/CTree/CTreeConcDel.v): a whole Delete -- from taking the root lock to its last critical section, interleaved with any steps of other threads -- removes exactly the stored paths its query selects, keeps every other path with its value and returns exactly the removed paths (C10_delete_refines_spec); linearizability of Add and Delete by forward simulation to the flat prefix-free map of C09 (sequential witness with the calls' answers, Delete linearized at its last critical section, each returned call exactly once, real-time order) and quiescent serializability: when all calls have returned the content is the sequential execution of the Add and Delete calls in linearization order (C10_linearizable_add_delete, C10_quiescent_serializable); pruning (every reachable branch has a stored leaf below it whenever no Delete is at work); linearizability of ALL point operations Add / GetLeafValue / Delete (coq/CTree/CTreeConcGet.v, C10_linearizable_point_ops: GetLeafValue = Get + Value is linearized at a miss, at its Value read, or -- when a Delete unlinks its node in between -- just before that Delete, a helping argument); Query / Walk: whatever is reported is stored at the moment of the report, a matching leaf stored during the whole call is reported, nothing is reported twice (C10_query_stability_with_delete). For programs without Delete in addition: the re-check after the reader->writer exchange and survival of all concurrent adds. The LTS is tied to ctree/tree.go by forced schedules (workers parked at add:upgrade, in Query visitors and in a paused Leaf.Update; thread statuses and TryLock probes of every node after every step must be producible by the LTS); the implementation's histories (forced and free-running with 2..16 goroutines, stress runs of every exported method) are judged in Coq by the verified linearizability checker against the C09 flat specification, a weak query specification and lock-discipline rules.",
    level_note="NOT proved over the LTS, only checked on the implementation's histories by the verified checker: (a) programs with Leaf.Update through a handle: the LTS has it as an update of an arbitrary node id (no acquisition of the handle), for which the flat specification has no counterpart; proved for them: race freedom, exclusion, the effect of one update on the abstraction, reported-once; (b) DeleteConditional with a condition that refuses and WalkDeleted (modelled as Delete with the always-true condition). Go memory-model races are only exhibited by the race detector (thorough tier).")

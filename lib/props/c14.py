from registry import reg, Check

reg(Check(
    "C14", "c14",
    coq_targets=["Cache/MultiCache.vo", "Cache/C14Check.vo", "Cache/C14Proofs.vo", "Props/C14.vo"],
    assumptions=[
        "sequential families: single goroutine per cache, subscribers observed at quiescence after every call; concurrency is covered by two forced windows only: Cache.Remove between registration and walk of a subscriber, and a second goroutine calling Add/Remove/Reset/GnmiUpdate on the same name while a call is parked at its announce point (inside cache.Now or the feed callback)",
        "one clock reading per API call (cache.Now constant during a call); the clock does not run backwards across Reset / UpdateMetadata",
        "cache options covered: server name (cache.WithServerName), future threshold, excluded metadata, event-driven emulation; latency windows x Reset are covered by C15 (cache-latency family), not here",
        "typed values restricted to string/int/uint/bool/bytes/json/empty",
        "subscribers: STREAM, updates_only (or with the initial walk in the forced-window family), one subscription path per RPC (whole target or a path / origin-less root below it), no ACL",
    ],
    modelled=["cache/cache.go: Cache.{Add,Remove,Reset,Query,HasTarget,Metadata,GnmiUpdate,Sync,Connect,ConnectError,UpdateMetadata,UpdateSize} via CacheModel.v + MultiCache.v; metadata/metadata.go (Clear, ResetEntry incl. the Keep action of meta/serverName, getters, RegisterServerNameMetadata); subscribe/subscribe.go: Subscribe (target lookup, updates_only), Server.Update target matching, sendStreamingResults stream end, isTargetDelete (sequential model in MultiCache.v)"],
),
    level_text="Theorems in coq/Props/C14.v state, over the Gallina model of cache.Cache as a map of per-target states, that Reset leaves no non-metadata leaf, announces a covering delete for every removed leaf and returns the metadata to its initial values, that Remove makes the target unknown and announces one whole-target delete which ends single-target streams with status OK, and that no operation addressed to one target changes the state, query results or metadata of another or announces anything carrying another target - for all histories; the model is tied to cache/cache.go and subscribe/subscribe.go by a correspondence run (all short histories over two targets + seeded random histories over 2..4 targets, with real STREAM subscribers attached at random points) evaluated inside Coq, which also applies the executable specification to the implementation's own observations.",
    level_note="Trusted: Coq kernel + vm_compute, the hand-written model (validated only on the explored cases), the Go harness projection. Sequential; concurrent subscribers inherit C04's granularity.")

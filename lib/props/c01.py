import hashlib
import os
import subprocess

import vlib
from registry import reg, Check


class C01(Check):
    """End-to-end relay: besides the harness, the two binaries under test
    (cmd/gnmi_collector, cmd/gnmi_cli) are built from the working tree."""

    def build_bins(self):
        tag = hashlib.sha1(vlib.REPO.encode()).hexdigest()[:8]
        out = {}
        for name, pkg in (("gnmi_collector", "./cmd/gnmi_collector"), ("gnmi_cli", "./cmd/gnmi_cli")):
            dst = os.path.join(vlib.BUILD, "c01_%s_%s" % (name, tag))
            rc, log_ = vlib.sh(["go", "build", "-o", dst, pkg], cwd=vlib.REPO, env=vlib.GOENV, timeout=1200)
            if rc != 0:
                return None, log_
            out[name] = dst
        return out, ""

    def run_harness(self, binary, outdir, seed, tier, replay=None):
        bins, blog = self.build_bins()
        if bins is None:
            return False, "binaries under test do not build against %s:\n%s" % (vlib.REPO, blog[-3000:])
        self.env = dict(self.env, VERIF_COLLECTOR_BIN=bins["gnmi_collector"], VERIF_CLI_BIN=bins["gnmi_cli"])
        return super().run_harness(binary, outdir, seed, tier, replay)

    def shrink(self, binary, case, seed, tier):
        # every candidate is an end-to-end run of a few seconds: shrink the
        # script coarsely (the generic shrinker, but only when it is short)
        if isinstance(case, dict) and isinstance(case.get("ops"), list) and len(case["ops"]) <= 120:
            return super().shrink(binary, case, seed, tier)
        return None


reg(C01(
    "C01", "c01",
    coq_targets=["Pipeline/PipelineCheck.vo", "Pipeline/PipelineProofs.vo", "Props/C01.vo"],
    timeout_quick=900,
    search_seeds=1,
    assumptions=[
        "non-atomic notifications; every update carries `val` (the deprecated `value` field is not modelled)",
        "the collector's own `meta/...` leaves are projected away from every view; a target stream does not use the origin `meta`",
        "the client's Subscribe (match-trie registration + snapshot walk) is one step relative to stream arrivals (their overlap is C04)",
        "a subscription names one target (not `*`), STREAM or ONCE; POLL and updates_only are not modelled",
        "relay_faithful covers histories of several sessions per target (a stream failure = Reset of the target + a new session, anywhere in any stream; relay_sessions: the last session's state; relay_no_stale_leaf: at every point of every run the replay of what was delivered so far); the moment of the manager's Reset relative to the stream error is not modelled (C04); it assumes of the subscribed target's stream (timestamps arbitrary; updates rejected as stale may be mixed with accepted ones and with deletes): a replay that is prefix-free at every instant (checked in the order the cache applies a notification: updates, then deletes), scalar-decodable values on which value.Equal implies equal decoding (excludes a leaf alternating between +0 and -0, open finding), no `*` element in update paths, subscription path glob-free and not below a leaf, no origin carried in a path (open finding 7.21); of the configuration: distinct target names none of which is `*`; of every stream: origin not `meta`",
        "prototext parsing, JSON decoding, gRPC, TLS, process start-up and ports are exercised, not modelled; decimal64 -> float32 is modelled exactly for |digits| < 2^24, precision <= 10",
    ],
    modelled=[
        "cmd/gnmi_collector (Update closure, collector.start/add, SetClient wiring), manager.handleGNMIUpdate/customizeRequest, cache.GnmiUpdate/gnmiUpdate/gnmiRemove/toDeleteNotification, subscribe (addSubscription, processSubscription snapshot, coalescing queue of leaf pointers, match), path.ToStrings/CompletePath, value.ToScalar/Equal, client/gnmi defaultRecv+noti, client.CacheClient, cmd/gnmi_cli executeSubscribe/protoRequestFromFlags/parseQuery",
    ],
),
    level_text="Theorems in coq/Props/C01.v state, over a Gallina model of the whole relay (stamp -> cache -> feed -> coalescing subscriber queue -> client decode -> client tree) and for every interleaving of stream arrivals, sender steps and the subscription point, that at quiescence the client's leaves are exactly the target's final state under the configured name, that the three gnmi_cli invocation styles build the same request, and that requests differing only in encoding (elem / deprecated element strings / prefix origin) resolve to the same index path and ONCE view; the model is tied to the code by end-to-end runs on the built gnmi_collector and gnmi_cli binaries against scripted TLS targets, evaluated inside Coq together with a flat-map specification applied to the observed client views and CLI output.",
    level_note="Trusted: Coq kernel + vm_compute, the hand-written model (validated on the explored scenarios), the Go harness (fake targets, projection of client values and CLI text). gRPC/TLS/prototext exercised only.")

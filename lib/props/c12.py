import hashlib
import json
import os
import time

import vlib
from registry import reg, Check


class C12Check(Check):
    """A panic inside a goroutine spawned by the code under test cannot be
    recovered by the harness and ends it.  The harness journals the case it is
    running; when it dies that case is reported as the failing input."""

    def main(self, tier, seed, replay=None):
        t0 = time.time()
        rc = super().main(tier, seed, replay)
        if rc != 2:
            return rc
        tag = hashlib.sha1(vlib.REPO.encode()).hexdigest()[:8]
        f = os.path.join(vlib.RUN, self.pid, tag, "main", "inflight.json")
        if os.path.exists(f) and os.path.getmtime(f) >= t0:
            case = json.load(open(f))
            rp = self.replay_path(dict(property=self.pid, kind="violation", tag=2, case=case,
                                       what="the harness process died while running this case (panic or fatal error outside recover())",
                                       replay_cmd="./check %s --replay <this file>" % self.pid))
            vlib.log("VIOLATION property=%s replay=%s" % (self.pid, rp))
            return 1
        return rc


reg(C12Check(
    "C12", "c12",
    coq_targets=["Total/StreamModel.vo", "Total/C12Check.vo", "Total/TotalProofs.vo", "Props/C12.vo"],
    assumptions=[
        "messages are what protobuf decoding can produce (no nil entries in repeated fields, no nil inner message of a set oneof arm)",
        "the Subscribe handler is given a context carrying a gRPC peer (real gRPC always attaches one)",
        "cache created without future-timestamp threshold (options WithServerName, one 10 ns latency window and DisableEventDrivenEmulation are explored); no target is registered under the empty name (an operator action; with one, joinPrefixAndPath can slice an empty slice -- theorem ingest_total_needs_named_targets, family ingest-emptyname compares the model's panic)",
        "single goroutine per entry point (panics inside goroutines spawned by the code under test after a request was accepted are outside what the harness can observe)",
        "Update.duplicates is 0 in the generated messages (proto.Equal is modelled structurally, floats with == and NaN = NaN)",
    ],
    modelled=["cache/cache.go: Cache.GnmiUpdate, Target.GnmiUpdate, gnmiUpdate, gnmiRemove, joinPrefixAndPath, generateMetaUpdates (panic sites only); value/value.go Equal, ToScalar via ValueModel; path/path.go via PathModel; ctree via CTreeModel; subscribe/subscribe.go: head of Subscribe, addSubscription, processSubscription (outcome class); client/gnmi/client.go: defaultRecv, noti; client/client.go: BaseClient.run; client/cache.go: defaultHandler; cli/cli.go: sendQueryAndDisplay, display*Results, displayWalk, pathmap.add (text of displayed values not modelled); manager/manager.go: handleGNMIUpdate; subscribe/subscribe.go sender side: MakeSubscribeResponse, isTargetDelete (per queued notification; the sender goroutine itself is not driven)"],
),
    level_text="Theorems in coq/Props/C12.v state totality (no Panic outcome) of guard-level Gallina models of the four entry points for all states and all wire-realisable messages, with every crash of the current code attributed to a listed defect class (refuted on a witness) and shown absent from the patched model, that a rejected notification (single error, or a multi notification with every update rejected) leaves the stored tree unchanged, that the periodic metadata refresh never panics in any state reachable through patched ingest, and soundness of the executable checker K_P; the models are tied to the Go code by a correspondence run (grids over the optional fields of a message, every ordered pair of look-alike values written to one leaf, seeded random sequences, byte-level mutations of valid encodings; every message through a protobuf marshal/unmarshal round trip; every call under recover) evaluated inside Coq, which also applies 'no panic, dump unchanged across a rejected message' to the implementation's own observations.",
    level_note="Trusted: Coq kernel + vm_compute, the hand-written models (validated only on the explored cases), the Go harness projection. Coverage-guided byte fuzzing is not part of the technique; the byte-mutation stream is seeded and blind.")

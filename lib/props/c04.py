from registry import reg, Check

reg(Check(
    "C04", "c04",
    coq_targets=["Stream/C04Check.vo", "Stream/StreamProofs.vo", "Stream/C04CheckProofs.vo", "Props/C04.vo"],
    assumptions=[
        "writers of one target are serialised by cache.Target.wmu from the tree write to the end of the feed callbacks (modelled: LWrite takes the mutex, LUnlock releases it; C04_writers_exclusive); the model WITHOUT the mutex refutes convergence (C04_stream_converges_refuted, the regression witness of the fixed finding 7.16)",
        "no subscription path is longer than a cached leaf path it is compatible with (then ctree.Query and the match trie select the same leaves; otherwise the subscriber is streamed updates of a leaf its snapshot did not contain)",
        "subscription target is a concrete target name (target \"*\" walks one target tree after the other and is not modelled); no target removal; ACL allows everything",
        "ctree, coalesce.Queue and match operations are atomic steps (C10, C11, the match RW lock); a blocked gRPC Send is modelled as a step that has not happened yet",
        "timestamps and values are unbounded integers",
    ],
    modelled=["subscribe/subscribe.go: Subscribe (STREAM arm: updates_only sync, addSubscription, goroutine start), processSubscription, sendStreamingResults, sendSubscribeResponse, MakeSubscribeResponse (dup count), Server.Update/UpdateNotification; cache/cache.go: Target.GnmiUpdate single update / single delete arms, gnmiUpdate (stale, same-timestamp, event-driven suppression, new leaf), gnmiRemove, Target.Reset root deletes; coalesce.Queue as abstract coalescing FIFO; match as the compat relation; ctree as path -> leaf handle map with Query/Delete relation `covers`"],
),
    level_text="Theorems in coq/Props/C04.v state the property over a transition system of N writers x M STREAM subscribers x their senders for ALL schedules (invariant: for every subscriber whose walk is done, replaying sent ++ in-flight ++ queue ++ pending announcements gives exactly the matching cache content; corollaries: convergence at quiescence, snapshot before exactly one sync, updates_only sync first, no lost update; mutual exclusion of the writers of one target through the modelled write mutex; refutation of convergence for the variant without the mutex as regression witness). The model is tied to subscribe/cache by (S) forced schedules through the verif hook points, the feed callback and Send under a barrier scheduler, every step validated against the transition system inside Coq, and (A) free-running runs judged at quiescence by the executable specification applied to the implementation's own responses and Query dump.",
    level_note="Trusted: Coq kernel + vm_compute, the hand-written transition system (validated on the explored schedules), the Go harness and its barrier scheduler. Granularity of atomic steps as listed in the assumptions.")

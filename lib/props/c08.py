from registry import reg, Check

reg(Check(
    "C08", "c08",
    coq_targets=["Stream/C08Check.vo", "Stream/StallProofs.vo", "Props/C08.vo"],
    assumptions=[
        "a blocked gRPC Send is a sender step that has not been taken; the send timer is an event that can happen only while a leaf/delete response is inside Send (real-time latency and the actual time.Timer are outside the model)",
        "ctree, coalesce.Queue and match operations are atomic steps (C10, C11, the match RW lock); coalesce.Queue.Insert never blocks (unbounded slice + non-blocking channel send)",
        "the uint32 duplicate counter does not wrap",
        "no target removal; the ACL-denied early return of the send routine is exercised by the harness (family acl-quiet, judged by the executable specification only) but is not a step of the transition system",
    ],
    modelled=["the transition system of C04 (subscribe.Server.Subscribe STREAM arm, processSubscription, sendStreamingResults incl. timer arm/expiry, sendSubscribeResponse, MakeSubscribeResponse dup count, Server.Update; cache.Target.GnmiUpdate/gnmiUpdate/gnmiRemove/Reset root deletes; coalesce.Queue abstractly)"],
),
    level_text="Theorems in coq/Props/C08.v state the property over the C04 transition system for ALL schedules and all stall patterns (a stall = the environment not taking a sender's Send-returns step): enabledness and effect of writer steps are functions of the cache and lock fields only; a subscriber's steps depend on the cache and its own record only and change nothing else; queue entries are pairwise distinct items (length <= #leaf handles + #deletes + 1) in every reachable state; duplicate counts are exact for every offer sequence; the timer can fire only while sending and ends that subscription for good. The model is tied to the code by scenario runs on the real server with seeded plans of blocked in-memory Sends (several per subscriber, each held for some writes or for ever; every write and every release is followed by waiting until every sender is parked, so the logged steps are a schedule of the transition system, replayed label by label in Coq) and the executable specification on the implementation's own observations (writes return while a Send is blocked, reported queue lengths within the bound, duplicates = number of coalesced offers = ClientStats.CoalesceCount, only the permanently stalled stream ends with an error, live subscribers converge).",
    level_note="Trusted: Coq kernel + vm_compute, the hand-written transition system, the Go harness (goroutine states read from runtime.Stack to know when senders are parked). Real-time bounds are not claimed; the 100 ms timer of the 'dead' family is the only wall-clock dependence.")

from registry import reg, Check

reg(Check(
    "C20", "c20",
    coq_targets=["FakeQ/FakeQCheck.vo", "Props/C20.vo"],
    assumptions=[
        "the raw Int63 stream of a math/rand source is an arbitrary tape (theorems quantify over all tapes; a tape that runs out is the explicit outcome ROut)",
        "every configured value has a distinct path (the harness names them v0..vn-1)",
        "timestamps and deltas of a configuration are int64 values (C20_ts_step_bounds)",
        "the sync-after-first-emissions clause is about the injected marker; a configured sync value of positive value is sent as sync=true wherever the configuration puts it",
        "behaviour of UpdateQueue.Next after it has returned an error is out of scope (fake/gnmi/client.go stops at the first error)",
        "enable_delay only sleeps and is not modelled",
    ],
    modelled=["testing/fake/queue/queue.go: New, Add, Latest, Next, addValue, newValue, nextValue, updateTimestamp, update{Int,Uint,Double,String,StringList,Bool}Value; "
              "testing/fake/queue/fixed_queue.go: NewFixed, Add, Next (slice sharing with the configuration; delays not modelled); "
              "testing/fake/gnmi/client.go: reset (random and fixed arms, also through a Poll), processQueue/valToResp projection; "
              "math/rand Int63n, Int31n, Intn, int31n, Float64, Shuffle (ported, validated by correspondence)"],
    extra_trusted=["Coq.Floats.FloatAxioms (stdlib specification of primitive binary64) under the double-valued clause of C20_in_range only",
                   "amd64 (GOAMD64=v1): float64 x*y+z is not fused by the Go compiler"],
),
    level_text="Theorems in coq/Props/C20.v state the clauses of the property over the Gallina model of the fake-target generator for every configuration and every raw Int63 tape; the model is tied to testing/fake/queue and fake/gnmi Client.Run by a correspondence run (seeded configurations of every value kind, replaying the recorded tape of rand.NewSource(seed)) evaluated inside Coq, which also applies the clauses, written independently of the model, to the implementation's own emissions and compares two same-seed generators.",
    level_note="Trusted: Coq kernel + vm_compute, the hand-written model and math/rand port (validated only on the explored cases), the Go harness projection, FloatAxioms for doubles.")

import glob
import json
import os
import subprocess

import vlib
from registry import reg, Check


class C18Check(Check):
    """Adds a pass under the Go race detector: the model takes the critical sections of
    p.mu / c.mu as atomic; a data race reported inside the client packages while Close
    races Subscribe means they are not.  Reported as one extra case whose recording is
    [ERace] (never shown by the model => correspondence break, tag 1)."""

    def run_harness(self, binary, outdir, seed, tier, replay=None):
        ok, out = super().run_harness(binary, outdir, seed, tier, replay)
        if not ok or replay:
            return ok, out
        rb, blog = vlib.go_build(self.harness, race=True)
        if rb is None:
            return False, "race build failed:\n" + blog[-2000:]
        rdir = os.path.join(outdir, "race")
        os.makedirs(rdir, exist_ok=True)
        env = dict(os.environ, VERIF_REPO=vlib.REPO, VERIF_ROOT=vlib.ROOT, VERIF_CORPUS="",
                   GORACE="log_path=%s halt_on_error=0" % os.path.join(rdir, "racelog"))
        try:
            subprocess.run([rb, "-seed", str(seed), "-tier", "race", "-out", rdir], cwd=rdir, env=env,
                           stdout=subprocess.PIPE, stderr=subprocess.STDOUT, timeout=300)
        except subprocess.TimeoutExpired:
            return False, "race pass timed out"
        text = ""
        for f in sorted(glob.glob(os.path.join(rdir, "racelog.*"))):
            text += open(f, errors="replace").read()
        reports = [r for r in text.split("==================") if "DATA RACE" in r and "gnmi/client" in r]
        if reports:
            open(os.path.join(outdir, "cases_9000.v"), "w").write(
                "From Gnmi Require Import Base.Prelude Client.ClientModel Client.ClientCheck.\n"
                "Definition cases : list case := [(true, true, [], [ERace])].\n"
                "Definition R := Eval vm_compute in check_all cases.\nPrint R.\n")
            json.dump([dict(family="race-detector", kind="rebase", attempts=[], ops=[],
                            trace=[dict(t="race")], reports=len(reports), report=reports[0][:3000])],
                      open(os.path.join(outdir, "cases_9000.json"), "w"))
        return ok, out


reg(C18Check(
    "C18", "c18",
    coq_targets=["Client/ClientCheck.vo", "Client/ClientProofs.vo", "Client/ClientProofs2.vo", "Client/ClientProofs3.vo", "Client/ClientProofs4.vo", "Client/ClientProofs5.vo", "Props/C18.vo"],
    assumptions=[
        "transport (Impl) hypothesis: the constructor and Impl.Subscribe fail on an already cancelled context and return once it is cancelled; a Recv that blocks returns an error once its context is cancelled or the Impl is closed, a quiet one (blockq) only once the Impl is closed -- termination with quiet streams is claimed for re-subscribe situations (a transport was installed before), not for a Close landing between Impl.Subscribe and the install of the very first connect; every other transport call and every application callback returns (for the real client/gnmi constructor this is checked by the dial family: silent / refusing / closing TCP targets, Close and cancel during the dial, watchdog)",
        "any number of Subscribe, Close and Poll calls on one client, in any order (one poller goroutine; Poll rounds may be outstanding when Close arrives; the transport's own Close may return errors): Subscribe calls are sequential among themselves, Close calls sequential among themselves, a Close may overlap a Subscribe at any point (ReconnectClient and bare clients); on a bare Base/Cache client a new Subscribe is not started while a Close call is still in progress; single registered client type; one caller context shared by the Subscribe calls; the NotificationHandler returns nil",
        "the critical sections of p.mu / c.mu are atomic steps of the model; this is checked dynamically only (Go race detector pass on Close racing Subscribe)",
        "backoff durations are abstracted to 'some positive delay' (cenkalti/backoff is not modelled); real-time bounds are measured, not proved",
    ],
    modelled=["client/client.go: BaseClient.Subscribe, run, Close; client/reconnect.go: ReconnectClient.Subscribe, initDone, Close; client/cache.go: CacheClient.Subscribe/defaultHandler (transparent); client/fake/fake.go Recv (Connected, one notification per call, Sync + ErrStopReading at the end)"],
),
    level_text="Theorems in coq/Props/C18.v are stated over a labelled transition system (subscriber, closer, canceller; scripted transport) that mirrors BaseClient.Subscribe/run/Close and ReconnectClient.Subscribe/initDone/Close step by step, for all transport scripts and all schedules: for any sequence of Subscribe/Close calls on one client, after some Close has set p.closed every continuation between API calls is bounded by an explicit measure, passes at most one backoff sleep and cannot block before the Subscribe in progress and the Close have returned (bare client: after a Close that found the transport installed); p.closed is a latch (closed_is_sticky: after a returned Close every later Subscribe is at most 7 subscriber steps long and delivers nothing); exactly one of initDone/Close cancels the context; every trace of the model satisfies the executable specification K_P (one disconnect per ended attempt, reset before every retry, resubscription unless closed/cancelled; Connected first, order preserved, nothing lost, whole messages; at most one message after Close, none through a ReconnectClient). The model is tied to the code by an acceptance check evaluated inside Coq: the real clients are driven against a scripted transport whose decoding side is the real client/fake or client/gnmi code, Close/cancel are injected at every point the script offers, and the recorded event sequence must be a trace of the model for that script (soundness of the subset construction proved) and satisfy K_P.",
    level_note="Trusted: Coq kernel + vm_compute, the hand-written LTS (validated only on the explored scenarios), the Go harness (scripted transport, event log, gates). Transport hypothesis as listed in assumptions; backoff durations abstract. Real-time bound (return within the current backoff interval) is measured by the watchdog, not proved.")

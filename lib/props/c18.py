from registry import reg, Check

reg(Check(
    "C18", "c18",
    coq_targets=["Client/ClientCheck.vo", "Client/ClientProofs.vo", "Client/ClientProofs2.vo", "Client/ClientProofs3.vo", "Client/ClientProofs4.vo", "Client/ClientProofs5.vo", "Props/C18.vo"],
    assumptions=[
        "transport (Impl) hypothesis: the constructor and Impl.Subscribe fail on an already cancelled context; a Recv that blocks returns an error once its context is cancelled or the Impl is closed; every other transport call and every application callback returns",
        "one Subscribe call and at most one Close call per client; single registered client type",
        "backoff durations are abstracted to 'some positive delay' (cenkalti/backoff is not modelled); real-time bounds are measured, not proved",
    ],
    modelled=["client/client.go: BaseClient.Subscribe, run, Close; client/reconnect.go: ReconnectClient.Subscribe, initDone, Close; client/cache.go: CacheClient.Subscribe/defaultHandler (transparent); client/fake/fake.go Recv (Connected, one notification per call, Sync + ErrStopReading at the end)"],
),
    level_text="Theorems in coq/Props/C18.v are stated over a labelled transition system (subscriber, closer, canceller; scripted transport) that mirrors BaseClient.Subscribe/run/Close and ReconnectClient.Subscribe/initDone/Close step by step, for all transport scripts and all schedules: after Close has set p.closed every continuation is bounded by an explicit measure, passes at most one backoff sleep and cannot block before Subscribe and Close have both returned (bare client: after a Close that found the transport installed); exactly one of initDone/Close cancels the context; every trace of the model satisfies the executable specification K_P (one disconnect per ended attempt, reset before every retry, resubscription unless closed/cancelled; Connected first, order preserved, nothing lost, whole messages; at most one message after Close, none through a ReconnectClient). The model is tied to the code by an acceptance check evaluated inside Coq: the real clients are driven against a scripted transport whose decoding side is the real client/fake or client/gnmi code, Close/cancel are injected at every point the script offers, and the recorded event sequence must be a trace of the model for that script (soundness of the subset construction proved) and satisfy K_P.",
    level_note="Trusted: Coq kernel + vm_compute, the hand-written LTS (validated only on the explored scenarios), the Go harness (scripted transport, event log, gates). Transport hypothesis as listed in assumptions; backoff durations abstract; one Subscribe and at most one Close per client. Real-time bound (return within the current backoff interval) is measured by the watchdog, not proved.")

from registry import reg, Check

reg(Check(
    "C18", "c18",
    coq_targets=["Client/ClientCheck.vo", "Client/ClientProofs.vo", "Client/ClientProofs2.vo", "Client/ClientProofs3.vo", "Client/ClientProofs4.vo", "Props/C18.vo"],
    assumptions=[
        "transport (Impl) hypothesis: the constructor and Impl.Subscribe fail on an already cancelled context; a Recv that blocks returns an error once its context is cancelled or the Impl is closed; every other transport call and every application callback returns",
        "one Subscribe call and at most one Close call per client; single registered client type",
        "backoff durations are abstracted to 'some positive delay' (cenkalti/backoff is not modelled); real-time bounds are measured, not proved",
    ],
    modelled=["client/client.go: BaseClient.Subscribe, run, Close; client/reconnect.go: ReconnectClient.Subscribe, initDone, Close; client/cache.go: CacheClient.Subscribe/defaultHandler (transparent); client/fake/fake.go Recv (Connected, one notification per call, Sync + ErrStopReading at the end)"],
),
    level_text="",
    level_note="")

from registry import reg, Check

reg(Check(
    "C03", "c03",
    coq_targets=["Cache/C03Check.vo", "Cache/FeedReplay.vo", "Cache/SliceHeapProofs.vo", "Props/C03.vo"],
    assumptions=[
        "single goroutine per target; the callback registered with SetClient reads the leaf synchronously (C04 covers the concurrent subscriber)",
        "one clock reading per API call; the clock does not run backwards across metadata refreshes (Reset/UpdateMetadata), otherwise the refreshed counters depend on Go map iteration order",
        "index paths under meta/ (the cache's own bookkeeping) are projected out of feed and Query on both sides of the correspondence run (C15 covers them); the theorems include them",
        "typed values and value.Equal are those of coq/Value/ValueModel.v (b19's model, every arm of the oneof; floats as IEEE-754 bit patterns)",
        "cache created without latency windows and server name",
    ],
    search_seeds=1,
    modelled=["cache/cache.go: Cache.GnmiUpdate, Target.GnmiUpdate, gnmiUpdate, gnmiRemove, toDeleteNotification (with the slice-capacity aliasing of the stored prefix), Reset, Remove, Add, Sync, Connect, ConnectError, UpdateMetadata/updateMeta/generateMetaUpdates, Query; value.Equal on scalars; metadata/metadata.go; ctree via CTreeModel; path.ToStrings/joinPrefixAndPath via PathModel; slice-heap model (coq/Cache/SliceHeap.v: backing arrays, append in place / reallocating) of toDeleteNotification's Elem branch, pathElems, the gnmiRemove loop and the multi-notification strip-clone-restore dispatch, evaluated per case against the observed delete paths and spare-capacity writes (atomic and Element branches of toDeleteNotification: harness-checked only)"],
),
    level_text="Theorems in coq/Props/C03.v state over the Gallina model of cache.Cache, for all histories of GnmiUpdate/Reset/Remove/Add/Sync/Connect/ConnectError/UpdateMetadata calls over any number of targets, that replaying the change feed reproduces every target's stored leaves (up to the timestamp of suppressed unchanged values), that an update is withheld only when rejected or suppressed-unchanged, that a multi notification is the sequence of its units (and of its single notifications when the future check is off; refuted otherwise), that atomic notifications are one unit; the model is tied to cache/cache.go by a correspondence run evaluated inside Coq, which also replays the implementation's own callback stream against its own Query results and checks that inputs are left unmodified (with prefix objects deliberately shared between notifications, spare slice capacity inspected after every call); the input-unmodified clause is a theorem over a heap model of Go slices for the delete-notification construction and the multi-notification dispatch (pre-fix aliasing refuted on the corpus witness).",
    level_note="Trusted: Coq kernel + vm_compute, the hand-written model (validated only on the explored cases), the Go harness projection. Two defects found by this check were fixed in /repo (20c4a71, 4775c12; patches in /verif/fixes); three known findings stay open (origin carried by the update path is announced but not indexed; Cache.Add on a live target announces nothing; a target-less write through the exported Target handle is announced without a target).")

from registry import reg, Check

reg(Check(
    "C17", "c17",
    coq_targets=["TargetCfg/TargetCfgCheck.vo", "TargetCfg/TargetCfgProofs.vo",
                 "TargetCfg/TargetCfgKSound.vo", "Props/C17.vo"],
    assumptions=[
        "one history per Config: Load and Current hold Config.mu for their whole body, so concurrent callers see some sequential history; handlers that call back into the same Config (deadlock) are not modelled",
        "proto.Equal on SubscribeRequest / Target decides equality of message content (section hypotheses R_eqb_spec / O_eqb_spec; the correspondence run stands the content for by the deterministic wire form)",
        "Go maps have distinct keys (wf_config); all three Handler callbacks are set",
    ],
    modelled=["target/target.go: Validate, NewConfig, NewConfigWithBase, Config.Load, checkRevision, handleDiffs, Config.Current (proto.Clone turning nil map values into empty messages)"],
),
    level_text="Theorems in coq/Props/C17.v state, over the Gallina model of target.Config and for every history of loads (nil / invalid / stale / good, any valid base or none; in-place edits of a loaded message by the caller): the gate (applied iff valid and strictly newer, otherwise state unchanged and no handler call), monotonic revisions, that the handler calls of an accepted load are exactly the difference of the effective configurations (unchanged targets silent, changed ones announced once with the new settings and request content), and that replaying all calls - those of each load in any order - onto the effective base never errs and yields exactly the effective current configuration; order-independence of Validate and of the announcements under Go's map iteration; soundness of the executable specification K_P. The model is tied to target/target.go by a correspondence run evaluated inside Coq (all ordered pairs of configurations over a 2-target x 2-request universe, a nil-pointer pair family, seeded random histories with invalid/stale/nil loads, bases and in-place edits of loaded messages by the caller), which also applies K_P to the implementation's own observations.",
    level_note="Trusted: Coq kernel + vm_compute, the hand-written model (validated only on the explored cases), the Go harness projection (deterministic wire form for message content). KF-C17-1 (configuration stored by reference) was fixed in /repo by b7e5099; the model flag patched_C17_1 = true follows the fixed code and C17_replay_converges_unpatched_refuted keeps the regression witness of the unpatched variant.")

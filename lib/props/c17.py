from registry import reg, Check

reg(Check(
    "C17", "c17",
    coq_targets=["TargetCfg/TargetCfgCheck.vo", "TargetCfg/TargetCfgProofs.vo", "TargetCfg/TargetCfgKSound.vo", "Props/C17.vo"],
    assumptions=[
        "single goroutine per Config (Load/Current serialise on Config.mu; concurrent loads are some sequential history)",
        "proto.Equal on SubscribeRequest / Target / Credentials is equality of message content (stood for by the deterministic wire form in the correspondence run)",
    ],
    modelled=["target/target.go: Validate, NewConfig, NewConfigWithBase, Config.Load, checkRevision, handleDiffs, Config.Current (proto.Clone normalisation of nil map values)"],
),
    level_text="Theorems in coq/Props/C17.v state the property over the Gallina model of target.Config for all histories of loads.",
    level_note="Trusted: Coq kernel + vm_compute, the hand-written model, the Go harness projection.")

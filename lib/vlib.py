"""Orchestrator shared by every property check (see DESIGN.md section 3.3).

One check = (1) re-check the property's theorems (Props/Cxx.v, Print
Assumptions), (2) build the Go harness against the *current* working tree of
the repository (overlay build, tag verif), (3) let the harness drive the real
code and write cases_*.v, (4) let Coq evaluate, for every case, the model
(correspondence) and the executable specification (the property on the
implementation's own observations), (5) verdict, replay files, evidence.
"""
import concurrent.futures
import hashlib
import json
import os
import re
import shutil
import subprocess
import sys
import time

ROOT = os.path.dirname(os.path.dirname(os.path.abspath(__file__)))
REPO = os.environ.get("VERIF_REPO", "/repo")
COQ = os.path.join(ROOT, "coq")
BUILD = os.path.join(ROOT, "build")
RUN = os.path.join(ROOT, "run")
GOENV = dict(os.environ, GOFLAGS="-mod=mod", GOPROXY="off", GOSUMDB="off",
             GOTOOLCHAIN="local", CGO_ENABLED=os.environ.get("CGO_ENABLED", "1"))
FORBIDDEN = re.compile(
    r"\b(Admitted|admit|Axiom|Axioms|Parameter|Parameters|Conjecture|Admit Obligations|"
    r"Unset Guard Checking|Unset Positivity Checking|Unset Universe Checking|bypass_check|"
    r"type-in-type|impredicative-set)\b")

TRUSTED_BASE = [
    "Coq 8.16.1 kernel and its vm_compute machine (no native_compute)",
    "hand-written Gallina model of the anchored Go code, tied to the code only by the correspondence run of this check",
    "Go harness under /verif/harness (projection of observables, printing of Gallina terms) and this orchestrator",
    "Go toolchain 1.23.5; overlay build of the harness into the repository's module with build tag verif",
]


def log(msg):
    print(msg, flush=True)


def sh(cmd, cwd=None, env=None, timeout=None, check=False):
    p = subprocess.run(cmd, cwd=cwd, env=env, stdout=subprocess.PIPE, stderr=subprocess.STDOUT,
                       timeout=timeout, text=True, errors="replace")
    if check and p.returncode != 0:
        raise RuntimeError("command failed: %s\n%s" % (" ".join(cmd), p.stdout[-4000:]))
    return p.returncode, p.stdout


# --------------------------------------------------------------------------
# Coq side

def coq_sources():
    out = []
    for d, _, fs in os.walk(COQ):
        for f in fs:
            if f.endswith(".v"):
                out.append(os.path.join(d, f))
    return sorted(out)


def coq_make(targets=None):
    """Full .vo build (incremental).  With targets, only those .vo files and what
    they depend on.  The lock covers only the regeneration of _CoqProject/Makefile
    (a long proof compiled on behalf of one check must not block the others)."""
    import fcntl
    os.makedirs(BUILD, exist_ok=True)
    with open(os.path.join(BUILD, "coq.lock"), "w") as lk:
        fcntl.flock(lk, fcntl.LOCK_EX)
        mk = os.path.join(COQ, "Makefile.coq")
        files = [os.path.relpath(f, COQ) for f in coq_sources()]
        proj = "-Q . Gnmi\n-arg -w -arg -notation-overridden,-deprecated-hint-without-locality,-deprecated-instance-without-locality\n" + "\n".join(files) + "\n"
        pj = os.path.join(COQ, "_CoqProject")
        old = open(pj).read() if os.path.exists(pj) else ""
        if old != proj or not os.path.exists(mk):
            open(pj, "w").write(proj)
            sh(["coq_makefile", "-f", "_CoqProject", "-o", "Makefile.coq"], cwd=COQ, check=True)
    try:
        rc, out = sh(["make", "-f", "Makefile.coq", "-j16"] + list(targets or []), cwd=COQ, timeout=3000)
    except subprocess.TimeoutExpired:
        return False, "coq build timed out"
    return rc == 0, out


def coq_closure(roots):
    """Files (absolute) that the given .v files (relative to coq/) depend on
    inside this development, found from their `From Gnmi Require` lines."""
    seen, todo = set(), [os.path.join(COQ, r) for r in roots]
    while todo:
        f = todo.pop()
        if f in seen or not os.path.exists(f):
            continue
        seen.add(f)
        code = strip_comments(open(f, errors="replace").read())
        for m in re.finditer(r"From\s+Gnmi\s+Require\s+(?:Import\s+|Export\s+)?(.*?)\.(?=\s|$)", code, flags=re.S):
            for mod in m.group(1).split():
                todo.append(os.path.join(COQ, mod.replace(".", os.sep) + ".v"))
        for m in re.finditer(r"(?<!From Gnmi )Require\s+(?:Import\s+|Export\s+)?((?:Gnmi\.[A-Za-z0-9_.]+\s*)+)\.(?=\s|$)", code):
            for mod in m.group(1).split():
                todo.append(os.path.join(COQ, mod[len("Gnmi."):].replace(".", os.sep) + ".v"))
    return sorted(seen)


def forbidden_tokens(files=None):
    hits = []
    for f in (files or coq_sources()):
        code = strip_comments(open(f, errors="replace").read())
        for n, line in enumerate(code.split("\n"), 1):
            if FORBIDDEN.search(line):
                hits.append("%s: %s" % (os.path.relpath(f, ROOT), line.strip()))
    return hits


def strip_comments(txt):
    depth, i, buf = 0, 0, []
    while i < len(txt):
        if txt.startswith("(*", i):
            depth += 1
            i += 2
        elif txt.startswith("*)", i) and depth > 0:
            depth -= 1
            i += 2
        else:
            if depth == 0 or txt[i] == "\n":
                buf.append(txt[i])
            i += 1
    return "".join(buf)


def check_props(pid):
    """Re-check Props/<pid>.v.  Returns dict(theorems, ok, axioms, log, failing)."""
    src = os.path.join(COQ, "Props", pid + ".v")
    txt = strip_comments(open(src).read())
    theorems = re.findall(r"^\s*Theorem\s+([A-Za-z0-9_']+)", txt, flags=re.M)
    rc, out = sh(["coqc", "-Q", ".", "Gnmi", "Props/%s.v" % pid], cwd=COQ, timeout=1200)
    axioms = set()
    failing = None
    if rc != 0:
        m = re.search(r"line (\d+)", out)
        if m:
            ln = int(m.group(1))
            before = txt.split("\n")[:ln]
            names = re.findall(r"^\s*Theorem\s+([A-Za-z0-9_']+)", "\n".join(before), flags=re.M)
            failing = names[-1] if names else "Props/%s.v" % pid
        else:
            failing = "Props/%s.v" % pid
    else:
        norm = out
        for blk in re.split(r"(?=Closed under the global context|Axioms:)", norm):
            if blk.startswith("Axioms:"):
                for m in re.finditer(r"^([A-Za-z_][A-Za-z0-9_.']*)\s*:", blk[len("Axioms:"):], flags=re.M):
                    axioms.add(m.group(1))
    closed = out.count("Closed under the global context") + len(re.findall(r"Axioms:", out))
    return dict(theorems=theorems, ok=(rc == 0), axioms=sorted(axioms), log=out, failing=failing,
                printed=closed)


# --------------------------------------------------------------------------
# Go side

def overlay(name):
    """Map harness sources into the repository's module without touching it.
    Per harness: harness/<name>/**, harness/vh/** and the in-package files
    harness/inpkg/<pkg>/zz_verif_<name>*.go (so that one property's unfinished
    files cannot break another property's build)."""
    rep = {}
    hroot = os.path.join(ROOT, "harness")
    for d, _, fs in os.walk(hroot):
        for f in fs:
            if not f.endswith(".go"):
                continue
            rel = os.path.relpath(os.path.join(d, f), hroot)
            top = rel.split(os.sep)[0]
            if top == "inpkg":
                if not f.startswith("zz_verif_" + name):
                    continue
                dst = os.path.join(REPO, rel[len("inpkg" + os.sep):])
            elif top in (name, "vh"):
                dst = os.path.join(REPO, "zz_verif", rel)
            else:
                continue
            rep[dst] = os.path.join(d, f)
    os.makedirs(BUILD, exist_ok=True)
    tag = hashlib.sha1(REPO.encode()).hexdigest()[:8]
    path = os.path.join(BUILD, "overlay_%s_%s.json" % (name, tag))
    json.dump({"Replace": rep}, open(path, "w"), indent=1)
    return path


def go_build(name, race=False, test_pkg=None):
    """Build harness binary zz_verif/<name> from the current working tree."""
    ov = overlay(name)
    tag = hashlib.sha1(REPO.encode()).hexdigest()[:8]
    out = os.path.join(BUILD, "%s_%s%s" % (name, tag, "_race" if race else ""))
    cmd = ["go", "build", "-overlay", ov, "-tags", "verif", "-o", out]
    if race:
        cmd.append("-race")
    cmd.append("./zz_verif/" + name)
    rc, log_ = sh(cmd, cwd=REPO, env=GOENV, timeout=1200)
    if rc != 0:
        return None, log_
    return out, log_


# --------------------------------------------------------------------------
# Evaluation of cases_*.v

RES = re.compile(r"\(\s*(\d+)(?:%nat)?\s*,\s*(\d+)(?:%nat)?\s*,\s*(\d+)%N\s*\)")


def coq_eval_file(path):
    d, f = os.path.split(path)
    t0 = time.time()
    rc, out = sh(["coqc", "-Q", COQ, "Gnmi", f], cwd=d, timeout=3000)
    for ext in (".vo", ".vok", ".vos", ".glob"):
        try:
            os.remove(os.path.join(d, f[:-2] + ext))
        except OSError:
            pass
    try:
        os.remove(os.path.join(d, "." + f[:-2] + ".aux"))
    except OSError:
        pass
    if rc != 0 or "R =" not in out:
        return dict(ok=False, log=out, results=[], secs=time.time() - t0)
    body = out[out.index("R ="):]
    body = body.split("\n     :")[0]
    body = re.sub(r"\s+", " ", body)
    res = [(int(a), int(b), int(c)) for a, b, c in RES.findall(body)]
    if not res and not re.search(r"R = (\[\]|nil)", body):
        return dict(ok=False, log=out, results=[], secs=time.time() - t0)
    return dict(ok=True, log=out, results=res, secs=time.time() - t0)


def coq_eval_dir(d, workers=12):
    files = sorted([os.path.join(d, f) for f in os.listdir(d) if re.match(r"cases_\d+\.v$", f)],
                   key=lambda p: int(re.findall(r"cases_(\d+)\.v", p)[0]))
    out = {}
    with concurrent.futures.ThreadPoolExecutor(max_workers=workers) as ex:
        for f, r in zip(files, ex.map(coq_eval_file, files)):
            out[f] = r
    return out


def load_case(casefile_v, idx):
    js = casefile_v[:-2] + ".json"
    return json.load(open(js))[idx]


# --------------------------------------------------------------------------
# Known findings

def known_findings():
    p = os.path.join(ROOT, "known_findings.json")
    if not os.path.exists(p):
        return {"open": [], "fixed": []}
    return json.load(open(p))


# --------------------------------------------------------------------------
# The generic check

class Check:
    """One property.  Subclass or instantiate with the harness name."""

    def __init__(self, pid, harness, harness_args=None, assumptions=None, modelled=None,
                 extra_trusted=None, timeout_quick=600, timeout_thorough=7200, env=None,
                 search_seeds=3, coq_targets=None):
        self.pid = pid
        self.harness = harness
        self.harness_args = harness_args or []
        self.assumptions = assumptions or []
        self.modelled = modelled or []
        self.extra_trusted = extra_trusted or []
        self.timeout_quick = timeout_quick
        self.timeout_thorough = timeout_thorough
        self.env = env or {}
        self.search_seeds = search_seeds
        self.coq_targets = coq_targets

    # -- pieces ------------------------------------------------------------
    def rundir(self, sub="main"):
        tag = hashlib.sha1(REPO.encode()).hexdigest()[:8]
        d = os.path.join(RUN, self.pid, tag, sub)
        shutil.rmtree(d, ignore_errors=True)
        os.makedirs(d)
        return d

    def run_harness(self, binary, outdir, seed, tier, replay=None):
        cmd = [binary, "-seed", str(seed), "-tier", tier, "-out", outdir] + self.harness_args
        if replay:
            cmd += ["-replay", replay]
        env = dict(os.environ, VERIF_REPO=REPO, VERIF_ROOT=ROOT,
                   VERIF_CORPUS=os.path.join(ROOT, "corpus", self.pid), **self.env)
        to = self.timeout_thorough if tier == "thorough" else self.timeout_quick
        try:
            rc, out = sh(cmd, cwd=outdir, env=env, timeout=to)
        except subprocess.TimeoutExpired:
            return False, "harness timed out after %ds" % to
        return rc == 0, out

    def replay_path(self, payload):
        h = hashlib.sha1(json.dumps(payload, sort_keys=True).encode()).hexdigest()[:12]
        d = os.path.join(ROOT, "replays", self.pid)
        os.makedirs(d, exist_ok=True)
        p = os.path.join(d, h + ".json")
        json.dump(payload, open(p, "w"), indent=1)
        return p

    # -- main --------------------------------------------------------------
    def main(self, tier, seed, replay=None):
        t0 = time.time()
        pid = self.pid
        kf = known_findings()
        violations = []       # (replay_path, suffix)
        notes = []

        # 1. theorems
        ok, mlog = coq_make(self.coq_targets)
        props = None
        if not ok:
            m = re.search(r"File \"\./([^\"]+)\", line (\d+)", mlog)
            where = "%s:%s" % (m.group(1), m.group(2)) if m else "coq build"
            rp = self.replay_path(dict(property=pid, kind="proof", broken="theorem-build:" + where,
                                       log=mlog[-3000:]))
            violations.append((rp, " no-failing-input-found"))
            props = dict(theorems=[], ok=False, axioms=[], failing=where, printed=0)
        else:
            props = check_props(pid)
            if not props["ok"]:
                rp = self.replay_path(dict(property=pid, kind="proof",
                                           broken="theorem:" + str(props["failing"]),
                                           log=props["log"][-3000:]))
                violations.append((rp, " no-failing-input-found"))
        bad = forbidden_tokens(coq_closure(["Props/%s.v" % pid] + [t[:-1] for t in (self.coq_targets or [])]))
        if bad:
            rp = self.replay_path(dict(property=pid, kind="proof", broken="forbidden-token", hits=bad))
            violations.append((rp, " no-failing-input-found"))

        # 2. harness build against the current tree
        binary, blog = go_build(self.harness)
        if binary is None:
            log("harness does not build against %s:\n%s" % (REPO, blog[-3000:]))
            return 2

        # 3/4. run + evaluate
        outdir = self.rundir("main")
        if replay:
            payload = json.load(open(replay))
            cases = payload.get("cases") or ([payload["case"]] if "case" in payload else payload)
            rf = os.path.join(outdir, "replay_in.json")
            json.dump(cases, open(rf, "w"))
            hok, hlog = self.run_harness(binary, outdir, seed, tier, replay=rf)
        else:
            hok, hlog = self.run_harness(binary, outdir, seed, tier)
        if not hok:
            log("harness failed:\n" + hlog[-3000:])
            return 2
        ev = coq_eval_dir(outdir)
        meta = json.load(open(os.path.join(outdir, "meta.json")))
        broken_eval = [f for f, r in ev.items() if not r["ok"]]
        if broken_eval:
            log("Coq evaluation of %s failed:\n%s" % (broken_eval[0], ev[broken_eval[0]]["log"][-3000:]))
            return 2

        mism, fails, known = self.classify(ev)

        # 5. verdict
        kf_open = {(k["property"], k["tag"]): k for k in kf.get("open", [])}
        seen_kf = set()
        for (f, ci, step, tag) in known:
            ent = kf_open.get((pid, tag))
            if ent is None:
                fails.append((f, ci, step, tag))
            elif tag not in seen_kf:
                seen_kf.add(tag)
                log("KNOWN-FINDING: property=%s %s" % (pid, ent["what"]))
        for k in kf.get("open", []):
            if k["property"] == pid and k["tag"] not in seen_kf and not replay:
                notes.append("listed finding %s was not observed in this run" % k["id"])

        if fails:
            f, ci, step, tag = sorted(fails)[0]
            case = load_case(f, ci)
            case = self.shrink(binary, case, seed, tier) or case
            rp = self.replay_path(dict(property=pid, kind="violation", step=step, tag=tag,
                                       case=case, seed=seed, tier=tier,
                                       replay_cmd="./check %s --replay <this file>" % pid))
            violations.append((rp, ""))
        elif mism:
            # correspondence broke; look for an input on which the property fails
            found = None
            if not replay:
                found = self.search(binary, seed, tier)
            if found:
                rp = self.replay_path(dict(property=pid, kind="violation", case=found[0], step=found[1],
                                           tag=found[2], found_by="search after correspondence break",
                                           replay_cmd="./check %s --replay <this file>" % pid))
                violations.append((rp, ""))
            else:
                f, ci, step, tag = sorted(mism)[0]
                case = load_case(f, ci)
                fam = case.get("family", "?") if isinstance(case, dict) else "?"
                rp = self.replay_path(dict(property=pid, kind="correspondence",
                                           broken="corr:%s:%s" % (pid, fam), step=step, case=case,
                                           mismatching_cases=len(mism), seed=seed, tier=tier,
                                           replay_cmd="./check %s --replay <this file>" % pid))
                violations.append((rp, " no-failing-input-found"))

        # 6. evidence
        wall = time.time() - t0
        nthm = len(props["theorems"])
        cov = dict(
            obligations=max(nthm, 1),
            discharged=(nthm if props["ok"] and nthm > 0 else 0),
            theorems=props["theorems"],
            axioms_reported_by_Print_Assumptions=props["axioms"],
            checker_cmd="make -C coq -f Makefile.coq (full .vo build) && coqc -Q coq Gnmi coq/Props/%s.v (Print Assumptions under every theorem)" % pid,
            trusted_base=TRUSTED_BASE + self.extra_trusted + ["modelled, not verified: " + "; ".join(self.modelled)],
            evaluations=meta.get("evaluations", 0),
            distinct_nontrivial=meta.get("distinct_nontrivial", 0),
            rule=meta.get("rule", ""),
            samples=(meta.get("samples") or [])[:3],
            exhaustive=bool(meta.get("exhaustive", False)),
            traces_validated_against_impl=meta.get("evaluations", 0),
            families=meta.get("families", {}),
            input_distribution=meta.get("histogram", {}),
            extra=meta.get("extra", {}),
            correspondence_mismatches=len(mism),
            property_failures=len(fails),
            known_finding_hits=len(known),
            coq_eval_seconds=round(sum(r["secs"] for r in ev.values()), 1),
            notes=notes,
        )
        evd = dict(property_id=pid, tier=tier, seed=seed, level="proof", coverage=cov,
                   assumptions=self.assumptions, wall_s=round(wall, 1), violations=len(violations))
        if not replay and REPO == "/repo" and not os.environ.get("VERIF_NO_EVIDENCE"):
            os.makedirs(os.path.join(ROOT, "evidence"), exist_ok=True)
            json.dump(evd, open(os.path.join(ROOT, "evidence", pid + ".json"), "w"), indent=1)
        for n in notes:
            log("NOTE: " + n)
        log("%s: %d cases, %d distinct non-trivial, %d theorems checked, %d correspondence mismatches, "
            "%d property failures, %.1fs" % (pid, cov["evaluations"], cov["distinct_nontrivial"],
                                            cov["discharged"], len(mism), len(fails), wall))
        if violations:
            for rp, suffix in violations[:1]:
                log("VIOLATION property=%s replay=%s%s" % (pid, rp, suffix))
            return 1
        return 0

    def classify(self, ev):
        mism, fails, known = [], [], []
        for f, r in ev.items():
            for (ci, step, tag) in r["results"]:
                if tag == 1:
                    mism.append((f, ci, step, tag))
                elif tag == 2 or (3 <= tag < 10):
                    fails.append((f, ci, step, tag))
                else:
                    known.append((f, ci, step, tag))
        return mism, fails, known

    def eval_cases(self, binary, cases, seed, tier, sub):
        d = self.rundir(sub)
        rf = os.path.join(d, "replay_in.json")
        json.dump(cases, open(rf, "w"))
        hok, _ = self.run_harness(binary, d, seed, tier, replay=rf)
        if not hok:
            return None
        ev = coq_eval_dir(d)
        if any(not r["ok"] for r in ev.values()):
            return None
        return ev

    def search(self, binary, seed, tier):
        """Extra seeds after a correspondence break: is there an input on which
        the property itself fails?"""
        t0 = time.time()
        budget = 600 if tier == "thorough" else 60
        for k in range(1, self.search_seeds + 1):
            if time.time() - t0 > budget:
                break
            d = self.rundir("search%d" % k)
            hok, _ = self.run_harness(binary, d, seed + 7919 * k, tier)
            if not hok:
                continue
            ev = coq_eval_dir(d)
            if any(not r["ok"] for r in ev.values()):
                continue
            _, fails, known = self.classify(ev)
            kf_open = {(x["property"], x["tag"]) for x in known_findings().get("open", [])}
            fails += [x for x in known if (self.pid, x[3]) not in kf_open]
            if fails:
                f, ci, step, tag = sorted(fails)[0]
                return load_case(f, ci), step, tag
        return None

    def shrink(self, binary, case, seed, tier):
        """Delta-debug the 'ops' list of a failing case (one coqc per round)."""
        if not isinstance(case, dict) or not isinstance(case.get("ops"), list):
            return None
        ops = case["ops"]
        kf_open = {(x["property"], x["tag"]) for x in known_findings().get("open", [])}
        t0 = time.time()
        rounds = 0
        while len(ops) > 1 and time.time() - t0 < 45 and rounds < 12:
            rounds += 1
            cands = []
            n = len(ops)
            chunk = max(1, n // 2)
            while chunk >= 1:
                for i in range(0, n, chunk):
                    cands.append(ops[:i] + ops[i + chunk:])
                if chunk == 1:
                    break
                chunk //= 2
            cands = [c for c in cands if c]
            if not cands:
                break
            ev = self.eval_cases(binary, [dict(case, ops=c, obs=None) for c in cands], seed, tier, "shrink")
            if ev is None:
                break
            failing = set()
            for f, r in ev.items():
                base = int(re.findall(r"cases_(\d+)\.v", f)[0])
                for (ci, step, tag) in r["results"]:
                    if tag == 2 or (3 <= tag < 10) or (tag >= 10 and (self.pid, tag) not in kf_open):
                        failing.add((base, ci))
            # cases are written in order into shards of fixed size; map back
            idxs = sorted(failing)
            if not idxs:
                break
            # shards: cases_0 holds first L, etc.  Recover global index by reading shard sizes.
            sizes = {}
            for f in ev:
                b = int(re.findall(r"cases_(\d+)\.v", f)[0])
                sizes[b] = len(json.load(open(f[:-2] + ".json")))
            def gidx(b, ci):
                return sum(sizes[k] for k in sizes if k < b) + ci
            best = min((cands[gidx(b, ci)] for (b, ci) in idxs), key=len)
            if len(best) >= len(ops):
                break
            ops = best
        if len(ops) < len(case["ops"]):
            return dict(case, ops=ops, obs=None, shrunk_from=len(case["ops"]))
        return None


def cli(checks):
    import argparse
    ap = argparse.ArgumentParser()
    ap.add_argument("pid")
    ap.add_argument("--tier", default=os.environ.get("VERIF_TIER", "quick"))
    ap.add_argument("--seed", type=int, default=int(os.environ.get("VERIF_SEED", "1")))
    ap.add_argument("--replay")
    a = ap.parse_args()
    if a.pid not in checks:
        print("no check registered for", a.pid)
        sys.exit(2)
    sys.exit(checks[a.pid].main(a.tier if a.tier in ("quick", "thorough") else "quick", a.seed, a.replay))

#!/bin/sh
# setup_cmd: build the Coq development (full .vo build) and warm the Go build
# cache for the harness binaries.  Offline; uses only files on disk.
set -e
cd "$(dirname "$0")"
export GOFLAGS=-mod=mod GOPROXY=off GOSUMDB=off GOTOOLCHAIN=local
python3 - <<'PY'
import sys, os, json
sys.path.insert(0, os.path.join(os.getcwd(), "lib"))
import vlib
from registry import CHECKS
claimed = set(json.load(open("tools/claimed.json")))
ok, log = vlib.coq_make()
if not ok:
    # files of checks still under construction may not build; the claimed checks must
    print("WARNING: full Coq build failed (below); building the claimed checks only")
    print(log[-3000:])
    targets = []
    for pid, c in CHECKS.items():
        if pid in claimed:
            targets += list(c.coq_targets or []) + ["Props/%s.vo" % pid]
    ok, log = vlib.coq_make(sorted(set(targets)))
    if not ok:
        print(log[-5000:])
        sys.exit(1)
seen = set()
for pid, c in CHECKS.items():
    if pid not in claimed or c.harness in seen:
        continue
    seen.add(c.harness)
    b, l = vlib.go_build(c.harness)
    if b is None:
        print(l[-3000:])
        sys.exit(1)
print("setup ok")
PY

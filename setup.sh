#!/bin/sh
# setup_cmd: build the Coq development (full .vo build) and warm the Go build
# cache for the harness binaries.  Offline; uses only files on disk.
set -e
cd "$(dirname "$0")"
export GOFLAGS=-mod=mod GOPROXY=off GOSUMDB=off GOTOOLCHAIN=local
python3 - <<'PY'
import sys, os
sys.path.insert(0, os.path.join(os.getcwd(), "lib"))
import vlib
ok, log = vlib.coq_make()
if not ok:
    print(log[-5000:])
    sys.exit(1)
from registry import CHECKS
seen = set()
for c in CHECKS.values():
    if c.harness in seen:
        continue
    seen.add(c.harness)
    b, l = vlib.go_build(c.harness)
    if b is None:
        print(l[-3000:])
        sys.exit(1)
print("setup ok")
PY

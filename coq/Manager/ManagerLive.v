(** Liveness of the manager model under fairness (C13).

    Runs are infinite sequences of states with an optional label per step
    ([None] = nobody moves; a finite maximal trace is a run that stutters for
    ever).  Labels: [LG] a hidden step of the monitor goroutine, [LH] any other
    hidden step (Remove's cancel, Reconnect taking effect, the receive-timeout
    goroutine, Remove completing, a second client goroutine's call getting
    through), [LV e] the letter [e].

    Threads and what is assumed of them (weak fairness: from every point on,
    the thread eventually moves or is disabled):
    - the monitor goroutine owns [LG] and the six callbacks;
    - the environment owns the answers to the goroutine's calls ([ECred],
      [EDial], [EDone], [EOpen], [ESend], [ERecv]): a fair environment
      eventually completes a pending dial / open / Send / Recv / done;
    - the caller of Remove owns the cancellation, the completion of Remove
      inside the manager and the return.
    Two further hypotheses are explicit where they are needed: a stream whose
    context is done delivers messages only finitely often, and the [select] of
    the retry loop prefers the backoff timer over [ctx.Done] only finitely
    often. *)
From Coq Require Import List Bool ZArith NArith Arith Lia.
Import ListNotations.
From Gnmi Require Import Manager.ManagerModel Manager.ManagerCheck Manager.ManagerProofs
  Manager.ManagerProofs2.

(** * Labelled steps, runs, fairness *)

Inductive lab := LG | LH | LV (e : event).

Definition gtau (c : cfg) (s : st) : list st :=
  match s_pc s with
  | PLoop =>
      (if s_cdone s then [set_pc s PFinished] else [])
        ++ [{| s_pc := PMeta; s_rmc := s_rmc s; s_cdone := s_cdone s; s_sdone := s_cdone s;
               s_rc := s_rc s; s_hu := s_hu s; s_stale := s_stale s; s_phu := s_phu s;
               s_add := s_add s; s_x := s_x s; s_rr := s_rr s |}]
  | PMeta => if c_creds c then [] else [set_pc s (PConnCheck (c_hops c))]
  | PConnCheck lft =>
      match lft with
      | O => [set_pc s PCE]
      | S l => if s_sdone s then [set_pc s PCE] else [set_pc s (PDial l)]
      end
  | PSubCheck => if s_sdone s then [set_pc s PDone] else [set_pc s POpen]
  | PDeliver MErrResp | PDeliver MNil => [set_pc s (PRecv true)]
  | _ => []
  end.

Lemma gtau_tau c s s' : In s' (gtau c s) -> In s' (tau c s).
Proof. apply tau_goroutine. Qed.

Definition lstep (c : cfg) (s : st) (l : lab) (s' : st) : Prop :=
  match l with
  | LG => In s' (gtau c s)
  | LH => In s' (tau c s)
  | LV e => In s' (vis c s e)
  end.

Section Runs.
Variable c : cfg.
Variable r : nat -> st.
Variable lb : nat -> option lab.

Definition is_lrun : Prop :=
  forall k, match lb k with
            | Some l => lstep c (r k) l (r (S k))
            | None => r (S k) = r k
            end.

Definition is_envq (e : event) : bool :=
  match e with
  | ECred _ | EDial _ | EDone | EOpen _ | ESend _ | ERecv _ => true
  | _ => false
  end.

Definition mon_moves (k : nat) : Prop :=
  lb k = Some LG \/ exists e, lb k = Some (LV e) /\ is_callback e = true.
Definition mon_can (s : st) : Prop :=
  gtau c s <> [] \/ exists e, is_callback e = true /\ vis c s e <> [].

Definition env_moves (k : nat) : Prop := exists e, lb k = Some (LV e) /\ is_envq e = true.
Definition env_can (s : st) : Prop := exists e, is_envq e = true /\ vis c s e <> [].

(** the caller of Remove: cancel, completion inside the manager, return *)
Definition rm_moves (k : nat) : Prop :=
  (s_cdone (r k) = false /\ s_cdone (r (S k)) = true)
  \/ (s_pc (r k) = PFinished /\ s_pc (r (S k)) = PIdle)
  \/ lb k = Some (LV (ERemoveReturned true)).
Definition rm_can (s : st) : Prop :=
  (s_rmc s = true /\ s_cdone s = false) \/ (s_pc s = PFinished /\ s_rmc s = true) \/ s_rr s = true.

Definition wfair (moves : nat -> Prop) (can : st -> Prop) : Prop :=
  forall k, exists j, k <= j /\ (moves j \/ ~ can (r j)).

(** the basic progress rule of weak fairness (obligations only from [k] on) *)
Lemma progress_from (moves : nat -> Prop) (can : st -> Prop) (P Q : st -> Prop) k :
  wfair moves can ->
  (forall s, P s -> can s) ->
  (forall j, k <= j -> P (r j) -> P (r (S j)) \/ Q (r (S j))) ->
  (forall j, k <= j -> P (r j) -> moves j -> Q (r (S j))) ->
  P (r k) -> exists j, k <= j /\ Q (r j).
Proof.
  intros Hf Hcan Hstay Hmove HP.
  destruct (Hf k) as (j & Hkj & Hj).
  assert (G : forall d, k + d <= j -> (exists j', k <= j' /\ Q (r j')) \/ P (r (k + d))).
  { induction d as [|d IH]; intros Hd.
    - right. rewrite Nat.add_0_r. exact HP.
    - destruct IH as [E|HPd]; [lia|left; exact E|].
      destruct (Hstay (k + d)) as [H1|H1]; [lia|exact HPd| |].
      + right. replace (k + S d) with (S (k + d)) by lia. exact H1.
      + left. exists (S (k + d)). split; [lia|exact H1]. }
  destruct (G (j - k)) as [E|HPj]; [lia|exact E|].
  replace (k + (j - k)) with j in HPj by lia.
  destruct Hj as [Hm|Hn].
  - exists (S j). split; [lia|]. apply Hmove; auto.
  - exfalso. apply Hn. apply Hcan. exact HPj.
Qed.

Lemma progress (moves : nat -> Prop) (can : st -> Prop) (P Q : st -> Prop) :
  wfair moves can ->
  (forall s, P s -> can s) ->
  (forall j, P (r j) -> P (r (S j)) \/ Q (r (S j))) ->
  (forall j, P (r j) -> moves j -> Q (r (S j))) ->
  forall k, P (r k) -> exists j, k <= j /\ Q (r j).
Proof. intros Hf Hc Hs Hm k HP. apply (progress_from moves can P Q k); auto. Qed.
End Runs.

(** * How one step changes the control point and the flags *)

Lemma lstep_pc c s l s' :
  lstep c s l s' ->
  s_pc s' = s_pc s \/ In (s_pc s') (tpc c (s_pc s))
  \/ exists e, l = LV e /\ In (s_pc s') (vpc c (s_pc s) e).
Proof.
  destruct l as [| |e]; cbn; intros H.
  - apply gtau_tau in H. destruct (tau_pc _ _ _ H); auto.
  - destruct (tau_pc _ _ _ H); auto.
  - right; right. exists e. split; auto. apply vis_pc; auto.
Qed.

Ltac unrec := cbn [s_pc s_rmc s_cdone s_sdone s_rc s_hu s_stale s_phu s_add s_x s_rr set_pc] in *.

(** while no Remove is called the target's context stays alive *)
Lemma tau_alive c s s' :
  In s' (tau c s) -> s_rmc s = false -> s_cdone s = false ->
  s_rmc s' = false /\ s_cdone s' = false.
Proof.
  destruct s as [p rmc cd sd rc hu stl phu ad xs rr]. unfold tau, managed. unrec.
  intros H -> ->. unrec. cbn [andb negb] in H.
  inv_in H; subst s'; unrec; auto.
Qed.

Lemma vis_alive c s e s' :
  In s' (vis c s e) -> e <> ERemoveCalled -> s_rmc s = false -> s_cdone s = false ->
  s_rmc s' = false /\ s_cdone s' = false.
Proof.
  destruct s as [p rmc cd sd rc hu stl phu ad xs rr]. unfold vis, managed. unrec.
  intros H Hne -> ->. unrec.
  destruct e; try congruence; inv_in H; subst s'; unrec; auto.
Qed.

Lemma lstep_alive c s l s' :
  lstep c s l s' -> l <> LV ERemoveCalled -> s_rmc s = false -> s_cdone s = false ->
  s_rmc s' = false /\ s_cdone s' = false.
Proof.
  destruct l as [| |e]; cbn; intros H Hne.
  - apply (tau_alive c). apply gtau_tau; auto.
  - apply (tau_alive c); auto.
  - apply (vis_alive c s e); auto. congruence.
Qed.

Lemma gtau_pc c s s' : In s' (gtau c s) -> In (s_pc s') (tpc c (s_pc s)).
Proof.
  unfold gtau. destruct s as [p rmc cd sd rc hu stl phu ad xs rr]. unrec.
  intros H. inv_in H; subst s'; unrec; cbn; auto.
Qed.

(** * (1) Retried for ever: a target that is never removed *)

Section NeverRemoved.
Variable c : cfg.
Variable r : nat -> st.
Variable lb : nat -> option lab.
Hypothesis Hrun : is_lrun c r lb.
Hypothesis Hnorm : forall j, lb j <> Some (LV ERemoveCalled).

Definition alive (s : st) : Prop := s_rmc s = false /\ s_cdone s = false.

Lemma alive_step j : alive (r j) -> alive (r (S j)).
Proof.
  intros [A B]. specialize (Hrun j). specialize (Hnorm j). destruct (lb j) as [l|].
  - apply (lstep_alive c (r j) l); auto. congruence.
  - rewrite Hrun. split; auto.
Qed.

Lemma step_pc j :
  s_pc (r (S j)) = s_pc (r j) \/ In (s_pc (r (S j))) (tpc c (s_pc (r j)))
  \/ exists e, lb j = Some (LV e) /\ In (s_pc (r (S j))) (vpc c (s_pc (r j)) e).
Proof.
  specialize (Hrun j). destruct (lb j) as [l|].
  - destruct (lstep_pc _ _ _ _ Hrun) as [E|[E|(e & -> & E)]]; auto.
    right; right. exists e; auto.
  - left. congruence.
Qed.

(** one hop of the goroutine from control point [p] into [Qp] *)
Lemma hop (moves : nat -> Prop) (can : st -> Prop) (p : pc) (Qp : pc -> Prop) :
  wfair r moves can ->
  (forall s, s_pc s = p -> can s) ->
  (forall p', In p' (tpc c p) -> Qp p') ->
  (forall e p', In p' (vpc c p e) -> p' = p \/ Qp p') ->
  (forall j, s_pc (r j) = p -> moves j -> s_pc (r (S j)) <> p) ->
  forall k, s_pc (r k) = p -> alive (r k) ->
  exists j, k <= j /\ Qp (s_pc (r j)) /\ alive (r j).
Proof.
  intros Hf Hcan Ht Hv Hm k Hp Ha.
  destruct (progress r moves can (fun s => s_pc s = p /\ alive s) (fun s => Qp (s_pc s) /\ alive s) Hf)
    with (k := k) as (j & Hj & HQ); auto.
  - intros s [E _]. auto.
  - intros j [E A]. pose proof (alive_step j A) as A'.
    destruct (step_pc j) as [E1|[E1|(e & _ & E1)]].
    + left. split; congruence.
    + right. split; auto. apply Ht. rewrite <- E. exact E1.
    + rewrite E in E1. destruct (Hv _ _ E1) as [E2|E2]; [left|right]; split; auto.
  - intros j [E A] Hmv. pose proof (alive_step j A) as A'. split; auto.
    pose proof (Hm j E Hmv) as Hne.
    destruct (step_pc j) as [E1|[E1|(e & _ & E1)]].
    + congruence.
    + apply Ht. rewrite <- E. exact E1.
    + rewrite E in E1. destruct (Hv _ _ E1) as [E2|E2]; [congruence|auto].
  - exists j; auto.
Qed.

(** an owner's move leaves the control point *)
Lemma mon_leaves p :
  (forall p', In p' (tpc c p) -> p' <> p) ->
  (forall e p', is_callback e = true -> In p' (vpc c p e) -> p' <> p) ->
  forall j, s_pc (r j) = p -> mon_moves lb j -> s_pc (r (S j)) <> p.
Proof.
  intros Ht Hv j E [Hl|(e & Hl & Hc)]; specialize (Hrun j); rewrite Hl in Hrun; cbn in Hrun.
  - apply gtau_pc in Hrun. rewrite E in Hrun. auto.
  - apply vis_pc in Hrun. rewrite E in Hrun. eauto.
Qed.

Lemma env_leaves p :
  (forall e p', is_envq e = true -> In p' (vpc c p e) -> p' <> p) ->
  forall j, s_pc (r j) = p -> env_moves lb j -> s_pc (r (S j)) <> p.
Proof.
  intros Hv j E (e & Hl & Hc). specialize (Hrun j). rewrite Hl in Hrun. cbn in Hrun.
  apply vis_pc in Hrun. rewrite E in Hrun. eauto.
Qed.

Ltac vpc_case := intros e p' H; destruct e; cbn in H; inv_in H; subst; auto; try discriminate.

Hypothesis Hmon : wfair r (mon_moves lb) (mon_can c).
Hypothesis Henv : wfair r (env_moves lb) (env_can c).

Lemma hop_reset k : s_pc (r k) = PReset -> alive (r k) ->
  exists j, k <= j /\ s_pc (r j) = PDone /\ alive (r j).
Proof.
  apply (hop (mon_moves lb) (mon_can c) PReset (fun p => p = PDone)); auto.
  - intros s E. right. exists CReset. split; auto. unfold vis. rewrite E. discriminate.
  - cbn. intros p' [].
  - intros e p' H. destruct e; cbn in H; inv_in H; subst; auto.
  - apply mon_leaves; cbn; [intros p' []|].
    intros e p' Hc H. destruct e; cbn in H, Hc; inv_in H; subst; discriminate.
Qed.

Lemma hop_done k : s_pc (r k) = PDone -> alive (r k) ->
  exists j, k <= j /\ s_pc (r j) = PCE /\ alive (r j).
Proof.
  apply (hop (env_moves lb) (env_can c) PDone (fun p => p = PCE)); auto.
  - intros s E. exists EDone. split; auto. unfold vis. rewrite E. discriminate.
  - cbn. intros p' [].
  - intros e p' H. destruct e; cbn in H; inv_in H; subst; auto.
  - apply env_leaves. intros e p' Hc H. destruct e; cbn in H, Hc; inv_in H; subst; discriminate.
Qed.

Lemma hop_ce k : s_pc (r k) = PCE -> alive (r k) ->
  exists j, k <= j /\ s_pc (r j) = PME /\ alive (r j).
Proof.
  apply (hop (mon_moves lb) (mon_can c) PCE (fun p => p = PME)); auto.
  - intros s E. right. exists CConnErr. split; auto. unfold vis. rewrite E. discriminate.
  - cbn. intros p' [].
  - intros e p' H. destruct e; cbn in H; inv_in H; subst; auto.
  - apply mon_leaves; cbn; [intros p' []|].
    intros e p' Hc H. destruct e; cbn in H, Hc; inv_in H; subst; discriminate.
Qed.

Lemma hop_me k : s_pc (r k) = PME -> alive (r k) ->
  exists j, k <= j /\ s_pc (r j) = PLoop /\ alive (r j).
Proof.
  apply (hop (mon_moves lb) (mon_can c) PME (fun p => p = PLoop)); auto.
  - intros s E. right. exists CMonErr. split; auto. unfold vis. rewrite E. discriminate.
  - cbn. intros p' [].
  - intros e p' H. destruct e; cbn in H; inv_in H; subst; auto.
  - apply mon_leaves; cbn; [intros p' []|].
    intros e p' Hc H. destruct e; cbn in H, Hc; inv_in H; subst; discriminate.
Qed.

Lemma loop_to_meta s s' :
  In s' (tau c s) -> s_pc s = PLoop -> s_cdone s = false ->
  s_pc s' = PLoop \/ (s_pc s' = PMeta /\ s_sdone s' = false).
Proof.
  destruct s as [p rmc cd sd rc hu stl phu ad xs rr]. unfold tau, managed. unrec.
  intros H -> ->. unrec. inv_in H; subst s'; unrec; auto.
Qed.

Lemma hop_loop k : s_pc (r k) = PLoop -> alive (r k) ->
  exists j, k <= j /\ s_pc (r j) = PMeta /\ s_sdone (r j) = false /\ alive (r j).
Proof.
  intros Hp Ha.
  destruct (progress r (mon_moves lb) (mon_can c)
              (fun s => s_pc s = PLoop /\ alive s)
              (fun s => s_pc s = PMeta /\ s_sdone s = false /\ alive s) Hmon)
    with (k := k) as (j & Hj & HQ); auto.
  - intros s [E _]. left. unfold gtau. rewrite E. destruct (s_cdone s); discriminate.
  - intros j [E A]. pose proof (alive_step j A) as A'. destruct A as [_ Hc].
    pose proof (Hrun j) as Hs. destruct (lb j) as [[| |e]|]; cbn in Hs.
    + apply gtau_tau in Hs. destruct (loop_to_meta _ _ Hs E Hc) as [E1|[E1 E2]]; auto.
    + destruct (loop_to_meta _ _ Hs E Hc) as [E1|[E1 E2]]; auto.
    + left. split; auto. apply vis_pc in Hs. rewrite E in Hs.
      destruct e; cbn in Hs; inv_in Hs; auto.
    + left. split; [congruence|exact A'].
  - intros j [E A] Hmv. pose proof (alive_step j A) as A'. destruct A as [_ Hc].
    pose proof (Hrun j) as Hs. destruct Hmv as [Hl|(e & Hl & Hcb)]; rewrite Hl in Hs; cbn in Hs.
    + pose proof (gtau_pc _ _ _ Hs) as Hpc. apply gtau_tau in Hs.
      destruct (loop_to_meta _ _ Hs E Hc) as [E1|[E1 E2]]; auto.
      exfalso. unfold gtau in Hpc. rewrite E in Hpc. cbn in Hpc. rewrite E1 in Hpc.
      destruct Hpc as [X|[X|[]]]; discriminate.
    + exfalso. apply vis_pc in Hs. rewrite E in Hs. destruct e; cbn in Hs, Hcb; inv_in Hs; discriminate.
  - exists j; auto.
Qed.

Lemma alive_from k : alive (r k) -> forall j, k <= j -> alive (r j).
Proof.
  intros A j Hj. replace j with (k + (j - k)) by lia. induction (j - k) as [|d IH].
  - rewrite Nat.add_0_r. exact A.
  - replace (k + S d) with (S (k + d)) by lia. apply alive_step. exact IH.
Qed.

Lemma first_change (p : pc) k j :
  k <= j -> s_pc (r k) = p -> s_pc (r j) <> p ->
  exists i, k <= i /\ i < j /\ s_pc (r i) = p /\ s_pc (r (S i)) <> p.
Proof.
  intros Hkj. replace j with (k + (j - k)) by lia. induction (j - k) as [|d IH]; intros Hp Hn.
  - rewrite Nat.add_0_r in Hn. congruence.
  - destruct (pc_eqb (s_pc (r (k + d))) p) eqn:E.
    + exists (k + d). repeat split; try lia.
      * destruct (s_pc (r (k + d))), p; cbn in E; try discriminate; auto;
          try (apply Nat.eqb_eq in E; congruence);
          try (apply Bool.eqb_prop in E; congruence);
          try (destruct m, m0; cbn in E; try discriminate; auto; apply Z.eqb_eq in E; congruence).
      * replace (S (k + d)) with (k + S d) by lia. exact Hn.
    + destruct IH as (i & H1 & H2 & H3 & H4); auto.
      * intros Heq. rewrite Heq in E.
        assert (pc_eqb p p = true).
        { destruct p; cbn; auto; try apply Nat.eqb_refl; try apply Bool.eqb_reflx.
          all: destruct m; cbn; auto; apply Z.eqb_refl. }
        congruence.
      * exists i. repeat split; auto; lia.
Qed.

Lemma leave_reset i :
  s_pc (r i) = PReset -> s_pc (r (S i)) <> PReset ->
  lb i = Some (LV CReset) /\ s_pc (r (S i)) = PDone.
Proof.
  intros E Hn. pose proof (Hrun i) as Hs. destruct (lb i) as [[| |e]|]; cbn in Hs.
  - apply gtau_pc in Hs. rewrite E in Hs. destruct Hs.
  - destruct (tau_pc _ _ _ Hs) as [X|X]; [congruence|]. rewrite E in X. destruct X.
  - apply vis_pc in Hs. rewrite E in Hs.
    destruct e; cbn in Hs; inv_in Hs; try congruence. split; auto.
  - congruence.
Qed.

(** every ended stream of a target that is never removed is followed by its
    Reset and then by a new connection attempt on a fresh sub-context *)
Theorem retried_for_ever k :
  s_pc (r k) = PReset -> alive (r k) ->
  exists j1, k <= j1 /\ lb j1 = Some (LV CReset)
  /\ exists j2, j1 < j2 /\ s_pc (r j2) = PMeta /\ s_sdone (r j2) = false /\ alive (r j2).
Proof.
  intros Hp Ha.
  destruct (hop_reset k Hp Ha) as (ja & Hka & Hpa & _).
  destruct (first_change PReset k ja Hka Hp) as (i & Hki & Hij & Hpi & Hni); [congruence|].
  destruct (leave_reset i Hpi Hni) as [Hl Hd].
  exists i. repeat split; auto.
  assert (Ai : alive (r (S i))) by (apply (alive_from k); auto; lia).
  destruct (hop_done (S i) Hd Ai) as (j1 & H1 & P1 & A1).
  destruct (hop_ce j1 P1 A1) as (j2 & H2 & P2 & A2).
  destruct (hop_me j2 P2 A2) as (j3 & H3 & P3 & A3).
  destruct (hop_loop j3 P3 A3) as (j4 & H4 & P4 & S4 & A4).
  exists j4. split; [lia|]. split; [exact P4|]. split; [exact S4|exact A4].
Qed.
End NeverRemoved.

(** * Prefixes of infinite runs are runs of the model *)

Section Prefix.
Variable c : cfg.
Variable r : nat -> st.
Variable lb : nat -> option lab.
Hypothesis Hrun : is_lrun c r lb.

Fixpoint trace_of (k : nat) : list event :=
  match k with
  | O => []
  | S k' => trace_of k' ++ (match lb k' with Some (LV e) => [e] | _ => [] end)
  end.

Lemma lrun_prefix k : run c (r 0) (trace_of k) (r k).
Proof.
  induction k as [|k IH]; cbn; [constructor|].
  eapply run_app; [exact IH|]. specialize (Hrun k). destruct (lb k) as [[| |e]|]; cbn in Hrun.
  - apply run_tau1. apply gtau_tau. exact Hrun.
  - apply run_tau1. exact Hrun.
  - apply run_vis1. exact Hrun.
  - rewrite Hrun. constructor.
Qed.

Lemma lrun_wf : r 0 = init -> forall k, wfb (r k) = true.
Proof. intros H0 k. pose proof (lrun_prefix k) as H. rewrite H0 in H. eapply reachable_wf; eauto. Qed.
End Prefix.

(** * (2) Remove returns *)

(** cancelled: Remove is in progress and has cancelled the target's context *)
Definition cancelled (s : st) : Prop := s_rmc s = true /\ s_cdone s = true /\ s_sdone s = true.

(** distance of the goroutine from its exit once cancelled *)
Definition mu (p : pc) : nat :=
  match p with
  | PIdle | PFinished => 0
  | PLoop => 1
  | PME => 2
  | PCE => 3
  | PDone | PConnCheck _ => 4
  | PReset | PSubCheck | PMeta => 5
  | PRecv _ | PDial _ => 6
  | PDeliver _ | PSend => 7
  | PConnect _ | POpen => 8
  end.

Lemma tau_cancelled c s s' :
  In s' (tau c s) -> cancelled s -> s_pc s <> PFinished ->
  cancelled s' /\ (s_pc s' = s_pc s \/ mu (s_pc s') < mu (s_pc s) \/ (s_pc s = PLoop /\ s_pc s' = PMeta)).
Proof.
  destruct s as [p rmc cd sd rc hu stl phu ad xs rr]. unfold tau, managed, cancelled. unrec.
  intros H (-> & -> & ->) Hp. unrec.
  inv_in H; subst s'; unrec; try congruence; cbn [mu]; repeat split; auto; try lia.
Qed.

Lemma vis_cancelled c s e s' :
  In s' (vis c s e) -> cancelled s -> (forall m, e <> ERecv (RMsg m)) ->
  cancelled s' /\ (s_pc s' = s_pc s \/ mu (s_pc s') < mu (s_pc s)).
Proof.
  destruct s as [p rmc cd sd rc hu stl phu ad xs rr]. unfold vis, managed, cancelled. unrec.
  intros H (-> & -> & ->) Hm. unrec.
  destruct e; inv_in H; subst s'; unrec; cbn [mu]; repeat split; auto; try lia;
    try (exfalso; eapply Hm; reflexivity).
  all: destruct ok; cbn [mu]; right; lia.
Qed.

Lemma gor_letter_moves c s e s' : is_gor e = true -> In s' (vis c s e) -> s_pc s' <> s_pc s.
Proof.
  intros Hg H. apply vis_pc in H. destruct (s_pc s), e; cbn in Hg, H; try discriminate;
    inv_in H; try congruence.
  all: try (rewrite <- H; discriminate).
  all: rewrite <- H;
    repeat match goal with
           | b : bool |- _ => destruct b
           | x : rres |- _ => destruct x
           end; discriminate.
Qed.

Lemma gtau_moves c s s' : In s' (gtau c s) -> s_pc s' <> s_pc s.
Proof.
  intros H. apply gtau_pc in H. destruct (s_pc s); cbn in H; inv_in H; try congruence.
  all: try (rewrite <- H; discriminate).
Qed.

Lemma envq_gor e : is_envq e = true -> is_gor e = true.
Proof. destruct e; cbn; auto; discriminate. Qed.
Lemma callback_gor e : is_callback e = true -> is_gor e = true.
Proof. destruct e; cbn; auto; discriminate. Qed.

Lemma wfb_rmc_managed s : wfb s = true -> s_rmc s = true -> s_pc s <> PIdle.
Proof.
  unfold wfb, managed. intros W Hr Hp. rewrite Hr, Hp in W. cbn in W. discriminate.
Qed.

Ltac unwf := unfold wfb, managed, add_none, rc_none, x_none, x_eff in *.

(** Remove in progress ([s_rmc]) or complete with its return pending ([s_rr]):
    this lasts until the return is logged *)
Lemma phase_tau c s s' :
  In s' (tau c s) -> s_rmc s = true \/ s_rr s = true -> s_rmc s' = true \/ s_rr s' = true.
Proof.
  destruct s as [p rmc cd sd rc hu stl phu ad xs rr]. unfold tau, managed. unrec.
  intros H Hph. inv_in H; subst s'; unrec; auto.
  all: destruct Hph as [-> | ->]; cbn in *; try discriminate; auto.
Qed.

Lemma phase_vis c s e s' :
  In s' (vis c s e) -> s_rmc s = true \/ s_rr s = true ->
  (s_rmc s' = true \/ s_rr s' = true) \/ e = ERemoveReturned true.
Proof.
  destruct s as [p rmc cd sd rc hu stl phu ad xs rr]. unfold vis, managed, x_none. unrec.
  intros H Hph. destruct e; inv_in H; subst s'; unrec; auto.
  all: destruct Hph as [-> | ->]; cbn in *; try discriminate; auto.
Qed.

(** before the cancellation *)
Lemma precancel_tau c s s' :
  In s' (tau c s) -> wfb s = true -> s_rmc s = true -> s_cdone s = false ->
  (s_rmc s' = true /\ s_cdone s' = false) \/ cancelled s'.
Proof.
  destruct s as [p rmc cd sd rc hu stl phu ad xs rr]. unfold tau, cancelled. unwf. unrec.
  intros H W -> ->. unrec. inv_in H; subst s'; unrec; auto; cbn in *; try discriminate.
  all: adaptive.
Qed.

Lemma precancel_vis c s e s' :
  In s' (vis c s e) -> wfb s = true -> s_rmc s = true -> s_cdone s = false ->
  s_rmc s' = true /\ s_cdone s' = false /\ e <> ERemoveReturned true.
Proof.
  destruct s as [p rmc cd sd rc hu stl phu ad xs rr]. unfold vis. unwf. unrec.
  intros H W -> ->. unrec.
  destruct e; inv_in H; subst s'; unrec; repeat split; auto; try discriminate.
  all: try (intros X; inversion X; subst).
  all: cbn in *; adaptive.
Qed.

(** at the exit *)
Lemma finished_tau c s s' :
  In s' (tau c s) -> cancelled s -> s_pc s = PFinished ->
  (cancelled s' /\ s_pc s' = PFinished) \/ (s_rr s' = true /\ s_pc s' = PIdle).
Proof.
  destruct s as [p rmc cd sd rc hu stl phu ad xs rr]. unfold tau, cancelled, managed. unrec.
  intros H (-> & -> & ->) ->. unrec. inv_in H; subst s'; unrec; auto; try discriminate.
Qed.

Lemma finished_vis c s e s' :
  In s' (vis c s e) -> wfb s = true -> cancelled s -> s_pc s = PFinished ->
  cancelled s' /\ s_pc s' = PFinished /\ e <> ERemoveReturned true.
Proof.
  destruct s as [p rmc cd sd rc hu stl phu ad xs rr]. unfold vis, cancelled. unwf. unrec.
  intros H W (-> & -> & ->) ->. unrec.
  destruct e; inv_in H; subst s'; unrec; repeat split; auto; try discriminate.
  all: try (intros X; inversion X; subst).
  all: cbn in *; adaptive.
Qed.

(** completed, return pending *)
Lemma rr_tau c s s' :
  In s' (tau c s) -> wfb s = true -> s_rr s = true ->
  s_rr s' = true /\ (s_cdone s = false -> s_cdone s' = false)
  /\ (s_pc s = PFinished -> s_pc s' = PFinished).
Proof.
  destruct s as [p rmc cd sd rc hu stl phu ad xs rr]. unfold tau. unwf. unrec.
  intros H W ->. unrec. inv_in H; subst s'; unrec; repeat split; auto; try discriminate.
  all: cbn in *; adaptive.
Qed.

Lemma rr_vis c s e s' :
  In s' (vis c s e) -> s_rr s = true ->
  (s_rr s' = true /\ s_cdone s' = s_cdone s /\ (s_pc s = PFinished -> s_pc s' = PFinished))
  \/ (e = ERemoveReturned true /\ s_rr s' = false).
Proof.
  destruct s as [p rmc cd sd rc hu stl phu ad xs rr]. unfold vis, managed, x_none. unrec.
  intros H ->. unrec. destruct e; inv_in H; subst s'; unrec; auto; cbn in *; try discriminate.
  all: try (left; repeat split; auto; congruence).
  all: try (destruct rmc; cbn in *; discriminate).
Qed.

(** a cancelled context implies a cancelled sub-context *)
Lemma cdsd_tau c s s' :
  In s' (tau c s) -> (s_cdone s = true -> s_sdone s = true) -> s_cdone s' = true -> s_sdone s' = true.
Proof.
  destruct s as [p rmc cd sd rc hu stl phu ad xs rr]. unfold tau. unrec.
  intros H Hi. inv_in H; subst s'; unrec; auto; try discriminate.
Qed.

Lemma cdsd_vis c s e s' :
  In s' (vis c s e) -> (s_cdone s = true -> s_sdone s = true) -> s_cdone s' = true -> s_sdone s' = true.
Proof.
  destruct s as [p rmc cd sd rc hu stl phu ad xs rr]. unfold vis. unrec.
  intros H Hi. destruct e; inv_in H; subst s'; unrec; auto; try discriminate.
Qed.

Section RemoveReturns.
Variable c : cfg.
Variable r : nat -> st.
Variable lb : nat -> option lab.
Hypothesis Hrun : is_lrun c r lb.
Hypothesis H0 : r 0 = init.
Hypothesis Hmon : wfair r (mon_moves lb) (mon_can c).
Hypothesis Henv : wfair r (env_moves lb) (env_can c).
Hypothesis Hrm : wfair r (rm_moves r lb) rm_can.
(** from step [K] on, a stream whose context is done delivers no further
    message, and the select of the retry loop takes the [ctx.Done] branch *)
Variable K : nat.
Hypothesis Hquiet : forall j, K <= j -> s_sdone (r j) = true ->
                              forall m, lb j <> Some (LV (ERecv (RMsg m))).
Hypothesis Hrace : forall j, K <= j -> s_pc (r j) = PLoop -> s_cdone (r j) = true ->
                             s_pc (r (S j)) <> PMeta.

Definition env_pc (p : pc) : bool :=
  match p with
  | PDial _ | POpen | PSend | PRecv _ | PDone => true
  | PMeta => c_creds c
  | _ => false
  end.

Lemma step_cancelled j :
  K <= j -> cancelled (r j) -> s_pc (r j) <> PFinished ->
  cancelled (r (S j))
  /\ (s_pc (r (S j)) = s_pc (r j) \/ mu (s_pc (r (S j))) < mu (s_pc (r j))).
Proof.
  intros HK HC Hp. pose proof (Hrun j) as Hs. destruct (lb j) as [[| |e]|] eqn:El; cbn in Hs.
  - apply gtau_tau in Hs. destruct (tau_cancelled _ _ _ Hs HC Hp) as [C' [E|[E|[E1 E2]]]]; auto.
    exfalso. destruct HC as (_ & Hcd & _). exact (Hrace j HK E1 Hcd E2).
  - destruct (tau_cancelled _ _ _ Hs HC Hp) as [C' [E|[E|[E1 E2]]]]; auto.
    exfalso. destruct HC as (_ & Hcd & _). exact (Hrace j HK E1 Hcd E2).
  - apply (vis_cancelled c (r j) e); auto.
    intros m ->. destruct HC as (_ & _ & Hsd). exact (Hquiet j HK Hsd m El).
  - rewrite Hs. auto.
Qed.

Lemma owner_can s p :
  cancelled s -> s_pc s = p -> p <> PIdle -> p <> PFinished ->
  if env_pc p then env_can c s else mon_can c s.
Proof.
  intros (_ & _ & Hsd) E Hi Hf. unfold env_can, mon_can.
  destruct p as [ | | |n|l| | | |b|m|m| | | | | ]; cbn [env_pc]; try congruence.
  - left. unfold gtau. rewrite E. destruct (s_cdone s); discriminate.
  - destruct (c_creds c) eqn:Ec.
    + exists (ECred true). split; auto. unfold vis. rewrite E, Ec. discriminate.
    + left. unfold gtau. rewrite E, Ec. discriminate.
  - left. unfold gtau. rewrite E, Hsd. destruct n; discriminate.
  - exists (EDial true). split; auto. unfold vis. rewrite E. discriminate.
  - left. unfold gtau. rewrite E, Hsd. discriminate.
  - exists (EOpen true). split; auto. unfold vis. rewrite E. discriminate.
  - exists (ESend true). split; auto. unfold vis. rewrite E. discriminate.
  - exists (ERecv RErr). split; auto. unfold vis. rewrite E. discriminate.
  - right. exists CConnect. split; auto. unfold vis. rewrite E. discriminate.
  - destruct m.
    + right. exists (CUpdate n). split; auto. unfold vis. rewrite E, Z.eqb_refl. discriminate.
    + right. exists CSync. split; auto. unfold vis. rewrite E. discriminate.
    + left. unfold gtau. rewrite E. discriminate.
    + left. unfold gtau. rewrite E. discriminate.
  - right. exists CReset. split; auto. unfold vis. rewrite E. discriminate.
  - exists EDone. split; auto. unfold vis. rewrite E. discriminate.
  - right. exists CConnErr. split; auto. unfold vis. rewrite E. discriminate.
  - right. exists CMonErr. split; auto. unfold vis. rewrite E. discriminate.
Qed.

Lemma owner_moves j :
  (if env_pc (s_pc (r j)) then env_moves lb j else mon_moves lb j) ->
  s_pc (r (S j)) <> s_pc (r j).
Proof.
  pose proof (Hrun j) as Hs. destruct (env_pc (s_pc (r j))).
  - intros (e & Hl & He). rewrite Hl in Hs. cbn in Hs.
    eapply gor_letter_moves; eauto. apply envq_gor; auto.
  - intros [Hl|(e & Hl & He)]; rewrite Hl in Hs; cbn in Hs.
    + eapply gtau_moves; eauto.
    + eapply gor_letter_moves; eauto. apply callback_gor; auto.
Qed.

Lemma cancelled_managed k : cancelled (r k) -> s_pc (r k) <> PIdle.
Proof.
  intros (Hr & _). apply wfb_rmc_managed; auto. apply (lrun_wf c r lb); auto.
Qed.

(** once cancelled, the goroutine reaches its exit *)
Lemma reach_finished n : forall k,
  K <= k -> cancelled (r k) -> mu (s_pc (r k)) <= n ->
  exists j, k <= j /\ s_pc (r j) = PFinished /\ cancelled (r j).
Proof.
  induction n as [|n IH]; intros k HK HC Hmu.
  - pose proof (cancelled_managed k HC) as Hi. exists k. split; auto. split; auto.
    destruct (s_pc (r k)); cbn in Hmu; try lia; congruence.
  - destruct (pc_eqb (s_pc (r k)) PFinished) eqn:Ef.
    { exists k. split; auto. split; auto. destruct (s_pc (r k)); cbn in Ef; try discriminate; auto. }
    assert (Hnf : s_pc (r k) <> PFinished) by (intros E; rewrite E in Ef; discriminate).
    pose proof (cancelled_managed k HC) as Hni.
    remember (s_pc (r k)) as p eqn:Ep.
    assert (Hstay : forall j, k <= j -> cancelled (r j) /\ s_pc (r j) = p ->
              (cancelled (r (S j)) /\ s_pc (r (S j)) = p)
              \/ (cancelled (r (S j)) /\ mu (s_pc (r (S j))) < mu p)).
    { intros j Hj [Cj Ej]. destruct (step_cancelled j) as [C' [E|E]]; auto; try lia; try congruence.
      - left. split; congruence.
      - right. split; auto. rewrite <- Ej. exact E. }
    assert (Hmove : forall j, k <= j -> cancelled (r j) /\ s_pc (r j) = p ->
              (if env_pc p then env_moves lb j else mon_moves lb j) ->
              cancelled (r (S j)) /\ mu (s_pc (r (S j))) < mu p).
    { intros j Hj [Cj Ej] Hmv. rewrite <- Ej in Hmv. pose proof (owner_moves j Hmv) as Hne.
      destruct (Hstay j Hj (conj Cj Ej)) as [[_ E]|X]; [congruence|exact X]. }
    assert (G : exists j, k <= j /\ (cancelled (r j) /\ mu (s_pc (r j)) < mu p)).
    { destruct (env_pc p) eqn:Eo.
      - apply (progress_from r (env_moves lb) (env_can c)
                 (fun s => cancelled s /\ s_pc s = p)
                 (fun s => cancelled s /\ mu (s_pc s) < mu p) k Henv); auto.
        intros s [Cs Es]. pose proof (owner_can s p Cs Es Hni Hnf) as Ho. rewrite Eo in Ho. exact Ho.
      - apply (progress_from r (mon_moves lb) (mon_can c)
                 (fun s => cancelled s /\ s_pc s = p)
                 (fun s => cancelled s /\ mu (s_pc s) < mu p) k Hmon); auto.
        intros s [Cs Es]. pose proof (owner_can s p Cs Es Hni Hnf) as Ho. rewrite Eo in Ho. exact Ho. }
    destruct G as (j & Hj & Cj & Mj).
    destruct (IH j) as (j' & Hj' & Pj' & Cj'); auto; try lia.
    exists j'. split; auto; lia.
Qed.

Lemma wf k : wfb (r k) = true.
Proof. apply (lrun_wf c r lb); auto. Qed.

Lemma cdsd k : s_cdone (r k) = true -> s_sdone (r k) = true.
Proof.
  induction k as [|k IH]; [rewrite H0; cbn; discriminate|].
  pose proof (Hrun k) as Hs. destruct (lb k) as [[| |e]|]; cbn in Hs.
  - apply (cdsd_tau c (r k)); auto. apply gtau_tau; auto.
  - apply (cdsd_tau c (r k)); auto.
  - apply (cdsd_vis c (r k) e); auto.
  - rewrite Hs. exact IH.
Qed.

Definition ret : option lab := Some (LV (ERemoveReturned true)).
Definition phase (s : st) : Prop := s_rmc s = true \/ s_rr s = true.

Lemma phase_step j : phase (r j) -> phase (r (S j)) \/ lb j = ret.
Proof.
  intros Hp. pose proof (Hrun j) as Hs. destruct (lb j) as [[| |e]|]; cbn in Hs.
  - left. apply (phase_tau c (r j)); auto. apply gtau_tau; auto.
  - left. apply (phase_tau c (r j)); auto.
  - destruct (phase_vis c (r j) e _ Hs Hp) as [X| ->]; auto.
  - left. rewrite Hs. exact Hp.
Qed.

Lemma phase_persist k d :
  phase (r k) -> phase (r (k + d)) \/ exists i, k <= i /\ lb i = ret.
Proof.
  intros Hp. induction d as [|d IH].
  - left. rewrite Nat.add_0_r. exact Hp.
  - destruct IH as [X|X]; [|right; exact X].
    replace (k + S d) with (S (k + d)) by lia.
    destruct (phase_step _ X) as [Y|Y]; auto. right. exists (k + d). split; [lia|exact Y].
Qed.

Lemma cancel_happens k :
  s_rmc (r k) = true -> s_cdone (r k) = false -> exists j, k <= j /\ cancelled (r j).
Proof.
  intros Hr Hc.
  apply (progress r (rm_moves r lb) rm_can
           (fun s => wfb s = true /\ s_rmc s = true /\ s_cdone s = false) cancelled Hrm); auto.
  - intros s (_ & A & B). left. auto.
  - intros j (W & A & B). pose proof (Hrun j) as Hs. pose proof (wf (S j)) as W'.
    destruct (lb j) as [[| |e]|]; cbn in Hs.
    + apply gtau_tau in Hs. destruct (precancel_tau _ _ _ Hs W A B) as [[X Y]|X]; auto.
    + destruct (precancel_tau _ _ _ Hs W A B) as [[X Y]|X]; auto.
    + destruct (precancel_vis _ _ _ _ Hs W A B) as (X & Y & _). auto.
    + left. rewrite Hs. auto.
  - intros j (W & A & B) Hmv. pose proof (Hrun j) as Hs. pose proof (wf (S j)) as W'.
    assert (G : (s_rmc (r (S j)) = true /\ s_cdone (r (S j)) = false /\ lb j <> ret
                 /\ s_pc (r j) <> PFinished) \/ cancelled (r (S j))).
    { assert (Hnf : s_pc (r j) <> PFinished).
      { intros E. unfold wfb in W. rewrite E, B in W. cbn in W. rewrite !andb_false_r in W.
        cbn in W. rewrite ?andb_false_r in W. discriminate. }
      destruct (lb j) as [[| |e]|] eqn:El; cbn in Hs.
      - apply gtau_tau in Hs. destruct (precancel_tau _ _ _ Hs W A B) as [[X Y]|X]; auto.
        left. repeat split; auto. discriminate.
      - destruct (precancel_tau _ _ _ Hs W A B) as [[X Y]|X]; auto.
        left. repeat split; auto. discriminate.
      - destruct (precancel_vis _ _ _ _ Hs W A B) as (X & Y & Z). left. repeat split; auto.
        unfold ret. congruence.
      - left. rewrite Hs. repeat split; auto. discriminate. }
    destruct G as [(X & Y & Z & Hnf)|X]; auto.
    exfalso. destruct Hmv as [[_ E]|[[E _]|E]]; try congruence. apply Z. exact E.
  - split; [apply wf|auto].
Qed.

Lemma completion k :
  cancelled (r k) -> s_pc (r k) = PFinished -> exists j, k <= j /\ s_rr (r j) = true.
Proof.
  intros HC Hp.
  apply (progress r (rm_moves r lb) rm_can
           (fun s => wfb s = true /\ cancelled s /\ s_pc s = PFinished)
           (fun s => s_rr s = true) Hrm); auto.
  - intros s (_ & (A & _) & B). right; left. auto.
  - intros j (W & C & E). pose proof (Hrun j) as Hs. pose proof (wf (S j)) as W'.
    destruct (lb j) as [[| |e]|]; cbn in Hs.
    + apply gtau_tau in Hs. destruct (finished_tau _ _ _ Hs C E) as [[X Y]|[X _]]; auto.
    + destruct (finished_tau _ _ _ Hs C E) as [[X Y]|[X _]]; auto.
    + destruct (finished_vis _ _ _ _ Hs W C E) as (X & Y & _). auto.
    + left. rewrite Hs. auto.
  - intros j (W & C & E) Hmv. pose proof (Hrun j) as Hs.
    destruct C as (Cr & Cc & Cs).
    assert (C : cancelled (r j)) by (repeat split; auto).
    destruct Hmv as [[X _]|[[_ X]|X]]; [congruence| |].
    + destruct (lb j) as [[| |e]|]; cbn in Hs.
      * apply gtau_tau in Hs. destruct (finished_tau _ _ _ Hs C E) as [[_ Y]|[Y _]]; auto. congruence.
      * destruct (finished_tau _ _ _ Hs C E) as [[_ Y]|[Y _]]; auto. congruence.
      * destruct (finished_vis _ _ _ _ Hs W C E) as (_ & Y & _). congruence.
      * rewrite Hs in X. congruence.
    + exfalso. rewrite X in Hs. cbn in Hs.
      destruct (finished_vis c (r j) (ERemoveReturned true) (r (S j)) Hs W C E) as (_ & _ & Y).
      congruence.
  - split; [apply wf|auto].
Qed.

Lemma rr_next j :
  s_rr (r j) = true ->
  (s_rr (r (S j)) = true /\ (s_cdone (r j) = false -> s_cdone (r (S j)) = false)
   /\ (s_pc (r j) = PFinished -> s_pc (r (S j)) = PFinished))
  \/ (lb j = ret /\ s_rr (r (S j)) = false).
Proof.
  intros Hr. pose proof (Hrun j) as Hs. pose proof (wf j) as W.
  destruct (lb j) as [[| |e]|]; cbn in Hs.
  - left. apply (rr_tau c (r j)); auto. apply gtau_tau; auto.
  - left. apply (rr_tau c (r j)); auto.
  - destruct (rr_vis c (r j) e _ Hs Hr) as [(A & B & C)|[-> B]].
    + left. repeat split; auto. congruence.
    + right. auto.
  - left. rewrite Hs. auto.
Qed.

Lemma first_flip k j :
  k <= j -> s_rr (r k) = true -> s_rr (r j) = false ->
  exists i, k <= i /\ i < j /\ s_rr (r i) = true /\ s_rr (r (S i)) = false.
Proof.
  intros Hkj. replace j with (k + (j - k)) by lia. induction (j - k) as [|d IH]; intros Hp Hn.
  - rewrite Nat.add_0_r in Hn. congruence.
  - destruct (s_rr (r (k + d))) eqn:E.
    + exists (k + d). repeat split; try lia; auto.
      replace (S (k + d)) with (k + S d) by lia. exact Hn.
    + destruct IH as (i & H1 & H2 & H3 & H4); auto. exists i. repeat split; auto; lia.
Qed.

Lemma return_logged k : s_rr (r k) = true -> exists j, k <= j /\ lb j = ret.
Proof.
  intros Hr.
  destruct (progress r (rm_moves r lb) rm_can
              (fun s => s_rr s = true) (fun s => s_rr s = false) Hrm) with (k := k)
    as (j & Hj & Hq); auto.
  - intros s E. right; right. exact E.
  - intros j _. destruct (s_rr (r (S j))); auto.
  - intros j E Hmv. destruct (rr_next j E) as [(A & B & C)|[_ X]]; auto.
    exfalso. destruct Hmv as [[X Y]|[[X Y]|X]].
    + rewrite (B X) in Y. discriminate.
    + rewrite (C X) in Y. discriminate.
    + pose proof (Hrun j) as Hs. rewrite X in Hs. cbn in Hs. unfold vis in Hs. rewrite E in Hs.
      destruct Hs as [Hs|[]]. rewrite <- Hs in A. cbn in A. discriminate.
  - destruct (first_flip k j Hj Hr Hq) as (i & H1 & H2 & H3 & H4).
    exists i. split; auto. destruct (rr_next i H3) as [(A & _)|[X _]]; auto. congruence.
Qed.

(** a Remove call on a managed target returns *)
Theorem remove_returns k :
  s_rmc (r k) = true -> exists j, k <= j /\ lb j = ret.
Proof.
  intros Hr.
  destruct (phase_persist k (Nat.max k K - k)) as [Hp|(i & Hi & Hl)]; [left; exact Hr| |exists i; auto].
  replace (k + (Nat.max k K - k)) with (Nat.max k K) in Hp by lia.
  set (k' := Nat.max k K) in *.
  assert (Hk' : k <= k' /\ K <= k') by (unfold k'; lia).
  assert (G : forall k1, k' <= k1 -> s_rr (r k1) = true -> exists j, k <= j /\ lb j = ret).
  { intros k1 H1 E. destruct (return_logged k1 E) as (j & Hj & Hl). exists j. split; auto; lia. }
  assert (F : forall k1, k' <= k1 -> cancelled (r k1) -> exists j, k <= j /\ lb j = ret).
  { intros k1 H1 C. destruct (reach_finished 8 k1) as (j1 & Hj1 & P1 & C1); auto; try lia.
    - destruct (s_pc (r k1)); cbn; lia.
    - destruct (completion j1 C1 P1) as (j2 & Hj2 & E2). apply (G j2); auto; lia. }
  destruct Hp as [E|E]; [|apply (G k'); auto].
  destruct (s_cdone (r k')) eqn:Ec.
  - apply (F k'); auto. repeat split; auto. apply cdsd; auto.
  - destruct (cancel_happens k' E Ec) as (j & Hj & C). apply (F j); auto.
Qed.
End RemoveReturns.

(** * (4) A concrete fair run, and (3) the mutant it is told apart from *)

Definition cfgL : cfg := {| c_creds := false; c_hops := 1; c_timeout := true |}.

Definition mk (p : pc) (rmc cd sd hu : bool) (ad : addst) (rr : bool) (stl : nat) (phu : bool) : st :=
  {| s_pc := p; s_rmc := rmc; s_cdone := cd; s_sdone := sd; s_rc := RcNone; s_hu := hu;
     s_stale := stl; s_phu := phu; s_add := ad; s_x := XNone; s_rr := rr |}.

(** Add; dial, open, Send; the receive timeout fires while a message is in
    flight; the message is delivered (Connect, Sync); Remove is called and
    cancels; the stream ends, Reset, ConnectError, MonitorError; the goroutine
    exits; Remove completes and returns; nothing moves any more *)
Definition good_states : list st :=
  [ init;
    mk PLoop false false false false AddFresh false 0 false;
    mk PLoop false false false false AddNone false 0 false;
    mk PMeta false false false false AddNone false 0 false;
    mk (PConnCheck 1) false false false false AddNone false 0 false;
    mk (PDial 0) false false false false AddNone false 0 false;
    mk PSubCheck false false false false AddNone false 0 false;
    mk POpen false false false false AddNone false 0 false;
    mk PSend false false false false AddNone false 0 false;
    mk (PRecv false) false false false true AddNone false 0 false;
    mk (PRecv false) false false true true AddNone false 0 false;      (* timeout fired *)
    mk (PConnect MSync) false false true true AddNone false 0 false;   (* late message *)
    mk (PDeliver MSync) false false true true AddNone false 0 false;
    mk (PRecv true) false false true true AddNone false 0 false;
    mk (PRecv true) true false true true AddNone false 0 false;        (* Remove called *)
    mk (PRecv true) true true true true AddNone false 0 false;         (* cancelled *)
    mk PReset true true true true AddNone false 0 false;
    mk PDone true true true true AddNone false 0 false;
    mk PCE true true true true AddNone false 0 false;
    mk PME true true true true AddNone false 0 false;
    mk PLoop true true true true AddNone false 0 false;
    mk PFinished true true true true AddNone false 0 false;
    mk PIdle false false false false AddNone true 1 true;              (* Remove complete *)
    mk PIdle false false false false AddNone false 1 true ].

Definition good_labels : list (option lab) :=
  [ Some (LV EAddCalled); Some (LV (EAdd true)); Some LG; Some LG; Some LG; Some (LV (EDial true));
    Some LG; Some (LV (EOpen true)); Some (LV (ESend true)); Some LH;
    Some (LV (ERecv (RMsg MSync))); Some (LV CConnect); Some (LV CSync); Some (LV ERemoveCalled);
    Some LH; Some (LV (ERecv RCancel)); Some (LV CReset); Some (LV EDone); Some (LV CConnErr);
    Some (LV CMonErr); Some LG; Some LH; Some (LV (ERemoveReturned true)) ].

Definition last_good : st := mk PIdle false false false false AddNone false 1 true.
Definition good_run (k : nat) : st := nth k good_states last_good.
Definition good_lab (k : nat) : option lab := nth k good_labels None.

Lemma good_is_run : is_lrun cfgL good_run good_lab.
Proof.
  intros k. destruct (le_lt_dec 24 k) as [Hk|Hk].
  - assert (E : good_lab k = None) by (unfold good_lab; apply nth_overflow; cbn; lia).
    rewrite E. unfold good_run. rewrite !nth_overflow; auto; cbn; lia.
  - do 24 (destruct k as [|k]; [vm_compute; auto 12|]). lia.
Qed.

Lemma dead_state_fair (r : nat -> st) (moves : nat -> Prop) (can : st -> Prop) n sf :
  (forall j, n <= j -> r j = sf) -> ~ can sf -> wfair r moves can.
Proof.
  intros Hr Hn k. exists (Nat.max k n). split; [lia|]. right. rewrite Hr by lia. exact Hn.
Qed.

Lemma good_tail j : 24 <= j -> good_run j = last_good.
Proof. intros H. unfold good_run. apply nth_overflow. cbn. lia. Qed.

Lemma last_good_dead :
  ~ mon_can cfgL last_good /\ ~ env_can cfgL last_good /\ ~ rm_can last_good.
Proof.
  repeat split.
  - intros [H|(e & He & Hv)]; [apply H; reflexivity|].
    destruct e; cbn in He, Hv; try discriminate; congruence.
  - intros (e & He & Hv). destruct e; cbn in He, Hv; try discriminate; congruence.
  - intros [[H _]|[[H _]|H]]; cbn in H; discriminate.
Qed.

(** the hypotheses of [remove_returns] are satisfiable, with one late message
    (so [K] is not 0) ... *)
Example good_run_hypotheses :
  is_lrun cfgL good_run good_lab /\ good_run 0 = init
  /\ wfair good_run (mon_moves good_lab) (mon_can cfgL)
  /\ wfair good_run (env_moves good_lab) (env_can cfgL)
  /\ wfair good_run (rm_moves good_run good_lab) rm_can
  /\ (forall j, 11 <= j -> s_sdone (good_run j) = true ->
                forall m, good_lab j <> Some (LV (ERecv (RMsg m))))
  /\ (forall j, 11 <= j -> s_pc (good_run j) = PLoop -> s_cdone (good_run j) = true ->
                s_pc (good_run (S j)) <> PMeta)
  /\ s_rmc (good_run 14) = true.
Proof.
  destruct last_good_dead as (D1 & D2 & D3).
  split; [exact good_is_run|]. split; [reflexivity|].
  split; [apply (dead_state_fair _ _ _ 24 last_good); auto using good_tail|].
  split; [apply (dead_state_fair _ _ _ 24 last_good); auto using good_tail|].
  split; [apply (dead_state_fair _ _ _ 24 last_good); auto using good_tail|].
  split; [|split; [|reflexivity]].
  - intros j Hj _ m. destruct (le_lt_dec 24 j) as [H|H].
    + unfold good_lab. rewrite nth_overflow by (cbn; lia). discriminate.
    + do 24 (destruct j as [|j]; [try lia; vm_compute; discriminate|]). lia.
  - intros j Hj Hp Hc. destruct (le_lt_dec 24 j) as [H|H].
    + rewrite good_tail in Hp by lia. discriminate.
    + do 24 (destruct j as [|j]; [try lia; vm_compute in Hp |- *; try discriminate|]). lia.
Qed.

(** ... and its conclusion holds of this run (by the theorem) *)
Example good_run_returns : exists j, 14 <= j /\ good_lab j = Some (LV (ERemoveReturned true)).
Proof.
  destruct good_run_hypotheses as (H1 & H2 & H3 & H4 & H5 & H6 & H7 & H8).
  apply (remove_returns cfgL good_run good_lab H1 H2 H3 H4 H5 11 H6 H7 14 H8).
Qed.

(** (3) The mutant mechanism of C13/seed_vb: once the receive timer has fired
    while a message was in flight, the receive loop waits on the timer channel
    for ever, i.e. the goroutine never moves again from that control point.
    A mutant run is a run of the model in which the goroutine does not move
    from a blocked state; its fairness only asks for moves that the mutant can
    make.  In such a run a Remove never returns, although every other
    hypothesis of [remove_returns] holds. *)
Definition blocked (c : cfg) (s : st) : bool :=
  c_timeout c && s_sdone s && match s_pc s with PConnect _ | PDeliver _ => true | _ => false end.

Definition bad_states : list st :=
  firstn 12 good_states
  ++ [ mk (PConnect MSync) true false true true AddNone false 0 false;
       mk (PConnect MSync) true true true true AddNone false 0 false ].
Definition bad_labels : list (option lab) :=
  firstn 11 good_labels ++ [ Some (LV ERemoveCalled); Some LH ].
Definition last_bad : st := mk (PConnect MSync) true true true true AddNone false 0 false.
Definition bad_run (k : nat) : st := nth k bad_states last_bad.
Definition bad_lab (k : nat) : option lab := nth k bad_labels None.

Theorem remove_returns_refuted_for_blocked_receive_loop :
  is_lrun cfgL bad_run bad_lab /\ bad_run 0 = init
  /\ (forall k, mon_moves bad_lab k -> blocked cfgL (bad_run k) = false)
  /\ wfair bad_run (mon_moves bad_lab) (fun s => mon_can cfgL s /\ blocked cfgL s = false)
  /\ wfair bad_run (env_moves bad_lab) (env_can cfgL)
  /\ wfair bad_run (rm_moves bad_run bad_lab) rm_can
  /\ (forall j, 11 <= j -> s_sdone (bad_run j) = true ->
                forall m, bad_lab j <> Some (LV (ERecv (RMsg m))))
  /\ (forall j, s_pc (bad_run j) = PLoop -> s_cdone (bad_run j) = true ->
                s_pc (bad_run (S j)) <> PMeta)
  /\ s_rmc (bad_run 13) = true
  /\ forall j, bad_lab j <> Some (LV (ERemoveReturned true)).
Proof.
  assert (T : forall j, 14 <= j -> bad_run j = last_bad).
  { intros j H. unfold bad_run. apply nth_overflow. cbn. lia. }
  assert (TL : forall j, 13 <= j -> bad_lab j = None).
  { intros j H. unfold bad_lab. apply nth_overflow. cbn. lia. }
  split.
  { intros k. destruct (le_lt_dec 14 k) as [Hk|Hk].
    - rewrite TL by lia. rewrite !T by lia. reflexivity.
    - do 14 (destruct k as [|k]; [vm_compute; auto 12|]). lia. }
  split; [reflexivity|].
  split.
  { intros k Hm. destruct (le_lt_dec 13 k) as [Hk|Hk].
    - exfalso. unfold mon_moves in Hm. rewrite (TL k Hk) in Hm. destruct Hm as [X|(e & X & _)]; discriminate.
    - do 13 (destruct k as [|k]; [vm_compute; auto; unfold mon_moves in Hm;
                                  destruct Hm as [X|(e & X & Y)]; vm_compute in X; try discriminate;
                                  inversion X; subst; discriminate|]). lia. }
  split.
  { apply (dead_state_fair _ _ _ 14 last_bad); auto. intros [_ X]. vm_compute in X. discriminate. }
  split.
  { apply (dead_state_fair _ _ _ 14 last_bad); auto.
    intros (e & He & Hv). destruct e; cbn in He, Hv; try discriminate; congruence. }
  split.
  { apply (dead_state_fair _ _ _ 14 last_bad); auto.
    intros [[_ H]|[[H _]|H]]; cbn in H; discriminate. }
  split.
  { intros j Hj _ m. destruct (le_lt_dec 13 j) as [H|H].
    - rewrite TL by lia. discriminate.
    - do 13 (destruct j as [|j]; [try lia; vm_compute; discriminate|]). lia. }
  split.
  { intros j Hp Hc. destruct (le_lt_dec 14 j) as [H|H].
    - rewrite T in Hp by lia. discriminate.
    - do 14 (destruct j as [|j]; [vm_compute in Hp, Hc |- *; try discriminate|]). lia. }
  split; [reflexivity|].
  intros j. destruct (le_lt_dec 13 j) as [H|H].
  - rewrite TL by lia. discriminate.
  - do 13 (destruct j as [|j]; [vm_compute; discriminate|]). lia.
Qed.

(** * A never-removed target: a stream breaks, then the address refuses every
      dial for ever -- a fair run in which the target is retried for ever *)

Definition pre_states : list st :=
  [ init;
    mk PLoop false false false false AddFresh false 0 false;
    mk PLoop false false false false AddNone false 0 false;
    mk PMeta false false false false AddNone false 0 false;
    mk (PConnCheck 1) false false false false AddNone false 0 false;
    mk (PDial 0) false false false false AddNone false 0 false;
    mk PSubCheck false false false false AddNone false 0 false;
    mk POpen false false false false AddNone false 0 false;
    mk PSend false false false false AddNone false 0 false;
    mk (PRecv false) false false false true AddNone false 0 false;
    mk PReset false false false true AddNone false 0 false;
    mk PDone false false false true AddNone false 0 false;
    mk PCE false false false true AddNone false 0 false;
    mk PME false false false true AddNone false 0 false ].
Definition pre_labels : list (option lab) :=
  [ Some (LV EAddCalled); Some (LV (EAdd true)); Some LG; Some LG; Some LG; Some (LV (EDial true));
    Some LG; Some (LV (EOpen true)); Some (LV (ESend true)); Some (LV (ERecv RErr));
    Some (LV CReset); Some (LV EDone); Some (LV CConnErr); Some (LV CMonErr) ].
Definition cyc_states : list st :=
  [ mk PLoop false false false true AddNone false 0 false;
    mk PMeta false false false true AddNone false 0 false;
    mk (PConnCheck 1) false false false true AddNone false 0 false;
    mk (PDial 0) false false false true AddNone false 0 false;
    mk (PConnCheck 0) false false false true AddNone false 0 false;
    mk PCE false false false true AddNone false 0 false;
    mk PME false false false true AddNone false 0 false ].
Definition cyc_labels : list (option lab) :=
  [ Some LG; Some LG; Some LG; Some (LV (EDial false)); Some LG; Some (LV CConnErr);
    Some (LV CMonErr) ].

Definition retry_run (k : nat) : st :=
  if k <? 14 then nth k pre_states init else nth ((k - 14) mod 7) cyc_states init.
Definition retry_lab (k : nat) : option lab :=
  if k <? 14 then nth k pre_labels None else nth ((k - 14) mod 7) cyc_labels None.

Lemma retry_run_cyc n : retry_run (14 + n) = nth (n mod 7) cyc_states init.
Proof.
  unfold retry_run. replace (14 + n <? 14) with false by (symmetry; apply Nat.ltb_ge; lia).
  replace (14 + n - 14) with n by lia. reflexivity.
Qed.
Lemma retry_lab_cyc n : retry_lab (14 + n) = nth (n mod 7) cyc_labels None.
Proof.
  unfold retry_lab. replace (14 + n <? 14) with false by (symmetry; apply Nat.ltb_ge; lia).
  replace (14 + n - 14) with n by lia. reflexivity.
Qed.

Lemma retry_is_run : is_lrun cfgL retry_run retry_lab.
Proof.
  intros k. destruct (le_lt_dec 14 k) as [Hk|Hk].
  - replace k with (14 + (k - 14)) by lia. set (n := k - 14).
    replace (S (14 + n)) with (14 + S n) by lia.
    rewrite retry_lab_cyc, !retry_run_cyc.
    replace (S n mod 7) with (S (n mod 7) mod 7)
      by (replace (S n) with (n + 1) by lia; replace (S (n mod 7)) with (n mod 7 + 1) by lia;
          apply Nat.add_mod_idemp_l; lia).
    assert (Hi : n mod 7 < 7) by (apply Nat.mod_upper_bound; lia).
    destruct (n mod 7) as [|i]; [vm_compute; auto|].
    do 6 (destruct i as [|i]; [vm_compute; auto|]). lia.
  - do 14 (destruct k as [|k]; [vm_compute; auto 12|]). lia.
Qed.

Example retry_run_hypotheses :
  is_lrun cfgL retry_run retry_lab
  /\ (forall j, retry_lab j <> Some (LV ERemoveCalled))
  /\ wfair retry_run (mon_moves retry_lab) (mon_can cfgL)
  /\ wfair retry_run (env_moves retry_lab) (env_can cfgL)
  /\ s_pc (retry_run 10) = PReset /\ alive (retry_run 10).
Proof.
  split; [exact retry_is_run|]. split.
  { intros j. destruct (le_lt_dec 14 j) as [Hj|Hj].
    - replace j with (14 + (j - 14)) by lia. rewrite retry_lab_cyc.
      assert (Hi : (j - 14) mod 7 < 7) by (apply Nat.mod_upper_bound; lia).
      destruct ((j - 14) mod 7) as [|i]; [vm_compute; discriminate|].
      do 6 (destruct i as [|i]; [vm_compute; discriminate|]). lia.
    - do 14 (destruct j as [|j]; [vm_compute; discriminate|]). lia. }
  split.
  { intros k. exists (14 + k * 7). split; [lia|]. left. left.
    rewrite retry_lab_cyc. rewrite Nat.mod_mul by lia. reflexivity. }
  split.
  { intros k. exists (14 + (3 + k * 7)). split; [lia|]. left. exists (EDial false).
    rewrite retry_lab_cyc. rewrite Nat.mod_add by lia. split; reflexivity. }
  split; [reflexivity|split; reflexivity].
Qed.

Example retry_run_retried :
  exists j1, 10 <= j1 /\ retry_lab j1 = Some (LV CReset)
  /\ exists j2, j1 < j2 /\ s_pc (retry_run j2) = PMeta /\ s_sdone (retry_run j2) = false
                /\ alive (retry_run j2).
Proof.
  destruct retry_run_hypotheses as (H1 & H2 & H3 & H4 & H5 & H6).
  apply (retried_for_ever cfgL retry_run retry_lab H1 H2 H3 H4 10 H5 H6).
Qed.

(** * Silence after Remove, over infinite runs *)

Section Silence.
Variable c : cfg.
Variable r : nat -> st.
Variable lb : nat -> option lab.
Hypothesis Hrun : is_lrun c r lb.
Hypothesis H0 : r 0 = init.

Definition letter (k : nat) : list event := match lb k with Some (LV e) => [e] | _ => [] end.

Fixpoint seg (k d : nat) : list event :=
  match d with
  | O => []
  | S d' => seg k d' ++ letter (k + d')
  end.

Lemma trace_split k d : trace_of lb (k + d) = trace_of lb k ++ seg k d.
Proof.
  induction d as [|d IH]; cbn.
  - rewrite Nat.add_0_r, app_nil_r. reflexivity.
  - replace (k + S d) with (S (k + d)) by lia. cbn. rewrite IH, <- app_assoc. reflexivity.
Qed.

Lemma seg_in x k d : In x (seg k d) -> exists i, k <= i /\ i < k + d /\ lb i = Some (LV x).
Proof.
  induction d as [|d IH]; cbn; [intros []|]. intros H. apply in_app_or in H. destruct H as [H|H].
  - destruct (IH H) as (i & A & B & C). exists i. repeat split; auto; lia.
  - unfold letter in H. destruct (lb (k + d)) as [[| |e]|] eqn:E; cbn in H; try contradiction.
    destruct H as [->|[]]. exists (k + d). repeat split; auto; lia.
Qed.

Lemma trace_in x n : In x (trace_of lb n) -> exists i, i < n /\ lb i = Some (LV x).
Proof.
  intros H. pose proof (trace_split 0 n) as E. cbn in E. rewrite E in H.
  destruct (seg_in _ _ _ H) as (i & _ & B & C). exists i. split; auto.
Qed.

(** once Remove has returned, the target makes no callback and no environment
    query at any later step of the run, unless Add is called again (by the same
    client afterwards, or by a second client goroutine) *)
Theorem silence_after_return k j e :
  lb k = Some (LV (ERemoveReturned true)) -> k < j -> lb j = Some (LV e) -> is_gor e = true ->
  (exists i, k < i /\ i < j /\ lb i = Some (LV EAddCalled))
  \/ (exists i, i < j /\ lb i = Some (LV (XCalled KAdd))).
Proof.
  intros Hk Hkj Hj Hg.
  pose proof (lrun_prefix c r lb Hrun (S j)) as Hp. rewrite H0 in Hp.
  assert (E : trace_of lb (S j)
              = trace_of lb k ++ ERemoveReturned true :: seg (S k) (j - S k) ++ e :: []).
  { cbn. rewrite Hj. replace j with (S k + (j - S k)) at 1 by lia. rewrite trace_split.
    cbn. rewrite Hk. rewrite <- !app_assoc. reflexivity. }
  rewrite E in Hp.
  destruct (silence_after_remove _ _ _ _ _ _ Hp Hg) as [H|H].
  - left. destruct (seg_in _ _ _ H) as (i & A & B & C). exists i. repeat split; auto; lia.
  - right. apply in_app_or in H. destruct H as [H|H].
    + destruct (trace_in _ _ H) as (i & A & B). exists i. split; auto; lia.
    + destruct (seg_in _ _ _ H) as (i & A & B & C). exists i. split; auto; lia.
Qed.

(** ... and when Remove returns every stream that was opened has had its Reset *)
Theorem reset_before_return j :
  lb j = Some (LV (ERemoveReturned true)) -> quiescent (s_pc (r (S j))) = true ->
  alt false (gor (trace_of lb (S j))) = true.
Proof.
  intros _ Hq. pose proof (lrun_prefix c r lb Hrun (S j)) as Hp. rewrite H0 in Hp.
  eapply one_reset_per_stream; eauto.
Qed.
End Silence.

(** * Forced Reconnect / receive timeout: the stream is ended, then retried *)

Definition in_stream (p : pc) : bool :=
  match p with PRecv _ | PConnect _ | PDeliver _ => true | _ => false end.

Definition nu (p : pc) : nat :=
  match p with PRecv _ => 1 | PDeliver _ => 2 | PConnect _ => 3 | _ => 0 end.

Lemma stream_tau c s s' :
  In s' (tau c s) -> s_rmc s = false -> s_cdone s = false -> s_sdone s = true ->
  in_stream (s_pc s) = true ->
  s_sdone s' = true /\ (s_pc s' = s_pc s \/ (in_stream (s_pc s') = true /\ nu (s_pc s') < nu (s_pc s))).
Proof.
  destruct s as [p rmc cd sd rc hu stl phu ad xs rr]. unfold tau, managed. unrec.
  intros H -> -> -> Hp. unrec.
  destruct p; try discriminate; inv_in H; subst s'; unrec; cbn; auto.
Qed.

Lemma stream_vis c s e s' :
  In s' (vis c s e) -> s_sdone s = true -> in_stream (s_pc s) = true ->
  (forall m, e <> ERecv (RMsg m)) ->
  s_sdone s' = true
  /\ (s_pc s' = s_pc s \/ s_pc s' = PReset \/ (in_stream (s_pc s') = true /\ nu (s_pc s') < nu (s_pc s))).
Proof.
  destruct s as [p rmc cd sd rc hu stl phu ad xs rr]. unfold vis, managed, x_none. unrec.
  intros H -> Hp Hm. unrec.
  destruct p; try discriminate; destruct e; inv_in H; subst s'; unrec; cbn; auto;
    try (exfalso; eapply Hm; reflexivity).
  all: split; auto; right; right; split; auto; lia.
Qed.

Section ForcedReconnect.
Variable c : cfg.
Variable r : nat -> st.
Variable lb : nat -> option lab.
Hypothesis Hrun : is_lrun c r lb.
Hypothesis Hnorm : forall j, lb j <> Some (LV ERemoveCalled).
Hypothesis Hmon : wfair r (mon_moves lb) (mon_can c).
Hypothesis Henv : wfair r (env_moves lb) (env_can c).
(** a stream whose context is done delivers no further message *)
Hypothesis Hquiet : forall j, s_sdone (r j) = true -> forall m, lb j <> Some (LV (ERecv (RMsg m))).

Definition doomed (s : st) : Prop := alive s /\ s_sdone s = true.

Lemma doomed_step j :
  doomed (r j) -> in_stream (s_pc (r j)) = true ->
  doomed (r (S j))
  /\ (s_pc (r (S j)) = s_pc (r j) \/ s_pc (r (S j)) = PReset
      \/ (in_stream (s_pc (r (S j))) = true /\ nu (s_pc (r (S j))) < nu (s_pc (r j)))).
Proof.
  intros [[A B] D] Hs. pose proof (alive_step c r lb Hrun Hnorm j (conj A B)) as [A1 A2].
  pose proof (Hrun j) as Hl. destruct (lb j) as [[| |e]|] eqn:El; cbn in Hl.
  - apply gtau_tau in Hl. destruct (stream_tau _ _ _ Hl A B D Hs) as [X [Y|Y]]; repeat split; auto.
  - destruct (stream_tau _ _ _ Hl A B D Hs) as [X [Y|Y]]; repeat split; auto.
  - destruct (stream_vis c (r j) e _ Hl D Hs) as [X Y].
    + intros m ->. exact (Hquiet j D m El).
    + repeat split; auto.
  - rewrite Hl. repeat split; auto.
Qed.

Lemma stream_owner_can s :
  s_sdone s = true -> in_stream (s_pc s) = true ->
  match s_pc s with PRecv _ => env_can c s | _ => mon_can c s end.
Proof.
  intros D Hs. destruct (s_pc s) as [ | | |n|l| | | |b|m|m| | | | | ] eqn:E; try discriminate.
  - exists (ERecv RErr). split; auto. unfold vis. rewrite E. discriminate.
  - right. exists CConnect. split; auto. unfold vis. rewrite E. discriminate.
  - destruct m.
    + right. exists (CUpdate n). split; auto. unfold vis. rewrite E, Z.eqb_refl. discriminate.
    + right. exists CSync. split; auto. unfold vis. rewrite E. discriminate.
    + left. unfold gtau. rewrite E. discriminate.
    + left. unfold gtau. rewrite E. discriminate.
Qed.

Lemma stream_owner_moves j :
  match s_pc (r j) with PRecv _ => env_moves lb j | _ => mon_moves lb j end ->
  s_pc (r (S j)) <> s_pc (r j).
Proof.
  pose proof (Hrun j) as Hs. destruct (s_pc (r j)) eqn:E; rewrite <- E.
  all: try (intros [Hl|(e & Hl & He)]; rewrite Hl in Hs; cbn in Hs;
            [eapply gtau_moves; eauto|eapply gor_letter_moves; eauto; apply callback_gor; auto]).
  intros (e & Hl & He). rewrite Hl in Hs. cbn in Hs.
  eapply gor_letter_moves; eauto. apply envq_gor; auto.
Qed.

Lemma forced_reconnect_resets n : forall k,
  doomed (r k) -> in_stream (s_pc (r k)) = true -> nu (s_pc (r k)) <= n ->
  exists j, k <= j /\ s_pc (r j) = PReset /\ alive (r j).
Proof.
  induction n as [|n IH]; intros k HD Hs Hn.
  - destruct (s_pc (r k)); cbn in Hs, Hn; try discriminate; lia.
  - remember (s_pc (r k)) as p eqn:Ep.
    set (P := fun s => doomed s /\ s_pc s = p).
    set (Q := fun s => doomed s /\ (s_pc s = PReset \/ (in_stream (s_pc s) = true /\ nu (s_pc s) < nu p))).
    assert (Hstay : forall j, P (r j) -> P (r (S j)) \/ Q (r (S j))).
    { intros j [Dj Ej]. destruct (doomed_step j Dj) as [D' [X|[X|X]]]; try (rewrite Ej; auto).
      - left. split; auto. congruence.
      - right. split; auto.
      - right. split; auto. right. rewrite <- Ej. exact X. }
    assert (G : exists j, k <= j /\ Q (r j)).
    { destruct p as [ | | |n0|l| | | |b|m|m| | | | | ]; try discriminate.
      - apply (progress r (env_moves lb) (env_can c) P Q Henv); auto.
        + intros s [[_ D] E]. pose proof (stream_owner_can s D) as X. rewrite E in X. apply X. reflexivity.
        + intros j [Dj Ej] Hm. pose proof (stream_owner_moves j) as X. rewrite Ej in X.
          destruct (Hstay j (conj Dj Ej)) as [[_ Y]|Y]; auto. exfalso. apply (X Hm). congruence.
        + split; auto.
      - apply (progress r (mon_moves lb) (mon_can c) P Q Hmon); auto.
        + intros s [[_ D] E]. pose proof (stream_owner_can s D) as X. rewrite E in X. apply X. reflexivity.
        + intros j [Dj Ej] Hm. pose proof (stream_owner_moves j) as X. rewrite Ej in X.
          destruct (Hstay j (conj Dj Ej)) as [[_ Y]|Y]; auto. exfalso. apply (X Hm). congruence.
        + split; auto.
      - apply (progress r (mon_moves lb) (mon_can c) P Q Hmon); auto.
        + intros s [[_ D] E]. pose proof (stream_owner_can s D) as X. rewrite E in X. apply X. reflexivity.
        + intros j [Dj Ej] Hm. pose proof (stream_owner_moves j) as X. rewrite Ej in X.
          destruct (Hstay j (conj Dj Ej)) as [[_ Y]|Y]; auto. exfalso. apply (X Hm). congruence.
        + split; auto. }
    destruct G as (j & Hj & Dj & [X|[X Y]]).
    + exists j. split; auto. split; auto. apply Dj.
    + destruct (IH j Dj X) as (j' & Hj' & Pj' & Aj'); [lia|]. exists j'. split; auto; lia.
Qed.

(** a forced Reconnect or a receive timeout ([s_sdone] set while a stream is
    open) of a target that is never removed is followed by the stream's Reset
    and by a new connection attempt *)
Theorem forced_reconnect_retried k :
  doomed (r k) -> in_stream (s_pc (r k)) = true ->
  exists j1, k <= j1 /\ lb j1 = Some (LV CReset)
  /\ exists j2, j1 < j2 /\ s_pc (r j2) = PMeta /\ s_sdone (r j2) = false /\ alive (r j2).
Proof.
  intros HD Hs.
  destruct (forced_reconnect_resets 3 k HD Hs) as (j & Hj & Pj & Aj).
  { destruct (s_pc (r k)); cbn; lia. }
  destruct (retried_for_ever c r lb Hrun Hnorm Hmon Henv j Pj Aj) as (j1 & H1 & L1 & j2 & H2 & R2).
  exists j1. split; [lia|]. split; auto. exists j2. auto.
Qed.
End ForcedReconnect.

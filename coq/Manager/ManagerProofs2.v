(** Further proofs about the manager model (C13): enabledness of the retry
    loop, declarative reading of the stream monitor, attribution of
    cancellations, concrete witnesses. *)
From Coq Require Import List Bool ZArith NArith Arith Lia.
Import ListNotations.
From Gnmi Require Import Manager.ManagerModel Manager.ManagerCheck Manager.ManagerProofs.

Ltac unrec0 := cbn [s_pc s_rmc s_cdone s_sdone s_rc s_hu s_stale s_phu s_add s_x s_rr set_pc] in *.

(** * Declarative readings of K4 *)

Fixpoint no_remove_ok (tr : list event) : bool :=
  match tr with
  | [] => true
  | ERemoveReturned true :: _ | XReturned KRemove true :: _ => false
  | _ :: tr' => no_remove_ok tr'
  end.

Fixpoint no_add_ok (tr : list event) : bool :=
  match tr with
  | [] => true
  | EAdd true :: _ | XReturned KAdd true :: _ => false
  | _ :: tr' => no_add_ok tr'
  end.

Lemma k_refuse_stays_managed l : forall m rmp ok,
  m <> 0 -> no_remove_ok l = true -> k_refuse_n m rmp (l ++ [EAdd ok]) = true -> ok = false.
Proof.
  induction l as [|e l IH]; intros m rmp ok Hm Hn H.
  - cbn in H. apply andb_true_iff in H. destruct H as [H _].
    apply Nat.eqb_neq in Hm. rewrite Hm in H. destruct ok; auto; discriminate.
  - assert (K : forall m' rmp', m' <> 0 -> k_refuse_n m' rmp' (l ++ [EAdd ok]) = true -> ok = false).
    { intros m' rmp' Hm' H'. eapply IH; [exact Hm'| |exact H'].
      destruct e; cbn in Hn; auto; try (destruct ok0; auto; discriminate).
      destruct k; auto; destruct ok0; auto; discriminate. }
    destruct e; cbn in H; try (eapply K; eauto; fail).
    + apply andb_true_iff in H. destruct H as [_ H]. destruct ok0; eapply K; try exact H; lia.
    + apply andb_true_iff in H. destruct H as [_ H]. eapply K; eauto.
    + cbn in Hn. destruct ok0; [discriminate|]. apply andb_true_iff in H. destruct H as [_ H].
      eapply K; eauto.
    + cbn in Hn. destruct k; try (destruct ok0; [discriminate|]);
        apply andb_true_iff in H; destruct H as [_ H]; try (destruct ok0);
        eapply K; try exact H; lia.
    + apply andb_true_iff in H. destruct H as [_ H]. eapply K; eauto.
Qed.

Lemma k_refuse_suffix a : forall m rmp b,
  k_refuse_n m rmp (a ++ b) = true -> exists m' rmp', k_refuse_n m' rmp' b = true.
Proof.
  induction a as [|e a IH]; intros m rmp b H; cbn in H; eauto.
  destruct e; try (eapply IH; eauto; fail);
    try (apply andb_true_iff in H; destruct H as [_ H]; eauto; fail).
  destruct k; apply andb_true_iff in H; destruct H as [_ H]; eauto.
Qed.

Lemma duplicate_add_refused_k a l ok :
  k_refuse (a ++ EAdd true :: l ++ [EAdd ok]) = true -> no_remove_ok l = true -> ok = false.
Proof.
  unfold k_refuse. intros H Hn. apply k_refuse_suffix in H. destruct H as (m & rmp & H).
  cbn in H. apply andb_true_iff in H. destruct H as [_ H].
  eapply k_refuse_stays_managed; [|exact Hn|exact H]. lia.
Qed.

Lemma unknown_remove_refused_k l : forall ok,
  k_refuse_n 0 false (l ++ [ERemoveReturned ok]) = true -> no_add_ok l = true -> ok = false.
Proof.
  induction l as [|e l IH]; intros ok H Hn.
  - cbn in H. destruct ok; auto; discriminate.
  - destruct e; cbn in Hn, H; try (eapply IH; eauto; fail).
    + destruct ok0; cbn in *; try discriminate.
    + destruct ok0; cbn in *; try discriminate. eapply IH; eauto.
    + destruct ok0; cbn in *; try discriminate. eapply IH; eauto.
    + destruct k, ok0; cbn in *; try discriminate; eapply IH; eauto.
    + destruct ok0; cbn in *; try discriminate. eapply IH; eauto.
Qed.

(** what acceptance of a log by the model implies for the log itself *)
Lemma accepts_spec c tr :
  accepts c tr = true ->
  emits c tr /\ sessions (callbacks tr) /\ k_stream tr = true /\ k_silence tr = true
  /\ k_refuse tr = true.
Proof.
  intros H. destruct (accepts_sound _ _ H) as (s & Hrun & Hf). apply final_quiescent in Hf.
  repeat split.
  - exists s; auto.
  - eapply model_sessions; eauto.
  - eapply model_k_stream; eauto.
  - eapply model_silence; eauto.
  - eapply model_refusals; eauto.
Qed.

(** * Concrete logs (non-vacuity of every theorem about [emits]) *)

Definition cfg0 : cfg := {| c_creds := false; c_hops := 1; c_timeout := false |}.
Definition cfg1 : cfg := {| c_creds := true; c_hops := 2; c_timeout := true |}.

(** dial refused; stream that breaks before data; data then EOF; Remove in the
    next stream; the name is added again and removed during backoff *)
Definition log0 : list event :=
  [EAddCalled; EAdd true;
   EDial false; CConnErr; CMonErr;
   EDial true; EOpen true; ESend true; ERecv RErr; CReset; EDone; CConnErr; CMonErr;
   EDial true; EOpen true; ESend true; ERecv (RMsg (MUpdate 1)); CConnect; CUpdate 1;
   ERecv (RMsg MSync); CSync; ERecv (RMsg MErrResp); ERecv (RMsg (MUpdate 2)); CUpdate 2;
   ERecv REof; CReset; EDone; CConnErr; CMonErr;
   EDial true; EOpen true; ESend true; ERecv (RMsg MSync); CConnect; CSync;
   EReconnectCalled; ERecv RCancel; EReconnectReturned true; CReset; EDone; CConnErr; CMonErr;
   EDial true; EOpen false; EDone; CConnErr; CMonErr;
   EAddCalled; EAdd false;
   EDial true; EOpen true; ESend true; ERemoveCalled; ERecv RCancel; CReset; EDone; CConnErr; CMonErr;
   CConnErr; CMonErr;   (* the select race: one more attempt on a cancelled context *)
   ERemoveReturned true;
   ERemoveCalled; ERemoveReturned false;
   EAddCalled; EDial true; EAdd true; EOpen true; ESend false; EDone; CConnErr; CMonErr;
   ERemoveCalled; ERemoveReturned true].

Example log0_accepted : accepts cfg0 log0 = true.
Proof. vm_compute. reflexivity. Qed.

Example log0_emitted : emits cfg0 log0.
Proof. destruct (accepts_sound _ _ log0_accepted) as (s & H & _). exists s; auto. Qed.

(** credentials failure, two hops, receive timeout ending a silent stream *)
Definition log1 : list event :=
  [EAddCalled; EAdd true;
   ECred false; CConnErr; CMonErr;
   ECred true; EDial false; EDial false; CConnErr; CMonErr;
   ECred true; EDial false; EDial true; EOpen true; ESend true; ERecv RCancel; CReset; EDone;
   CConnErr; CMonErr;
   ERemoveCalled; ERemoveReturned true].

Example log1_accepted : accepts cfg1 log1 = true.
Proof. vm_compute. reflexivity. Qed.

(** the receive timer racing with a message in flight: the timeout goroutine
    has already cancelled the stream (hidden step) and Recv still hands over a
    message; it is delivered, the next Recv fails, Reset / ConnectError /
    MonitorError follow and Remove returns *)
Definition cfgT : cfg := {| c_creds := false; c_hops := 1; c_timeout := true |}.

Example late_message_after_timeout :
  existsb (fun s => pc_eqb (s_pc s) (PRecv false) && s_sdone s)
          (reach_set cfgT [EAddCalled; EAdd true; EDial true; EOpen true; ESend true]) = true
  /\ accepts cfgT [EAddCalled; EAdd true; EDial true; EOpen true; ESend true;
                   ERecv (RMsg (MUpdate 1)); CConnect; CUpdate 1; ERecv RCancel; CReset; EDone;
                   CConnErr; CMonErr; EDial true; EOpen true; ESend true; ERemoveCalled;
                   ERecv (RMsg MSync); CConnect; CSync; ERecv RCancel; CReset; EDone; CConnErr;
                   CMonErr; ERemoveReturned true] = true.
Proof. vm_compute. split; reflexivity. Qed.

(** the model refuses what the property forbids: Connect before data, a second
    Reset, a callback after Remove returned, a stream ended without Reset *)
Example bad_connect_early :
  accepts cfg0 [EAddCalled; EAdd true; EDial true; EOpen true; ESend true; CConnect] = false.
Proof. vm_compute. reflexivity. Qed.

Example bad_callback_after_remove :
  reach_set cfg0 [EAddCalled; EAdd true; EDial false; CConnErr; ERemoveCalled;
                  ERemoveReturned true] = [].
Proof. vm_compute. reflexivity. Qed.

(** * retry_forever: enabledness of the retry loop while the name is managed *)

(** the goroutine is never stuck, and wherever it waits for the environment it
    accepts every answer *)
Definition gor_ready (c : cfg) (s : st) : Prop :=
  match s_pc s with
  | PIdle | PFinished => True
  | PLoop | PConnCheck _ | PSubCheck | PDeliver MErrResp | PDeliver MNil =>
      exists s', In s' (tau c s) /\ s_pc s' <> s_pc s
  | PMeta => if c_creds c then forall ok, vis c s (ECred ok) <> []
             else exists s', In s' (tau c s) /\ s_pc s' <> s_pc s
  | PDial _ => forall ok, vis c s (EDial ok) <> []
  | POpen => forall ok, vis c s (EOpen ok) <> []
  | PSend => forall ok, vis c s (ESend ok) <> []
  | PRecv _ => (forall r, r <> RCancel -> vis c s (ERecv r) <> [])
               /\ (s_sdone s = true -> vis c s (ERecv RCancel) <> [])
  | PConnect _ => vis c s CConnect <> []
  | PDeliver (MUpdate n) => vis c s (CUpdate n) <> []
  | PDeliver MSync => vis c s CSync <> []
  | PReset => vis c s CReset <> []
  | PDone => vis c s EDone <> []
  | PCE => vis c s CConnErr <> []
  | PME => vis c s CMonErr <> []
  end.

Lemma set_pc_pc s p : s_pc (set_pc s p) = p.
Proof. reflexivity. Qed.

Lemma tau_goroutine c s s' :
  In s' (match s_pc s with
         | PLoop =>
             (if s_cdone s then [set_pc s PFinished] else [])
               ++ [{| s_pc := PMeta; s_rmc := s_rmc s; s_cdone := s_cdone s; s_sdone := s_cdone s;
                      s_rc := s_rc s; s_hu := s_hu s; s_stale := s_stale s; s_phu := s_phu s;
                      s_add := s_add s; s_x := s_x s; s_rr := s_rr s |}]
         | PMeta => if c_creds c then [] else [set_pc s (PConnCheck (c_hops c))]
         | PConnCheck lft =>
             match lft with
             | O => [set_pc s PCE]
             | S l => if s_sdone s then [set_pc s PCE] else [set_pc s (PDial l)]
             end
         | PSubCheck => if s_sdone s then [set_pc s PDone] else [set_pc s POpen]
         | PDeliver MErrResp | PDeliver MNil => [set_pc s (PRecv true)]
         | _ => []
         end) -> In s' (tau c s).
Proof. intros H. unfold tau. repeat (apply in_or_app; right). exact H. Qed.

Lemma goroutine_enabled c s : gor_ready c s.
Proof.
  unfold gor_ready. destruct s as [p rmc cd sd rc hu stl phu ad xs rr].
  destruct p as [ | | |n|l| | | |b|m|m| | | | | ]; cbn [s_pc]; auto;
    try (cbn; intros; discriminate).
  - (* PLoop *)
    eexists. split; [apply tau_goroutine; cbn; apply in_or_app; right; left; reflexivity|cbn; discriminate].
  - (* PMeta *)
    destruct (c_creds c) eqn:E.
    + intros ok. cbn. rewrite E. discriminate.
    + eexists. split; [apply tau_goroutine; cbn; rewrite E; left; reflexivity|cbn; discriminate].
  - (* PConnCheck *)
    destruct n.
    + eexists. split; [apply tau_goroutine; cbn; left; reflexivity|cbn; discriminate].
    + destruct sd.
      * eexists. split; [apply tau_goroutine; cbn; left; reflexivity|cbn; discriminate].
      * eexists. split; [apply tau_goroutine; cbn; left; reflexivity|cbn; discriminate].
  - (* PSubCheck *)
    destruct sd; eexists; (split; [apply tau_goroutine; cbn; left; reflexivity|cbn; discriminate]).
  - (* PSend *) intros ok. cbn. destruct ok; discriminate.
  - (* PRecv *)
    split.
    + intros r Hr. cbn. destruct r; try discriminate. congruence.
    + cbn. intros ->. discriminate.
  - (* PDeliver *)
    destruct m; cbn.
    + rewrite Z.eqb_refl. discriminate.
    + discriminate.
    + eexists. split; [apply tau_goroutine; cbn; left; reflexivity|cbn; discriminate].
    + eexists. split; [apply tau_goroutine; cbn; left; reflexivity|cbn; discriminate].
Qed.

(** the loop is left only towards the next attempt unless the context was
    cancelled, ... *)
Lemma loop_retries c s :
  s_pc s = PLoop -> s_cdone s = false ->
  (exists s', In s' (tau c s) /\ s_pc s' = PMeta)
  /\ (forall s', In s' (tau c s) -> s_pc s' = PLoop \/ s_pc s' = PMeta).
Proof.
  intros Hp Hc. split.
  - eexists. split; [apply tau_goroutine; rewrite Hp, Hc; cbn; left; reflexivity|reflexivity].
  - intros s' Hin. pose proof (tau_pc _ _ _ Hin) as [E|E]; [left; congruence|].
    rewrite Hp in E. cbn in E. destruct E as [E|[E|[]]]; auto.
    (* PFinished needs cdone *)
    exfalso. unfold tau in Hin. rewrite Hp, Hc in Hin. cbn in Hin.
    inv_in Hin; subst; cbn in *; congruence.
Qed.

(** ... the context is cancelled only by Remove, and the goroutine ends only
    then *)
Lemma cancelled_only_by_remove c tr s :
  run c init tr s -> s_cdone s = true -> s_rmc s = true.
Proof.
  intros H Hc. apply reachable_wf in H. unfold wfb in H.
  repeat (apply andb_true_iff in H; destruct H as [H ?]).
  rewrite Hc in *. destruct (s_rmc s); auto.
Qed.

Lemma finished_only_after_remove c tr s :
  run c init tr s -> s_pc s = PFinished -> s_rmc s = true.
Proof.
  intros H Hp. eapply cancelled_only_by_remove; eauto.
  apply reachable_wf in H. unfold wfb in H.
  repeat (apply andb_true_iff in H; destruct H as [H ?]).
  rewrite Hp in *. destruct (s_cdone s); auto.
Qed.

(** a failed attempt always comes back to the loop *)
Lemma failure_returns_to_loop c s :
  s_pc s = PCE -> run c s [CConnErr; CMonErr] (set_pc s PLoop).
Proof.
  intros Hp. eapply run_vis with (s' := set_pc s PME).
  - cbn. rewrite Hp. left; reflexivity.
  - eapply run_vis with (s' := set_pc (set_pc s PME) PLoop).
    + cbn. left; reflexivity.
    + destruct s; cbn. constructor.
Qed.

(** * Declarative reading of the stream monitor (K2 soundness) *)

Definition gor (tr : list event) : list event := filter is_gor tr.

Fixpoint body (conn : bool) (ms : list msg) : list event :=
  match ms with
  | [] => []
  | x :: r => ERecv (RMsg x) :: (if conn then [] else [CConnect]) ++ deliver x ++ body true r
  end.

Definition is_end (r : rres) : Prop := match r with RMsg _ => False | _ => True end.

Definition out_letter (e : event) : Prop :=
  match e with
  | ECred _ | EDial _ | EDone | EOpen _ | ESend false | CConnErr | CMonErr => True
  | _ => False
  end.

(** the goroutine's letters of a log: letters outside streams, and streams
    [Send ok; (Recv msg; [Connect if first]; its callback)*; Recv failure; Reset] *)
Inductive wf_log : list event -> Prop :=
| wf_nil : wf_log []
| wf_out e g : out_letter e -> wf_log g -> wf_log (e :: g)
| wf_stream ms r g :
    is_end r -> wf_log g -> wf_log (ESend true :: body false ms ++ ERecv r :: CReset :: g).

Lemma mrun_gor m tr : mrun m tr = mrun m (gor tr).
Proof.
  revert m; induction tr as [|e tr IH]; intros m; cbn; auto.
  unfold is_gor at 1. destruct (is_marker e) eqn:E; cbn.
  - unfold mstep at 1. rewrite E. apply IH.
  - destruct (mstep m e); auto.
Qed.

Lemma event_eqb_eq x e : event_eqb x e = true -> x = e.
Proof.
  destruct x, e; cbn; try discriminate; auto. intros H. apply Z.eqb_eq in H. congruence.
Qed.

Lemma gor_all tr : Forall (fun e => is_marker e = false) (gor tr).
Proof.
  unfold gor. apply Forall_forall. intros e H. apply filter_In in H. destruct H as [_ H].
  unfold is_gor in H. destruct (is_marker e); auto; discriminate.
Qed.

Lemma mrun_want l : forall after g m',
  Forall (fun e => is_marker e = false) g ->
  mrun (want l after) g = Some m' -> (l = [] \/ m' = MOut) ->
  (exists g2, g = l ++ g2 /\ mrun after g2 = Some m').
Proof.
  induction l as [|x l IH]; intros after g m' Hg H Hm.
  - exists g; auto.
  - cbn [want] in H. destruct g as [|e g].
    + cbn in H. destruct Hm as [Hm|Hm]; [discriminate|]. inversion H; subst. discriminate.
    + inversion Hg as [|? ? Hm0 Hg']; subst. cbn in H. unfold mstep in H. rewrite Hm0 in H.
      destruct (event_eqb x e) eqn:E; [|discriminate]. apply event_eqb_eq in E; subst.
      destruct (IH after g m' Hg' H) as (g2 & -> & H2).
      * right. destruct Hm as [Hm|Hm]; [discriminate|auto].
      * exists g2; auto.
Qed.

Lemma in_stream_split n : forall g conn,
  length g <= n -> Forall (fun e => is_marker e = false) g ->
  mrun (MIn conn) g = Some MOut ->
  exists ms r g', g = body conn ms ++ ERecv r :: CReset :: g' /\ is_end r
                  /\ mrun MOut g' = Some MOut /\ length g' < length g.
Proof.
  induction n as [|n IH]; intros g conn Hl Hg H.
  - destruct g; [cbn in H; discriminate|cbn in Hl; lia].
  - destruct g as [|e g]; [cbn in H; discriminate|].
    inversion Hg as [|? ? Hm0 Hg']; subst. cbn in H. unfold mstep in H. rewrite Hm0 in H.
    destruct e; try discriminate. destruct r as [x| | |].
    + (* a message *)
      apply mrun_want in H; auto. destruct H as (g2 & -> & H2).
      assert (Hg2 : Forall (fun e => is_marker e = false) g2).
      { apply Forall_app in Hg'. tauto. }
      cbn in Hl. rewrite app_length in Hl.
      destruct (IH g2 true) as (ms & r & g' & -> & He & Hr & Hlen); auto; [lia|].
      exists (x :: ms), r, g'. repeat split; auto.
      * cbn. rewrite <- !app_assoc. reflexivity.
      * cbn. rewrite !app_length. cbn. rewrite !app_length in Hlen. cbn in Hlen. lia.
    + destruct g as [|e1 g]; [cbn in H; discriminate|].
      inversion Hg' as [|? ? Hm1 Hg'']; subst. cbn in H. unfold mstep in H. rewrite Hm1 in H.
      destruct (event_eqb CReset e1) eqn:E; [|discriminate]. apply event_eqb_eq in E; subst.
      exists [], RErr, g. cbn. repeat split; auto.
    + destruct g as [|e1 g]; [cbn in H; discriminate|].
      inversion Hg' as [|? ? Hm1 Hg'']; subst. cbn in H. unfold mstep in H. rewrite Hm1 in H.
      destruct (event_eqb CReset e1) eqn:E; [|discriminate]. apply event_eqb_eq in E; subst.
      exists [], REof, g. cbn. repeat split; auto.
    + destruct g as [|e1 g]; [cbn in H; discriminate|].
      inversion Hg' as [|? ? Hm1 Hg'']; subst. cbn in H. unfold mstep in H. rewrite Hm1 in H.
      destruct (event_eqb CReset e1) eqn:E; [|discriminate]. apply event_eqb_eq in E; subst.
      exists [], RCancel, g. cbn. repeat split; auto.
Qed.

Lemma wf_of_mrun n : forall g,
  length g <= n -> Forall (fun e => is_marker e = false) g ->
  mrun MOut g = Some MOut -> wf_log g.
Proof.
  induction n as [|n IH]; intros g Hl Hg H.
  - destruct g; [constructor|cbn in Hl; lia].
  - destruct g as [|e g]; [constructor|].
    inversion Hg as [|? ? Hm0 Hg']; subst. cbn in H, Hl. unfold mstep in H. rewrite Hm0 in H.
    destruct e; try discriminate; try (apply wf_out; [exact I|apply IH; auto; lia]).
    destruct ok.
    + destruct (in_stream_split (length g) g false) as (ms & r & g' & -> & He & Hr & Hlen); auto.
      apply wf_stream; auto. apply IH; auto; [lia|].
      apply Forall_app in Hg'. destruct Hg' as [_ Hg']. inversion Hg'; subst.
      inversion H3; auto.
    + apply wf_out; [exact I|apply IH; auto; lia].
Qed.

Lemma k_stream_sound tr : k_stream tr = true -> wf_log (gor tr).
Proof.
  unfold k_stream. rewrite mrun_gor. destruct (mrun MOut (gor tr)) as [[]|] eqn:E; try discriminate.
  intros _. eapply wf_of_mrun; eauto. apply gor_all.
Qed.

Lemma model_wf_log c tr s :
  run c init tr s -> quiescent (s_pc s) = true -> wf_log (gor tr).
Proof. intros. apply k_stream_sound. eapply model_k_stream; eauto. Qed.

(** * Local order: what immediately precedes Connect / Update / Sync *)

Definition hstep (h : list event) (e : event) : option (list event) :=
  Some (if is_gor e then h ++ [e] else h).

Lemma orun_hstep tr : forall h, orun hstep h tr = Some (h ++ gor tr).
Proof.
  induction tr as [|e tr IH]; intros h; cbn; [now rewrite app_nil_r|].
  rewrite IH. destruct (is_gor e); cbn; auto. now rewrite <- app_assoc.
Qed.

Definition ends_with (h suf : list event) : Prop := exists a, h = a ++ suf.

Definition Rhist (p : pc) (h : list event) : Prop :=
  match p with
  | PRecv false => ends_with h [ESend true]
  | PConnect x => ends_with h [ESend true; ERecv (RMsg x)]
  | PDeliver x => ends_with h [ERecv (RMsg x)] \/ ends_with h [ERecv (RMsg x); CConnect]
  | _ => True
  end.

Lemma Rhist_tau c p p' h : In p' (tpc c p) -> Rhist p h -> Rhist p' h.
Proof.
  destruct p as [ | | |n|l| | | |b|x|x| | | | | ]; cbn; intros H; inv_in H; subst; cbn; auto.
Qed.

Lemma Rhist_vis c p e p' h :
  In p' (vpc c p e) -> Rhist p h -> exists h', hstep h e = Some h' /\ Rhist p' h'.
Proof.
  unfold hstep. intros H HR. eexists; split; [reflexivity|].
  destruct e as [ |ok| |ok| |ok| | |ok|ok| |ok|ok|r| |n| | | | |k|k ok| | |ok]; cbn in *;
    inv_in H; subst; cbn in *; auto.
  all: try (destruct p; cbn in *; auto; fail).
  - destruct ok; cbn; auto.
  - destruct ok; cbn; auto.
  - destruct ok; cbn; auto.
  - (* ESend *) destruct ok; cbn; auto. exists h; auto.
  - (* ERecv message *)
    destruct connected; cbn.
    + left. exists h; auto.
    + destruct HR as (a & ->). exists a. rewrite <- app_assoc. reflexivity.
  - (* CConnect *)
    right. destruct HR as (a & ->). exists (a ++ [ESend true]). rewrite <- !app_assoc. reflexivity.
Qed.

Lemma model_history c tr s : run c init tr s -> Rhist (s_pc s) (gor tr).
Proof.
  intros H.
  destruct (simulation hstep Rhist c (Rhist_tau c) (Rhist_vis c) _ _ _ H [] I) as (h & Hh & HR).
  rewrite orun_hstep in Hh. inversion Hh; subst. exact HR.
Qed.

Lemma run_app_inv c : forall a s b s',
  run c s (a ++ b) s' -> exists s1, run c s a s1 /\ run c s1 b s'.
Proof.
  intros a s b s' H. remember (a ++ b) as tr eqn:E. revert a b E.
  induction H as [s|s s1 tr s2 Hin Hrun IH|s e s1 tr s2 Hin Hrun IH]; intros a b E.
  - destruct a; [|discriminate]. cbn in E; subst. exists s; split; constructor.
  - destruct (IH _ _ E) as (s3 & H1 & H2). exists s3; split; auto. eapply run_tau; eauto.
  - destruct a as [|x a]; cbn in E.
    + subst b. exists s; split; [constructor|]. eapply run_vis; eauto.
    + inversion E; subst. destruct (IH _ _ eq_refl) as (s3 & H1 & H2).
      exists s3; split; auto. eapply run_vis; eauto.
Qed.

(** a state from which the letter [e] can be produced next (after hidden steps) *)
Lemma run_head_pc c s e b s' :
  run c s (e :: b) s' -> exists s1, run c s [] s1 /\ vis c s1 e <> [].
Proof.
  intros H. remember (e :: b) as tr eqn:E. revert E.
  induction H as [s|s s1 tr s2 Hin Hrun IH|s e0 s1 tr s2 Hin Hrun IH]; intros E.
  - discriminate.
  - destruct (IH E) as (s3 & H1 & H2). exists s3; split; auto. eapply run_tau; eauto.
  - inversion E; subst. exists s; split; [constructor|]. intros Hn. rewrite Hn in Hin. destruct Hin.
Qed.

Lemma connect_after_first_msg c a b s :
  run c init (a ++ CConnect :: b) s ->
  exists a' x, gor a = a' ++ [ESend true; ERecv (RMsg x)].
Proof.
  intros H. apply run_app_inv in H. destruct H as (s1 & H1 & H2).
  apply run_head_pc in H2. destruct H2 as (s2 & Ht & Hv).
  assert (H3 : run c init a s2).
  { rewrite <- (app_nil_r a). eapply run_app; eauto. }
  apply model_history in H3. unfold vis in Hv.
  destruct (s_pc s2); try congruence. cbn in H3. destruct H3 as (a' & E). eauto.
Qed.

Lemma update_after_its_message c a n b s :
  run c init (a ++ CUpdate n :: b) s ->
  ends_with (gor a) [ERecv (RMsg (MUpdate n))]
  \/ ends_with (gor a) [ERecv (RMsg (MUpdate n)); CConnect].
Proof.
  intros H. apply run_app_inv in H. destruct H as (s1 & H1 & H2).
  apply run_head_pc in H2. destruct H2 as (s2 & Ht & Hv).
  assert (H3 : run c init a s2).
  { rewrite <- (app_nil_r a). eapply run_app; eauto. }
  apply model_history in H3. unfold vis in Hv.
  destruct (s_pc s2); try congruence. destruct m; try congruence. cbn in H3.
  destruct (Z.eqb n n0) eqn:E; [|congruence]. apply Z.eqb_eq in E; subst. exact H3.
Qed.

Lemma sync_after_its_message c a b s :
  run c init (a ++ CSync :: b) s ->
  ends_with (gor a) [ERecv (RMsg MSync)] \/ ends_with (gor a) [ERecv (RMsg MSync); CConnect].
Proof.
  intros H. apply run_app_inv in H. destruct H as (s1 & H1 & H2).
  apply run_head_pc in H2. destruct H2 as (s2 & Ht & Hv).
  assert (H3 : run c init a s2).
  { rewrite <- (app_nil_r a). eapply run_app; eauto. }
  apply model_history in H3. unfold vis in Hv.
  destruct (s_pc s2); try congruence. destruct m; try congruence. exact H3.
Qed.

(** * Silence, refusals and overlapping calls, on runs *)

Lemma vis_gor_managed c s e : is_gor e = true -> vis c s e <> [] -> managed s = true.
Proof.
  intros Hg Hv. unfold managed. destruct (s_pc s) eqn:E; auto. exfalso. apply Hv.
  destruct e; cbn in Hg; try discriminate; unfold vis; rewrite E; auto.
Qed.

(** history flags: [am] = Add was called by the first goroutine since the last
    successful return of Remove; [xa] = the second goroutine has called Add *)
Definition gstep (x : bool * bool) (e : event) : option (bool * bool) :=
  let '(am, xa) := x in
  match e with
  | EAddCalled => Some (true, xa)
  | XCalled KAdd => Some (am, true)
  | ERemoveReturned true => Some (false, xa)
  | _ => Some x
  end.

Definition Rghost (s : st) (x : bool * bool) : Prop :=
  let '(am, xa) := x in
  wfb s = true
  /\ (x_addst s = true -> xa = true)
  /\ (managed s = true -> am = true \/ xa = true)
  /\ (managed s = true -> s_rr s = true -> xa = true).

Lemma Rghost_tau c s s' x : In s' (tau c s) -> Rghost s x -> Rghost s' x.
Proof.
  destruct x as [am xa]. destruct s as [p rmc cd sd rc hu stl phu ad xs rr].
  unfold Rghost, tau, wfb, managed, add_none, rc_none, x_none, x_addst, x_eff.
  cbn [s_pc s_rmc s_cdone s_sdone s_rc s_hu s_stale s_phu s_add s_x s_rr].
  intros H (W & H1 & H2 & H3).
  inv_in H; subst s'; cbn [s_pc s_rmc s_cdone s_sdone s_rc s_hu s_stale s_phu s_add s_x s_rr set_pc] in *.
  all: try (repeat split; auto; fail).
  all: adaptive.
Qed.

Lemma Rghost_vis c s e s' x :
  In s' (vis c s e) -> Rghost s x -> exists x', gstep x e = Some x' /\ Rghost s' x'.
Proof.
  destruct x as [am xa]. destruct s as [p rmc cd sd rc hu stl phu ad xs rr].
  unfold Rghost, vis, wfb, managed, add_none, rc_none, x_none, x_addst, x_eff.
  cbn [s_pc s_rmc s_cdone s_sdone s_rc s_hu s_stale s_phu s_add s_x s_rr].
  intros H (W & H1 & H2 & H3).
  destruct e as [ |ok| |ok| |ok| | |ok|ok| |ok|ok|r| |n0| | | | |k|k ok| | |ok];
    cbn [gstep];
    inv_in H; subst s'; cbn [s_pc s_rmc s_cdone s_sdone s_rc s_hu s_stale s_phu s_add s_x s_rr set_pc] in *.
  all: repeat first
         [ solve [eexists; split; [reflexivity|]; adaptive]
         | split_with ltac:(cbn in *; try discriminate) ].
Qed.

Lemma gstep_one am xa e am1 xa1 :
  gstep (am, xa) e = Some (am1, xa1) ->
  (am1 = true -> am = true \/ e = EAddCalled) /\ (xa1 = true -> xa = true \/ e = XCalled KAdd).
Proof.
  destruct e; cbn; intros H; try (inversion H; subst; auto; fail).
  - destruct ok; inversion H; subst; intuition congruence.
  - destruct k; inversion H; subst; intuition congruence.
Qed.

Lemma gstep_am tr : forall am xa am' xa',
  orun gstep (am, xa) tr = Some (am', xa') ->
  (am' = true -> am = true \/ In EAddCalled tr)
  /\ (xa' = true -> xa = true \/ In (XCalled KAdd) tr).
Proof.
  induction tr as [|e tr IH]; intros am xa am' xa' H; cbn [orun] in H.
  - inversion H; subst; auto.
  - destruct (gstep (am, xa) e) as [[am1 xa1]|] eqn:G; [|discriminate H].
    destruct (IH _ _ _ _ H) as [A B]. destruct (gstep_one _ _ _ _ _ G) as [A1 B1].
    split; intros E.
    + destruct (A E) as [E1|E1]; [|right; right; auto].
      destruct (A1 E1) as [E2|E2]; auto. right; left; auto.
    + destruct (B E) as [E1|E1]; [|right; right; auto].
      destruct (B1 E1) as [E2|E2]; auto. right; left; auto.
Qed.

(** once Remove has returned there is no callback and no environment query for
    the name unless Add has been called: by the first goroutine afterwards, or
    by a second goroutine (possibly while that Remove was still in progress) *)
Lemma silence_after_remove c a b e b' s :
  run c init (a ++ ERemoveReturned true :: b ++ e :: b') s -> is_gor e = true ->
  In EAddCalled b \/ In (XCalled KAdd) (a ++ b).
Proof.
  intros H Hg.
  replace (a ++ ERemoveReturned true :: b ++ e :: b')
    with ((a ++ ERemoveReturned true :: b) ++ e :: b') in H
    by (rewrite <- app_assoc; reflexivity).
  apply run_app_inv in H. destruct H as (s1 & H1 & H2).
  apply run_head_pc in H2. destruct H2 as (s2 & Ht & Hv).
  assert (H3 : run c init (a ++ ERemoveReturned true :: b) s2).
  { rewrite <- (app_nil_r (a ++ ERemoveReturned true :: b)). eapply run_app; eauto. }
  destruct (simulation_st gstep Rghost c (Rghost_tau c) (Rghost_vis c) _ _ _ H3 (false, false))
    as ([am xa] & Hx & (W & G1 & G2 & G3)).
  { cbn. repeat split; auto; discriminate. }
  rewrite orun_app in Hx.
  destruct (orun gstep (false, false) a) as [[am1 xa1]|] eqn:Ea; [|discriminate].
  cbn in Hx. destruct (gstep_am _ _ _ _ _ Ea) as [_ Xa].
  destruct (gstep_am _ _ _ _ _ Hx) as [Ab Xb].
  destruct (G2 (vis_gor_managed _ _ _ Hg Hv)) as [E|E].
  - destruct (Ab E) as [E1|E1]; [discriminate|auto].
  - right. apply in_or_app. destruct (Xb E) as [E1|E1]; auto.
    destruct (Xa E1) as [E2|E2]; [discriminate|auto].
Qed.

Lemma duplicate_add_refused c a l ok s :
  run c init (a ++ EAdd true :: l ++ [EAdd ok]) s -> no_remove_ok l = true -> ok = false.
Proof. intros H. eapply duplicate_add_refused_k. eapply model_refusals; eauto. Qed.

Lemma unknown_remove_refused c l ok s :
  run c init (l ++ [ERemoveReturned ok]) s -> no_add_ok l = true -> ok = false.
Proof. intros H. eapply unknown_remove_refused_k. eapply model_refusals; eauto. Qed.

(** a refused call changes nothing: an Add with invalid arguments is refused in
    every state and leaves the state as it is, so do a Remove / Reconnect of an
    unmanaged name; a duplicate Add (call, then refusal) brings the state back *)
Lemma invalid_add_never_accepted c s : vis c s (EAddInvalid true) = [].
Proof. reflexivity. Qed.

Lemma refused_call_changes_nothing c s e s' :
  In s' (vis c s e) ->
  e = EAddInvalid false \/ e = ERemoveReturned false \/ e = EReconnectReturned false ->
  s' = s.
Proof.
  intros H [E|[E|E]]; subst e; unfold vis in H; inv_in H; auto.
Qed.

Lemma refused_duplicate_add_changes_nothing c s s1 s2 :
  managed s = true -> In s1 (vis c s EAddCalled) -> In s2 (vis c s1 (EAdd false)) -> s2 = s.
Proof.
  destruct s as [p rmc cd sd rc hu stl phu ad xs rr]. unfold vis, managed. unrec0.
  intros Hm H1 H2. inv_in H1; subst s1; unrec0; try discriminate; inv_in H2; subst; auto.
Qed.

(** calls of a second goroutine for the same name during a Remove in progress:
    they get through only after that Remove has completed and the name is
    unmanaged (so Add starts a fresh monitor; it is never accepted while the old
    target is managed), and while the Remove is in progress none has got through *)
Lemma overlap_call_effect_after_remove c s s' k :
  In s' (tau c s) -> s_x s = XP k -> s_x s' = XE k ->
  s_rmc s = false /\ s_pc s = PIdle /\ s_pc s' = (match k with KAdd => PLoop | _ => PIdle end).
Proof.
  destruct s as [p rmc cd sd rc hu stl phu ad xs rr]. unfold tau, managed.
  cbn [s_pc s_rmc s_cdone s_sdone s_rc s_hu s_stale s_phu s_add s_x s_rr].
  intros H E1 E2. subst xs.
  inv_in H; subst s'; cbn [s_pc s_rmc s_cdone s_sdone s_rc s_hu s_stale s_phu s_add s_x s_rr set_pc] in *;
    try discriminate; try (inversion E2; subst); auto.
Qed.

Lemma overlap_pending_while_remove c tr s :
  run c init tr s -> s_rmc s = true -> forall k, s_x s <> XE k.
Proof.
  intros H Hr k E. apply reachable_wf in H. unfold wfb, x_eff in H. rewrite Hr, E in H.
  cbn in H. rewrite !andb_false_r in H. cbn in H. discriminate.
Qed.

Lemma overlap_results c a k ok s :
  run c init (a ++ [XReturned k ok]) s -> ok = match k with KAdd => true | _ => false end.
Proof.
  intros H. apply run_app_inv in H. destruct H as (s1 & H1 & H2).
  apply run_head_pc in H2. destruct H2 as (s2 & _ & Hv).
  unfold vis in Hv. destruct (s_x s2); try congruence.
  destruct (xkind_eqb k k0 && Bool.eqb ok match k with KAdd => true | _ => false end) eqn:E;
    [|congruence].
  apply andb_true_iff in E. destruct E as [_ E]. apply Bool.eqb_prop in E. exact E.
Qed.

(** * K6: attribution of cancellations (model after fix C13_1) *)

Definition cstep (timeout : bool) (x : nat * bool) (e : event) : option (nat * bool) :=
  let '(rc, rm) := x in
  match e with
  | EReconnectCalled => Some (S rc, rm)
  | ERemoveCalled => Some (rc, true)
  | ERemoveReturned _ => Some (0, false)
  | ERecv RCancel =>
      if timeout || rm then Some x
      else match rc with S k => Some (k, rm) | O => None end
  | _ => Some x
  end.

Lemma k_cause_cstep timeout tr : forall rc rm,
  orun (cstep timeout) (rc, rm) tr <> None -> k_cause timeout rc rm tr = true.
Proof.
  induction tr as [|e tr IH]; intros rc rm H; cbn; auto.
  cbn in H.
  destruct e; cbn in H; try (apply IH; auto; fail).
  destruct r; try (apply IH; auto; fail).
  destruct (timeout || rm); [apply IH; auto|].
  destruct rc; [congruence|]. apply IH; auto.
Qed.

Definition after_stream (p : pc) : bool :=
  match p with
  | PReset | PDone | PCE | PME | PLoop | PFinished | PIdle => true
  | _ => false
  end.

Definition need (timeout : bool) (s : st) : nat :=
  (match s_rc s with RcPending => 1 | _ => 0 end)
  + (if s_sdone s && negb (s_cdone s) && negb timeout && negb (after_stream (s_pc s)) then 1 else 0).

Definition Rcause (timeout : bool) (s : st) (x : nat * bool) : Prop :=
  let '(rc, rm) := x in
  wfb s = true /\ (s_rmc s = true -> rm = true) /\ need timeout s <= rc
  /\ (s_rr s = true -> need timeout s = 0).

Lemma Rcause_tau c s s' x :
  In s' (tau c s) -> Rcause (c_timeout c) s x -> Rcause (c_timeout c) s' x.
Proof.
  destruct x as [rcn rm]. destruct s as [p rmc cd sd rc hu stl phu ad xs rr].
  unfold Rcause, need, tau, wfb, managed, add_none, rc_none, x_none, x_addst, x_eff, after_stream.
  cbn [s_pc s_rmc s_cdone s_sdone s_rc s_hu s_stale s_phu s_add s_x s_rr].
  intros Hin (W & Hrm & Hn & Hrr).
  destruct (c_timeout c) eqn:Et;
  inv_in Hin; subst s'; cbn [s_pc s_rmc s_cdone s_sdone s_rc s_hu s_stale s_phu s_add s_x s_rr set_pc] in *.
  all: try (repeat split; auto; fail).
  all: adaptive.
Qed.

Lemma Rcause_vis c s e s' x :
  In s' (vis c s e) -> Rcause (c_timeout c) s x ->
  exists x', cstep (c_timeout c) x e = Some x' /\ Rcause (c_timeout c) s' x'.
Proof.
  destruct x as [rcn rm]. destruct s as [p rmc cd sd rc hu stl phu ad xs rr].
  unfold Rcause, need, vis, wfb, managed, add_none, rc_none, x_none, x_addst, x_eff, after_stream.
  cbn [s_pc s_rmc s_cdone s_sdone s_rc s_hu s_stale s_phu s_add s_x s_rr].
  intros Hin (W & Hrm & Hn & Hrr).
  destruct (c_timeout c) eqn:Et;
  destruct e as [ |ok| |ok| |ok| | |ok|ok| |ok|ok|r| |n| | | | |k|k ok| | |ok];
    cbn [cstep orb];
    inv_in Hin; subst s'; cbn [s_pc s_rmc s_cdone s_sdone s_rc s_hu s_stale s_phu s_add s_x s_rr set_pc] in *.
  all: repeat first
         [ solve [eexists; split; [reflexivity|]; adaptive]
         | split_with ltac:(cbn in *; try discriminate; try lia) ].
Qed.

Lemma cause_full c tr s :
  run c init tr s -> k_cause (c_timeout c) 0 false tr = true.
Proof.
  intros H. apply k_cause_cstep; auto.
  destruct (simulation_st (cstep (c_timeout c)) (Rcause (c_timeout c)) c
              (Rcause_tau c) (Rcause_vis c) _ _ _ H (0, false)) as (x & Hx & _).
  - cbn. repeat split; auto; try discriminate; try lia.
  - congruence.
Qed.

(** regression witness of DEFECT C13_1 (fixed in /repo by ada8f84): the log the
    unpatched code produced -- the first stream of a re-added name cancelled
    although nobody asked for it -- is no longer a log of the model, and the
    property monitor flags it *)
Definition log_kf1 : list event :=
  [EAddCalled; EAdd true; EDial true; EOpen true; ESend true; ERecv (RMsg (MUpdate 1)); CConnect;
   CUpdate 1; ERemoveCalled; ERecv RCancel; CReset; EDone; CConnErr; CMonErr; ERemoveReturned true;
   EAddCalled; EAdd true; EDial true; EOpen true; ESend true; ERecv RCancel; CReset; EDone;
   CConnErr; CMonErr;
   EDial true; EOpen true; ESend true; ERemoveCalled; ERecv RCancel; CReset; EDone; CConnErr; CMonErr;
   ERemoveReturned true].

Example kf1_log_rejected_by_model : accepts cfg0 log_kf1 = false.
Proof. vm_compute. reflexivity. Qed.

Example kf1_log_flagged_by_K :
  k_cause (c_timeout cfg0) 0 false log_kf1 = false /\ k_tags cfg0 log_kf1 = [7%N].
Proof. vm_compute. split; reflexivity. Qed.

(** the same log with the Reconnect that justifies the cancellation is fine *)
Example cause_full_nonvacuous :
  accepts cfg0 (firstn 20 log_kf1 ++ EReconnectCalled :: ERecv RCancel :: EReconnectReturned true
                  :: skipn 21 log_kf1) = true.
Proof. vm_compute. reflexivity. Qed.

(** * one_reset_per_stream: successful Sends and Resets alternate *)

Fixpoint alt (open : bool) (g : list event) : bool :=
  match g with
  | [] => negb open
  | ESend true :: g' => if open then false else alt true g'
  | CReset :: g' => if open then alt false g' else false
  | _ :: g' => alt open g'
  end.

Lemma alt_deliver o x rest : alt o (deliver x ++ rest) = alt o rest.
Proof. destruct x; cbn; auto. Qed.

Lemma alt_body o ms : forall conn rest, alt o (body conn ms ++ rest) = alt o rest.
Proof.
  induction ms as [|x ms IH]; intros conn rest; cbn; auto.
  destruct conn; cbn; rewrite <- app_assoc, alt_deliver; apply IH.
Qed.

Lemma wf_log_alt g : wf_log g -> alt false g = true.
Proof.
  induction 1 as [|e g He _ IH|ms r g Hr _ IH]; cbn; auto.
  - destruct e; cbn in He; try contradiction; auto. destruct ok; try contradiction; auto.
  - rewrite alt_body. cbn. exact IH.
Qed.

Lemma one_reset_per_stream c tr s :
  run c init tr s -> quiescent (s_pc s) = true -> alt false (gor tr) = true.
Proof. intros. apply wf_log_alt. eapply model_wf_log; eauto. Qed.

(** * K7 soundness (the clause itself is a run-time observation; the model has no clock) *)

Lemma k_backoff_sound mingap gaps :
  k_backoff mingap gaps = true -> Forall (fun g => (mingap <= g)%Z) gaps.
Proof.
  unfold k_backoff. intros H. apply Forall_forall. intros g Hin.
  rewrite forallb_forall in H. apply Z.leb_le. auto.
Qed.

(** * Witnesses that the hypotheses of the theorems are satisfiable *)

Example log0_run_quiescent : exists s, run cfg0 init log0 s /\ quiescent (s_pc s) = true.
Proof.
  destruct (accepts_sound _ _ log0_accepted) as (s & H & Hf). exists s; split; auto.
  apply final_quiescent; auto.
Qed.

Example log0_shape :
  existsb (fun e => match e with CConnect => true | _ => false end) log0 = true
  /\ existsb (fun e => match e with CUpdate _ => true | _ => false end) log0 = true
  /\ existsb (fun e => match e with CSync => true | _ => false end) log0 = true
  /\ existsb (fun e => match e with ERemoveReturned true => true | _ => false end) log0 = true
  /\ existsb (fun e => match e with EAdd false => true | _ => false end) log0 = true
  /\ existsb (fun e => match e with ERemoveReturned false => true | _ => false end) log0 = true
  /\ k_tags cfg0 log0 = [].
Proof. vm_compute. repeat split; reflexivity. Qed.

(** states in which the retry loop lemmas apply are reachable *)
Example loop_state_reachable :
  existsb (fun s => pc_eqb (s_pc s) PLoop && negb (s_cdone s))
          (reach_set cfg0 [EAddCalled; EAdd true; EDial false; CConnErr; CMonErr]) = true.
Proof. vm_compute. reflexivity. Qed.

Example finished_state_reachable :
  existsb (fun s => pc_eqb (s_pc s) PFinished && s_rmc s)
          (reach_set cfg0 [EAddCalled; EAdd true; EDial false; CConnErr; CMonErr; ERemoveCalled]) = true.
Proof. vm_compute. reflexivity. Qed.

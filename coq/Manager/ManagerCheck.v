(** Correspondence evaluator and executable property checker for C13.

    A case is a list of targets run against one real manager.Manager; per
    target the harness records one totally ordered log (see ManagerModel.v for
    the alphabet).  [check_all]
    (a) asks whether the model can produce that very log (mode A: acceptance by
        subset construction) -- tag 1 when it cannot, and
    (b) applies the property itself, as small deterministic monitors that do
        not know the model, to the log -- tags 2..9 (10+k would be a
        known-finding class; none is open for C13). *)
From Coq Require Import List Bool ZArith NArith Arith Lia.
Import ListNotations.
From Gnmi Require Import Manager.ManagerModel.

(** * K1: the callback projection is a word of the session language
      ( CE ME | [Connect (Update|Sync)*] Reset CE ME )*                       *)

Inductive dst := D0 | DConn | DReset | DCE.

Definition dstep (d : dst) (e : event) : option dst :=
  match d, e with
  | D0, CConnErr => Some DCE
  | D0, CConnect => Some DConn
  | D0, CReset => Some DReset
  | DConn, CUpdate _ => Some DConn
  | DConn, CSync => Some DConn
  | DConn, CReset => Some DReset
  | DReset, CConnErr => Some DCE
  | DCE, CMonErr => Some D0
  | _, _ => None
  end.

Fixpoint drun (d : dst) (w : list event) : option dst :=
  match w with
  | [] => Some d
  | e :: w' => match dstep d e with Some d' => drun d' w' | None => None end
  end.

Definition callbacks (tr : list event) : list event := filter is_callback tr.

(** complete sessions only (the log of a removed target ends between sessions) *)
Definition k_lang (tr : list event) : bool :=
  match drun D0 (callbacks tr) with Some D0 => true | _ => false end.

(** * K2: stream monitor over the goroutine's letters.
      - Connect exactly after the first message of a stream, never otherwise;
      - each received Update / Sync is delivered, as the very next callback(s),
        in stream order, nothing else is delivered;
      - a stream (a successful Send) ends with exactly one Reset, and there is
        no Reset without a stream. *)

Inductive mst :=
| MOut                       (* no stream open *)
| MIn (connected : bool)     (* stream open, next letter is a Recv *)
| MWant (l : list event) (after : mst).   (* these callbacks must come next, in this order *)

Definition deliver (m : msg) : list event :=
  match m with
  | MUpdate n => [CUpdate n]
  | MSync => [CSync]
  | MErrResp | MNil => []
  end.

Definition event_eqb (a b : event) : bool :=
  match a, b with
  | CConnect, CConnect | CSync, CSync | CReset, CReset | CConnErr, CConnErr
  | CMonErr, CMonErr => true
  | CUpdate n, CUpdate k => Z.eqb n k
  | _, _ => false
  end.

Definition want (l : list event) (after : mst) : mst :=
  match l with [] => after | _ => MWant l after end.

Definition mstep (m : mst) (e : event) : option mst :=
  if is_marker e then Some m else
  match m with
  | MWant (x :: l) after => if event_eqb x e then Some (want l after) else None
  | MWant [] _ => None
  | MOut =>
      match e with
      | ESend true => Some (MIn false)
      | ERecv _ | CConnect | CUpdate _ | CSync | CReset => None
      | _ => Some MOut
      end
  | MIn conn =>
      match e with
      | ERecv (RMsg x) =>
          Some (want ((if conn then [] else [CConnect]) ++ deliver x) (MIn true))
      | ERecv _ => Some (MWant [CReset] MOut)
      | _ => None
      end
  end.

Fixpoint mrun (m : mst) (tr : list event) : option mst :=
  match tr with
  | [] => Some m
  | e :: tr' => match mstep m e with Some m' => mrun m' tr' | None => None end
  end.

Definition k_stream (tr : list event) : bool :=
  match mrun MOut tr with Some MOut => true | _ => false end.

(** * K3: silence.  The goroutine's letters occur only while some Add of the
      name is live: [n] counts Add calls issued (by either client goroutine)
      minus refused Adds and successful Removes; [pend] counts Add calls that
      have not returned.  A Remove that reports "not added" asserts that the
      name is unmanaged: from then on only Adds still in flight can justify
      letters.  With calls of one goroutine only this is "between Add called
      and Remove returned"; with a second goroutine calling Add while a Remove
      is in progress the new monitor may run before the first goroutine has
      logged the return of its Remove. *)

Fixpoint k_silence_n (n pend : nat) (tr : list event) : bool :=
  match tr with
  | [] => true
  | e :: tr' =>
      match e with
      | EAddCalled | XCalled KAdd => k_silence_n (S n) (S pend) tr'
      | EAdd true | XReturned KAdd true => k_silence_n n (pred pend) tr'
      | EAdd false | XReturned KAdd false => k_silence_n (pred n) (pred pend) tr'
      | ERemoveReturned true | XReturned KRemove true => k_silence_n (pred n) pend tr'
      | ERemoveReturned false | XReturned KRemove false => k_silence_n pend pend tr'
      | _ => (is_marker e || negb (Nat.eqb n 0)) && k_silence_n n pend tr'
      end
  end.

Definition k_silence (tr : list event) : bool := k_silence_n 0 0 tr.

(** * K4: refusals.  [m] = successful Adds minus successful Removes so far;
      [rmp] = a Remove of the first goroutine is in progress on a managed name
      (it will succeed).  Add succeeds iff the name is not managed (and never with
      invalid arguments, whatever the state of the name), Remove and
      Reconnect succeed iff it is; a call of the second goroutine, issued while
      that Remove is in progress, is judged as if it came after it. *)

Fixpoint k_refuse_n (m : nat) (rmp : bool) (tr : list event) : bool :=
  let meff := if rmp then pred m else m in
  match tr with
  | [] => true
  | e :: tr' =>
      match e with
      | EAdd ok => Bool.eqb ok (Nat.eqb m 0) && k_refuse_n (if ok then S m else m) rmp tr'
      | ERemoveCalled => k_refuse_n m (negb (Nat.eqb m 0)) tr'
      | ERemoveReturned ok => Bool.eqb ok rmp && k_refuse_n (if ok then pred m else m) false tr'
      | EReconnectReturned ok => Bool.eqb ok (negb (Nat.eqb m 0)) && k_refuse_n m rmp tr'
      | XReturned KAdd ok =>
          Bool.eqb ok (Nat.eqb meff 0) && k_refuse_n (if ok then S m else m) rmp tr'
      | XReturned KRemove ok =>
          Bool.eqb ok (negb (Nat.eqb meff 0)) && k_refuse_n (if ok then pred m else m) rmp tr'
      | XReturned KReconnect ok =>
          Bool.eqb ok (negb (Nat.eqb meff 0)) && k_refuse_n m rmp tr'
      | EAddInvalid ok => negb ok && k_refuse_n m rmp tr'
      | _ => k_refuse_n m rmp tr'
      end
  end.

Definition k_refuse (tr : list event) : bool := k_refuse_n 0 false tr.

(** * K9: a call made by the second goroutine while a Remove of the name is in
      progress does not return while the harness still holds a callback of the
      old session open (the Remove cannot have completed).  In particular an
      Add is not accepted while the previous target of that name is still
      making callbacks. *)

Fixpoint k_gate (closed : bool) (tr : list event) : bool :=
  match tr with
  | [] => true
  | EGateClosed :: tr' => k_gate true tr'
  | EGateOpen :: tr' => k_gate false tr'
  | XReturned _ _ :: tr' => negb closed && k_gate closed tr'
  | _ :: tr' => k_gate closed tr'
  end.

(** * K5: liveness watchdogs of the harness never fired *)

Definition k_live (tr : list event) : bool :=
  negb (existsb (fun e => match e with EHang | EStall => true | _ => false end) tr).

(** * K6: a stream is cancelled only for a reason attributable to this target:
      a Reconnect(name) or Remove(name) issued before, or its receive timeout.
      Each Reconnect call ends at most one stream. *)

Fixpoint k_cause (timeout : bool) (rc : nat) (rm : bool) (tr : list event) : bool :=
  match tr with
  | [] => true
  | e :: tr' =>
      match e with
      | EReconnectCalled => k_cause timeout (S rc) rm tr'
      | ERemoveCalled => k_cause timeout rc true tr'
      | ERemoveReturned _ => k_cause timeout 0 false tr'
      | ERecv RCancel =>
          if timeout || rm then k_cause timeout rc rm tr'
          else match rc with
               | S k => k_cause timeout k rm tr'
               | O => false
               end
      | _ => k_cause timeout rc rm tr'
      end
  end.

(** former known-finding class 1 (KF-C13-1 / DEFECT C13_1, fixed by ada8f84):
    the name was removed and added again earlier in the log.  It is no
    longer a class of its own: a recurrence is tag 7, a violation. *)
Definition readded (tr : list event) : bool :=
  existsb (fun e => match e with ERemoveReturned true => true | _ => false end) tr.

(** * Cases and verdicts *)

(** * K7: backoff.  A timing observation outside the model (which has no
      clock): for every MonitorError that is followed, in the same incarnation,
      by another letter of the goroutine, the harness measures the time from
      the return of that callback to that next letter, in microseconds.  Each
      such gap must be at least the smallest delay the backoff policy can
      produce (RetryBaseDelay * (1 - RetryRandomization)); timers never fire
      early and load only lengthens gaps, so the bound is robust. *)

Definition k_backoff (mingap : Z) (gaps : list Z) : bool := forallb (Z.leb mingap) gaps.

Record tcase := { t_cfg : cfg; t_trace : list event; t_mingap : Z; t_gaps : list Z }.
Definition case := list tcase.

Definition mktg (creds : bool) (hops : nat) (timeout : bool) (mingap : Z) (gaps : list Z)
           (tr : list event) : tcase :=
  {| t_cfg := {| c_creds := creds; c_hops := hops; c_timeout := timeout |}; t_trace := tr;
     t_mingap := mingap; t_gaps := gaps |}.

Definition mkt (creds : bool) (hops : nat) (timeout : bool) (tr : list event) : tcase :=
  mktg creds hops timeout 0 [] tr.

Definition k_tags (c : cfg) (tr : list event) : list N :=
  (if k_lang tr then [] else [2%N])
  ++ (if k_stream tr then [] else [3%N])
  ++ (if k_silence tr then [] else [4%N])
  ++ (if k_refuse tr then [] else [5%N])
  ++ (if k_gate false tr then [] else [9%N])
  ++ (if k_live tr then [] else [6%N])
  ++ (if k_cause (c_timeout c) 0 false tr then [] else [7%N]).

Definition check_target (t : tcase) : list N :=
  (if accepts (t_cfg t) (t_trace t) then [] else [1%N]) ++ k_tags (t_cfg t) (t_trace t)
  ++ (if k_backoff (t_mingap t) (t_gaps t) then [] else [8%N]).

Fixpoint check_targets (i : nat) (ts : list tcase) : list (nat * N) :=
  match ts with
  | [] => []
  | t :: ts' => map (fun n => (i, n)) (check_target t) ++ check_targets (S i) ts'
  end.

Definition check_case (c : case) : list (nat * N) := check_targets 0 c.

Fixpoint check_all_from (i : nat) (cs : list case) : list (nat * nat * N) :=
  match cs with
  | [] => []
  | c :: cs' => map (fun sn => (i, fst sn, snd sn)) (check_case c) ++ check_all_from (S i) cs'
  end.

Definition check_all (cs : list case) : list (nat * nat * N) := check_all_from 0 cs.

(** where the model first refuses a log (for diagnostics; not part of the verdict) *)
Definition where_rejected (t : tcase) : option nat :=
  first_reject (t_cfg t) 0 (closure (t_cfg t) closure_fuel [init]) (t_trace t).

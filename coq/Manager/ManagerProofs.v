(** Proofs about the manager model (C13). *)
From Coq Require Import List Bool ZArith NArith Arith Lia.
Import ListNotations.
From Gnmi Require Import Manager.ManagerModel Manager.ManagerCheck.

Lemma unknown_remove_refused_step c s :
  managed s = false -> vis c s (ERemoveReturned true) = [].
Proof. unfold managed; destruct s as [p ? ? ? ? ? ? ?]; destruct p; cbn; congruence. Qed.

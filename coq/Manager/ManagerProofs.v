(** Proofs about the manager model (C13). *)
From Coq Require Import List Bool ZArith NArith Arith Lia.
Import ListNotations.
From Gnmi Require Import Manager.ManagerModel Manager.ManagerCheck.

(** * Generic facts about runs *)

Lemma run_app c s tr1 s1 tr2 s2 :
  run c s tr1 s1 -> run c s1 tr2 s2 -> run c s (tr1 ++ tr2) s2.
Proof.
  induction 1; intros H2; cbn; auto.
  - eapply run_tau; eauto.
  - eapply run_vis; eauto.
Qed.

Lemma run_tau1 c s s' : In s' (tau c s) -> run c s [] s'.
Proof. intros H. eapply run_tau; eauto. constructor. Qed.

Lemma run_vis1 c s e s' : In s' (vis c s e) -> run c s [e] s'.
Proof. intros H. eapply run_vis; eauto. constructor. Qed.

(** ** Projection of steps on control points *)

Definition tpc (c : cfg) (p : pc) : list pc :=
  match p with
  | PLoop => [PFinished; PMeta]
  | PMeta => [PConnCheck (c_hops c)]
  | PConnCheck O => [PCE]
  | PConnCheck (S l) => [PCE; PDial l]
  | PSubCheck => [PDone; POpen]
  | PDeliver MErrResp | PDeliver MNil => [PRecv true]
  | PFinished => [PIdle]      (* Remove completes *)
  | PIdle => [PLoop]          (* an Add of the second client goroutine takes effect *)
  | _ => []
  end.

Definition vpc (c : cfg) (p : pc) (e : event) : list pc :=
  match e with
  | EAddCalled => match p with PIdle => [PLoop] | _ => [p] end
  | EAdd _ | EReconnectCalled | EReconnectReturned true | ERemoveCalled => [p]
  | EReconnectReturned false | ERemoveReturned false =>
      match p with PIdle => [p] | _ => [] end
  | ERemoveReturned true => [p]
  | XCalled _ | XReturned _ _ | EGateClosed | EGateOpen | EAddInvalid _ => [p]
  | EHang | EStall => []
  | ECred ok => match p with PMeta => [if ok then PConnCheck (c_hops c) else PCE] | _ => [] end
  | EDial ok => match p with PDial l => [if ok then PSubCheck else PConnCheck l] | _ => [] end
  | EOpen ok => match p with POpen => [if ok then PSend else PDone] | _ => [] end
  | ESend ok => match p with PSend => [if ok then PRecv false else PDone] | _ => [] end
  | ERecv r =>
      match p with
      | PRecv conn =>
          match r with
          | RMsg m => [if conn then PDeliver m else PConnect m]
          | _ => [PReset]
          end
      | _ => []
      end
  | CConnect => match p with PConnect m => [PDeliver m] | _ => [] end
  | CUpdate n => match p with PDeliver (MUpdate k) => if Z.eqb n k then [PRecv true] else [] | _ => [] end
  | CSync => match p with PDeliver MSync => [PRecv true] | _ => [] end
  | CReset => match p with PReset => [PDone] | _ => [] end
  | EDone => match p with PDone => [PCE] | _ => [] end
  | CConnErr => match p with PCE => [PME] | _ => [] end
  | CMonErr => match p with PME => [PLoop] | _ => [] end
  end.

Ltac inv_in H :=
  repeat match type of H with
         | In _ (_ ++ _) => apply in_app_or in H; destruct H as [H|H]
         | In _ [] => destruct H
         | In _ (_ :: _) => destruct H as [H|H]
         | _ \/ _ => destruct H as [H|H]
         | False => destruct H
         | In _ (if ?b then _ else _) => destruct b eqn:?
         | In _ (match ?x with _ => _ end) => destruct x eqn:?
         end.

Lemma tau_pc c s s' : In s' (tau c s) -> s_pc s' = s_pc s \/ In (s_pc s') (tpc c (s_pc s)).
Proof.
  unfold tau. intros H. inv_in H; subst; cbn [s_pc set_pc]; auto.
  all: right; cbn; auto.
Qed.

Lemma vis_pc c s e s' : In s' (vis c s e) -> In (s_pc s') (vpc c (s_pc s) e).
Proof.
  destruct s as [p rmc cd sd rc hu stl phu ad xs rr]. unfold vis, managed; cbn [s_pc s_rmc s_cdone s_sdone s_rc s_hu s_stale s_phu s_add s_x s_rr].
  intros H.
  destruct e as [ |ok| |ok| |ok| | |ok|ok| |ok|ok|r| |n| | | | |k|k ok| | |ok]; cbn in H |- *;
    inv_in H; subst; cbn; auto.
  all: destruct p; cbn in *; auto; discriminate.
Qed.

(** * Generic simulation of the model by a deterministic monitor *)

Section Monitor.
  Context {X : Type}.
  Variable xstep : X -> event -> option X.

  Fixpoint orun (x : X) (tr : list event) : option X :=
    match tr with
    | [] => Some x
    | e :: tr' => match xstep x e with Some x' => orun x' tr' | None => None end
    end.

  Lemma orun_app x tr1 tr2 :
    orun x (tr1 ++ tr2) = match orun x tr1 with Some x' => orun x' tr2 | None => None end.
  Proof.
    revert x; induction tr1 as [|e tr1 IH]; intros x; cbn; auto.
    destruct (xstep x e); auto.
  Qed.

  Variable R : pc -> X -> Prop.
  Variable c : cfg.
  Hypothesis Htau : forall p p' x, In p' (tpc c p) -> R p x -> R p' x.
  Hypothesis Hvis : forall p e p' x, In p' (vpc c p e) -> R p x ->
                                     exists x', xstep x e = Some x' /\ R p' x'.

  Lemma simulation s tr s' :
    run c s tr s' -> forall x, R (s_pc s) x -> exists x', orun x tr = Some x' /\ R (s_pc s') x'.
  Proof.
    induction 1 as [s|s s1 tr s2 Hin Hrun IH|s e s1 tr s2 Hin Hrun IH]; intros x HR.
    - exists x; auto.
    - apply IH. apply tau_pc in Hin. destruct Hin as [->|Hin]; eauto.
    - apply vis_pc in Hin. destruct (Hvis _ _ _ _ Hin HR) as (x1 & Hs & HR1).
      destruct (IH _ HR1) as (x' & Hr & HR'). exists x'. cbn. rewrite Hs. auto.
  Qed.
End Monitor.

(** * K1: session language *)

Definition dstep_all (d : dst) (e : event) : option dst :=
  if is_callback e then dstep d e else Some d.

Lemma drun_orun d tr : drun d (callbacks tr) = orun dstep_all d tr.
Proof.
  revert d; induction tr as [|e tr IH]; intros d; cbn; auto.
  unfold dstep_all at 1. destruct (is_callback e) eqn:E; cbn; auto.
  destruct (dstep d e); auto.
Qed.

(** which DFA states a control point can be in *)
Definition Rlang (p : pc) (d : dst) : Prop :=
  match p with
  | PRecv true | PDeliver _ => d = DConn
  | PReset => d = D0 \/ d = DConn
  | PDone | PCE => d = D0 \/ d = DReset
  | PME => d = DCE
  | _ => d = D0
  end.

Lemma Rlang_tau c p p' d : In p' (tpc c p) -> Rlang p d -> Rlang p' d.
Proof.
  destruct p as [ | | |n|l| | | |b|m|m| | | | | ]; cbn; intros H; inv_in H; subst; cbn; auto;
    try (intros ->; auto).
Qed.

Lemma Rlang_vis c p e p' d :
  In p' (vpc c p e) -> Rlang p d -> exists d', dstep_all d e = Some d' /\ Rlang p' d'.
Proof.
  unfold dstep_all.
  destruct e as [ |ok| |ok| |ok| | |ok|ok| |ok|ok|r| |n| | | | |k|k ok| | |ok]; cbn; intros H HR;
    inv_in H; subst; cbn in *;
    repeat match goal with
           | H : _ \/ _ |- _ => destruct H
           | b : bool |- _ => destruct b
           end; subst; cbn; eauto.
Qed.

Lemma model_in_language c s tr s' d :
  run c s tr s' -> Rlang (s_pc s) d ->
  exists d', drun d (callbacks tr) = Some d' /\ Rlang (s_pc s') d'.
Proof.
  intros Hrun HR. rewrite drun_orun.
  eapply (simulation dstep_all Rlang c (Rlang_tau c) (Rlang_vis c)); eauto.
Qed.

(** every log the model can produce projects on a prefix of the session
    language, and on a word of it whenever the goroutine is between attempts
    (in particular when the name is not managed any more) *)
Lemma trace_in_language c tr s :
  run c init tr s -> exists d, drun D0 (callbacks tr) = Some d /\ Rlang (s_pc s) d.
Proof. intros H. eapply model_in_language; eauto. reflexivity. Qed.

Definition quiescent (p : pc) : bool :=
  match p with PIdle | PLoop | PFinished => true | _ => false end.

Lemma complete_sessions c tr s :
  run c init tr s -> quiescent (s_pc s) = true -> k_lang tr = true.
Proof.
  intros H Hq. destruct (trace_in_language _ _ _ H) as (d & Hd & HR).
  unfold k_lang. rewrite Hd. destruct (s_pc s); cbn in *; try discriminate; subst; auto.
Qed.

(** declarative reading of K1 *)
Definition is_data (e : event) : Prop :=
  match e with CUpdate _ | CSync => True | _ => False end.

Inductive sessions : list event -> Prop :=
| sess_nil : sessions []
| sess_fail w : sessions w -> sessions (CConnErr :: CMonErr :: w)
| sess_early w : sessions w -> sessions (CReset :: CConnErr :: CMonErr :: w)
| sess_full body w :
    Forall is_data body -> sessions w ->
    sessions (CConnect :: body ++ CReset :: CConnErr :: CMonErr :: w).

Lemma drun_conn_split w d :
  drun DConn w = Some d -> d = D0 ->
  exists body rest, w = body ++ CReset :: CConnErr :: CMonErr :: rest /\ Forall is_data body
                    /\ drun D0 rest = Some D0.
Proof.
  induction w as [|e w IH]; cbn; intros H Hd; [congruence|].
  destruct e; cbn in H; try discriminate.
  - destruct (IH H Hd) as (b & r & -> & Hf & Hr). exists (CUpdate n :: b), r. cbn. repeat split; auto.
    constructor; cbn; auto.
  - destruct (IH H Hd) as (b & r & -> & Hf & Hr). exists (CSync :: b), r. cbn. repeat split; auto.
    constructor; cbn; auto.
  - destruct w as [|e1 w]; cbn in H; [congruence|]. destruct e1; cbn in H; try discriminate.
    destruct w as [|e2 w]; cbn in H; [congruence|]. destruct e2; cbn in H; try discriminate.
    exists [], w. cbn. subst. auto.
Qed.

Lemma sessions_of_drun n : forall w, length w <= n -> drun D0 w = Some D0 -> sessions w.
Proof.
  induction n as [|n IH]; intros w Hl H.
  - destruct w; [constructor|cbn in Hl; lia].
  - destruct w as [|e w]; [constructor|]. cbn in Hl.
    destruct e; cbn in H; try discriminate.
    + (* Connect *)
      destruct (drun_conn_split _ _ H eq_refl) as (b & r & -> & Hf & Hr).
      apply sess_full; auto. apply IH; auto. rewrite app_length in Hl. cbn in Hl. lia.
    + (* Reset *)
      destruct w as [|e1 w]; cbn in H; [congruence|]. destruct e1; cbn in H; try discriminate.
      destruct w as [|e2 w]; cbn in H; [congruence|]. destruct e2; cbn in H; try discriminate.
      apply sess_early. apply IH; auto. cbn in Hl. lia.
    + (* CE *)
      destruct w as [|e1 w]; cbn in H; [congruence|]. destruct e1; cbn in H; try discriminate.
      apply sess_fail. apply IH; auto. cbn in Hl. lia.
Qed.

Lemma k_lang_sound tr : k_lang tr = true -> sessions (callbacks tr).
Proof.
  unfold k_lang. destruct (drun D0 (callbacks tr)) as [[]|] eqn:E; try discriminate.
  intros _. eapply sessions_of_drun; eauto.
Qed.

Lemma model_sessions c tr s :
  run c init tr s -> quiescent (s_pc s) = true -> sessions (callbacks tr).
Proof. intros. apply k_lang_sound. eapply complete_sessions; eauto. Qed.

(** * K2: stream monitor *)

Lemma mrun_orun m tr : mrun m tr = orun mstep m tr.
Proof. revert m; induction tr as [|e tr IH]; intros m; cbn; [reflexivity|]. destruct (mstep m e); auto. Qed.

Definition Rstream (p : pc) (m : mst) : Prop :=
  match p with
  | PRecv conn => m = MIn conn
  | PConnect x => m = MWant (CConnect :: deliver x) (MIn true)
  | PDeliver x => m = want (deliver x) (MIn true)
  | PReset => m = MWant [CReset] MOut
  | _ => m = MOut
  end.

Lemma Rstream_tau c p p' m : In p' (tpc c p) -> Rstream p m -> Rstream p' m.
Proof.
  destruct p as [ | | |n|l| | | |b|x|x| | | | | ]; cbn; intros H; inv_in H; subst; cbn; auto.
Qed.

Lemma Rstream_vis c p e p' m :
  In p' (vpc c p e) -> Rstream p m -> exists m', mstep m e = Some m' /\ Rstream p' m'.
Proof.
  destruct e as [ |ok| |ok| |ok| | |ok|ok| |ok|ok|r| |n| | | | |k|k ok| | |ok]; cbn; intros H HR;
    inv_in H; subst; cbn in *; subst; cbn;
    repeat match goal with
           | b : bool |- _ => destruct b
           | x : msg |- _ => destruct x
           end; cbn; eauto.
  (* CUpdate: the delivered timestamp is the received one *)
  all: try (rewrite Z.eqb_sym; match goal with H : (_ =? _)%Z = true |- _ => rewrite H end; cbn; eauto).
Qed.

Lemma model_stream_discipline c tr s :
  run c init tr s -> exists m, mrun MOut tr = Some m /\ Rstream (s_pc s) m.
Proof.
  intros H. rewrite mrun_orun.
  eapply (simulation mstep Rstream c (Rstream_tau c) (Rstream_vis c)); eauto. reflexivity.
Qed.

Lemma model_k_stream c tr s :
  run c init tr s -> quiescent (s_pc s) = true -> k_stream tr = true.
Proof.
  intros H Hq. destruct (model_stream_discipline _ _ _ H) as (m & Hm & HR).
  unfold k_stream. rewrite Hm. destruct (s_pc s); cbn in *; try discriminate; subst; auto.
Qed.

(** * Soundness of the executable acceptance function (mode A) *)

Lemma add_all_in new : forall acc s, In s (add_all new acc) -> In s new \/ In s acc.
Proof.
  induction new as [|x new IH]; intros acc s H; cbn [add_all] in H; auto.
  destruct (mem x acc).
  - destruct (IH _ _ H); auto. left; right; auto.
  - destruct (IH _ _ H) as [H1|H1]; [left; right; auto|].
    apply in_app_or in H1. destruct H1 as [H1|[H1|[]]]; auto. subst; left; left; auto.
Qed.

Lemma closure_sound c f : forall l s', In s' (closure c f l) -> exists s, In s l /\ run c s [] s'.
Proof.
  induction f as [|f IH]; intros l s' H; cbn [closure] in H.
  - exists s'; split; auto. constructor.
  - destruct (Nat.eqb _ _).
    + exists s'; split; auto. constructor.
    + destruct (IH _ _ H) as (s1 & Hin & Hrun).
      apply add_all_in in Hin. destruct Hin as [Hin|Hin].
      * apply in_flat_map in Hin. destruct Hin as (s & Hs & Ht).
        exists s; split; auto. eapply run_tau; eauto.
      * exists s1; auto.
Qed.

Lemma step_set_sound c l e s' :
  In s' (step_set c l e) -> exists s, In s l /\ run c s [e] s'.
Proof.
  unfold step_set. intros H. apply closure_sound in H. destruct H as (s1 & Hin & Hrun).
  apply add_all_in in Hin. destruct Hin as [Hin|[]].
  apply in_flat_map in Hin. destruct Hin as (s & Hs & Hv).
  exists s; split; auto. eapply run_vis; eauto.
Qed.

Lemma run_set_sound c tr : forall l s', In s' (run_set c l tr) -> exists s, In s l /\ run c s tr s'.
Proof.
  induction tr as [|e tr IH]; intros l s' H; cbn [run_set] in H.
  - exists s'; split; auto. constructor.
  - destruct (IH _ _ H) as (s1 & Hin & Hrun).
    apply step_set_sound in Hin. destruct Hin as (s & Hs & Hr).
    exists s; split; auto. change (e :: tr) with ([e] ++ tr). eapply run_app; eauto.
Qed.

Lemma accepts_sound c tr :
  accepts c tr = true -> exists s, run c init tr s /\ final s = true.
Proof.
  unfold accepts, reach_set. intros H. apply existsb_exists in H. destruct H as (s' & Hin & Hf).
  apply run_set_sound in Hin. destruct Hin as (s1 & Hin & Hrun).
  apply closure_sound in Hin. destruct Hin as (s0 & [<-|[]] & Hr0).
  exists s'; split; auto. change tr with ([] ++ tr). eapply run_app; eauto.
Qed.

Lemma final_quiescent s : final s = true -> quiescent (s_pc s) = true.
Proof. unfold final. destruct (s_pc s); auto; discriminate. Qed.

(** * K4: refusals (needs the flags, not only the control point) *)

Section MonitorSt.
  Context {X : Type}.
  Variable xstep : X -> event -> option X.
  Variable R : st -> X -> Prop.
  Variable c : cfg.
  Hypothesis Htau : forall s s' x, In s' (tau c s) -> R s x -> R s' x.
  Hypothesis Hvis : forall s e s' x, In s' (vis c s e) -> R s x ->
                                     exists x', xstep x e = Some x' /\ R s' x'.
  Lemma simulation_st s tr s' :
    run c s tr s' -> forall x, R s x -> exists x', orun xstep x tr = Some x' /\ R s' x'.
  Proof.
    induction 1 as [s|s s1 tr s2 Hin Hrun IH|s e s1 tr s2 Hin Hrun IH]; intros x HR.
    - exists x; auto.
    - apply IH. eauto.
    - destruct (Hvis _ _ _ _ Hin HR) as (x1 & Hs & HR1).
      destruct (IH _ HR1) as (x' & Hr & HR'). exists x'. cbn. rewrite Hs. auto.
  Qed.
End MonitorSt.


(** * Well-formedness of reachable states, K3 (silence) and K4 (refusals) *)

Definition add_none (s : st) : bool := match s_add s with AddNone => true | _ => false end.
Definition rc_none (s : st) : bool := match s_rc s with RcNone => true | _ => false end.
Definition x_addst (s : st) : bool :=
  match s_x s with XP KAdd | XE KAdd => true | _ => false end.
Definition x_eff (s : st) : bool := match s_x s with XE _ => true | _ => false end.

(** the first goroutine's calls do not overlap each other; the second one calls
    only during a Remove in progress and gets through only after it; flags are
    only set while managed *)
Definition wfb (s : st) : bool :=
  implb (s_rmc s) (managed s && add_none s && rc_none s && negb (s_rr s) && negb (x_eff s))
  && implb (negb (rc_none s)) (managed s && add_none s && negb (s_rr s) && x_none s)
  && implb (negb (add_none s)) (managed s && negb (s_rr s) && x_none s)
  && implb (s_cdone s) (s_rmc s)
  && implb (match s_pc s with PFinished => true | _ => false end) (s_cdone s)
  && implb (match s_x s with XP _ => true | _ => false end) (s_rmc s || negb (managed s))
  && implb (match s_x s with XE KAdd => true | _ => false end) (managed s)
  && implb (match s_x s with XE KRemove | XE KReconnect => true | _ => false end) (negb (managed s)).

(** K3 as a step function *)
Definition sstep (x : nat * nat) (e : event) : option (nat * nat) :=
  let '(n, pend) := x in
  match e with
  | EAddCalled | XCalled KAdd => Some (S n, S pend)
  | EAdd true | XReturned KAdd true => Some (n, pred pend)
  | EAdd false | XReturned KAdd false => Some (pred n, pred pend)
  | ERemoveReturned true | XReturned KRemove true => Some (pred n, pend)
  | ERemoveReturned false | XReturned KRemove false => Some (pend, pend)
  | _ => if is_marker e || negb (Nat.eqb n 0) then Some x else None
  end.

Lemma k_silence_orun tr : forall n pend,
  k_silence_n n pend tr = true <-> orun sstep (n, pend) tr <> None.
Proof.
  induction tr as [|e tr IH]; intros n pend; cbn; [split; congruence|].
  destruct e as [ |ok| |ok| |ok| | |ok|ok| |ok|ok|r| |n0| | | | |k|k ok| | |ok]; cbn; try apply IH;
    try (destruct ok; cbn; apply IH);
    try (destruct k; cbn; try apply IH; destruct ok; cbn; apply IH);
    destruct (Nat.eqb n 0); cbn; try apply IH; split; congruence.
Qed.

(** K4 as a step function *)
Definition rstep (x : nat * bool) (e : event) : option (nat * bool) :=
  let '(m, rmp) := x in
  let meff := if rmp then pred m else m in
  match e with
  | EAdd ok => if Bool.eqb ok (Nat.eqb m 0) then Some (if ok then S m else m, rmp) else None
  | ERemoveCalled => Some (m, negb (Nat.eqb m 0))
  | ERemoveReturned ok => if Bool.eqb ok rmp then Some (if ok then pred m else m, false) else None
  | EReconnectReturned ok => if Bool.eqb ok (negb (Nat.eqb m 0)) then Some x else None
  | XReturned KAdd ok =>
      if Bool.eqb ok (Nat.eqb meff 0) then Some (if ok then S m else m, rmp) else None
  | XReturned KRemove ok =>
      if Bool.eqb ok (negb (Nat.eqb meff 0)) then Some (if ok then pred m else m, rmp) else None
  | XReturned KReconnect ok =>
      if Bool.eqb ok (negb (Nat.eqb meff 0)) then Some x else None
  | EAddInvalid ok => if negb ok then Some x else None
  | _ => Some x
  end.

Lemma k_refuse_orun tr : forall m rmp,
  k_refuse_n m rmp tr = true <-> orun rstep (m, rmp) tr <> None.
Proof.
  induction tr as [|e tr IH]; intros m rmp; cbn; [split; congruence|].
  destruct e as [ |ok| |ok| |ok| | |ok|ok| |ok|ok|r| |n0| | | | |k|k ok| | |ok]; cbn; try apply IH.
  all: try (destruct k; cbn).
  all: match goal with
       | |- context [Bool.eqb ?a ?b] => destruct (Bool.eqb a b); cbn; [apply IH|split; congruence]
       | |- context [negb ?a] => destruct a; cbn; [split; congruence|apply IH]
       end.
Qed.

(** what the two monitors' counters are in a model state *)
Definition b2n (b : bool) : nat := if b then 1 else 0.

Definition sil_base (s : st) : nat :=
  b2n (managed s) + b2n (match s_add s with AddDup => true | _ => false end)
  + b2n (match s_x s with XP KAdd => true | _ => false end).

Definition sil_pend (s : st) : nat := b2n (negb (add_none s)) + b2n (x_addst s).

Definition ref_m (s : st) : nat :=
  b2n (managed s && negb (match s_add s with AddFresh => true | _ => false end)
       && negb (match s_x s with XE KAdd => true | _ => false end))
  + b2n (s_rr s).

Definition Rinv (s : st) (x : (nat * nat) * (nat * bool)) : Prop :=
  let '((n, pend), (m, rmp)) := x in
  wfb s = true
  /\ pend = sil_pend s
  /\ (n = sil_base s + b2n (s_rr s) \/ (s_rr s = true /\ n = 0 /\ sil_base s = 0))
  /\ m = ref_m s
  /\ rmp = (s_rmc s || s_rr s).

Definition istep (x : (nat * nat) * (nat * bool)) (e : event) : option ((nat * nat) * (nat * bool)) :=
  match sstep (fst x) e, rstep (snd x) e with
  | Some a, Some b => Some (a, b)
  | _, _ => None
  end.

(** case analysis driven by what the goal and the hypotheses actually inspect,
    pruning inconsistent branches at once *)
Ltac prune :=
  cbn in *; try discriminate;
  try (repeat split; auto; try lia; fail);
  try (intuition (try discriminate; try congruence; try lia); fail).

Ltac split_with tac :=
  match goal with
  | H : context [match ?v with _ => _ end] |- _ => is_var v; destruct v; tac
  | H : context [if ?v then _ else _] |- _ => is_var v; destruct v; tac
  | H : context [negb ?v] |- _ => is_var v; destruct v; tac
  | H : context [?v || _] |- _ => is_var v; destruct v; tac
  | H : context [?v && _] |- _ => is_var v; destruct v; tac
  | H : context [_ && ?v] |- _ => is_var v; destruct v; tac
  | H : context [implb ?v _] |- _ => is_var v; destruct v; tac
  | H : context [implb _ ?v] |- _ => is_var v; destruct v; tac
  | |- context [match ?v with _ => _ end] => is_var v; destruct v; tac
  | |- context [if ?v then _ else _] => is_var v; destruct v; tac
  | |- context [negb ?v] => is_var v; destruct v; tac
  | |- context [b2n ?v] => is_var v; destruct v; tac
  | |- context [?v || _] => is_var v; destruct v; tac
  | |- context [?v && _] => is_var v; destruct v; tac
  | |- context [Bool.eqb ?v _] => is_var v; destruct v; tac
  | |- context [implb ?v _] => is_var v; destruct v; tac
  | |- context [implb _ ?v] => is_var v; destruct v; tac
  | |- context [_ && ?v] => is_var v; destruct v; tac
  | H : context [b2n ?v] |- _ => is_var v; destruct v; tac
  end.

Ltac split_var := split_with prune.

Ltac adaptive := prune; repeat split_var.

Lemma Rinv_tau c s s' x : In s' (tau c s) -> Rinv s x -> Rinv s' x.
Proof.
  destruct x as [[n pend] [m rmp]]. destruct s as [p rmc cd sd rc hu stl phu ad xs rr].
  unfold Rinv, tau, wfb, sil_base, sil_pend, ref_m, managed, add_none, rc_none, x_none, x_addst, x_eff.
  cbn [s_pc s_rmc s_cdone s_sdone s_rc s_hu s_stale s_phu s_add s_x s_rr].
  intros H (W & Hp & Hn & Hm & Hr).
  inv_in H; subst s'; cbn [s_pc s_rmc s_cdone s_sdone s_rc s_hu s_stale s_phu s_add s_x s_rr set_pc] in *.
  all: try (repeat split; auto; fail).
  all: subst; adaptive.
Qed.

Lemma Rinv_vis c s e s' x :
  In s' (vis c s e) -> Rinv s x -> exists x', istep x e = Some x' /\ Rinv s' x'.
Proof.
  destruct x as [[n pend] [m rmp]]. destruct s as [p rmc cd sd rc hu stl phu ad xs rr].
  unfold Rinv, istep, vis, wfb, sil_base, sil_pend, ref_m, managed, add_none, rc_none, x_none, x_addst, x_eff.
  cbn [s_pc s_rmc s_cdone s_sdone s_rc s_hu s_stale s_phu s_add s_x s_rr fst snd].
  intros H (W & Hp & Hn & Hm & Hr).
  destruct e as [ |ok| |ok| |ok| | |ok|ok| |ok|ok|r| |n0| | | | |k|k ok| | |ok];
    cbn [sstep rstep is_marker orb];
    inv_in H; subst s'; cbn [s_pc s_rmc s_cdone s_sdone s_rc s_hu s_stale s_phu s_add s_x s_rr set_pc] in *.
  all: subst; try (eexists; split; [reflexivity|]; adaptive; fail).
  all: destruct Hn as [Hn|(Hr1 & Hn & Hb)]; subst.
  all: repeat first
         [ solve [eexists; split; [reflexivity|]; adaptive]
         | split_with ltac:(cbn in *; try discriminate; try lia) ].
Qed.

Lemma orun_istep tr : forall a b x',
  orun istep (a, b) tr = Some x' ->
  orun sstep a tr = Some (fst x') /\ orun rstep b tr = Some (snd x').
Proof.
  induction tr as [|e tr IH]; intros a b x' H; cbn in *.
  - inversion H; subst; auto.
  - unfold istep in H at 1. cbn [fst snd] in H.
    destruct (sstep a e) as [a'|]; [|discriminate]. destruct (rstep b e) as [b'|]; [|discriminate].
    apply IH; auto.
Qed.

Lemma model_invariants c tr s :
  run c init tr s ->
  exists x, orun istep ((0, 0), (0, false)) tr = Some x /\ Rinv s x.
Proof.
  intros H.
  eapply (simulation_st istep Rinv c (Rinv_tau c) (Rinv_vis c)); eauto.
  cbn. repeat split; auto.
Qed.

Lemma model_silence c tr s : run c init tr s -> k_silence tr = true.
Proof.
  intros H. destruct (model_invariants _ _ _ H) as (x & Hx & _).
  apply orun_istep in Hx. destruct Hx as [Hs _]. apply k_silence_orun. congruence.
Qed.

Lemma model_refusals c tr s : run c init tr s -> k_refuse tr = true.
Proof.
  intros H. destruct (model_invariants _ _ _ H) as (x & Hx & _).
  apply orun_istep in Hx. destruct Hx as [_ Hr]. apply k_refuse_orun. congruence.
Qed.

Lemma reachable_wf c tr s : run c init tr s -> wfb s = true.
Proof.
  intros H. destruct (model_invariants _ _ _ H) as ([[n p] [m r]] & _ & W & _). exact W.
Qed.

(** declarative reading of K3: a goroutine letter needs a live Add *)
Lemma k_silence_gen tr : forall n pend,
  k_silence_n n pend tr = true ->
  forall a e b, tr = a ++ e :: b -> is_gor e = true ->
  n <> 0 \/ pend <> 0 \/ In EAddCalled a \/ In (XCalled KAdd) a.
Proof.
  induction tr as [|x tr IH]; intros n pend H a e b Heq Hg.
  - destruct a; discriminate.
  - destruct a as [|y a]; cbn in Heq; inversion Heq; subst; clear Heq.
    + unfold is_gor in Hg. destruct (Nat.eqb n 0) eqn:En.
      * destruct e; cbn in *; try discriminate; rewrite En in H; cbn in H; discriminate.
      * left. apply Nat.eqb_neq in En. auto.
    + assert (G : forall n' p', k_silence_n n' p' (a ++ e :: b) = true ->
                  (n' <> 0 \/ p' <> 0 -> n <> 0 \/ pend <> 0) ->
                  n <> 0 \/ pend <> 0 \/ In EAddCalled (y :: a) \/ In (XCalled KAdd) (y :: a)).
      { intros n' p' H' Himp. destruct (IH _ _ H' _ _ _ eq_refl Hg) as [E|[E|[E|E]]].
        - destruct Himp; auto.
        - destruct Himp; auto.
        - right; right; left; right; auto.
        - right; right; right; right; auto. }
      destruct y; cbn in H;
        try (apply andb_true_iff in H; destruct H as [_ H]);
        try (apply (G _ _ H); tauto).
      * right; right; left; left; auto.
      * destruct ok; apply (G _ _ H); lia.
      * destruct ok; apply (G _ _ H); lia.
      * destruct k; try (right; right; right; left; reflexivity);
          try (apply andb_true_iff in H; destruct H as [_ H]); apply (G _ _ H); tauto.
      * destruct k, ok; try (apply andb_true_iff in H; destruct H as [_ H]); apply (G _ _ H); lia.
Qed.

Lemma k_silence_sound tr :
  k_silence tr = true ->
  forall a e b, tr = a ++ e :: b -> is_gor e = true -> In EAddCalled a \/ In (XCalled KAdd) a.
Proof.
  intros H a e b Heq Hg. destruct (k_silence_gen _ _ _ H _ _ _ Heq Hg) as [E|[E|E]]; auto; congruence.
Qed.

(** Model of manager/manager.go (Add / Remove / Reconnect, retryMonitor, monitor,
    createConn, subscribe, handleUpdates, the receive-timeout goroutine) for one
    managed target name, as a labelled transition system with hidden steps.

    One target name = one per-name log.  Everything the manager does for a
    target happens on ONE goroutine (retryMonitor and what it calls
    synchronously: monitor -> gRPCMeta / createConn / subscribe ->
    handleUpdates -> the six callbacks), so the per-name log is totally ordered.
    The alphabet has three kinds of letters:

    - markers, written by the harness around its own API calls for that name
      (Add / Reconnect / Remove called and returned).  The first client
      goroutine issues its calls for the name one after the other; while one of
      its Removes is in progress (it holds the manager lock and waits for the
      monitoring goroutine) a SECOND client goroutine may call Add / Remove /
      Reconnect for the same name ([XCalled] / [XReturned]): on the code as it
      is these block on the manager lock until that Remove has completed;
    - environment queries made by the manager together with the environment's
      answer (credentials lookup, dial, the done func of a connection, stream
      open, Send, Recv) -- the "fault script" is the sub-sequence of these;
    - the six callbacks of manager.Config.

    Hidden state: whether the target's context ([ctx], cancelled by Remove) and
    its current reconnect sub-context ([sCtx], cancelled by Reconnect) are
    done.  Hidden steps: the cancellations themselves (they happen at an
    unobservable moment between "called" and "returned"), the context checks
    of the code ([select { case <-ctx.Done(): ... default: }]) and the one
    racing [select] of retryMonitor (ctx.Done vs. backoff timer).  All timing
    nondeterminism of the implementation is in these hidden steps. *)
From Coq Require Import List Bool ZArith Arith Lia.
Import ListNotations.

(** * Alphabet *)

Inductive msg :=
| MUpdate (n : Z)     (* SubscribeResponse_Update, identified by its timestamp *)
| MSync               (* SubscribeResponse_SyncResponse *)
| MErrResp            (* SubscribeResponse_Error: logged, no callback, stream goes on *)
| MNil.               (* Response == nil: "nil Response", logged, stream goes on *)

Inductive rres :=
| RMsg (m : msg)
| RErr                (* Recv returned some error *)
| REof                (* Recv returned io.EOF *)
| RCancel.            (* Recv returned because the stream's context is done *)

Inductive xkind := KAdd | KRemove | KReconnect.

Inductive event :=
(* markers *)
| EAddCalled                  (* Manager.Add(name, ...) is about to be called *)
| EAdd (ok : bool)            (* Manager.Add(name, ...) returned; ok = no error *)
| EReconnectCalled
| EReconnectReturned (ok : bool)
| ERemoveCalled
| ERemoveReturned (ok : bool)
| EHang                       (* harness watchdog: Remove did not return *)
| EStall                      (* harness watchdog: the target made no progress while managed *)
(* environment queries with their answers *)
| ECred (ok : bool)
| EDial (ok : bool)
| EDone
| EOpen (ok : bool)
| ESend (ok : bool)
| ERecv (r : rres)
(* callbacks *)
| CConnect
| CUpdate (n : Z)
| CSync
| CReset
| CConnErr
| CMonErr
(* markers of calls issued for the same name by a SECOND client goroutine while
   a Remove(name) of the first one is in progress (it has the manager lock),
   and of the harness gate that holds a callback open meanwhile *)
| XCalled (k : xkind)
| XReturned (k : xkind) (ok : bool)
| EGateClosed
| EGateOpen
(* an Add(name, ...) with invalid arguments (nil request, nil target, target
   without addresses, empty name) issued by the first client goroutine has
   returned; ok = no error *)
| EAddInvalid (ok : bool).

Definition is_marker (e : event) : bool :=
  match e with
  | EAddCalled | EAdd _ | EReconnectCalled | EReconnectReturned _ | ERemoveCalled | ERemoveReturned _
  | EHang | EStall | XCalled _ | XReturned _ _ | EGateClosed | EGateOpen | EAddInvalid _ => true
  | _ => false
  end.

Definition is_callback (e : event) : bool :=
  match e with
  | CConnect | CUpdate _ | CSync | CReset | CConnErr | CMonErr => true
  | _ => false
  end.

(** the goroutine's own letters (environment queries and callbacks) *)
Definition is_gor (e : event) : bool := negb (is_marker e).

(** * Configuration of a target (fixed per case) *)

Record cfg := {
  c_creds : bool;     (* target has username + password_id: gRPCMeta asks the CredentialsClient *)
  c_hops : nat;       (* number of unique next hops (>= 1, Add refuses a target without addresses) *)
  c_timeout : bool;   (* receive timeout > 0: handleUpdates starts the timeout goroutine *)
}.

(** * Control points of the retryMonitor goroutine *)

Inductive pc :=
| PIdle                 (* name not managed (never added, or Remove returned) *)
| PLoop                 (* retryMonitor: select { ctx.Done | timer.C } *)
| PMeta                 (* monitor: gRPCMeta *)
| PConnCheck (left : nat) (* createConn: loop head, [left] next hops not yet tried; ctx check next *)
| PDial (left : nat)    (* createConn: Connection() is being called for the next hop *)
| PSubCheck             (* subscribe: ctx check *)
| POpen                 (* subscribeClient(ctx, conn) *)
| PSend                 (* sc.Send(request) *)
| PRecv (connected : bool)  (* handleUpdates: sc.Recv() *)
| PConnect (m : msg)    (* first message of the stream received: connect callback next *)
| PDeliver (m : msg)    (* handleGNMIUpdate *)
| PReset                (* Recv failed: reset callback next *)
| PDone                 (* monitor returns: deferred done() *)
| PCE                   (* monitor returns with an error: deferred connectError callback *)
| PME                   (* retryMonitor: monitorError callback *)
| PFinished.            (* retryMonitor returned: close(finished) done *)

Inductive rcst := RcNone | RcPending | RcFired.

(** an Add(name) of the harness in flight: on a name that was not managed when
    it was called (it will succeed; the retryMonitor goroutine may run before
    the harness sees Add return) or on a managed name (it will be refused) *)
Inductive addst := AddNone | AddFresh | AddDup.

(** call of the second client goroutine: pending (blocked on the manager
    lock), or done inside the manager with its return not yet logged *)
Inductive xst := XNone | XP (k : xkind) | XE (k : xkind).

Record st := {
  s_pc : pc;
  s_rmc : bool;     (* Remove(name) has been called and has not returned *)
  s_cdone : bool;   (* hidden: ctx is cancelled *)
  s_sdone : bool;   (* hidden: the current reconnect sub-context is cancelled *)
  s_rc : rcst;      (* harness Reconnect(name) in flight *)
  s_hu : bool;      (* handleUpdates ran in this incarnation (a timeout goroutine may exist) *)
  s_stale : nat;    (* retryMonitor exits of earlier incarnations of this name *)
  s_phu : bool;     (* handleUpdates ran in an earlier incarnation of this name *)
  s_add : addst;    (* harness Add(name) in flight *)
  s_x : xst;        (* call of the second client goroutine in flight *)
  s_rr : bool;      (* the Remove in progress is complete inside the manager (finished closed,
                       entry deleted, lock released); its caller has not logged the return yet *)
}.

Definition init : st :=
  {| s_pc := PIdle; s_rmc := false; s_cdone := false; s_sdone := false; s_rc := RcNone;
     s_hu := false; s_stale := 0; s_phu := false; s_add := AddNone; s_x := XNone; s_rr := false |}.

Definition set_pc (s : st) (p : pc) : st :=
  {| s_pc := p; s_rmc := s_rmc s; s_cdone := s_cdone s; s_sdone := s_sdone s; s_rc := s_rc s;
     s_hu := s_hu s; s_stale := s_stale s; s_phu := s_phu s; s_add := s_add s; s_x := s_x s; s_rr := s_rr s |}.

Definition managed (s : st) : bool :=
  match s_pc s with PIdle => false | _ => true end.

Definition x_none (s : st) : bool := match s_x s with XNone => true | _ => false end.

Definition xkind_eqb (a b : xkind) : bool :=
  match a, b with
  | KAdd, KAdd | KRemove, KRemove | KReconnect, KReconnect => true
  | _, _ => false
  end.

(** DEFECT C13_1 (fixed in /repo by ada8f84): retryMonitor's deferred
    [m.Reconnect(ta.name)] and the receive-timeout goroutine's
    [m.Reconnect(ta.name)] used to look the target up BY NAME; when the name
    had been removed and added again they cancelled the sub-context of the NEW
    incarnation (a spurious forced reconnect).  They now act on their own
    target object ([forceReconnect]), so this constant is [false]; with [true]
    the model is the unpatched code (the branch is kept for reference). *)
Definition stale_reconnect_by_name : bool := false.

(** * Hidden steps *)

Definition tau (c : cfg) (s : st) : list st :=
  (* Remove: t.cancel() *)
  (if s_rmc s && negb (s_cdone s)
   then [{| s_pc := s_pc s; s_rmc := true; s_cdone := true; s_sdone := true; s_rc := s_rc s;
            s_hu := s_hu s; s_stale := s_stale s; s_phu := s_phu s; s_add := s_add s; s_x := s_x s; s_rr := s_rr s |}] else [])
  ++
  (* Reconnect issued through the API: t.reconnect() *)
  (match s_rc s with
   | RcPending =>
       [{| s_pc := s_pc s; s_rmc := s_rmc s; s_cdone := s_cdone s; s_sdone := true; s_rc := RcFired;
           s_hu := s_hu s; s_stale := s_stale s; s_phu := s_phu s; s_add := s_add s; s_x := s_x s; s_rr := s_rr s |}]
   | _ => []
   end)
  ++
  (* the receive-timeout goroutine of a stream of this incarnation: m.Reconnect(name) *)
  (if c_timeout c && s_hu s && managed s && negb (s_sdone s)
   then [{| s_pc := s_pc s; s_rmc := s_rmc s; s_cdone := s_cdone s; s_sdone := true; s_rc := s_rc s;
            s_hu := s_hu s; s_stale := s_stale s; s_phu := s_phu s; s_add := s_add s; s_x := s_x s; s_rr := s_rr s |}] else [])
  ++
  (* DEFECT C13_1 (fixed): a Reconnect-by-name left over from an earlier incarnation;
     dead now that [stale_reconnect_by_name] is [false] *)
  (if stale_reconnect_by_name && managed s && negb (s_sdone s)
   then (match s_stale s with
         | S k => [{| s_pc := s_pc s; s_rmc := s_rmc s; s_cdone := s_cdone s; s_sdone := true;
                      s_rc := s_rc s; s_hu := s_hu s; s_stale := k; s_phu := s_phu s; s_add := s_add s; s_x := s_x s; s_rr := s_rr s |}]
         | O => []
         end)
        ++ (if c_timeout c && s_phu s
            then [{| s_pc := s_pc s; s_rmc := s_rmc s; s_cdone := s_cdone s; s_sdone := true;
                     s_rc := s_rc s; s_hu := s_hu s; s_stale := s_stale s; s_phu := s_phu s; s_add := s_add s; s_x := s_x s; s_rr := s_rr s |}]
            else [])
   else [])
  ++
  (* Remove completes inside the manager: <-t.finished returned, the entry is
     deleted, the lock released (deferred Unlock); the caller has not logged
     its return yet *)
  (match s_pc s with
   | PFinished =>
       if s_rmc s
       then [{| s_pc := PIdle; s_rmc := false; s_cdone := false; s_sdone := false;
                s_rc := RcNone; s_hu := false; s_stale := S (s_stale s);
                s_phu := s_phu s || s_hu s; s_add := s_add s; s_x := s_x s; s_rr := true |}]
       else []
   | _ => []
   end)
  ++
  (* the call of the second client goroutine gets the manager lock: only once
     the Remove in progress has released it; the name is then unmanaged, so
     Add starts a fresh monitor, Remove and Reconnect find nothing *)
  (match s_x s with
   | XP k =>
       if s_rmc s then []
       else match s_pc s with
            | PIdle =>
                match k with
                | KAdd =>
                    [{| s_pc := PLoop; s_rmc := false; s_cdone := false; s_sdone := false;
                        s_rc := RcNone; s_hu := false; s_stale := s_stale s; s_phu := s_phu s;
                        s_add := s_add s; s_x := XE KAdd; s_rr := s_rr s |}]
                | _ =>
                    [{| s_pc := s_pc s; s_rmc := s_rmc s; s_cdone := s_cdone s;
                        s_sdone := s_sdone s; s_rc := s_rc s; s_hu := s_hu s;
                        s_stale := s_stale s; s_phu := s_phu s; s_add := s_add s;
                        s_x := XE k; s_rr := s_rr s |}]
                end
            | _ => []
            end
   | _ => []
   end)
  ++
  (* the goroutine's own hidden steps *)
  (match s_pc s with
   | PLoop =>
       (* select { case <-ctx.Done(): return (close(finished))
                   case <-timer.C: select { case <-sCtx.Done(): sCtx = reconnectCtx(ctx) default: };
                                   monitor(sCtx) }
          both may be ready: Go picks either.  A new sub-context is a child of
          ctx, hence done iff ctx is. *)
       (if s_cdone s then [set_pc s PFinished] else [])
       ++ [{| s_pc := PMeta; s_rmc := s_rmc s; s_cdone := s_cdone s; s_sdone := s_cdone s;
              s_rc := s_rc s; s_hu := s_hu s; s_stale := s_stale s; s_phu := s_phu s; s_add := s_add s; s_x := s_x s; s_rr := s_rr s |}]
   | PMeta => if c_creds c then [] else [set_pc s (PConnCheck (c_hops c))]
   | PConnCheck lft =>
       match lft with
       | O => [set_pc s PCE]                       (* every next hop failed: last error *)
       | S l => if s_sdone s then [set_pc s PCE]   (* case <-ctx.Done(): return ctx.Err() *)
                else [set_pc s (PDial l)]
       end
   | PSubCheck => if s_sdone s then [set_pc s PDone] else [set_pc s POpen]
   | PDeliver MErrResp | PDeliver MNil => [set_pc s (PRecv true)]
   | _ => []
   end).

(** * Visible steps *)

Definition vis (c : cfg) (s : st) (e : event) : list st :=
  match e with
  (* --- markers ------------------------------------------------------- *)
  | EAddCalled =>
      match s_add s, s_rc s, s_rmc s || s_rr s || negb (x_none s) with
      | AddNone, RcNone, false =>
          match s_pc s with
          | PIdle =>
              (* Add inserts the target and starts retryMonitor before it returns *)
              [{| s_pc := PLoop; s_rmc := false; s_cdone := false; s_sdone := false;
                  s_rc := RcNone; s_hu := false; s_stale := s_stale s; s_phu := s_phu s;
                  s_add := AddFresh; s_x := s_x s; s_rr := s_rr s |}]
          | _ =>
              [{| s_pc := s_pc s; s_rmc := s_rmc s; s_cdone := s_cdone s; s_sdone := s_sdone s;
                  s_rc := s_rc s; s_hu := s_hu s; s_stale := s_stale s; s_phu := s_phu s;
                  s_add := AddDup; s_x := s_x s; s_rr := s_rr s |}]
          end
      | _, _, _ => []
      end
  | EAdd ok =>
      match s_add s, ok with
      | AddFresh, true | AddDup, false =>
          [{| s_pc := s_pc s; s_rmc := s_rmc s; s_cdone := s_cdone s; s_sdone := s_sdone s;
              s_rc := s_rc s; s_hu := s_hu s; s_stale := s_stale s; s_phu := s_phu s;
              s_add := AddNone; s_x := s_x s; s_rr := s_rr s |}]
      | _, _ => []
      end
  | EReconnectCalled =>
      match s_rc s, s_add s, s_rmc s || s_rr s || negb (x_none s) with
      | RcNone, AddNone, false =>
                  if managed s
                  then [{| s_pc := s_pc s; s_rmc := s_rmc s; s_cdone := s_cdone s;
                           s_sdone := s_sdone s; s_rc := RcPending; s_hu := s_hu s;
                           s_stale := s_stale s; s_phu := s_phu s; s_add := s_add s; s_x := s_x s; s_rr := s_rr s |}]
                  else [s]
      | _, _, _ => []
      end
  | EReconnectReturned true =>
      match s_rc s with
      | RcFired => [{| s_pc := s_pc s; s_rmc := s_rmc s; s_cdone := s_cdone s;
                       s_sdone := s_sdone s; s_rc := RcNone; s_hu := s_hu s;
                       s_stale := s_stale s; s_phu := s_phu s; s_add := s_add s; s_x := s_x s; s_rr := s_rr s |}]
      | _ => []
      end
  | EReconnectReturned false =>
      match s_rc s with
      | RcNone => if managed s || s_rr s || negb (x_none s) then [] else [s]
      | _ => []
      end
  | ERemoveCalled =>
      match s_rmc s || s_rr s || negb (x_none s), s_add s, s_rc s with
      | false, AddNone, RcNone =>
           if managed s
           then [{| s_pc := s_pc s; s_rmc := true; s_cdone := s_cdone s; s_sdone := s_sdone s;
                    s_rc := s_rc s; s_hu := s_hu s; s_stale := s_stale s; s_phu := s_phu s; s_add := s_add s; s_x := s_x s; s_rr := s_rr s |}]
           else [s]
      | _, _, _ => []
      end
  | ERemoveReturned true =>
      if s_rr s
      then [{| s_pc := s_pc s; s_rmc := s_rmc s; s_cdone := s_cdone s; s_sdone := s_sdone s;
               s_rc := s_rc s; s_hu := s_hu s; s_stale := s_stale s; s_phu := s_phu s;
               s_add := s_add s; s_x := s_x s; s_rr := false |}]
      else []
  | ERemoveReturned false => if managed s || s_rr s || negb (x_none s) then [] else [s]
  | EHang | EStall => []
  | XCalled k =>
      match s_x s with
      | XNone =>
          if s_rmc s
          then [{| s_pc := s_pc s; s_rmc := s_rmc s; s_cdone := s_cdone s; s_sdone := s_sdone s;
                   s_rc := s_rc s; s_hu := s_hu s; s_stale := s_stale s; s_phu := s_phu s;
                   s_add := s_add s; s_x := XP k; s_rr := s_rr s |}]
          else []
      | _ => []
      end
  | XReturned k ok =>
      match s_x s with
      | XE k' =>
          if xkind_eqb k k' && Bool.eqb ok (match k with KAdd => true | _ => false end)
          then [{| s_pc := s_pc s; s_rmc := s_rmc s; s_cdone := s_cdone s; s_sdone := s_sdone s;
                   s_rc := s_rc s; s_hu := s_hu s; s_stale := s_stale s; s_phu := s_phu s;
                   s_add := s_add s; s_x := XNone; s_rr := s_rr s |}]
          else []
      | _ => []
      end
  | EGateClosed | EGateOpen => [s]
  | EAddInvalid ok =>
      (* refused whatever the state of the name, and a refused call changes nothing *)
      if ok then []
      else match s_add s, s_rc s, s_rmc s || s_rr s || negb (x_none s) with
           | AddNone, RcNone, false => [s]
           | _, _, _ => []
           end
  (* --- the goroutine ------------------------------------------------- *)
  | ECred ok =>
      match s_pc s with
      | PMeta => if c_creds c
                 then [set_pc s (if ok then PConnCheck (c_hops c) else PCE)] else []
      | _ => []
      end
  | EDial ok =>
      match s_pc s with
      | PDial l => [set_pc s (if ok then PSubCheck else PConnCheck l)]
      | _ => []
      end
  | EOpen ok =>
      match s_pc s with
      | POpen => [set_pc s (if ok then PSend else PDone)]
      | _ => []
      end
  | ESend ok =>
      match s_pc s with
      | PSend =>
          if ok
          then [{| s_pc := PRecv false; s_rmc := s_rmc s; s_cdone := s_cdone s;
                   s_sdone := s_sdone s; s_rc := s_rc s; s_hu := true;
                   s_stale := s_stale s; s_phu := s_phu s; s_add := s_add s; s_x := s_x s; s_rr := s_rr s |}]
          else [set_pc s PDone]
      | _ => []
      end
  | ERecv r =>
      match s_pc s with
      | PRecv conn =>
          match r with
          | RMsg m => [set_pc s (if conn then PDeliver m else PConnect m)]
          | RErr | REof => [set_pc s PReset]
          | RCancel => if s_sdone s then [set_pc s PReset] else []
          end
      | _ => []
      end
  | CConnect =>
      match s_pc s with
      | PConnect m => [set_pc s (PDeliver m)]
      | _ => []
      end
  | CUpdate n =>
      match s_pc s with
      | PDeliver (MUpdate k) => if Z.eqb n k then [set_pc s (PRecv true)] else []
      | _ => []
      end
  | CSync =>
      match s_pc s with
      | PDeliver MSync => [set_pc s (PRecv true)]
      | _ => []
      end
  | CReset =>
      match s_pc s with
      | PReset => [set_pc s PDone]
      | _ => []
      end
  | EDone =>
      match s_pc s with
      | PDone => [set_pc s PCE]
      | _ => []
      end
  | CConnErr =>
      match s_pc s with
      | PCE => [set_pc s PME]
      | _ => []
      end
  | CMonErr =>
      match s_pc s with
      | PME => [set_pc s PLoop]
      | _ => []
      end
  end.

(** * Runs: the language of the model *)

Inductive run (c : cfg) : st -> list event -> st -> Prop :=
| run_nil s : run c s [] s
| run_tau s s' tr s'' : In s' (tau c s) -> run c s' tr s'' -> run c s tr s''
| run_vis s e s' tr s'' : In s' (vis c s e) -> run c s' tr s'' -> run c s (e :: tr) s''.

(** [emits c tr]: the model can produce the log [tr] from the initial state *)
Definition emits (c : cfg) (tr : list event) : Prop := exists s, run c init tr s.

(** * Executable acceptance (subset construction) *)

Definition pc_eqb (a b : pc) : bool :=
  match a, b with
  | PIdle, PIdle | PLoop, PLoop | PMeta, PMeta | PSubCheck, PSubCheck | POpen, POpen
  | PSend, PSend | PReset, PReset | PDone, PDone | PCE, PCE | PME, PME
  | PFinished, PFinished => true
  | PConnCheck x, PConnCheck y | PDial x, PDial y => Nat.eqb x y
  | PRecv x, PRecv y => Bool.eqb x y
  | PConnect x, PConnect y | PDeliver x, PDeliver y =>
      match x, y with
      | MUpdate n, MUpdate k => Z.eqb n k
      | MSync, MSync | MErrResp, MErrResp | MNil, MNil => true
      | _, _ => false
      end
  | _, _ => false
  end.

Definition rc_eqb (a b : rcst) : bool :=
  match a, b with
  | RcNone, RcNone | RcPending, RcPending | RcFired, RcFired => true
  | _, _ => false
  end.

Definition add_eqb (a b : addst) : bool :=
  match a, b with
  | AddNone, AddNone | AddFresh, AddFresh | AddDup, AddDup => true
  | _, _ => false
  end.

Definition x_eqb (a b : xst) : bool :=
  match a, b with
  | XNone, XNone => true
  | XP k, XP k' | XE k, XE k' => xkind_eqb k k'
  | _, _ => false
  end.

Definition st_eqb (a b : st) : bool :=
  pc_eqb (s_pc a) (s_pc b) && Bool.eqb (s_rmc a) (s_rmc b) && Bool.eqb (s_cdone a) (s_cdone b)
  && Bool.eqb (s_sdone a) (s_sdone b) && rc_eqb (s_rc a) (s_rc b) && Bool.eqb (s_hu a) (s_hu b)
  && Nat.eqb (s_stale a) (s_stale b) && Bool.eqb (s_phu a) (s_phu b) && add_eqb (s_add a) (s_add b)
  && x_eqb (s_x a) (s_x b) && Bool.eqb (s_rr a) (s_rr b).

Definition mem (s : st) (l : list st) : bool := existsb (st_eqb s) l.

Fixpoint add_all (new acc : list st) : list st :=
  match new with
  | [] => acc
  | s :: n' => if mem s acc then add_all n' acc else add_all n' (acc ++ [s])
  end.

(** closure under hidden steps: [fuel] rounds of "add every tau successor";
    the set of states reachable by hidden steps is small (every hidden step
    either sets a flag that is never unset by hidden steps, decrements
    [s_stale], or advances the goroutine to its next visible letter). *)
Fixpoint closure (c : cfg) (fuel : nat) (l : list st) : list st :=
  match fuel with
  | O => l
  | S f =>
      let l' := add_all (flat_map (tau c) l) l in
      if Nat.eqb (length l') (length l) then l else closure c f l'
  end.

Definition closure_fuel : nat := 64.

Definition step_set (c : cfg) (l : list st) (e : event) : list st :=
  closure c closure_fuel (add_all (flat_map (fun s => vis c s e) l) []).

Fixpoint run_set (c : cfg) (l : list st) (tr : list event) : list st :=
  match tr with
  | [] => l
  | e :: tr' => run_set c (step_set c l e) tr'
  end.

Definition reach_set (c : cfg) (tr : list event) : list st :=
  run_set c (closure c closure_fuel [init]) tr.

(** index of the first letter the model cannot produce, if any *)
Fixpoint first_reject (c : cfg) (i : nat) (l : list st) (tr : list event) : option nat :=
  match tr with
  | [] => None
  | e :: tr' =>
      match step_set c l e with
      | [] => Some i
      | l' => first_reject c (S i) l' tr'
      end
  end.

(** a finished log ends with the name unmanaged (the harness always removes) *)
Definition final (s : st) : bool :=
  match s_pc s with PIdle => x_none s && negb (s_rr s) | _ => false end.

Definition accepts (c : cfg) (tr : list event) : bool :=
  existsb final (reach_set c tr).

(** Executable specification K_P of C07 (subscribers never receive data for
    targets their ACL denies) and the case evaluator of its check.

    Every case was run twice by the harness: against a server with the case's
    ACL table installed (observations [c_obs], [c_status]) and against a server
    without ACL ([c_obs2], [c_status2]).  [check_case] compares both runs with
    the model (tag 1) and applies the property to the observations alone:

      tag 2  a response whose prefix target the table denies to the user was sent;
      tag 3  the run is not the un-ACL'd run with the denied responses removed
             (something for an authorised target was lost, or the status differs);
      tag 4  ACL installed, no user in the context: not rejected as
             Unauthenticated, or something was sent;
      tag 5  single denied target: not rejected with PermissionDenied, or
             something was sent. *)
From Gnmi Require Import Base.Prelude CTree.CTreeModel Subscribe.SubModel Subscribe.C05Check.

Definition groups_empty (obs : list oobs) : bool :=
  forallb (fun ob => match ob_group ob with [] => true | _ => false end) obs.

Definition denied_sent (allowed : string -> bool) (g : list oresp) : bool :=
  existsb (fun o => match o with
                    | OSync => false
                    | OUpd n _ => negb (allowed (g_target (n_prefix n)))
                    end) g.

Definition keep_allowed (allowed : string -> bool) (l : list resp) : list resp :=
  filter (fun r => match r with RSync => true | RUpd n => allowed (g_target (n_prefix n)) end) l.

Fixpoint live_at_sub (live : list string) (ops : list step) : list string :=
  match ops with
  | [] => live
  | SSub :: _ => live
  | s :: r => live_at_sub (live_after live s) r
  end.

(** the request names one existing target ([Some t]) *)
Definition single_target (live : list string) (rq : option request) : option string :=
  match rq with
  | Some rq =>
      if negb (r_has_sub rq) then None else
      match r_prefix rq with
      | Some pf =>
          let t := g_target pf in
          if String.eqb t "" || String.eqb t "*" then None
          else if existsb (String.eqb t) live then Some t else None
      | None => None
      end
  | None => None
  end.

Fixpoint complete_from (allowed : string -> bool) (i : nat) (o1 o2 : list oobs) : list (nat * N) :=
  match o1, o2 with
  | [], [] => []
  | a :: r1, b :: r2 =>
      (* the steps of a burst are judged by the acceptance test of the
         correspondence (final values of allowed leaves delivered) and tag 2 *)
      (if negb (N.eqb (ob_burst a) 0) then []
       else if group_eqb (expand (ob_group a)) (keep_allowed allowed (expand (ob_group b)))
       then [] else [(i, 3%N)])
      ++ complete_from allowed (S i) r1 r2
  | _, _ => [(i, 3%N)]
  end.

Fixpoint denied_from (allowed : string -> bool) (i : nat) (o : list oobs) : list (nat * N) :=
  match o with
  | [] => []
  | a :: r => (if denied_sent allowed (ob_group a) then [(i, 2%N)] else [])
              ++ denied_from allowed (S i) r
  end.

Definition has_sub_step (ops : list step) : bool :=
  existsb (fun s => match s with SSub => true | _ => false end) ops.

(** ** a table that changes during the script ([SAcl] steps)

    The per-response check uses the table in force when the response is sent,
    i.e. during the step that produced it; the single-target check the table
    in force at the Subscribe step. *)
Definition has_acl_step (ops : list step) : bool :=
  existsb (fun s => match s with SAcl _ => true | _ => false end) ops.

Fixpoint table_at_sub (tbl : list (string * string * bool)) (ops : list step) :=
  match ops with
  | [] => tbl
  | SSub :: _ => tbl
  | SAcl t :: r => table_at_sub t r
  | _ :: r => table_at_sub tbl r
  end.

Fixpoint dyn_from (u : string) (tbl : list (string * string * bool)) (complete : bool) (i : nat)
  (ops : list step) (o1 o2 : list oobs) : list (nat * N) :=
  match ops, o1, o2 with
  | s :: ops', a :: r1, b :: r2 =>
      let allowed := allow_of tbl u in
      let tbl' := match s with SAcl t => t | _ => tbl end in
      (if denied_sent allowed (ob_group a) then [(i, 2%N)] else [])
      ++ (if complete && N.eqb (ob_burst a) 0
             && negb (group_eqb (expand (ob_group a)) (keep_allowed allowed (expand (ob_group b))))
          then [(i, 3%N)] else [])
      ++ dyn_from u tbl' complete (S i) ops' r1 r2
  | [], [], [] => []
  | _, _, _ => if complete then [(i, 3%N)] else []
  end.

Definition kp_c07_dyn (cs : case) (tbl : list (string * string * bool)) (u : string) : list (nat * N) :=
  let n := List.length (c_ops cs) in
  let same_status := if status_eqb (c_status cs) (c_status2 cs) then [] else [(n, 3%N)] in
  match single_target (live_at_sub (c_targets cs) (c_ops cs)) (c_req cs) with
  | Some t =>
      if allow_of (table_at_sub tbl (c_ops cs)) u t then
        dyn_from u tbl true 0 (c_ops cs) (c_obs cs) (c_obs2 cs) ++ same_status
      else
        dyn_from u tbl false 0 (c_ops cs) (c_obs cs) (c_obs2 cs)
        ++ (if status_eqb (c_status cs) SPermissionDenied && groups_empty (c_obs cs)
            then [] else [(n, 5%N)])
  | None => dyn_from u tbl true 0 (c_ops cs) (c_obs cs) (c_obs2 cs) ++ same_status
  end.

Definition kp_c07 (cs : case) : list (nat * N) :=
  let n := List.length (c_ops cs) in
  match c_acl cs with
  | None => []
  | Some tbl =>
      if negb (has_sub_step (c_ops cs)) then [] else
      match c_user cs with
      | None =>
          if status_eqb (c_status cs) SUnauthenticated && groups_empty (c_obs cs) then [] else [(n, 4%N)]
      | Some u =>
          if has_acl_step (c_ops cs) then kp_c07_dyn cs tbl u else
          let allowed := allow_of tbl u in
          denied_from allowed 0 (c_obs cs)
          ++ match single_target (live_at_sub (c_targets cs) (c_ops cs)) (c_req cs) with
             | Some t =>
                 if allowed t then
                   complete_from allowed 0 (c_obs cs) (c_obs2 cs)
                   ++ (if status_eqb (c_status cs) (c_status2 cs) then [] else [(n, 3%N)])
                 else if status_eqb (c_status cs) SPermissionDenied && groups_empty (c_obs cs)
                      then [] else [(n, 5%N)]
             | None =>
                 complete_from allowed 0 (c_obs cs) (c_obs2 cs)
                 ++ (if status_eqb (c_status cs) (c_status2 cs) then [] else [(n, 3%N)])
             end
      end
  end.

(** with a failed stream only the safety clause (tag 2) is judged *)
Definition kp_c07_faulty (cs : case) : list (nat * N) :=
  match c_acl cs, c_user cs with
  | Some tbl, Some u =>
      if has_acl_step (c_ops cs) then dyn_from u tbl false 0 (c_ops cs) (c_obs cs) (c_obs2 cs)
      else denied_from (allow_of tbl u) 0 (c_obs cs)
  | _, _ => []
  end.

Definition check_case (cs : case) : list (nat * N) :=
  model_check (acfg cs) cs (c_obs cs) (c_status cs) (Some (c_final cs))
  ++ model_check_normal NoACL cs (c_obs2 cs) (c_status2 cs) None   (* the reference run has no fault *)
  ++ (if faulty cs then kp_c07_faulty cs else kp_c07 cs).

Fixpoint check_all_from (i : nat) (cs : list case) : list (nat * nat * N) :=
  match cs with
  | [] => []
  | c :: cs' => map (fun sn => (i, fst sn, snd sn)) (check_case c) ++ check_all_from (S i) cs'
  end.

Definition check_all (cs : list case) : list (nat * nat * N) := check_all_from 0 cs.

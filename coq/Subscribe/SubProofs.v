(** Proofs about the Subscribe responder model. *)
From Gnmi Require Import Base.Prelude CTree.CTreeModel CTree.CTreeProofs Subscribe.SubModel.

Lemma send_filter_noacl allow l : send_filter allow NoACL l = l.
Proof.
  unfold send_filter. induction l as [|r l IH]; cbn; [reflexivity|].
  destruct r; cbn; now rewrite IH.
Qed.

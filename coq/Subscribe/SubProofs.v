(** Proofs about the Subscribe responder model (SubModel.v): exactness of the
    ONCE / POLL snapshots (C05) and the ACL clauses (C07). *)
From Gnmi Require Import Base.Prelude CTree.CTreeModel CTree.CTreeProofs Subscribe.SubModel.

(** * Caches *)

Definition wf_cache (c : cache) : Prop :=
  NoDup (keys c) /\ Forall (fun kt => wf_tree (snd kt)) c.

(** leaf [n] is stored under index path [p] of target [t] *)
Definition stored (c : cache) (t : string) (p : path) (n : noti) : Prop :=
  exists tr, In (t, tr) c /\ lookup tr p = Some n.

(** the request target selects target [t] *)
Definition tsel (rt t : string) : Prop := rt = "*" \/ rt = t.

(** the specification of a snapshot: the stored leaves that some subscription
    path, completed with the prefix, matches ([qmatch]: wildcards at any
    position), in a selected target *)
Definition matches (c : cache) (rt : string) (pf : option gpath) (subs : list (option gpath))
  (n : noti) : Prop :=
  exists t p sp full,
    tsel rt t /\ stored c t p n /\ In sp subs /\ complete_path pf sp = Some full
    /\ qmatch full p = true.

Lemma query_spec (tr : tree noti) q p v :
  wf_tree tr -> (In (p, v) (query tr q) <-> lookup tr p = Some v /\ qmatch q p = true).
Proof.
  destruct tr as [n|]; cbn; intros Hwf.
  - rewrite (query_node_spec n [] q p v Hwf). cbn. split.
    + intros (s & -> & H1 & H2). auto.
    + intros [H1 H2]. eauto.
  - split; [tauto|intros [H _]; discriminate].
Qed.

Lemma wf_cache_tree c t tr : wf_cache c -> In (t, tr) c -> wf_tree tr.
Proof.
  intros [_ Hall] Hin. rewrite Forall_forall in Hall. exact (Hall _ Hin).
Qed.

Lemma sel_trees_spec c rt tr :
  NoDup (keys c) ->
  (In tr (sel_trees c rt) <-> exists t, tsel rt t /\ In (t, tr) c).
Proof.
  intros Hnd. unfold sel_trees, tsel. destruct (String.eqb_spec rt "*") as [->|Hne].
  - rewrite in_map_iff. split.
    + intros ([t tr'] & <- & Hin). exists t. auto.
    + intros (t & _ & Hin). exists (t, tr). auto.
  - destruct (assoc rt c) as [tr'|] eqn:Ha.
    + split.
      * intros [<-|[]]. exists rt. split; [auto|]. now apply assoc_In.
      * intros (t & [E|E] & Hin); [contradiction|]. subst t.
        pose proof (In_assoc _ _ _ Hnd Hin) as Ha'. rewrite Ha in Ha'. inversion Ha'. now left.
    + split; [intros []|]. intros (t & [E|E] & Hin); [contradiction|]. subst t.
      pose proof (In_assoc _ _ _ Hnd Hin) as Ha'. congruence.
Qed.

(** * The walk *)

Lemma walk_subs_ok c rt pf subs :
  snd (walk_subs c rt pf subs) = true <-> forall sp, In sp subs -> complete_path pf sp <> None.
Proof.
  induction subs as [|sp r IH]; cbn.
  - split; [intros _ sp []|reflexivity].
  - destruct (complete_path pf sp) as [full|] eqn:E; cbn.
    + rewrite IH. split.
      * intros H sp' [<-|Hin]; [congruence|auto].
      * intros H sp' Hin. apply H. now right.
    + split; [discriminate|]. intros H. exfalso. apply (H sp); auto.
Qed.

Lemma walk_subs_spec c rt pf subs :
  wf_cache c -> snd (walk_subs c rt pf subs) = true ->
  ~ In RSync (fst (walk_subs c rt pf subs)) /\
  forall n, In (RUpd n) (fst (walk_subs c rt pf subs)) <-> matches c rt pf subs n.
Proof.
  intros Hwf. induction subs as [|sp r IH]; cbn.
  - intros _. split; [tauto|]. intros n. split; [intros []|].
    intros (t & p & sp & full & _ & _ & [] & _).
  - destruct (complete_path pf sp) as [full|] eqn:E; cbn; [|discriminate].
    intros Hok. destruct (IH Hok) as [IHs IHm]. split.
    + rewrite in_app_iff. intros [H|H]; [|contradiction].
      apply in_flat_map in H as (tr & _ & H). apply in_map_iff in H as (pv & Hpv & _). discriminate.
    + intros n. rewrite in_app_iff, IHm. split.
      * intros [H|H].
        -- apply in_flat_map in H as (tr & Htr & H). apply in_map_iff in H as ([p v] & Hpv & Hq).
           cbn in Hpv. inversion Hpv; subst v.
           apply sel_trees_spec in Htr as (t & Ht & Hin); [|apply Hwf].
           apply query_spec in Hq as [Hl Hm]; [|eapply wf_cache_tree; eauto].
           exists t, p, sp, full. split; [auto|]. split; [exists tr; auto|].
           split; [now left|auto].
        -- destruct H as (t & p & sp' & full' & H1 & H2 & H3 & H4 & H5).
           exists t, p, sp', full'. split; [auto|]. split; [auto|]. split; [now right|auto].
      * intros (t & p & sp' & full' & Ht & (tr & Hin & Hl) & [<-|Hsp] & Hc & Hm).
        -- left. rewrite E in Hc. inversion Hc; subst full'.
           apply in_flat_map. exists tr. split.
           ++ apply sel_trees_spec; [apply Hwf|]. eauto.
           ++ apply in_map_iff. exists (p, n). split; [reflexivity|].
              apply query_spec; [eapply wf_cache_tree; eauto|]. auto.
        -- right. exists t, p, sp', full'. split; [auto|]. split; [exists tr; auto|]. auto.
Qed.

(** every stored leaf is offered once per (subscription, target, path): the
    paths one tree query reports are pairwise distinct *)
Lemma query_nodup (tr : tree noti) q : wf_tree tr -> NoDup (map fst (query tr q)).
Proof.
  destruct tr as [n|]; cbn; intros Hwf; [now apply query_node_nodup|constructor].
Qed.

(** * Sending *)

Lemma send_filter_noacl allow l : send_filter allow NoACL l = l.
Proof.
  unfold send_filter. induction l as [|r l IH]; cbn; [reflexivity|].
  destruct r; cbn; now rewrite IH.
Qed.

Lemma send_filter_app allow a l1 l2 :
  send_filter allow a (l1 ++ l2) = send_filter allow a l1 ++ send_filter allow a l2.
Proof. apply filter_app. Qed.

Lemma send_filter_idem allow a l :
  send_filter allow a (send_filter allow a l) = send_filter allow a l.
Proof.
  unfold send_filter. induction l as [|r l IH]; cbn; [reflexivity|].
  destruct (passes allow a r) eqn:E; cbn; rewrite ?E, IH; reflexivity.
Qed.

Lemma send_filter_allowed allow a l n :
  In (RUpd n) (send_filter allow a l) -> chk allow a (g_target (n_prefix n)) = true.
Proof. unfold send_filter. rewrite filter_In. now intros [_ H]. Qed.

(** * ONCE *)

(** a request Subscribe accepts up to the mode switch *)
Definition accepted (c : cache) (rq : request) (pf : gpath) : Prop :=
  r_has_sub rq = true /\ r_prefix rq = Some pf /\ g_target pf <> ""
  /\ has_target c (g_target pf) = true.

Definition paths_ok (rq : request) (pf : gpath) : Prop :=
  forall sp, In sp (r_subs rq) -> complete_path (Some pf) sp <> None.

Lemma snapshot_exact c rq pf :
  wf_cache c -> r_prefix rq = Some pf -> paths_ok rq pf -> r_updates_only rq = false ->
  exists ups,
    snapshot c (g_target pf) rq = (ups ++ [RSync], true) /\ ~ In RSync ups /\
    forall n, In (RUpd n) ups <-> matches c (g_target pf) (Some pf) (r_subs rq) n.
Proof.
  intros Hwf Hpf Hok Huo. unfold snapshot. rewrite Huo, Hpf.
  assert (Hs : snd (walk_subs c (g_target pf) (Some pf) (r_subs rq)) = true)
    by (apply walk_subs_ok; exact Hok).
  rewrite Hs. exists (fst (walk_subs c (g_target pf) (Some pf) (r_subs rq))).
  split; [reflexivity|]. now apply walk_subs_spec.
Qed.

Lemma snapshot_updates_only c t rq :
  r_updates_only rq = true -> snapshot c t rq = ([RSync], true).
Proof. intros H. unfold snapshot. now rewrite H. Qed.

Lemma subscribe_accepted allow a c rq pf :
  accepted c rq pf ->
  (g_target pf = "*" \/ chk allow a (g_target pf) = true) ->
  a <> ACLUser None ->
  subscribe allow a c (Some rq) =
    let t := g_target pf in
    if Z.eqb (r_mode rq) 1 then
      let s := snapshot c t rq in
      (PEnded (if snd s then SOK else SUnknown), send_filter allow a (fst s))
    else if Z.eqb (r_mode rq) 2 then
      let s := snapshot c t rq in
      (if snd s then PPoll t rq else PEnded SUnknown, send_filter allow a (fst s))
    else if Z.eqb (r_mode rq) 0 then
      let s := snapshot c t rq in
      (if snd s then PStream (negb (String.eqb t "*")) (sub_queries pf (r_subs rq))
       else PEnded SUnknown,
       send_filter allow a (fst s))
    else (PEnded SInvalidArgument, []).
Proof.
  intros (Hs & Hp & Ht & Hh) Hchk Ha.
  assert (Hc : negb (String.eqb (g_target pf) "*") && negb (chk allow a (g_target pf)) = false).
  { destruct Hchk as [E|E]; rewrite E; cbn; [reflexivity|apply andb_false_r]. }
  unfold subscribe.
  destruct a as [|[u|]]; try congruence; rewrite Hs, Hp; cbn [negb];
    (destruct (String.eqb_spec (g_target pf) "") as [E|_]; [contradiction|]); rewrite Hh; cbn [negb];
    rewrite Hc; reflexivity.
Qed.

Lemma not_acl_none : NoACL <> ACLUser None.
Proof. discriminate. Qed.

Lemma run_sub allow a rq c :
  run allow a rq (RS c PBefore) [SSub]
  = ([(snd (subscribe allow a c rq), COk)], RS c (fst (subscribe allow a c rq))).
Proof. reflexivity. Qed.

(** ONCE against an unchanging cache: the updates before the sync are exactly
    the matching leaves with their current stored notifications, then exactly
    one sync, last, and the RPC ends with status OK. *)
Lemma once_exact allow c rq pf :
  wf_cache c -> accepted c rq pf -> r_mode rq = 1%Z -> r_updates_only rq = false ->
  paths_ok rq pf ->
  exists ups,
    run allow NoACL (Some rq) (RS c PBefore) [SSub]
      = ([(ups ++ [RSync], COk)], RS c (PEnded SOK))
    /\ ~ In RSync ups
    /\ (forall n, In (RUpd n) ups <-> matches c (g_target pf) (Some pf) (r_subs rq) n).
Proof.
  intros Hwf Hacc Hm Huo Hok.
  destruct (snapshot_exact c rq pf Hwf (proj1 (proj2 Hacc)) Hok Huo) as (ups & Hs & Hn & Hi).
  exists ups. split; [|auto]. rewrite run_sub.
  rewrite (subscribe_accepted allow NoACL c rq pf Hacc (or_intror eq_refl) not_acl_none).
  rewrite Hm. cbn zeta. rewrite Z.eqb_refl, Hs. cbn [fst snd]. now rewrite send_filter_noacl.
Qed.

Lemma once_updates_only allow c rq pf :
  accepted c rq pf -> r_mode rq = 1%Z -> r_updates_only rq = true ->
  run allow NoACL (Some rq) (RS c PBefore) [SSub] = ([([RSync], COk)], RS c (PEnded SOK)).
Proof.
  intros Hacc Hm Huo. rewrite run_sub.
  rewrite (subscribe_accepted allow NoACL c rq pf Hacc (or_intror eq_refl) not_acl_none).
  rewrite Hm. cbn zeta. rewrite Z.eqb_refl, (snapshot_updates_only _ _ _ Huo). reflexivity.
Qed.

(** * Cache operations keep the cache well formed *)

Lemma add_wf (t t' : tree noti) p v : wf_tree t -> add t p v = Some t' -> wf_tree t'.
Proof.
  destruct t as [n|]; cbn.
  - intros Hwf. destruct (add_node n p v) as [n'|] eqn:E; [|discriminate].
    intros H; inversion H; subst. cbn. exact (proj1 (add_node_spec n p v n' Hwf E)).
  - intros _ H; inversion H; subst. cbn. apply wf_new_branch.
Qed.

Lemma delete_cond_wf (t : tree noti) q cnd : wf_tree t -> wf_tree (fst (delete_cond t q cnd)).
Proof.
  destruct t as [n|]; cbn; [|trivial]. intros Hwf.
  destruct (del_node_spec n q cnd Hwf) as (H & _).
  destruct (del_node n q cnd) as [[n'|] l]; cbn in *; [apply H; reflexivity|trivial].
Qed.

Lemma gnmi_update1_wf tr n tr' fd e :
  wf_tree tr -> gnmi_update1 tr n = URes tr' fd e -> wf_tree tr'.
Proof.
  intros Hwf. unfold gnmi_update1.
  destruct (n_upds n) as [|[p0 v0] us]; [discriminate|].
  destruct (join_prefix_path _ _) as [[|k p]|]; try discriminate;
    [intros H; inversion H; subst; assumption|].
  destruct (String.eqb k "meta");
    [destruct p; [intros H; inversion H; subst; assumption|discriminate]|].
  destruct (get tr (k :: p)) as [[old|cs]|] eqn:G.
  - destruct (Z.ltb _ _); [intros H; inversion H; subst; assumption|].
    destruct (_ && _); [intros H; inversion H; subst; assumption|].
    destruct (add tr (k :: p) n) as [tr1|] eqn:A; [|discriminate].
    destruct (first_val old); [|discriminate].
    destruct (_ && _); intros H; inversion H; subst; eapply add_wf; eauto.
  - intros H; inversion H; subst; assumption.
  - destruct (add tr (k :: p) n) as [tr1|] eqn:A; intros H; inversion H; subst;
      [eapply add_wf; eauto|assumption].
Qed.

Lemma gnmi_remove1_wf tr n tr' fd e :
  wf_tree tr -> gnmi_remove1 tr n = URes tr' fd e -> wf_tree tr'.
Proof.
  intros Hwf. unfold gnmi_remove1.
  destruct (n_dels n) as [|d ds]; [discriminate|].
  destruct (join_prefix_path _ _) as [p|]; try discriminate.
  destruct (match p with k :: _ => String.eqb k "meta" | [] => false end); [discriminate|].
  destruct (all_some _); [|discriminate].
  intros H; inversion H; subst. now apply delete_cond_wf.
Qed.

Lemma apply_parts_wf f :
  (forall tr n tr' fd e, wf_tree tr -> f tr n = URes tr' fd e -> wf_tree tr') ->
  forall ns tr feed err tr' fd e,
    wf_tree tr -> apply_parts f tr ns feed err = URes tr' fd e -> wf_tree tr'.
Proof.
  intros Hf. induction ns as [|n r IH]; cbn; intros tr feed err tr' fd e Hwf.
  - intros H; inversion H; subst; assumption.
  - destruct (f tr n) as [tr1 fd1 e1| |] eqn:E; try discriminate.
    apply IH. eapply Hf; eauto.
Qed.

Lemma tgt_update_wf tr n tr' fd e :
  wf_tree tr -> tgt_update tr n = URes tr' fd e -> wf_tree tr'.
Proof.
  intros Hwf. unfold tgt_update.
  destruct (n_atomic n).
  - destruct (n_dels n); [|intros H; inversion H; subst; assumption].
    destruct (n_upds n); [intros H; inversion H; subst; assumption|].
    now apply gnmi_update1_wf.
  - destruct (Nat.ltb _ _).
    + destruct (apply_parts gnmi_update1 tr _ [] false) as [tr1 fd1 e1| |] eqn:E; try discriminate.
      apply (apply_parts_wf _ gnmi_remove1_wf).
      eapply (apply_parts_wf _ gnmi_update1_wf); eauto.
    + destruct (n_upds n) as [|u [|u' us]]; destruct (n_dels n) as [|d [|d' ds]];
        try (intros H; inversion H; subst; assumption);
        try (now apply gnmi_update1_wf); try (now apply gnmi_remove1_wf).
Qed.

Lemma cache_op_wf c o :
  wf_cache c -> wf_cache (fst (fst (cache_op c o))).
Proof.
  intros [Hnd Hall]. destruct o as [n|t now|t|t]; cbn.
  - destruct (assoc _ c) as [tr|] eqn:A; cbn; [|split; assumption].
    destruct (tgt_update tr n) as [tr' fd e| |] eqn:U; cbn; try (split; assumption).
    split; [now apply NoDup_keys_aset|]. apply Forall_aset; [assumption|]. cbn.
    eapply tgt_update_wf; [|exact U].
    apply assoc_In in A. rewrite Forall_forall in Hall. exact (Hall _ A).
  - split; [now apply NoDup_keys_adel|now apply Forall_adel].
  - split; [now apply NoDup_keys_aset|]. apply Forall_aset; [assumption|exact I].
  - split; [apply NoDup_keys_aset; now apply NoDup_keys_adel|].
    apply Forall_aset; [now apply Forall_adel|exact I].
Qed.

Lemma fold_aset_wf ts : forall c : cache,
  wf_cache c -> wf_cache (fold_left (fun (c : cache) t => aset t (None : tree noti) c) ts c).
Proof.
  induction ts as [|t r IH]; cbn; intros c Hc; [assumption|].
  apply IH. destruct Hc as [Hnd Hall]. split; [now apply NoDup_keys_aset|].
  apply Forall_aset; [assumption|exact I].
Qed.

Lemma empty_cache_wf ts : wf_cache (empty_cache ts).
Proof. apply fold_aset_wf. split; constructor. Qed.

(** * Scripts *)

(** the cache after the cache operations of a script prefix *)
Fixpoint cache_after (c : cache) (ops : list step) : cache :=
  match ops with
  | [] => c
  | SCache o :: r => cache_after (fst (fst (cache_op c o))) r
  | _ :: r => cache_after c r
  end.

Lemma cache_after_wf c ops : wf_cache c -> wf_cache (cache_after c ops).
Proof.
  revert c; induction ops as [|s r IH]; cbn; intros c Hwf; [assumption|].
  destruct s; auto. apply IH. now apply cache_op_wf.
Qed.

Lemma run_app allow a rq st l1 l2 :
  run allow a rq st (l1 ++ l2) =
  (fst (run allow a rq st l1) ++ fst (run allow a rq (snd (run allow a rq st l1)) l2),
   snd (run allow a rq (snd (run allow a rq st l1)) l2)).
Proof.
  revert st; induction l1 as [|s r IH]; intros st; cbn [app run].
  - cbn. now destruct (run allow a rq st l2).
  - destruct (run_step allow a rq st s) as [[st' g] cr]. rewrite IH. reflexivity.
Qed.

Lemma run_length allow a rq st ops : List.length (fst (run allow a rq st ops)) = List.length ops.
Proof.
  revert st; induction ops as [|s r IH]; intros st; cbn; [reflexivity|].
  destruct (run_step allow a rq st s) as [[st' g] cr]. cbn. now rewrite IH.
Qed.

(** the cache a script reaches does not depend on the subscriber *)
Lemma run_cache allow a rq st ops :
  rs_cache (snd (run allow a rq st ops)) = cache_after (rs_cache st) ops.
Proof.
  revert st; induction ops as [|s r IH]; intros st; cbn; [reflexivity|].
  destruct s as [o| | |tb]; cbn.
  - destruct (cache_op (rs_cache st) o) as [[c' fd] cr] eqn:E.
    destruct (rs_phase st) as [| | |]; cbn; rewrite IH; cbn; reflexivity.
  - destruct (rs_phase st); cbn; rewrite IH; reflexivity.
  - destruct (rs_phase st); cbn; rewrite IH; reflexivity.
  - rewrite IH. reflexivity.
Qed.

Lemma run_cons allow a rq st s r :
  run allow a rq st (s :: r) =
  ((snd (fst (run_step allow a rq st s)), snd (run_step allow a rq st s))
     :: fst (run allow a rq (fst (fst (run_step allow a rq st s))) r),
   snd (run allow a rq (fst (fst (run_step allow a rq st s))) r)).
Proof. cbn [run]. destruct (run_step allow a rq st s) as [[st' g] cr]. reflexivity. Qed.

Lemma run_step_poll allow a rq c t q :
  run_step allow a rq (RS c (PPoll t q)) SPoll =
  (RS c (if snd (snapshot c t q) then PPoll t q else PEnded SUnknown),
   send_filter allow a (fst (snapshot c t q)), COk).
Proof. reflexivity. Qed.

Lemma run_step_sub allow a rq c :
  run_step allow a rq (RS c PBefore) SSub =
  (RS c (fst (subscribe allow a c rq)), snd (subscribe allow a c rq), COk).
Proof. reflexivity. Qed.

Definition silent (gs : list (list resp * cres)) : Prop := Forall (fun g => fst g = []) gs.

Definition no_sub (ops : list step) : Prop := ~ In SSub ops.

(** before the Subscribe call nothing is sent *)
Lemma run_before allow a rq c ops :
  no_sub ops ->
  silent (fst (run allow a rq (RS c PBefore) ops))
  /\ snd (run allow a rq (RS c PBefore) ops) = RS (cache_after c ops) PBefore.
Proof.
  revert c; induction ops as [|s r IH]; intros c Hn; cbn.
  - split; [constructor|reflexivity].
  - assert (Hr : no_sub r) by (intros H; apply Hn; now right).
    destruct s as [o| | |tb]; cbn.
    + destruct (cache_op c o) as [[c' fd] cr]. cbn. destruct (IH c' Hr) as [H1 H2].
      split; [constructor; [reflexivity|assumption]|assumption].
    + exfalso. apply Hn. now left.
    + destruct (IH c Hr) as [H1 H2]. split; [constructor; [reflexivity|assumption]|assumption].
    + destruct (IH c Hr) as [H1 H2]. split; [constructor; [reflexivity|assumption]|assumption].
Qed.

(** after the RPC has ended nothing is sent and the status stays *)
Lemma run_ended allow a rq c st ops :
  silent (fst (run allow a rq (RS c (PEnded st)) ops))
  /\ snd (run allow a rq (RS c (PEnded st)) ops) = RS (cache_after c ops) (PEnded st).
Proof.
  revert c; induction ops as [|s r IH]; intros c; cbn.
  - split; [constructor|reflexivity].
  - destruct s as [o| | |tb]; cbn.
    + destruct (cache_op c o) as [[c' fd] cr]. cbn. destruct (IH c') as [H1 H2].
      split; [constructor; [reflexivity|assumption]|assumption].
    + destruct (IH c) as [H1 H2]. split; [constructor; [reflexivity|assumption]|assumption].
    + destruct (IH c) as [H1 H2]. split; [constructor; [reflexivity|assumption]|assumption].
    + destruct (IH c) as [H1 H2]. split; [constructor; [reflexivity|assumption]|assumption].
Qed.

(** * POLL *)

Definition snapshot_ok (rq : request) (pf : gpath) : Prop :=
  r_updates_only rq = true \/ paths_ok rq pf.

Lemma snapshot_ok_snd c rq pf :
  r_prefix rq = Some pf -> snapshot_ok rq pf -> snd (snapshot c (g_target pf) rq) = true.
Proof.
  intros Hp [H|H]; unfold snapshot.
  - now rewrite H.
  - destruct (r_updates_only rq); [reflexivity|]. rewrite Hp.
    assert (Hs : snd (walk_subs c (g_target pf) (Some pf) (r_subs rq)) = true)
      by (apply walk_subs_ok; exact H).
    now rewrite Hs.
Qed.

(** the group a script step produces, by position *)
Definition group_at allow a rq st ops (i : nat) : option (list resp * cres) :=
  nth_error (fst (run allow a rq st ops)) i.

(** in the polling phase: a trigger re-walks the cache as it is now, a cache
    edit sends nothing, the phase never changes *)
Lemma run_poll_phase allow rq pf c ops :
  r_prefix rq = Some pf -> snapshot_ok rq pf ->
  snd (run allow NoACL (Some rq) (RS c (PPoll (g_target pf) rq)) ops)
  = RS (cache_after c ops) (PPoll (g_target pf) rq).
Proof.
  intros Hp Hok. revert c; induction ops as [|s r IH]; intros c; cbn; [reflexivity|].
  destruct s as [o| | |tb]; cbn.
  - destruct (cache_op c o) as [[c' fd] cr]. cbn. apply IH.
  - apply IH.
  - rewrite (snapshot_ok_snd c rq pf Hp Hok). cbn. apply IH.
  - apply IH.
Qed.

Lemma run_poll_step allow rq pf c ops1 ops2 :
  r_prefix rq = Some pf -> snapshot_ok rq pf ->
  group_at allow NoACL (Some rq) (RS c (PPoll (g_target pf) rq)) (ops1 ++ SPoll :: ops2) (List.length ops1)
  = Some (fst (snapshot (cache_after c ops1) (g_target pf) rq), COk).
Proof.
  intros Hp Hok. unfold group_at. rewrite run_app.
  cbn [fst]. rewrite nth_error_app2 by (rewrite run_length; lia).
  rewrite run_length, Nat.sub_diag, run_poll_phase by assumption.
  rewrite run_cons, run_step_poll. cbn [fst snd nth_error]. now rewrite send_filter_noacl.
Qed.

Lemma run_poll_silent allow rq pf c ops1 o ops2 :
  r_prefix rq = Some pf -> snapshot_ok rq pf ->
  exists cr,
  group_at allow NoACL (Some rq) (RS c (PPoll (g_target pf) rq)) (ops1 ++ SCache o :: ops2) (List.length ops1)
  = Some ([], cr).
Proof.
  intros Hp Hok. unfold group_at. rewrite run_app.
  cbn [fst]. rewrite nth_error_app2 by (rewrite run_length; lia).
  rewrite run_length, Nat.sub_diag, run_poll_phase by assumption.
  rewrite run_cons. cbn [run_step rs_phase rs_cache].
  destruct (cache_op (cache_after c ops1) o) as [[c' fd] cr]. cbn [fst snd nth_error]. eauto.
Qed.

(** POLL: the initial request and every later trigger each return exactly the
    leaves matching at that moment (after the cache edits made so far), then
    one sync, last; edits in between send nothing; closing the request stream
    ends the RPC with status OK. *)
Lemma poll_exact allow c0 rq pf pre ops1 ops2 :
  wf_cache c0 -> no_sub pre ->
  accepted (cache_after c0 pre) rq pf -> r_mode rq = 2%Z -> r_updates_only rq = false ->
  paths_ok rq pf ->
  let script := pre ++ SSub :: ops1 ++ SPoll :: ops2 in
  let c1 := cache_after c0 (pre ++ SSub :: ops1) in
  exists ups,
    group_at allow NoACL (Some rq) (RS c0 PBefore) script (List.length pre + 1 + List.length ops1)
      = Some (ups ++ [RSync], COk)
    /\ ~ In RSync ups
    /\ (forall n, In (RUpd n) ups <-> matches c1 (g_target pf) (Some pf) (r_subs rq) n)
    /\ final_status (rs_phase (snd (run allow NoACL (Some rq) (RS c0 PBefore) script))) = SOK.
Proof.
  intros Hwf Hpre Hacc Hm Huo Hok script c1.
  pose proof (proj1 (proj2 Hacc)) as Hp.
  assert (Hsok : snapshot_ok rq pf) by (now right).
  assert (Hwf1 : wf_cache c1) by (now apply cache_after_wf).
  destruct (snapshot_exact c1 rq pf Hwf1 Hp Hok Huo) as (ups & Hs & Hn & Hi).
  exists ups.
  (* the state after pre ++ [SSub] *)
  destruct (run_before allow NoACL (Some rq) c0 pre Hpre) as [_ Hst0].
  assert (Hst1 : snd (run allow NoACL (Some rq) (RS c0 PBefore) (pre ++ [SSub]))
                 = RS (cache_after c0 pre) (PPoll (g_target pf) rq)).
  { rewrite run_app. cbn [snd]. rewrite Hst0, run_sub. cbn [snd].
    rewrite (subscribe_accepted allow NoACL _ rq pf Hacc (or_intror eq_refl) not_acl_none).
    rewrite Hm. cbn zeta. cbn [Z.eqb Pos.eqb]. rewrite (snapshot_ok_snd _ rq pf Hp Hsok). reflexivity. }
  assert (Hc1 : c1 = cache_after (cache_after c0 pre) ops1).
  { unfold c1. clear. revert c0. induction pre as [|s r IH]; intros c0; cbn; [reflexivity|].
    destruct s; auto. }
  assert (Hscript : script = (pre ++ [SSub]) ++ (ops1 ++ SPoll :: ops2))
    by (unfold script; now rewrite <- app_assoc).
  split; [|split; [assumption|split; [assumption|]]].
  - unfold group_at. rewrite Hscript, run_app. cbn [fst].
    rewrite nth_error_app2 by (rewrite run_length, app_length; cbn; lia).
    rewrite run_length, app_length, Hst1. cbn [List.length].
    replace (List.length pre + 1 + List.length ops1 - (List.length pre + 1)) with (List.length ops1) by lia.
    pose proof (run_poll_step allow rq pf (cache_after c0 pre) ops1 ops2 Hp Hsok) as H.
    unfold group_at in H. rewrite H, <- Hc1, Hs. reflexivity.
  - rewrite Hscript, run_app. cbn [snd]. rewrite Hst1, run_poll_phase by assumption. reflexivity.
Qed.

(** the first response group of a POLL (the initial request) *)
Lemma poll_initial_exact allow c0 rq pf pre ops :
  wf_cache c0 -> no_sub pre ->
  accepted (cache_after c0 pre) rq pf -> r_mode rq = 2%Z -> r_updates_only rq = false ->
  paths_ok rq pf ->
  exists ups,
    group_at allow NoACL (Some rq) (RS c0 PBefore) (pre ++ SSub :: ops) (List.length pre)
      = Some (ups ++ [RSync], COk)
    /\ ~ In RSync ups
    /\ (forall n, In (RUpd n) ups <->
                  matches (cache_after c0 pre) (g_target pf) (Some pf) (r_subs rq) n).
Proof.
  intros Hwf Hpre Hacc Hm Huo Hok.
  pose proof (proj1 (proj2 Hacc)) as Hp.
  assert (Hwf1 : wf_cache (cache_after c0 pre)) by (now apply cache_after_wf).
  destruct (snapshot_exact _ rq pf Hwf1 Hp Hok Huo) as (ups & Hs & Hn & Hi).
  exists ups. split; [|auto].
  destruct (run_before allow NoACL (Some rq) c0 pre Hpre) as [_ Hst0].
  unfold group_at. rewrite run_app. cbn [fst].
  rewrite nth_error_app2 by (rewrite run_length; lia).
  rewrite run_length, Nat.sub_diag, Hst0. rewrite run_cons, run_step_sub. cbn [fst snd nth_error].
  rewrite (subscribe_accepted allow NoACL _ rq pf Hacc (or_intror eq_refl) not_acl_none).
  rewrite Hm. cbn zeta. cbn [Z.eqb Pos.eqb]. rewrite Hs. cbn [fst snd].
  now rewrite send_filter_noacl.
Qed.

(** * ACL (C07) *)

Lemma silent_app l1 l2 : silent l1 -> silent l2 -> silent (l1 ++ l2).
Proof. unfold silent. intros; apply Forall_app; auto. Qed.

Lemma subscribe_no_rpcacl allow c rq :
  subscribe allow (ACLUser None) c rq = (PEnded SUnauthenticated, []).
Proof. reflexivity. Qed.

(** ACL installed but no per-call ACL can be made: the call is rejected as
    Unauthenticated and nothing is ever sent, whatever the script does *)
Lemma unauthenticated_if_no_rpcacl allow rq c pre post :
  no_sub pre ->
  let r := run allow (ACLUser None) rq (RS c PBefore) (pre ++ SSub :: post) in
  silent (fst r) /\ final_status (rs_phase (snd r)) = SUnauthenticated.
Proof.
  intros Hpre r. subst r. rewrite run_app.
  destruct (run_before allow (ACLUser None) rq c pre Hpre) as [Hs Hst]. rewrite Hst.
  rewrite run_cons, run_step_sub, subscribe_no_rpcacl. cbn [fst snd].
  destruct (run_ended allow (ACLUser None) rq (cache_after c pre) SUnauthenticated post) as [Hs2 Hst2].
  rewrite Hst2. split; [|reflexivity].
  apply silent_app; [assumption|]. constructor; [reflexivity|assumption].
Qed.

Lemma subscribe_denied allow u c rq pf :
  accepted c rq pf -> g_target pf <> "*" -> allow u (g_target pf) = false ->
  subscribe allow (ACLUser (Some u)) c (Some rq) = (PEnded SPermissionDenied, []).
Proof.
  intros (Hs & Hp & Ht & Hh) Hstar Hd. unfold subscribe. rewrite Hs, Hp. cbn [negb].
  destruct (String.eqb_spec (g_target pf) "") as [E|_]; [contradiction|]. rewrite Hh. cbn [negb].
  destruct (String.eqb_spec (g_target pf) "*") as [E|_]; [contradiction|].
  cbn [chk negb andb]. rewrite Hd. reflexivity.
Qed.

(** a single target the caller is not authorised for: PermissionDenied, and
    nothing is ever sent *)
Lemma single_target_denied_no_data allow u rq pf c pre post :
  no_sub pre -> accepted (cache_after c pre) rq pf ->
  g_target pf <> "*" -> allow u (g_target pf) = false ->
  let r := run allow (ACLUser (Some u)) (Some rq) (RS c PBefore) (pre ++ SSub :: post) in
  silent (fst r) /\ final_status (rs_phase (snd r)) = SPermissionDenied.
Proof.
  intros Hpre Hacc Hstar Hd r. subst r. rewrite run_app.
  destruct (run_before allow (ACLUser (Some u)) (Some rq) c pre Hpre) as [Hs Hst]. rewrite Hst.
  rewrite run_cons, run_step_sub, (subscribe_denied allow u _ rq pf Hacc Hstar Hd). cbn [fst snd].
  destruct (run_ended allow (ACLUser (Some u)) (Some rq) (cache_after c pre) SPermissionDenied post)
    as [Hs2 Hst2].
  rewrite Hst2. split; [|reflexivity].
  apply silent_app; [assumption|]. constructor; [reflexivity|assumption].
Qed.

Lemma stream_feed_allowed allow a single qs feed n :
  In (RUpd n) (fst (stream_feed allow a single qs feed)) ->
  chk allow a (g_target (n_prefix n)) = true.
Proof.
  induction feed as [|m r IH]; cbn [stream_feed]; [cbn; tauto|].
  destruct (offers qs m) as [|k]; [assumption|].
  destruct (single && is_target_delete m); cbn [fst].
  - apply send_filter_allowed.
  - rewrite in_app_iff. intros [H|H]; [eapply send_filter_allowed; eauto|auto].
Qed.

Lemma subscribe_allowed allow a c rq n :
  In (RUpd n) (snd (subscribe allow a c rq)) -> chk allow a (g_target (n_prefix n)) = true.
Proof.
  unfold subscribe.
  destruct a as [|[u|]]; [| |cbn; tauto];
    (destruct rq as [rq|]; [|cbn; tauto]);
    repeat match goal with
           | |- In _ (snd (if ?b then _ else _)) -> _ => destruct b; cbn [snd]
           | |- In _ (snd (match ?x with Some _ => _ | None => _ end)) -> _ => destruct x; cbn [snd]
           | |- In _ [] -> _ => intros []
           | |- In _ (send_filter _ _ _) -> _ => apply send_filter_allowed
           end.
Qed.

Lemma run_step_allowed allow a rq st s n :
  In (RUpd n) (snd (fst (run_step allow a rq st s))) ->
  chk allow a (g_target (n_prefix n)) = true.
Proof.
  destruct st as [c ph]. destruct s as [o| | |tb]; cbn [run_step rs_phase rs_cache].
  - destruct (cache_op c o) as [[c' fd] cr].
    destruct ph; cbn [fst snd]; try (cbn; tauto). apply stream_feed_allowed.
  - destruct ph; cbn [fst snd]; try (cbn; tauto). apply subscribe_allowed.
  - destruct ph; cbn [fst snd]; try (cbn; tauto). apply send_filter_allowed.
  - cbn; tauto.
Qed.

(** every update or delete response ever sent -- initial snapshot, poll
    re-walks, streamed updates, deletes, target removal; every mode, every
    script, from every state -- has a prefix target the per-RPC ACL allows *)
Lemma never_sends_denied allow a rq st ops g n :
  In g (fst (run allow a rq st ops)) -> In (RUpd n) (fst g) ->
  chk allow a (g_target (n_prefix n)) = true.
Proof.
  revert st; induction ops as [|s r IH]; intros st; [intros []|].
  rewrite run_cons. cbn [fst]. intros [<-|Hin] Hn.
  - cbn [fst] in Hn. eapply run_step_allowed; eauto.
  - eapply IH; eauto.
Qed.

(** the request does not name a single target the user is denied *)
Definition admits (allow : string -> string -> bool) (u : string) (rq : option request) : Prop :=
  forall r pf, rq = Some r -> r_prefix r = Some pf ->
               g_target pf = "*" \/ allow u (g_target pf) = true.

Lemma stream_feed_acl allow a single qs feed :
  stream_feed allow a single qs feed =
  (send_filter allow a (fst (stream_feed allow NoACL single qs feed)),
   snd (stream_feed allow NoACL single qs feed)).
Proof.
  induction feed as [|m r IH]; cbn [stream_feed]; [reflexivity|].
  destruct (offers qs m) as [|k]; [assumption|].
  rewrite (send_filter_noacl allow (repeat (RUpd m) (S k))).
  destruct (single && is_target_delete m); cbn [fst snd]; [reflexivity|].
  rewrite IH. cbn [fst snd]. now rewrite send_filter_app.
Qed.

Lemma subscribe_acl allow u c rq :
  admits allow u rq ->
  subscribe allow (ACLUser (Some u)) c rq =
  (fst (subscribe allow NoACL c rq),
   send_filter allow (ACLUser (Some u)) (snd (subscribe allow NoACL c rq))).
Proof.
  intros Hadm. unfold subscribe. destruct rq as [rq|]; [|reflexivity].
  destruct (r_has_sub rq); cbn [negb]; [|reflexivity].
  destruct (r_prefix rq) as [pf|] eqn:Hp; [|reflexivity].
  destruct (String.eqb (g_target pf) ""); [reflexivity|].
  destruct (has_target c (g_target pf)); cbn [negb]; [|reflexivity].
  assert (Hc : negb (String.eqb (g_target pf) "*")
               && negb (chk allow (ACLUser (Some u)) (g_target pf)) = false).
  { destruct (Hadm rq pf eq_refl Hp) as [E|E]; cbn [chk]; rewrite E; cbn;
      [reflexivity|apply andb_false_r]. }
  rewrite Hc. cbn [chk negb]. rewrite andb_false_r.
  repeat match goal with |- context [if ?b then _ else _] => destruct b end;
    cbn [fst snd]; rewrite ?send_filter_noacl; reflexivity.
Qed.

Lemma run_step_acl allow u rq st s :
  admits allow u rq ->
  run_step allow (ACLUser (Some u)) rq st s =
  (fst (fst (run_step allow NoACL rq st s)),
   send_filter allow (ACLUser (Some u)) (snd (fst (run_step allow NoACL rq st s))),
   snd (run_step allow NoACL rq st s)).
Proof.
  intros Hadm. destruct st as [c ph]. destruct s as [o| | |tb]; cbn [run_step rs_phase rs_cache].
  - destruct (cache_op c o) as [[c' fd] cr].
    destruct ph; cbn [fst snd]; try reflexivity.
    rewrite stream_feed_acl. cbn [fst snd]. reflexivity.
  - destruct ph; cbn [fst snd]; try reflexivity.
    rewrite (subscribe_acl allow u c rq Hadm). reflexivity.
  - destruct ph; cbn [fst snd]; try reflexivity.
    now rewrite send_filter_noacl.
  - reflexivity.
Qed.

(** completeness: with the ACL the user receives exactly the responses of the
    same script without ACL whose prefix target is allowed, in the same groups
    and order, the cache operations have the same outcomes, and the RPC ends
    in the same state (hence the same status) *)
Lemma allowed_complete allow u rq st ops :
  admits allow u rq ->
  let a := ACLUser (Some u) in
  map fst (fst (run allow a rq st ops))
    = map (fun g => send_filter allow a (fst g)) (fst (run allow NoACL rq st ops))
  /\ map snd (fst (run allow a rq st ops)) = map snd (fst (run allow NoACL rq st ops))
  /\ snd (run allow a rq st ops) = snd (run allow NoACL rq st ops).
Proof.
  intros Hadm a. subst a. revert st; induction ops as [|s r IH]; intros st.
  - cbn. auto.
  - rewrite !run_cons, (run_step_acl allow u rq st s Hadm). cbn [fst snd map].
    destruct (IH (fst (fst (run_step allow NoACL rq st s)))) as (H1 & H2 & H3).
    rewrite H1, H2, H3. auto.
Qed.


(** the walk over an explicit list of target names (used to relate the
    sequential walk to the interleaving model of [once_weak_partial]) *)
Fixpoint walk_subs_names (c : cache) (names : list string) (pf : option gpath)
  (subs : list (option gpath)) : list resp * bool :=
  match subs with
  | [] => ([], true)
  | sp :: r =>
      match complete_path pf sp with
      | None => ([], false)
      | Some full =>
          let here := flat_map (fun t => map (fun pv => RUpd (snd pv))
                                  (match assoc t c with Some tr => query tr full | None => [] end))
                               names in
          let rest := walk_subs_names c names pf r in
          (here ++ fst rest, snd rest)
      end
  end.

(** * ONCE with concurrent writers (partial)

    While the walk runs, writers move the cache through the states [hist].
    The walk is one tree query per subscription and selected target; what a
    query that overlaps writes may report is taken as a hypothesis
    ([weak_query], the weak query specification that C10 establishes for
    ctree): everything reported was stored under a matching path in some state
    of the history, and every matching path that holds a leaf in every state
    is reported.  The set of targets does not change during the call. *)

Definition trees_of (hist : list cache) (t : string) : list (tree noti) :=
  flat_map (fun c => match assoc t c with Some tr => [tr] | None => [] end) hist.

Definition weak_query (trs : list (tree noti)) (q : path) (l : list (path * noti)) : Prop :=
  (forall p v, In (p, v) l -> qmatch q p = true /\ exists tr, In tr trs /\ lookup tr p = Some v)
  /\ (forall p, qmatch q p = true -> (forall tr, In tr trs -> lookup tr p <> None) ->
                exists v, In (p, v) l).

(** the atomic query is one of the behaviours [weak_query] allows *)
Lemma query_is_weak (tr : tree noti) q : wf_tree tr -> weak_query [tr] q (query tr q).
Proof.
  intros Hwf. split.
  - intros p v H. apply query_spec in H as [H1 H2]; [|assumption]. split; [assumption|].
    exists tr. split; [now left|assumption].
  - intros p Hm Hall. destruct (lookup tr p) as [v|] eqn:E.
    + exists v. apply query_spec; auto.
    + exfalso. apply (Hall tr); [now left|assumption].
Qed.

Inductive conc_walk (hist : list cache) (names : list string) (pf : option gpath)
  : list (option gpath) -> list resp -> Prop :=
| cw_nil : conc_walk hist names pf [] []
| cw_cons sp full r parts rest :
    complete_path pf sp = Some full ->
    Forall2 (fun t l => weak_query (trees_of hist t) full l) names parts ->
    conc_walk hist names pf r rest ->
    conc_walk hist names pf (sp :: r)
              (map (fun pv => RUpd (snd pv)) (List.concat parts) ++ rest).

Lemma in_trees_of hist t tr :
  In tr (trees_of hist t) <-> exists c, In c hist /\ assoc t c = Some tr.
Proof.
  unfold trees_of. rewrite in_flat_map. split.
  - intros (c & Hc & H). exists c. split; [assumption|].
    destruct (assoc t c) as [tr'|]; [|contradiction]. destruct H as [<-|[]]. reflexivity.
  - intros (c & Hc & H). exists c. split; [assumption|]. rewrite H. now left.
Qed.

Lemma Forall2_concat_in {A B} (R : A -> list B -> Prop) xs ls b :
  Forall2 R xs ls -> In b (List.concat ls) -> exists x l, In x xs /\ R x l /\ In b l.
Proof.
  induction 1 as [|x l xs ls HR _ IH]; cbn; [intros []|].
  rewrite in_app_iff. intros [H|H].
  - exists x, l. auto.
  - destruct (IH H) as (x' & l' & H1 & H2 & H3). exists x', l'. auto.
Qed.

Lemma Forall2_in_l {A B} (R : A -> B -> Prop) xs ys x :
  Forall2 R xs ys -> In x xs -> exists y, In y ys /\ R x y.
Proof.
  induction 1 as [|a b xs ys HR _ IH]; cbn; [intros []|].
  intros [<-|H]; [exists b; auto|]. destruct (IH H) as (y & H1 & H2). exists y. auto.
Qed.

(** ONCE under concurrent writers: (1) every update sent is a leaf that was
    stored, under a path one of the subscriptions matches, in some state the
    cache went through during the call (nothing that never matched; a value
    the leaf held during the call); (2) every path of a selected target that a
    subscription matches and that holds a leaf throughout the call is
    delivered, with a value it held during the call. *)
Lemma once_weak_partial hist names pf subs ups :
  conc_walk hist names pf subs ups ->
  (forall n, In (RUpd n) ups ->
     exists c t tr p sp full,
       In c hist /\ In t names /\ assoc t c = Some tr /\ lookup tr p = Some n
       /\ In sp subs /\ complete_path pf sp = Some full /\ qmatch full p = true)
  /\ (forall t p sp full,
        In t names -> In sp subs -> complete_path pf sp = Some full -> qmatch full p = true ->
        (forall tr, In tr (trees_of hist t) -> lookup tr p <> None) ->
        exists n c tr, In (RUpd n) ups /\ In c hist /\ assoc t c = Some tr /\ lookup tr p = Some n)
  /\ ~ In RSync ups.
Proof.
  induction 1 as [|sp full r parts rest Hc Hq Hw IH].
  - split; [intros n []|]. split; [|tauto]. intros t p sp full _ [].
  - destruct IH as (IH1 & IH2 & IH3). split; [|split].
    + intros n. rewrite in_app_iff. intros [H|H].
      * apply in_map_iff in H as ([p v] & E & Hin). cbn in E. inversion E; subst v.
        destruct (Forall2_concat_in _ _ _ _ Hq Hin) as (t & l & Ht & [Hl _] & Hpl).
        destruct (Hl _ _ Hpl) as (Hm & tr & Htr & Hlk).
        apply in_trees_of in Htr as (c & Hcin & Ha).
        exists c, t, tr, p, sp, full. repeat split; auto. now left.
      * destruct (IH1 n H) as (c & t & tr & p & sp' & full' & H1 & H2 & H3 & H4 & H5 & H6 & H7).
        exists c, t, tr, p, sp', full'. repeat split; auto. now right.
    + intros t p sp' full' Ht [<-|Hsp] Hc' Hm Hall.
      * rewrite Hc in Hc'. inversion Hc'; subst full'.
        destruct (Forall2_in_l _ _ _ _ Hq Ht) as (l & Hl & [Hw1 Hw2]).
        destruct (Hw2 p Hm Hall) as (v & Hv).
        destruct (Hw1 _ _ Hv) as (_ & tr & Htr & Hlk).
        apply in_trees_of in Htr as (c & Hcin & Ha).
        exists v, c, tr. repeat split; auto.
        apply in_app_iff. left. apply in_map_iff. exists (p, v). split; [reflexivity|].
        apply in_concat. exists l. auto.
      * destruct (IH2 t p sp' full' Ht Hsp Hc' Hm Hall) as (n & c & tr & H1 & H2 & H3 & H4).
        exists n, c, tr. repeat split; auto. apply in_app_iff. now right.
    + rewrite in_app_iff. intros [H|H]; [|contradiction].
      apply in_map_iff in H as (pv & E & _). discriminate.
Qed.

(** the sequential walk of the model is the instance of [conc_walk] in which
    the history is the single, unchanging cache *)
Lemma walk_subs_is_conc_walk c names pf subs :
  wf_cache c -> (forall t, In t names -> exists tr, assoc t c = Some tr) ->
  snd (walk_subs_names c names pf subs) = true ->
  conc_walk [c] names pf subs (fst (walk_subs_names c names pf subs)).
Proof.
  intros Hwf Hnames. induction subs as [|sp r IH]; cbn; [constructor|].
  destruct (complete_path pf sp) as [full|] eqn:E; cbn; [|discriminate].
  intros Hok. specialize (IH Hok).
  set (parts := map (fun t => match assoc t c with Some tr => query tr full | None => [] end) names).
  replace (flat_map _ names) with (map (fun pv => RUpd (snd pv)) (List.concat parts)).
  - econstructor; eauto. subst parts. clear IH Hok.
    induction names as [|t ns IHn]; cbn; constructor.
    + destruct (Hnames t (or_introl eq_refl)) as [tr Ha]. rewrite Ha.
      unfold trees_of. cbn. rewrite ?Ha. cbn. apply query_is_weak.
      eapply wf_cache_tree; [exact Hwf|]. apply assoc_In. exact Ha.
    + apply IHn. intros t' Ht'. apply Hnames. now right.
  - subst parts. clear. induction names as [|t ns IHn]; cbn; [reflexivity|].
    rewrite map_app, IHn. reflexivity.
Qed.

Definition sel_names (c : cache) (rt : string) : list string :=
  if String.eqb rt "*" then keys c
  else match assoc rt c with Some _ => [rt] | None => [] end.

Lemma flat_map_ext_in' {A B} (f g : A -> list B) l :
  (forall x, In x l -> f x = g x) -> flat_map f l = flat_map g l.
Proof.
  induction l as [|a l IH]; cbn; [reflexivity|]. intros H.
  rewrite (H a (or_introl eq_refl)), IH; [reflexivity|]. intros x Hx. apply H. now right.
Qed.

Lemma flat_map_keys_assoc {B} (f : tree noti -> list B) (c : cache) :
  NoDup (keys c) ->
  flat_map f (map snd c)
  = flat_map (fun t => match assoc t c with Some tr => f tr | None => [] end) (keys c).
Proof.
  induction c as [|[k tr] c IH]; cbn; [reflexivity|]. intros Hnd.
  inversion Hnd as [|? ? Hni Hnd']; subst. rewrite String.eqb_refl. f_equal.
  rewrite (IH Hnd'). apply flat_map_ext_in'. intros t Ht.
  destruct (String.eqb_spec t k) as [->|_]; [contradiction|reflexivity].
Qed.

(** the model's walk is the walk over the names of the selected targets *)
Lemma walk_subs_names_eq c rt pf subs :
  NoDup (keys c) -> walk_subs c rt pf subs = walk_subs_names c (sel_names c rt) pf subs.
Proof.
  intros Hnd. induction subs as [|sp r IH]; cbn; [reflexivity|].
  destruct (complete_path pf sp) as [full|]; [|reflexivity]. rewrite IH. f_equal. f_equal.
  unfold sel_trees, sel_names. destruct (String.eqb rt "*").
  - rewrite (flat_map_keys_assoc (fun tr => map (fun pv => RUpd (snd pv)) (query tr full)) c Hnd).
    apply flat_map_ext_in'. intros t _. now destruct (assoc t c).
  - destruct (assoc rt c) as [tr|] eqn:Ha; cbn; [|reflexivity]. now rewrite Ha.
Qed.

Lemma sel_names_assoc c rt t : In t (sel_names c rt) -> exists tr, assoc t c = Some tr.
Proof.
  unfold sel_names. destruct (String.eqb rt "*").
  - apply in_keys_assoc.
  - destruct (assoc rt c) as [tr|] eqn:Ha; [|intros []]. intros [<-|[]]. eauto.
Qed.

(** hence the sequential ONCE walk is one of the interleavings [conc_walk]
    describes (the one without writers): the hypotheses of
    [once_weak_partial] are satisfiable by the model itself *)
Lemma walk_subs_conc c rt pf subs :
  wf_cache c -> snd (walk_subs c rt pf subs) = true ->
  conc_walk [c] (sel_names c rt) pf subs (fst (walk_subs c rt pf subs)).
Proof.
  intros Hwf. rewrite (walk_subs_names_eq c rt pf subs (proj1 Hwf)).
  apply walk_subs_is_conc_walk; [assumption|]. apply sel_names_assoc.
Qed.

(** * ONCE / POLL with writes between the walk and the send (partial)

    The walk queues leaf HANDLES; the sender reads a handle when it sends it.
    Writers may delete or rewrite queued leaves in between (a slow or
    flow-controlled client parks the sender).  [walk_handles]: what the walk
    over cache [c0] queues (target, index path, value then).  [held_send]: the
    sender delivers, for every queued handle, either the value it had when it
    was queued or a value stored under the same target and path in some state
    [hist] the cache went through before the send (a deleted leaf keeps its
    last value: it is reported with it; the variant in which it is not
    reported at all is [held_send_skip]).  The RPC then sends the sync and ends
    OK as in the sequential case (the walk itself is the sequential one). *)

Fixpoint walk_handles (c : cache) (names : list string) (pf : option gpath)
  (subs : list (option gpath)) : list (string * path * noti) :=
  match subs with
  | [] => []
  | sp :: r =>
      match complete_path pf sp with
      | None => []
      | Some full =>
          flat_map (fun t => match assoc t c with
                             | Some tr => map (fun pv => (t, fst pv, snd pv)) (query tr full)
                             | None => []
                             end) names
          ++ walk_handles c names pf r
      end
  end.

Definition read_later (hist : list cache) (h : string * path * noti) (n : noti) : Prop :=
  n = snd h \/ exists c tr, In c hist /\ assoc (fst (fst h)) c = Some tr
                            /\ lookup tr (snd (fst h)) = Some n.

Inductive held_send (hist : list cache) : list (string * path * noti) -> list resp -> Prop :=
| hs_nil : held_send hist [] []
| hs_cons h n q r :
    read_later hist h n -> held_send hist q r -> held_send hist (h :: q) (RUpd n :: r).

(** the variant that may also drop a handle whose leaf is gone in some state *)
Inductive held_send_skip (hist : list cache) : list (string * path * noti) -> list resp -> Prop :=
| hk_nil : held_send_skip hist [] []
| hk_cons h n q r :
    read_later hist h n -> held_send_skip hist q r -> held_send_skip hist (h :: q) (RUpd n :: r)
| hk_skip h q r :
    (exists c, In c hist /\ forall tr, assoc (fst (fst h)) c = Some tr -> lookup tr (snd (fst h)) = None) ->
    held_send_skip hist q r -> held_send_skip hist (h :: q) r.

Lemma walk_handles_spec c names pf subs t p n :
  wf_cache c ->
  (forall sp, In sp subs -> complete_path pf sp <> None) ->
  (In (t, p, n) (walk_handles c names pf subs) <->
   In t names /\ exists tr sp full,
     assoc t c = Some tr /\ lookup tr p = Some n /\ In sp subs
     /\ complete_path pf sp = Some full /\ qmatch full p = true).
Proof.
  intros Hwf. induction subs as [|sp r IH]; cbn; intros Hok.
  - split; [intros []|]. intros (_ & tr & sp & full & _ & _ & [] & _).
  - destruct (complete_path pf sp) as [full|] eqn:E;
      [|exfalso; apply (Hok sp); auto].
    assert (Hr : forall sp', In sp' r -> complete_path pf sp' <> None) by (intros; apply Hok; auto).
    rewrite in_app_iff, (IH Hr). split.
    + intros [H|H].
      * apply in_flat_map in H as (t' & Ht' & H).
        destruct (assoc t' c) as [tr|] eqn:Ha; [|destruct H].
        apply in_map_iff in H as ([p' v] & Epv & Hq). cbn in Epv. inversion Epv; subst.
        apply query_spec in Hq as [Hl Hm]; [|eapply wf_cache_tree; [exact Hwf|apply assoc_In; exact Ha]].
        split; [assumption|]. exists tr, sp, full. auto 10.
      * destruct H as (Ht & tr & sp' & full' & H1 & H2 & H3 & H4 & H5).
        split; [assumption|]. exists tr, sp', full'. auto 10.
    + intros (Ht & tr & sp' & full' & Ha & Hl & [<-|Hsp] & Hc & Hm).
      * left. rewrite E in Hc. inversion Hc; subst full'.
        apply in_flat_map. exists t. split; [assumption|]. rewrite Ha.
        apply in_map_iff. exists (p, n). split; [reflexivity|].
        apply query_spec; [eapply wf_cache_tree; [exact Hwf|apply assoc_In; exact Ha]|auto].
      * right. split; [assumption|]. exists tr, sp', full'. auto 10.
Qed.

Lemma held_send_sound hist q r :
  held_send hist q r ->
  (forall n, In (RUpd n) r -> exists h, In h q /\ read_later hist h n)
  /\ (forall h, In h q -> exists n, In (RUpd n) r /\ read_later hist h n)
  /\ ~ In RSync r /\ List.length r = List.length q.
Proof.
  induction 1 as [|h n q r Hr _ IH]; cbn.
  - split; [intros n []|]. split; [intros h []|]. split; [tauto|reflexivity].
  - destruct IH as (I1 & I2 & I3 & I4). split; [|split; [|split]].
    + intros m [E|Hin]; [inversion E; subst; eauto|].
      destruct (I1 m Hin) as (h' & Hh & Hrl). eauto.
    + intros h' [<-|Hin]; [eauto|]. destruct (I2 h' Hin) as (m & Hm & Hrl). eauto.
    + intros [E|Hin]; [discriminate|contradiction].
    + now rewrite I4.
Qed.

(** writes between the walk and the send: (1) every update delivered is a value
    that was stored, under a path one of the subscriptions matches, in a
    selected target, at some moment of the call -- the walk's cache or a later
    state; (2) every leaf the walk found is delivered, with a value it held
    during the call (its value at the walk, or a later one under the same
    path); (3) the updates are followed by exactly one sync (none inside) and
    as many responses are sent as handles were queued: a queued leaf that a
    writer deleted does not abort the delivery of the rest. *)
Lemma once_held_weak c0 hist names pf subs ups :
  wf_cache c0 -> (forall sp, In sp subs -> complete_path pf sp <> None) ->
  held_send hist (walk_handles c0 names pf subs) ups ->
  (forall n, In (RUpd n) ups ->
     exists t p sp full, In t names /\ In sp subs /\ complete_path pf sp = Some full
       /\ qmatch full p = true
       /\ exists c tr, In c (c0 :: hist) /\ assoc t c = Some tr /\ lookup tr p = Some n)
  /\ (forall t tr p n0 sp full,
        In t names -> assoc t c0 = Some tr -> lookup tr p = Some n0 -> In sp subs ->
        complete_path pf sp = Some full -> qmatch full p = true ->
        exists n, In (RUpd n) ups
          /\ exists c tr', In c (c0 :: hist) /\ assoc t c = Some tr' /\ lookup tr' p = Some n)
  /\ ~ In RSync ups
  /\ List.length ups = List.length (walk_handles c0 names pf subs).
Proof.
  intros Hwf Hok Hs. destruct (held_send_sound _ _ _ Hs) as (H1 & H2 & H3 & H4).
  split; [|split; [|split; assumption]].
  - intros n Hn. destruct (H1 n Hn) as ([[t p] n0] & Hq & Hrl).
    apply (walk_handles_spec c0 names pf subs t p n0 Hwf Hok) in Hq
      as (Ht & tr & sp & full & Ha & Hl & Hsp & Hc & Hm).
    exists t, p, sp, full. repeat split; auto.
    destruct Hrl as [E|(c & tr' & Hc' & Ha' & Hl')]; cbn in *.
    + subst n. exists c0, tr. split; [now left|]. split; assumption.
    + exists c, tr'. split; [now right|]. split; assumption.
  - intros t tr p n0 sp full Ht Ha Hl Hsp Hc Hm.
    assert (Hq : In (t, p, n0) (walk_handles c0 names pf subs)).
    { apply (walk_handles_spec c0 names pf subs t p n0 Hwf Hok). split; [assumption|].
      exists tr, sp, full. auto 10. }
    destruct (H2 _ Hq) as (n & Hn & Hrl). exists n. split; [assumption|].
    destruct Hrl as [E|(c & tr' & Hc' & Ha' & Hl')]; cbn in *.
    + subst n. exists c0, tr. split; [now left|]. split; assumption.
    + exists c, tr'. split; [now right|]. split; assumption.
Qed.

(** the sequential delivery (nothing written in between) is the instance in
    which every handle is read as it was queued *)
Lemma held_send_refl hist q : held_send hist q (map (fun h => RUpd (snd h)) q).
Proof.
  induction q as [|h q IH]; cbn; constructor; [now left|assumption].
Qed.

Lemma never_sends_denied_user allow u rq st ops g n :
  In g (fst (run allow (ACLUser (Some u)) rq st ops)) -> In (RUpd n) (fst g) ->
  allow u (g_target (n_prefix n)) = true.
Proof. exact (never_sends_denied allow (ACLUser (Some u)) rq st ops g n). Qed.

Lemma reachable_cache_wf ts ops : wf_cache (cache_after (empty_cache ts) ops).
Proof. exact (cache_after_wf _ ops (empty_cache_wf ts)). Qed.

(** * Non-vacuity: the hypotheses of the theorems above are met by concrete,
    non-trivial scripts *)

Module Examples.
Open Scope Z_scope.

Definition n1 := NT 1 (GP "t1" "oc" []) [(GP "" "" [("a", []); ("b", [])], 5)] [] false.
Definition n2 := NT 2 (GP "t2" "" [("a", [])]) [(GP "" "" [("c", [("k", "1")])], 6)] [] false.
Definition n3 := NT 3 (GP "t1" "" []) [(GP "" "" [("b", []); ("b", [])], 7)] [] false.
Definition n4 := NT 4 (GP "t2" "" []) [] [GP "" "" [("a", [])]] false.
Definition pre := [SCache (CUpdate n1); SCache (CUpdate n2)].
Definition c0 := empty_cache ["t1"; "t2"].
Definition c2 := cache_after c0 pre.
Definition pfx := GP "*" "" [].
Definition subs := [Some (GP "" "" [("*", []); ("*", []); ("*", [])]); Some (GP "" "oc" [("a", [])])].
Definition rq_once := RQ true (Some pfx) subs 1 false.
Definition rq_poll := RQ true (Some pfx) subs 2 false.
Definition rq_stream := RQ true (Some pfx) subs 0 false.
Definition allow1 (u t : string) : bool := String.eqb u "u1" && String.eqb t "t1".

Lemma c0_wf : wf_cache c0.
Proof. apply empty_cache_wf. Qed.

Lemma c2_wf : wf_cache c2.
Proof. apply cache_after_wf, c0_wf. Qed.

Lemma paths_ok_ex m : paths_ok (RQ true (Some pfx) subs m false) pfx.
Proof. intros sp [<-|[<-|[]]]; vm_compute; discriminate. Qed.

Lemma accepted_ex m : accepted c2 (RQ true (Some pfx) subs m false) pfx.
Proof. repeat split. vm_compute. discriminate. Qed.

Lemma pre_no_sub : no_sub pre.
Proof. intros [H|[H|[]]]; discriminate. Qed.

(** ONCE over two targets with "*": both leaves, n1 twice (it matches both
    subscription paths), then the sync *)
Example once_exact_ex :
  wf_cache c2 /\ accepted c2 rq_once pfx /\ paths_ok rq_once pfx /\
  run allow1 NoACL (Some rq_once) (RS c2 PBefore) [SSub]
  = ([([RUpd n1; RUpd n2; RUpd n1] ++ [RSync], COk)], RS c2 (PEnded SOK)).
Proof.
  split; [apply c2_wf|]. split; [apply accepted_ex|]. split; [apply paths_ok_ex|].
  vm_compute. reflexivity.
Qed.

(** POLL: the trigger after "add n3, delete a/ in t2" returns n1 (twice) and n3,
    no longer n2 *)
Example poll_exact_ex :
  group_at allow1 NoACL (Some rq_poll) (RS c0 PBefore)
           (pre ++ SSub :: [SCache (CUpdate n3); SCache (CUpdate n4)] ++ SPoll :: [])
           (List.length pre + 1 + 2)
  = Some ([RUpd n1; RUpd n3; RUpd n1] ++ [RSync], COk).
Proof. vm_compute. reflexivity. Qed.

(** STREAM for user u1 (allowed t1 only) over "*": the snapshot keeps n1 and
    drops n2; of the streamed n3 (t1) and the delete in t2 only n3 arrives *)
Example acl_stream_ex :
  admits allow1 "u1" (Some rq_stream) /\
  map fst (fst (run allow1 (ACLUser (Some "u1")) (Some rq_stream) (RS c0 PBefore)
                    (pre ++ SSub :: [SCache (CUpdate n3); SCache (CUpdate n4)])))
  = [[]; []; [RUpd n1; RUpd n1; RSync]; [RUpd n3]; []] /\
  map fst (fst (run allow1 NoACL (Some rq_stream) (RS c0 PBefore)
                    (pre ++ SSub :: [SCache (CUpdate n3); SCache (CUpdate n4)])))
  = [[]; []; [RUpd n1; RUpd n2; RUpd n1; RSync]; [RUpd n3];
     [RUpd (NT 4 (GP "t2" "" []) [] [GP "" "" [("a", []); ("c", [("k", "1")])]] false)]].
Proof.
  split; [|split; vm_compute; reflexivity].
  intros r pf E Hp. inversion E; subst r. cbn in Hp. inversion Hp; subst pf. now left.
Qed.

(** a single denied target: the hypotheses of [single_target_denied_no_data] *)
Example single_denied_ex :
  let rq := RQ true (Some (GP "t2" "" [])) subs 0 false in
  no_sub pre /\ accepted (cache_after c0 pre) rq (GP "t2" "" []) /\ allow1 "u1" "t2" = false.
Proof. split; [apply pre_no_sub|]. split; [|reflexivity]. repeat split. vm_compute. discriminate. Qed.

End Examples.

(** Executable model of the sequential responder of subscribe/subscribe.go
    (Subscribe, processSubscription, processPollingSubscription,
    sendStreamingResults / sendSubscribeResponse, addSubscription, the three ACL
    checks), together with what it needs of

      - path.ToStrings / path.CompletePath (path/path.go),
      - cache.Cache as the content it holds: per target a ctree of stored
        notifications, written by Target.GnmiUpdate / gnmiUpdate / gnmiRemove /
        Cache.Remove (cache/cache.go; metadata paths, latency and counters are
        not part of this model),
      - the relation match.Match implements for ONE registered client
        (match/match.go [update]).

    "Sequential" means: the script of one case is executed step by step and
    the subscriber is quiescent (queue drained, sender parked in Queue.Next)
    between two steps.  Within a step the order of the responses that come out
    of one tree walk is Go map order, and a leaf offered k times to the
    coalescing queue is delivered as j <= k responses whose duplicate counts
    add up to k - j; the model therefore produces every response once per
    offer, and the checker compares groups as multisets after expanding
    duplicate counts.

    Definitions only; proofs are in SubProofs.v. *)
From Gnmi Require Import Base.Prelude CTree.CTreeModel.

(** * gNMI paths and notifications (the projection the harness makes) *)

Definition pelem := (string * list (string * string))%type.   (* name, keys *)

Record gpath := GP { g_target : string; g_origin : string; g_elems : list pelem }.

Record noti := NT {
  n_ts : Z;
  n_prefix : gpath;                 (* the cache rejects a nil prefix *)
  n_upds : list (gpath * Z);        (* path, int_val *)
  n_dels : list gpath;
  n_atomic : bool }.

(** ** path.ToStrings *)

Definition kv_leb (a b : string * string) : bool := String.leb (fst a) (fst b).

(** name, then the key values in the order of the key names (sortedVals; a
    single key is its own sorted list) *)
Definition elem_strings (e : pelem) : path := fst e :: map snd (isort kv_leb (snd e)).

Definition nonempty (s : string) : list string := if String.eqb s "" then [] else [s].

Definition to_strings (p : option gpath) (pre : bool) : path :=
  match p with
  | None => []
  | Some p =>
      (if pre then nonempty (g_target p) ++ nonempty (g_origin p) else [])
      ++ flat_map elem_strings (g_elems p)
  end.

Definition origin_of (p : option gpath) : string :=
  match p with Some x => g_origin x | None => "" end.

(** ** path.CompletePath; [None] = error *)
Definition complete_path (prefix p : option gpath) : option path :=
  let o_pre := origin_of prefix in
  let o_path := origin_of p in
  let idx := to_strings prefix false in
  if negb (String.eqb o_pre "") && negb (String.eqb o_path "") then None
  else if negb (String.eqb o_pre "") then Some (o_pre :: idx ++ to_strings p false)
  else if negb (String.eqb o_path "") then
    match idx with
    | [] => Some (o_path :: to_strings p false)
    | _ :: _ => None
    end
  else Some (idx ++ to_strings p false).

(** ** decidable equality (proto.Equal on the projection) *)

Fixpoint list_eqb {A} (e : A -> A -> bool) (a b : list A) : bool :=
  match a, b with
  | [], [] => true
  | x :: a', y :: b' => e x y && list_eqb e a' b'
  | _, _ => false
  end.

Definition kv_eqb (a b : string * string) : bool :=
  String.eqb (fst a) (fst b) && String.eqb (snd a) (snd b).

Definition pelem_eqb (a b : pelem) : bool :=
  String.eqb (fst a) (fst b) && list_eqb kv_eqb (isort kv_leb (snd a)) (isort kv_leb (snd b)).

Definition gpath_eqb (a b : gpath) : bool :=
  String.eqb (g_target a) (g_target b) && String.eqb (g_origin a) (g_origin b)
  && list_eqb pelem_eqb (g_elems a) (g_elems b).

Definition upd_eqb (a b : gpath * Z) : bool := gpath_eqb (fst a) (fst b) && Z.eqb (snd a) (snd b).

Definition noti_eqb (a b : noti) : bool :=
  Z.eqb (n_ts a) (n_ts b) && gpath_eqb (n_prefix a) (n_prefix b)
  && list_eqb upd_eqb (n_upds a) (n_upds b) && list_eqb gpath_eqb (n_dels a) (n_dels b)
  && Bool.eqb (n_atomic a) (n_atomic b).

(** * The cache as the content it holds *)

Definition cache := list (string * tree noti).     (* Cache.targets *)

(** result of one Target.GnmiUpdate: new tree, the leaves handed to the cache
    client (the feed), whether an error was returned *)
Inductive ures :=
| URes (tr : tree noti) (feed : list noti) (err : bool)
| UPanic                     (* the Go code panics (index out of range) *)
| UMeta.                     (* a path under "meta": metadata, not modelled here *)

(** Switch for defect C05_1 (fixes/C05_1_path_origin_index.diff): [false] = the
    code as it is now, [true] = the code with the patch. *)
Definition fix_C05_1 : bool := false.

(** cache.joinPrefixAndPath: [p = p[1:]] panics on an empty slice *)
Definition join_prefix_path (pr : gpath) (ph : option gpath) : option path :=
  match to_strings (Some pr) true
        (* DEFECT C05_1: an origin carried by the update/delete path (prefix origin
           empty) is dropped from the index path, although CompletePath resolves a
           subscription naming it to [origin; ...].  Once the patch is in this
           branch inserts the origin: set [fix_C05_1 := true]. *)
        ++ (if fix_C05_1 && String.eqb (g_origin pr) "" then nonempty (origin_of ph) else [])
        ++ to_strings ph false with
  | [] => None
  | _ :: r => Some r
  end.

Definition first_val (n : noti) : option Z :=
  match n_upds n with (_, v) :: _ => Some v | [] => None end.

(** Target.gnmiUpdate for a notification carrying one update, or an atomic
    one (stored under the prefix only).  futureThreshold = 0, event-driven
    emulation on (the defaults). *)
Definition gnmi_update1 (tr : tree noti) (n : noti) : ures :=
  match n_upds n with
  | [] => UPanic                                  (* n.Update[0] *)
  | (p0, v0) :: _ =>
      match join_prefix_path (n_prefix n) (if n_atomic n then None else Some p0) with
      | None => UPanic
      | Some [] => URes tr [] true                (* "invalid path" (since 30e1165) *)
      | Some ((k :: rest) as p) =>
          if String.eqb k "meta" then
            match rest with [] => URes tr [] true | _ :: _ => UMeta end
          else
          match get tr p with
          | Some (Leaf old) =>
              if Z.ltb (n_ts n) (n_ts old) then URes tr [] true          (* ErrStale *)
              else if Z.eqb (n_ts n) (n_ts old) && noti_eqb old n then URes tr [] true
              else
                match add tr p n with                                    (* oldval.Update(n) *)
                | None => UPanic                                         (* not reachable: a leaf is there *)
                | Some tr' =>
                    match first_val old with
                    | None => UPanic                                     (* old.Update[0] *)
                    | Some ov =>
                        if negb (n_atomic n) && negb (n_atomic old) && Z.eqb ov v0
                        then URes tr' [] false                           (* suppressed: same scalar value *)
                        else URes tr' [n] false
                    end
                end
          | Some (Branch _) => URes tr [] true     (* GetLeaf hands out the branch: "corrupt schema" *)
          | None =>
              match add tr p n with
              | Some tr' => URes tr' [n] false
              | None => URes tr [] true
              end
          end
      end
  end.

(** cache.toDeleteNotification (no deprecated [element] paths here) *)
Definition to_delete_noti (ts : Z) (old : noti) : option noti :=
  match n_upds old with
  | [] => None                                     (* n.Update[0] panics *)
  | (p0, _) :: _ =>
      let pf := n_prefix old in
      let o := if String.eqb (g_origin pf) "" && negb (String.eqb (g_origin p0) "")
               then g_origin p0 else g_origin pf in
      Some (NT ts (GP (g_target pf) o [])
               []
               [GP "" "" (if n_atomic old then g_elems pf else g_elems pf ++ g_elems p0)]
               false)
  end.

Fixpoint all_some {A} (l : list (option A)) : option (list A) :=
  match l with
  | [] => Some []
  | None :: _ => None
  | Some a :: r => match all_some r with Some r' => Some (a :: r') | None => None end
  end.

(** Target.gnmiRemove for a notification carrying one delete *)
Definition gnmi_remove1 (tr : tree noti) (n : noti) : ures :=
  match n_dels n with
  | [] => UPanic
  | d :: _ =>
      match join_prefix_path (n_prefix n) (Some d) with
      | None => UPanic
      | Some p =>
          (* an empty index path deletes everything older than the notification *)
          if match p with k :: _ => String.eqb k "meta" | [] => false end then UMeta else
          let r := delete_cond tr p (fun old => Z.ltb (n_ts old) (n_ts n)) in
          match all_some (map (fun pv => to_delete_noti (n_ts n) (snd pv)) (snd r)) with
          | Some feed => URes (fst r) feed false
          | None => UPanic
          end
      end
  end.

Definition single_upd (n : noti) (u : gpath * Z) : noti :=
  NT (n_ts n) (n_prefix n) [u] [] false.
Definition single_del (n : noti) (d : gpath) : noti :=
  NT (n_ts n) (n_prefix n) [] [d] false.

(** the loops of the "complex notification" branch: errors are collected, the
    remaining updates and deletes are still applied *)
Fixpoint apply_parts (f : tree noti -> noti -> ures) (tr : tree noti) (ns : list noti)
  (feed : list noti) (err : bool) : ures :=
  match ns with
  | [] => URes tr feed err
  | n :: r =>
      match f tr n with
      | URes tr' fd e => apply_parts f tr' r (feed ++ fd) (err || e)
      | UPanic => UPanic
      | UMeta => UMeta
      end
  end.

(** Target.GnmiUpdate *)
Definition tgt_update (tr : tree noti) (n : noti) : ures :=
  if n_atomic n then
    match n_dels n with
    | _ :: _ => URes tr [] true                    (* "atomic deletes unsupported" *)
    | [] => match n_upds n with
            | [] => URes tr [] false
            | _ :: _ => gnmi_update1 tr n
            end
    end
  else if Nat.ltb 1 (List.length (n_upds n) + List.length (n_dels n)) then
    match apply_parts gnmi_update1 tr (map (single_upd n) (n_upds n)) [] false with
    | URes tr1 fd1 e1 =>
        (* deletes never add to the error list *)
        apply_parts gnmi_remove1 tr1 (map (single_del n) (n_dels n)) fd1 e1
    | r => r
    end
  else
    match n_upds n, n_dels n with
    | [_], _ => gnmi_update1 tr n
    | _, [_] => gnmi_remove1 tr n
    | _, _ => URes tr [] false
    end.

(** operations the harness applies to the cache *)
Inductive cop :=
| CUpdate (n : noti)                 (* Cache.GnmiUpdate *)
| CRemove (t : string) (now : Z)     (* Cache.Remove; [now] is what cache.Now returns *)
| CAdd (t : string)                  (* Cache.Add: a fresh, empty target under that name *)
| CChurn (t : string).               (* a loop of Cache.Remove t; Cache.Add t (at least one
                                        round): the net effect on the content.  Its feed (one
                                        target-delete notification per round) is not modelled:
                                        churn is used only while no stream is registered. *)

Inductive cres := COk | CErr | CPanic | CMeta.

Definition target_delete_noti (t : string) (now : Z) : noti :=
  NT now (GP t "" []) [] [GP "" "" [("*", [])]] false.

Definition cache_op (c : cache) (o : cop) : cache * list noti * cres :=
  match o with
  | CUpdate n =>
      match assoc (g_target (n_prefix n)) c with
      | None => (c, [], CErr)                                   (* target not found *)
      | Some tr =>
          match tgt_update tr n with
          | URes tr' feed e => (aset (g_target (n_prefix n)) tr' c, feed, if e then CErr else COk)
          | UPanic => (c, [], CPanic)
          | UMeta => (c, [], CMeta)
          end
      end
  | CRemove t now => (adel t c, [target_delete_noti t now], COk)
  | CAdd t => (aset t None c, [], COk)
  | CChurn t => (aset t None (adel t c), [], COk)
  end.

(** Cache.HasTarget *)
Definition has_target (c : cache) (t : string) : bool :=
  if String.eqb t "" then false
  else if String.eqb t "*" then true
  else match assoc t c with Some _ => true | None => false end.

(** the trees Cache.Query visits (an unknown target is an error the subscribe
    code ignores) *)
Definition sel_trees (c : cache) (t : string) : list (tree noti) :=
  if String.eqb t "*" then map snd c
  else match assoc t c with Some tr => [tr] | None => [] end.

(** everything stored, for comparison with the implementation's own dump *)
Definition dump_cache (c : cache) : list (string * path * noti) :=
  flat_map (fun ktr => map (fun pv => (fst ktr, fst pv, snd pv)) (walk (snd ktr))) c.

(** * The responder *)

Inductive resp := RSync | RUpd (n : noti).

Inductive status :=
| SNone            (* no RPC was made *)
| SOK | SInvalidArgument | SNotFound | SPermissionDenied | SUnauthenticated
| SUnknown         (* a plain Go error returned by Subscribe *)
| SCanceled        (* the context's error, after the harness cancelled a stream *)
| SOther
| SHang | SPanic.  (* observations only: Subscribe did not return / panicked *)

Record request := RQ {
  r_has_sub : bool;                        (* the oneof holds a SubscriptionList *)
  r_prefix : option gpath;
  r_subs : list (option gpath);            (* Subscription.Path, possibly absent *)
  r_mode : Z;                              (* 0 STREAM, 1 ONCE, 2 POLL, other values unknown *)
  r_updates_only : bool }.

(** processSubscription's walk: per subscription CompletePath, then Cache.Query;
    [false] = CompletePath failed (the walk stops there, no sync marker) *)
Fixpoint walk_subs (c : cache) (t : string) (prefix : option gpath) (subs : list (option gpath))
  : list resp * bool :=
  match subs with
  | [] => ([], true)
  | sp :: r =>
      match complete_path prefix sp with
      | None => ([], false)
      | Some full =>
          let here := flat_map (fun tr => map (fun pv => RUpd (snd pv)) (query tr full))
                               (sel_trees c t) in
          let rest := walk_subs c t prefix r in
          (here ++ fst rest, snd rest)
      end
  end.

Definition snapshot (c : cache) (t : string) (rq : request) : list resp * bool :=
  if r_updates_only rq then ([RSync], true)
  else
    let w := walk_subs c t (r_prefix rq) (r_subs rq) in
    if snd w then (fst w ++ [RSync], true) else (fst w, false).

(** ** streaming: what match.Match does for the one registered client *)

Fixpoint dedup_paths (l : list path) : list path :=
  match l with
  | [] => []
  | x :: r => if existsb (path_eqb x) r then dedup_paths r else x :: dedup_paths r
  end.

(** addSubscription (a subscription without a path registers the prefix alone,
    since 601ff89) *)
Definition sub_queries (pf : gpath) (subs : list (option gpath)) : list path :=
  dedup_paths
    (flat_map (fun sp =>
       match sp with
       | None => [to_strings (Some pf) true]
       | Some p =>
           [to_strings (Some pf) true
            ++ (if String.eqb (g_origin pf) "" && negb (String.eqb (g_origin p) "")
                then [g_origin p] else [])
            ++ to_strings (Some p) false]
       end) subs).

(** branch.update: the registered query [q] is reached by the update path [p] *)
Fixpoint mmatch (q p : path) : bool :=
  match q, p with
  | [], _ => true
  | _ :: _, [] => true                       (* implicit recursion for intermediate deletes *)
  | k :: r, a :: p' => (is_glob a || is_glob k || String.eqb k a) && mmatch r p'
  end.

Definition noti_paths (n : noti) : list path :=
  map (fun u => to_strings (Some (n_prefix n)) true ++ to_strings (Some (fst u)) false) (n_upds n)
  ++ map (fun d => to_strings (Some (n_prefix n)) true ++ to_strings (Some d) false) (n_dels n).

(** subscribe.UpdateNotification: how many times the leaf is offered to the
    client's queue.  The [updated] set is always allocated (since 0aa714c), so a
    client is offered a notification at most once, however many of its queries
    and of the notification's paths match. *)
Definition offers (qs : list path) (n : noti) : nat :=
  if existsb (fun p => existsb (fun q => mmatch q p) qs) (noti_paths n) then 1%nat else 0%nat.

(** subscribe.isTargetDelete *)
Definition is_target_delete (n : noti) : bool :=
  match n_dels n with
  | [d] =>
      String.eqb (g_origin (n_prefix n)) ""
      && path_eqb (to_strings (Some (n_prefix n)) false ++ to_strings (Some d) false) ["*"]
  | _ => false
  end.

Inductive aclcfg :=
| NoACL                              (* no ACL installed: aclStub *)
| ACLUser (u : option string).       (* ACL installed; [None]: NewRPCACL fails *)

Inductive phase :=
| PBefore                            (* Subscribe not called yet *)
| PPoll (t : string) (rq : request)
| PStream (single : bool) (qs : list path)
| PEnded (st : status).

Inductive step :=
| SCache (o : cop)
| SSub                               (* the Subscribe call with its first request *)
| SPoll                              (* one poll trigger *)
| SAcl (tbl : list (string * string * bool)).
                                     (* the operator replaces the ACL table; nothing happens
                                        in the responder (the oracle [allow] of the following
                                        steps is the checker's business) *)

Section WithACL.
(** the ACL oracle: ACL.Check(user, target) *)
Variable allow : string -> string -> bool.

Definition chk (a : aclcfg) (t : string) : bool :=
  match a with
  | NoACL => true
  | ACLUser (Some u) => allow u t
  | ACLUser None => false
  end.

(** sendSubscribeResponse: the per-response check on the prefix target *)
Definition passes (a : aclcfg) (r : resp) : bool :=
  match r with
  | RSync => true
  | RUpd n => chk a (g_target (n_prefix n))
  end.

Definition send_filter (a : aclcfg) (l : list resp) : list resp := filter (passes a) l.

(** sendStreamingResults on the items one cache operation fed to the queue;
    [true]: the stream was closed (target delete on a single-target stream) *)
Fixpoint stream_feed (a : aclcfg) (single : bool) (qs : list path) (feed : list noti)
  : list resp * bool :=
  match feed with
  | [] => ([], false)
  | n :: r =>
      match offers qs n with
      | O => stream_feed a single qs r
      | S _ as k =>
          let out := send_filter a (repeat (RUpd n) k) in
          if single && is_target_delete n then (out, true)
          else let rest := stream_feed a single qs r in (out ++ fst rest, snd rest)
      end
  end.

(** Subscribe up to the point where the first walk has been sent *)
Definition subscribe (a : aclcfg) (c : cache) (rq : option request) : phase * list resp :=
  match a with
  | ACLUser None => (PEnded SUnauthenticated, [])
  | _ =>
    match rq with
    | None => (PEnded SOK, [])                                  (* io.EOF on the first Recv *)
    | Some rq =>
      if negb (r_has_sub rq) then (PEnded SInvalidArgument, []) else
      match r_prefix rq with
      | None => (PEnded SInvalidArgument, [])
      | Some pf =>
        let t := g_target pf in
        if String.eqb t "" then (PEnded SInvalidArgument, [])
        else if negb (has_target c t) then (PEnded SNotFound, [])
        else if negb (String.eqb t "*") && negb (chk a t) then (PEnded SPermissionDenied, [])
        else if Z.eqb (r_mode rq) 1 then
          let s := snapshot c t rq in
          (PEnded (if snd s then SOK else SUnknown), send_filter a (fst s))
        else if Z.eqb (r_mode rq) 2 then
          let s := snapshot c t rq in
          (if snd s then PPoll t rq else PEnded SUnknown, send_filter a (fst s))
        else if Z.eqb (r_mode rq) 0 then
          let s := snapshot c t rq in
          (if snd s then PStream (negb (String.eqb t "*")) (sub_queries pf (r_subs rq))
           else PEnded SUnknown,
           send_filter a (fst s))
        else (PEnded SInvalidArgument, [])
      end
    end
  end.

Record rstate := RS { rs_cache : cache; rs_phase : phase }.

(** one step of the script: new state, the group of responses sent during the
    step, the outcome of the cache operation (if it was one) *)
Definition run_step (a : aclcfg) (rq : option request) (st : rstate) (s : step)
  : rstate * list resp * cres :=
  match s with
  | SCache o =>
      let '(c', feed, cr) := cache_op (rs_cache st) o in
      match rs_phase st with
      | PStream single qs =>
          let r := stream_feed a single qs feed in
          (RS c' (if snd r then PEnded SOK else PStream single qs), fst r, cr)
      | ph => (RS c' ph, [], cr)
      end
  | SSub =>
      match rs_phase st with
      | PBefore =>
          let r := subscribe a (rs_cache st) rq in
          (RS (rs_cache st) (fst r), snd r, COk)
      | _ => (st, [], COk)
      end
  | SPoll =>
      match rs_phase st with
      | PPoll t q =>
          let s := snapshot (rs_cache st) t q in
          (RS (rs_cache st) (if snd s then PPoll t q else PEnded SUnknown),
           send_filter a (fst s), COk)
      | _ => (st, [], COk)
      end
  | SAcl _ => (st, [], COk)
  end.

Fixpoint run (a : aclcfg) (rq : option request) (st : rstate) (ops : list step)
  : list (list resp * cres) * rstate :=
  match ops with
  | [] => ([], st)
  | s :: r =>
      let '(st', g, cr) := run_step a rq st s in
      let rest := run a rq st' r in
      ((g, cr) :: fst rest, snd rest)
  end.

(** the status Subscribe returns once the harness has ended the script (closing
    the request stream of a POLL, cancelling the context of a STREAM) *)
Definition final_status (ph : phase) : status :=
  match ph with
  | PBefore => SNone
  | PPoll _ _ => SOK
  | PStream _ _ => SCanceled
  | PEnded st => st
  end.

End WithACL.

Definition empty_cache (targets : list string) : cache :=
  fold_left (fun c t => aset t None c) targets [].

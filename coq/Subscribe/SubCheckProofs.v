(** Soundness of the executable specifications K_P of C05 (C05Check.kp_snapshot)
    and C07 (C07Check.kp_c07): when the checker reports nothing on the
    implementation's observations, the property holds of those observations. *)
From Gnmi Require Import Base.Prelude CTree.CTreeModel Subscribe.SubModel
  Subscribe.C05Check Subscribe.C07Check.

Lemma filter_nil {A} (f : A -> bool) l : filter f l = [] -> forall x, In x l -> f x = false.
Proof.
  induction l as [|a l IH]; cbn; [intros _ x []|].
  destruct (f a) eqn:E; [discriminate|]. intros H x [<-|Hin]; auto.
Qed.

Lemma kf_or_nil tag l : kf_or tag l = [] -> l = [].
Proof.
  unfold kf_or. destruct l as [|n l]; [reflexivity|]. cbn.
  destruct (path_origin_leaf n); cbn.
  - destruct (existsb _ l); cbn; discriminate.
  - discriminate.
Qed.

Lemma one_sync_last_spec g :
  one_sync_last g = true -> exists l, g = l ++ [OSync] /\ ~ In OSync l.
Proof.
  induction g as [|r g IH]; cbn; [discriminate|].
  destruct r as [|n d].
  - destruct g; [|discriminate]. intros _. exists []. cbn. tauto.
  - intros H. destruct (IH H) as (l & -> & Hn). exists (OUpd n d :: l). split; [reflexivity|].
    intros [E|E]; [discriminate|contradiction].
Qed.

(** C05: a snapshot group on which [kp_snapshot] reports nothing contains every
    leaf of the dump that the request wants (before the sync), only such leaves,
    and ends with its only sync. *)
Lemma kp_snapshot_sound rq pf d g :
  kp_snapshot rq pf d g = [] -> r_updates_only rq = false ->
  (exists l, g = l ++ [OSync] /\ ~ In OSync l)
  /\ (forall e, In e d -> wants rq pf (fst (fst e)) (snd e) = true ->
                existsb (noti_eqb (snd e)) (before_sync g) = true)
  /\ (forall n, In n (upds_of g) ->
                existsb (fun e => wants rq pf (fst (fst e)) (snd e) && noti_eqb n (snd e)) d = true).
Proof.
  unfold kp_snapshot. intros H Huo. rewrite Huo in H.
  apply app_eq_nil in H as [H1 H]. apply app_eq_nil in H as [H2 H3].
  apply kf_or_nil in H1. apply kf_or_nil in H2.
  split; [|split].
  - apply one_sync_last_spec. destruct (one_sync_last g); [reflexivity|discriminate].
  - intros e Hin Hw.
    pose proof (filter_nil _ _ H1 (snd e)) as Hf.
    assert (Hin' : In (snd e) (map snd (filter (fun e => wants rq pf (fst (fst e)) (snd e)) d))).
    { apply in_map. apply filter_In. auto. }
    specialize (Hf Hin'). now apply negb_false_iff in Hf.
  - intros n Hin. pose proof (filter_nil _ _ H2 n Hin) as Hf. apply negb_false_iff in Hf.
    apply existsb_exists in Hf as (m & Hm & He). apply in_map_iff in Hm as (e & <- & Hf).
    apply filter_In in Hf as [Hd Hw]. apply existsb_exists. exists e. split; [assumption|].
    now rewrite Hw, He.
Qed.

(** C07: when [kp_c07] reports nothing for a case with an ACL and a user, no
    recorded response carries a prefix target the table denies to the user. *)
Lemma denied_from_sound allowed i obs :
  denied_from allowed i obs = [] ->
  forall ob n d, In ob obs -> In (OUpd n d) (ob_group ob) -> allowed (g_target (n_prefix n)) = true.
Proof.
  revert i; induction obs as [|a r IH]; intros i; cbn; [intros _ ob n d []|].
  intros H. apply app_eq_nil in H as [H1 H2].
  intros ob n d [<-|Hin] Hn; [|eapply IH; eauto].
  destruct (denied_sent allowed (ob_group a)) eqn:E; [discriminate|].
  unfold denied_sent in E.
  assert (Hx : forall x, In x (ob_group a) ->
                 match x with OSync => false | OUpd n _ => negb (allowed (g_target (n_prefix n))) end = false).
  { intros x Hx. destruct (match x with OSync => false | OUpd n0 _ => negb (allowed (g_target (n_prefix n0))) end) eqn:F;
      [|reflexivity].
    assert (existsb (fun o => match o with OSync => false | OUpd n0 _ => negb (allowed (g_target (n_prefix n0))) end)
                    (ob_group a) = true) by (apply existsb_exists; eauto).
    congruence. }
  specialize (Hx _ Hn). cbn in Hx. now apply negb_false_iff in Hx.
Qed.

Lemma kp_c07_sound cs tbl u :
  c_acl cs = Some tbl -> c_user cs = Some u -> has_sub_step (c_ops cs) = true ->
  has_acl_step (c_ops cs) = false ->
  kp_c07 cs = [] ->
  forall ob n d, In ob (c_obs cs) -> In (OUpd n d) (ob_group ob) ->
                 allow_of tbl u (g_target (n_prefix n)) = true.
Proof.
  unfold kp_c07. intros Ha Hu Hs Hd. rewrite Ha, Hs, Hu, Hd. cbn [negb].
  intros H. apply app_eq_nil in H as [H _]. eapply denied_from_sound; eauto.
Qed.

Lemma kp_c07_sound_unauthenticated cs tbl :
  c_acl cs = Some tbl -> c_user cs = None -> has_sub_step (c_ops cs) = true ->
  kp_c07 cs = [] ->
  status_eqb (c_status cs) SUnauthenticated = true /\ groups_empty (c_obs cs) = true.
Proof.
  unfold kp_c07. intros Ha Hu Hs. rewrite Ha, Hs, Hu. cbn [negb].
  destruct (status_eqb (c_status cs) SUnauthenticated); [|discriminate].
  destruct (groups_empty (c_obs cs)); [auto|discriminate].
Qed.

(** C05, walk overlapped by writers: when [kp_weak] reports nothing, every
    update sent is wanted by the request and is a notification that was stored
    at some moment of the call (in the dump before it, or written during it);
    every wanted notification stored before and still stored after the call
    (hence throughout: writers' timestamps increase) was sent before the sync;
    and the group ends with its only sync. *)
Lemma kp_weak_sound rq pf d0 writes d1 g :
  kp_weak rq pf d0 writes d1 g = [] -> r_updates_only rq = false ->
  (exists l, g = l ++ [OSync] /\ ~ In OSync l)
  /\ (forall n, In n (upds_of g) ->
        wants rq pf (g_target (n_prefix n)) n = true
        /\ existsb (noti_eqb n) (map snd d0 ++ writes) = true)
  /\ (forall e, In e d0 -> wants rq pf (fst (fst e)) (snd e) = true ->
        existsb (dentry_eqb e) d1 = true ->
        existsb (noti_eqb (snd e)) (before_sync g) = true).
Proof.
  unfold kp_weak. intros H Huo. rewrite Huo in H. cbn [orb] in H.
  apply app_eq_nil in H as [H1 H]. apply app_eq_nil in H as [H2 H3].
  apply kf_or_nil in H1. apply kf_or_nil in H2.
  split; [|split].
  - apply one_sync_last_spec. destruct (one_sync_last g); [reflexivity|discriminate].
  - intros n Hin. pose proof (filter_nil _ _ H1 n Hin) as Hf.
    apply negb_false_iff, andb_true_iff in Hf. exact Hf.
  - intros e Hin Hw Hd1.
    pose proof (filter_nil _ _ H2 (snd e)) as Hf.
    assert (Hin' : In (snd e) (map snd (filter (fun e => wants rq pf (fst (fst e)) (snd e)
                                                          && existsb (dentry_eqb e) d1) d0))).
    { apply in_map. apply filter_In. split; [assumption|]. now rewrite Hw, Hd1. }
    specialize (Hf Hin'). now apply negb_false_iff in Hf.
Qed.

(** Correspondence evaluator shared by C05 and C07, and the executable
    specification K_P of C05.

    A case is one script (cache operations, the Subscribe call, poll triggers)
    run by the harness against a real cache.Cache + subscribe.Server over an
    in-memory stream, with, per step, the group of responses the stream's Send
    recorded during the step, the outcome of the cache operation and (at
    Subscribe and poll steps) the implementation's own full dump of the cache.

    [check_case] (a) runs the model of SubModel.v over the same script and
    compares group by group -- tag 1 -- and (b) applies the specification of C05
    to the implementation's observations alone: the updates before the sync of
    every snapshot are exactly the leaves of the implementation's own dump whose
    name matches a subscription, one sync and last, status OK -- tags 2..5,
    tag 11 inside the known-finding class (origin carried by the update path). *)
From Gnmi Require Import Base.Prelude CTree.CTreeModel Subscribe.SubModel.

Inductive oresp := OSync | OUpd (n : noti) (dup : N).

Definition dump := list (string * path * noti).

(** [ob_burst]: 0 = an ordinary step (the subscriber was quiescent before and
    after it).  1 / 2 = member / last member of a burst: the steps of a burst were
    executed concurrently (the Subscribe call, if it is in the burst, in its
    own goroutine; the cache operations by one writer goroutine per target, in
    script order per target) without waiting for quiescence in between; only
    the last member carries the responses recorded during the whole burst and
    the dump taken after it.  A Subscribe step that opens a burst carries the
    dump taken before the burst started. *)
Record oobs := OB {
  ob_group : list oresp;
  ob_cres : cres;
  ob_dump : option dump;
  ob_burst : N }.

Record case := CS {
  c_targets : list string;
  c_acl : option (list (string * string * bool));    (* None: no ACL installed *)
  c_user : option string;                             (* None: the context names no user *)
  c_req : option request;                             (* None: EOF on the first Recv *)
  c_ops : list step;
  c_obs : list oobs;                                  (* one per step *)
  c_status : status;
  c_final : dump;
  (* C07 only: the same script against a server without ACL *)
  c_obs2 : list oobs;
  c_status2 : status;
  (* fault injected by the stream and actually hit: 0 none; k > 0: the k-th Send
     returned an error (it is not recorded); [c_fault_recv]: a trigger's Recv
     returned an error other than EOF *)
  c_fault : N;
  c_fault_recv : bool }.

(** * multisets and canonical groups *)

Section MSet.
Context {A : Type} (eqb : A -> A -> bool).

Fixpoint remove_one (x : A) (l : list A) : option (list A) :=
  match l with
  | [] => None
  | y :: r => if eqb x y then Some r
              else match remove_one x r with Some r' => Some (y :: r') | None => None end
  end.

Fixpoint mset_eqb (l1 l2 : list A) : bool :=
  match l1 with
  | [] => match l2 with [] => true | _ => false end
  | x :: r => match remove_one x l2 with Some l2' => mset_eqb r l2' | None => false end
  end.

Fixpoint dedup (l : list A) : list A :=
  match l with
  | [] => []
  | x :: r => if existsb (eqb x) r then dedup r else x :: dedup r
  end.
End MSet.

Definition resp_eqb (a b : resp) : bool :=
  match a, b with
  | RSync, RSync => true
  | RUpd x, RUpd y => noti_eqb x y
  | _, _ => false
  end.

(** an observed response stands for [1 + duplicates] offers *)
Definition expand (l : list oresp) : list resp :=
  flat_map (fun o => match o with
                     | OSync => [RSync]
                     | OUpd n d => repeat (RUpd n) (S (N.to_nat d))
                     end) l.

(** split at the syncs *)
Fixpoint segments (l : list resp) (cur : list noti) : list (list noti) :=
  match l with
  | [] => [rev cur]
  | RSync :: r => rev cur :: segments r []
  | RUpd n :: r => segments r (n :: cur)
  end.

Definition is_pure_delete (n : noti) : bool :=
  match n_upds n with [] => true | _ => false end.

(** a delete notification cannot carry a duplicate count: a coalesced one is
    simply delivered fewer times, so deletes count once per segment *)
Definition canon_segment (l : list noti) : list noti :=
  filter (fun n => negb (is_pure_delete n)) l ++ dedup noti_eqb (filter is_pure_delete l).

Definition group_eqb (a b : list resp) : bool :=
  list_eqb (mset_eqb noti_eqb)
           (map canon_segment (segments a [])) (map canon_segment (segments b [])).

Definition dentry_eqb (a b : string * path * noti) : bool :=
  String.eqb (fst (fst a)) (fst (fst b)) && path_eqb (snd (fst a)) (snd (fst b))
  && noti_eqb (snd a) (snd b).

Definition cres_eqb (a b : cres) : bool :=
  match a, b with
  | COk, COk | CErr, CErr | CPanic, CPanic | CMeta, CMeta => true
  | _, _ => false
  end.

Definition status_eqb (a b : status) : bool :=
  match a, b with
  | SNone, SNone | SOK, SOK | SInvalidArgument, SInvalidArgument | SNotFound, SNotFound
  | SPermissionDenied, SPermissionDenied | SUnauthenticated, SUnauthenticated
  | SUnknown, SUnknown | SCanceled, SCanceled | SOther, SOther => true
  | _, _ => false          (* SHang / SPanic are equal to nothing *)
  end.

(** * the model side *)

Definition allow_of (tbl : list (string * string * bool)) (u t : string) : bool :=
  existsb (fun r => String.eqb (fst (fst r)) u && String.eqb (snd (fst r)) t && snd r) tbl.

Definition acl_table (cs : case) : list (string * string * bool) :=
  match c_acl cs with Some t => t | None => [] end.

Definition acfg (cs : case) : aclcfg :=
  match c_acl cs with Some _ => ACLUser (c_user cs) | None => NoACL end.

Definition in_resps (r : resp) (l : list resp) : bool := existsb (resp_eqb r) l.

(** acceptance of a burst of cache operations on a streaming subscriber: every
    response observed is one the sequential execution of the same operations
    produces (as a set: a leaf offered again before it was sent is sent with
    its newest value, possibly twice), and every response of the sequential
    execution whose notification is still the stored one at the end of the
    burst was observed (the final value of every written leaf is delivered) *)
Definition burst_accepts (total : list resp) (observed : list resp) (d1 : option dump) : bool :=
  forallb (fun r => in_resps r total) observed
  && match d1 with
     | None => true
     | Some d =>
         forallb (fun r => match r with
                           | RSync => in_resps r observed
                           | RUpd n =>
                               if is_pure_delete n then true
                               else if existsb (fun e => noti_eqb n (snd e)) d
                                    then in_resps r observed else true
                           end) total
     end.

(** [acc]: [None] outside a burst, [Some (responses so far, the burst contains
    the Subscribe step)] inside *)
Fixpoint model_from (tbl : list (string * string * bool)) (a : aclcfg) (rq : option request)
  (i : nat) (st : rstate) (acc : option (list resp * bool)) (ops : list step) (obs : list oobs)
  : list (nat * N) * rstate :=
  match ops, obs with
  | [], [] => (match acc with None => [] | Some _ => [(i, 1%N)] end, st)
  | s :: ops', ob :: obs' =>
      let allow := allow_of tbl in          (* the table in force during this step *)
      let tbl' := match s with SAcl t => t | _ => tbl end in
      let '(st', g, cr) := run_step allow a rq st s in
      let is_sub := match s, rs_phase st with         (* a walk *)
                    | SSub, _ => true
                    | SPoll, PPoll _ _ => true
                    | SPoll, PBefore => true              (* another caller's Subscribe, see the harness *)
                    | _, _ => false
                    end in
      let v2 := if cres_eqb (ob_cres ob) cr then [] else [(i, 1%N)] in
      let vd := match ob_dump ob, is_sub && negb (N.eqb (ob_burst ob) 0) with
                | Some d, false =>
                    if mset_eqb dentry_eqb d (dump_cache (rs_cache st')) then [] else [(i, 1%N)]
                | _, _ => []      (* the dump of a burst-opening Subscribe is checked by K_P only *)
                end in
      let '(v1, acc') :=
        match ob_burst ob with
        | 0%N =>
            (match acc with
             | None => if group_eqb (expand (ob_group ob)) g then [] else [(i, 1%N)]
             | Some _ => [(i, 1%N)]
             end, None)
        | 1%N =>
            let prev := match acc with Some p => p | None => ([], false) end in
            (match ob_group ob with [] => [] | _ => [(i, 1%N)] end,
             Some (fst prev ++ g, snd prev || is_sub))
        | _ =>
            let prev := match acc with Some p => p | None => ([], false) end in
            ((if snd prev || is_sub then []      (* a walk overlapped by writers: K_P (weak) decides *)
              else if burst_accepts (fst prev ++ g) (expand (ob_group ob)) (ob_dump ob) then []
                   else [(i, 1%N)]),
             None)
        end in
      let rest := model_from tbl' a rq (S i) st' acc' ops' obs' in
      (v1 ++ v2 ++ vd ++ fst rest, snd rest)
  | _, _ => ([(i, 1%N)], st)            (* not one observation per step *)
  end.

(** a run in which the stream failed: the RPC must end with the stream's error
    (a plain Go error: [SUnknown]); everything recorded before is part of what
    the fault-free model sends in the same step; after a failed k-th Send
    exactly k-1 responses were recorded.  Cache operations are unaffected. *)
Fixpoint fault_from (tbl : list (string * string * bool)) (a : aclcfg) (rq : option request)
  (i : nat) (st : rstate) (ops : list step) (obs : list oobs) : list (nat * N) :=
  match ops, obs with
  | [], [] => []
  | s :: ops', ob :: obs' =>
      let tbl' := match s with SAcl t => t | _ => tbl end in
      let '(st', g, cr) := run_step (allow_of tbl) a rq st s in
      (if forallb (fun r => in_resps r g) (expand (ob_group ob)) then [] else [(i, 1%N)])
      ++ (if cres_eqb (ob_cres ob) cr then [] else [(i, 1%N)])
      ++ fault_from tbl' a rq (S i) st' ops' obs'
  | _, _ => [(i, 1%N)]
  end.

Definition fault_check (a : aclcfg) (cs : case) (obs : list oobs) (stt : status) : list (nat * N) :=
  let n := List.length (c_ops cs) in
  fault_from (acl_table cs) a (c_req cs) 0 (RS (empty_cache (c_targets cs)) PBefore)
             (c_ops cs) obs
  ++ (if status_eqb stt SUnknown then [] else [(n, 1%N)])
  ++ (if N.eqb (c_fault cs) 0 then []
      else if N.eqb (N.of_nat (List.length (flat_map (fun ob => ob_group ob) obs)) + 1) (c_fault cs)
           then [] else [(n, 1%N)]).

Definition faulty (cs : case) : bool := negb (N.eqb (c_fault cs) 0) || c_fault_recv cs.

Definition model_check_normal (a : aclcfg) (cs : case) (obs : list oobs) (stt : status) (fin : option dump)
  : list (nat * N) :=
  let r := model_from (acl_table cs) a (c_req cs) 0
                      (RS (empty_cache (c_targets cs)) PBefore) None (c_ops cs) obs in
  let n := List.length (c_ops cs) in
  fst r
  ++ (if status_eqb stt (final_status (rs_phase (snd r))) then [] else [(n, 1%N)])
  ++ match fin with
     | Some d => if mset_eqb dentry_eqb d (dump_cache (rs_cache (snd r))) then [] else [(n, 1%N)]
     | None => []
     end.

Definition model_check (a : aclcfg) (cs : case) (obs : list oobs) (stt : status) (fin : option dump)
  : list (nat * N) :=
  if faulty cs then fault_check a cs obs stt else model_check_normal a cs obs stt fin.

(** * the specification side of C05 *)

Definition elems_strings (l : list pelem) : path := flat_map elem_strings l.

(** the name of a stored leaf as its own notification spells it: origin (of the
    prefix, else of the update path), prefix elements, update path elements
    (an atomic notification is one leaf named by its prefix) *)
Definition leaf_origin (n : noti) : string :=
  if negb (String.eqb (g_origin (n_prefix n)) "") then g_origin (n_prefix n)
  else if n_atomic n then ""
  else match n_upds n with (p0, _) :: _ => g_origin p0 | [] => "" end.

Definition leaf_name (n : noti) : path :=
  nonempty (leaf_origin n) ++ elems_strings (g_elems (n_prefix n))
  ++ (if n_atomic n then []
      else match n_upds n with (p0, _) :: _ => elems_strings (g_elems p0) | [] => [] end).

(** the known-finding class: the origin is carried by the update path *)
Definition path_origin_leaf (n : noti) : bool :=
  String.eqb (g_origin (n_prefix n)) "" && negb (n_atomic n)
  && match n_upds n with (p0, _) :: _ => negb (String.eqb (g_origin p0) "") | [] => false end.

Definition sub_valid (pf : gpath) (sp : option gpath) : bool :=
  let op := origin_of sp in
  negb (negb (String.eqb (g_origin pf) "") && negb (String.eqb op ""))
  && negb (negb (String.eqb op "") && match g_elems pf with [] => false | _ => true end).

Definition sub_name (pf : gpath) (sp : option gpath) : path :=
  nonempty (if String.eqb (g_origin pf) "" then origin_of sp else g_origin pf)
  ++ elems_strings (g_elems pf)
  ++ match sp with Some p => elems_strings (g_elems p) | None => [] end.

Definition wants (rq : request) (pf : gpath) (t : string) (n : noti) : bool :=
  (String.eqb (g_target pf) "*" || String.eqb (g_target pf) t)
  && existsb (fun sp => qmatch (sub_name pf sp) (leaf_name n)) (r_subs rq).

Fixpoint upds_of (l : list oresp) : list noti :=
  match l with
  | [] => []
  | OSync :: r => upds_of r
  | OUpd n _ :: r => n :: upds_of r
  end.

Fixpoint before_sync (l : list oresp) : list noti :=
  match l with
  | [] => []
  | OSync :: _ => []
  | OUpd n _ :: r => n :: before_sync r
  end.

Fixpoint one_sync_last (l : list oresp) : bool :=
  match l with
  | [] => false
  | [OSync] => true
  | OSync :: _ => false
  | OUpd _ _ :: r => one_sync_last r
  end.

Definition kf_or (tag : N) (l : list noti) : list N :=
  (if existsb (fun n => negb (path_origin_leaf n)) l then [tag] else [])
  ++ (if existsb path_origin_leaf l then [11%N] else []).

(** one snapshot: the group the stream recorded against the implementation's
    own dump taken at the same step *)
Definition kp_snapshot (rq : request) (pf : gpath) (d : dump) (g : list oresp) : list N :=
  let expected :=
    if r_updates_only rq then []
    else map snd (filter (fun e => wants rq pf (fst (fst e)) (snd e)) d) in
  let missing := filter (fun n => negb (existsb (noti_eqb n) (before_sync g))) expected in
  let extra := filter (fun n => negb (existsb (noti_eqb n) expected)) (upds_of g) in
  kf_or 2 missing ++ kf_or 3 extra ++ (if one_sync_last g then [] else [4%N]).

(** ** a snapshot overlapped by writers (the weak clause of the property)

    [d0]: the implementation's dump before the burst, [writes]: the
    notifications the writers stored during it (single-update notifications:
    stored as they are), [d1]: the dump after it.  Timestamps of the writers
    increase, so a notification that is in [d0] and in [d1] was stored
    throughout the call. *)
Definition kp_weak (rq : request) (pf : gpath) (d0 : dump) (writes : list noti) (d1 : dump)
  (g : list oresp) : list N :=
  let held := map snd d0 ++ writes in
  let bad := filter (fun n => r_updates_only rq
                              || negb (wants rq pf (g_target (n_prefix n)) n
                                       && existsb (noti_eqb n) held)) (upds_of g) in
  let stable := if r_updates_only rq then []
                else map snd (filter (fun e => wants rq pf (fst (fst e)) (snd e)
                                               && existsb (dentry_eqb e) d1) d0) in
  let missing := filter (fun n => negb (existsb (noti_eqb n) (before_sync g))) stable in
  kf_or 6 bad ++ kf_or 7 missing ++ (if one_sync_last g then [] else [4%N]).

(** the members of the burst that follow its first step: the notifications
    written, the last observation, and what follows the burst *)
Fixpoint burst_rest (ops : list step) (obs : list oobs) (writes : list noti) (k : nat)
  : option (list noti * oobs * list step * list oobs * nat) :=
  match ops, obs with
  | s :: ops', ob :: obs' =>
      let w := match s with
               | SCache (CUpdate n) => match n_upds n with [_] => [n] | _ => [] end
               | _ => []
               end in
      if N.eqb (ob_burst ob) 2 then Some (writes ++ w, ob, ops', obs', S k)
      else if N.eqb (ob_burst ob) 1 then burst_rest ops' obs' (writes ++ w) (S k)
      else None
  | _, _ => None
  end.

Definition live_after (live : list string) (s : step) : list string :=
  match s with
  | SCache (CRemove t _) => filter (fun x => negb (String.eqb x t)) live
  | SCache (CAdd t) | SCache (CChurn t) => t :: filter (fun x => negb (String.eqb x t)) live
  | _ => live
  end.

(** a request the property speaks about: well formed, ONCE or POLL, the target
    known, no origin conflict in any subscription *)
Definition c05_applicable (live : list string) (rq : request) : option gpath :=
  if negb (r_has_sub rq) then None else
  match r_prefix rq with
  | None => None
  | Some pf =>
      if String.eqb (g_target pf) "" then None
      else if negb (String.eqb (g_target pf) "*" || existsb (String.eqb (g_target pf)) live) then None
      else if negb (Z.eqb (r_mode rq) 1 || Z.eqb (r_mode rq) 2) then None
      else if negb (forallb (sub_valid pf) (r_subs rq)) then None
      else Some pf
  end.

Definition tagged (i : nat) (l : list N) : list (nat * N) := map (fun t => (i, t)) l.

Definition nothing_sent (g : list oresp) : list N :=
  match g with [] => [] | _ => [3%N] end.

(** one walk (the Subscribe step or a poll trigger): exact when the subscriber
    was quiescent around it, weak when it opens a burst *)
Definition judge_walk (rq : request) (pf : gpath) (i : nat) (ob : oobs) (d : dump)
  (ops' : list step) (obs' : list oobs) : list (nat * N) * nat :=
  if N.eqb (ob_burst ob) 0 then (tagged i (kp_snapshot rq pf d (ob_group ob)), O)
  else
    match burst_rest ops' obs' [] 0 with
    | Some (writes, last, _, _, k) =>
        (tagged (i + k)
                (match ob_dump last with
                 | Some d1 => kp_weak rq pf d writes d1 (ob_group last)
                 | None => [4%N]          (* the burst never became quiescent: no sync *)
                 end), k)
    | None => ([], O)                     (* malformed burst: the correspondence reports it *)
    end.

(** [act]: [None] before the Subscribe step or when the property does not
    apply; [Some (pf, polling)] afterwards.  [skip]: members of a burst already
    judged together with the walk that opened it. *)
Fixpoint kp_from (rq : request) (i : nat) (live : list string) (act : option (gpath * bool))
  (seen_sub : bool) (skip : nat) (ops : list step) (obs : list oobs)
  : list (nat * N) * option (gpath * bool) :=
  match ops, obs with
  | s :: ops', ob :: obs' =>
      let seen := match s with SSub => true | _ => seen_sub end in
      match skip with
      | S k => kp_from rq (S i) (live_after live s) act seen k ops' obs'
      | O =>
      let here :=
        match s with
        | SSub =>
            if seen_sub then (tagged i (match act with Some _ => nothing_sent (ob_group ob) | None => [] end), act, O)
            else
              match c05_applicable live rq, ob_dump ob with
              | Some pf, Some d =>
                  let j := judge_walk rq pf i ob d ops' obs' in
                  (fst j, Some (pf, Z.eqb (r_mode rq) 2), snd j)
              | _, _ => ([], None, O)
              end
        | SPoll =>
            match act, ob_dump ob with
            | Some (pf, true), Some d =>
                let j := judge_walk rq pf i ob d ops' obs' in (fst j, act, snd j)
            | Some (_, false), _ => (tagged i (nothing_sent (ob_group ob)), act, O)
            | _, _ => ([], act, O)
            end
        | SCache _ | SAcl _ =>
            (tagged i (match act with Some _ => nothing_sent (ob_group ob) | None => [] end), act, O)
        end in
      let rest := kp_from rq (S i) (live_after live s) (snd (fst here)) seen (snd here) ops' obs' in
      (fst (fst here) ++ fst rest, snd rest)
      end
  | _, _ => ([], act)
  end.

Definition kp_c05 (cs : case) : list (nat * N) :=
  match c_req cs, c_acl cs with
  | Some rq, None =>
      let r := kp_from rq 0 (c_targets cs) None false O (c_ops cs) (c_obs cs) in
      fst r ++ match snd r with
               | Some _ => if status_eqb (c_status cs) SOK then [] else [(List.length (c_ops cs), 5%N)]
               | None => []
               end
  | _, _ => []
  end.

(** the property speaks about calls whose stream works: a case in which the
    stream itself failed is judged by the correspondence only *)
Definition check_case (cs : case) : list (nat * N) :=
  model_check (acfg cs) cs (c_obs cs) (c_status cs) (Some (c_final cs))
  ++ (if faulty cs then [] else kp_c05 cs).

Fixpoint check_all_from (i : nat) (cs : list case) : list (nat * nat * N) :=
  match cs with
  | [] => []
  | c :: cs' => map (fun sn => (i, fst sn, snd sn)) (check_case c) ++ check_all_from (S i) cs'
  end.

Definition check_all (cs : list case) : list (nat * nat * N) := check_all_from 0 cs.

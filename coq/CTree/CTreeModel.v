(** Executable model of ctree/tree.go (sequential semantics).

    A [Tree] node is either a leaf holding a value or a branch (a Go map from
    names to nodes).  The root may additionally be empty ([leafBranch == nil]).
    Values are never Go [nil] here (a nil-valued leaf is indistinguishable from
    an empty node in the Go code; every user in this repository stores non-nil
    values).  Only definitions in this file -- proofs are in CTreeProofs.v, so the
    model keeps running when a proof breaks. *)
From Gnmi Require Export Base.Prelude.

Section Tree.
Context {V : Type}.

Inductive node :=
| Leaf (v : V)
| Branch (cs : list (string * node)).

(** [None] is the empty root. *)
Definition tree := option node.

(** newBranch *)
Fixpoint new_branch (p : path) (v : V) : node :=
  match p with
  | [] => Leaf v
  | k :: r => Branch [(k, new_branch r v)]
  end.

(** Add = terminalAdd / intermediateAdd / slowAdd.  [None] = the Go code
    returns an error; no error path of the Go code writes to the tree before
    failing, so the tree is unchanged in that case.  The freshly created
    branch is re-walked by [br.Add(path[1:], value)] in slowAdd, which
    re-stores the same value: that is [new_branch]. *)
Fixpoint add_node (n : node) (p : path) (v : V) {struct n} : option node :=
  match n with
  | Leaf _ =>
      match p with
      | [] => Some (Leaf v)              (* terminalAdd overwrites the value *)
      | _ :: _ => None                   (* "already a leaf" *)
      end
  | Branch cs =>
      match p with
      | [] => None                       (* "leaf in place of a branch" *)
      | k :: r =>
          match alter (fun c => add_node c r v) (new_branch r v) k cs with
          | Some cs' => Some (Branch cs')
          | None => None
          end
      end
  end.

Definition add (t : tree) (p : path) (v : V) : option tree :=
  match t with
  | None => Some (Some (new_branch p v))
  | Some n => match add_node n p v with Some n' => Some (Some n') | None => None end
  end.

(** Get: the node a fully specified path points to. *)
Fixpoint get_node (n : node) (p : path) {struct n} : option node :=
  match p with
  | [] => Some n
  | k :: r =>
      match n with
      | Leaf _ => None
      | Branch cs => find_with (fun c => get_node c r) None k cs
      end
  end.

Definition get (t : tree) (p : path) : option node :=
  match t with None => None | Some n => get_node n p end.

(** the value stored at exactly [p] (GetLeafValue) *)
Definition lookup_node (n : node) (p : path) : option V :=
  match get_node n p with Some (Leaf v) => Some v | _ => None end.

Definition lookup (t : tree) (p : path) : option V :=
  match t with None => None | Some n => lookup_node n p end.

Definition is_branch_at (t : tree) (p : path) : bool :=
  match get t p with Some (Branch _) => true | _ => false end.

Definition children_at (t : tree) (p : path) : option (list string) :=
  match get t p with Some (Branch cs) => Some (keys cs) | _ => None end.

(** all leaves below a node, in map order (walkInternal, and enumerateChildren
    with an exhausted path) *)
Fixpoint walk_node (n : node) (pre : path) {struct n} : list (path * V) :=
  match n with
  | Leaf v => [(pre, v)]
  | Branch cs => flat_map (fun kc => walk_node (snd kc) (pre ++ [fst kc])) cs
  end.

Definition walk (t : tree) : list (path * V) :=
  match t with None => [] | Some n => walk_node n [] end.

Definition key_leb {B} (a b : string * B) : bool := String.leb (fst a) (fst b).

(** walkInternalSorted: the child names are sorted (bytewise) and the children
    visited in that order. *)
Fixpoint walk_sorted_node (n : node) (pre : path) {struct n} : list (path * V) :=
  match n with
  | Leaf v => [(pre, v)]
  | Branch cs =>
      flat_map snd
        (isort key_leb
           (map (fun kc => (fst kc, walk_sorted_node (snd kc) (pre ++ [fst kc]))) cs))
  end.

Definition walk_sorted (t : tree) : list (path * V) :=
  match t with None => [] | Some n => walk_sorted_node n [] end.

Definition is_glob (k : string) : bool := String.eqb k "*".

(** queryInternal / enumerateChildren *)
Fixpoint query_node (n : node) (pre q : path) {struct n} : list (path * V) :=
  match q with
  | [] => walk_node n pre
  | k :: r =>
      if is_glob k then
        match r with
        | [] => walk_node n pre          (* n == 1 && path[0] == "*" *)
        | _ :: _ =>
            match n with
            | Leaf _ => []
            | Branch cs =>
                flat_map (fun kc => query_node (snd kc) (pre ++ [fst kc]) r) cs
            end
        end
      else
        match n with
        | Leaf _ => []
        | Branch cs => find_with (fun c => query_node c (pre ++ [k]) r) [] k cs
        end
  end.

Definition query (t : tree) (q : path) : list (path * V) :=
  match t with None => [] | Some n => query_node n [] q end.

(** Which stored paths a query selects (the relation Query implements). *)
Fixpoint qmatch (q p : path) : bool :=
  match q with
  | [] => true
  | k :: r =>
      if is_glob k then
        match r with
        | [] => true
        | _ :: _ => match p with [] => false | _ :: p' => qmatch r p' end
        end
      else
        match p with
        | [] => false
        | a :: p' => String.eqb k a && qmatch r p'
        end
  end.

(** internalDelete.  Result: the node that remains ([None]: the caller must
    remove this node from its parent) and the removed leaves with their paths
    relative to this node (what [retDeletedPaths] reconstructs, together with
    the value handed to the callback [f]). *)

Definition strip_glob (q : path) : path :=
  match q with
  | [] => []
  | k :: r => if is_glob k then r else q
  end.

Definition heads_all (q : path) : bool :=
  match q with [] => true | k :: _ => is_glob k end.

Definition collect_children (rs : list (string * (option node * list (path * V))))
  : list (string * node) * list (path * V) :=
  (flat_map (fun kr => match fst (snd kr) with Some c => [(fst kr, c)] | None => [] end) rs,
   flat_map (fun kr => map (fun pv => (fst kr :: fst pv, snd pv)) (snd (snd kr))) rs).

Definition rebuild (cs : list (string * node)) : option node :=
  match cs with [] => None | _ :: _ => Some (Branch cs) end.

Fixpoint del_node (n : node) (q : path) (cond : V -> bool) {struct n}
  : option node * list (path * V) :=
  if heads_all q then
    let q' := strip_glob q in
    match n with
    | Branch cs =>
        let rs := map (fun kc => (fst kc, del_node (snd kc) q' cond)) cs in
        (rebuild (fst (collect_children rs)), snd (collect_children rs))
    | Leaf v =>
        (* a leaf is selected only when the (stripped) path is exhausted: the
           same leaves Query reports *)
        match q' with
        | [] => if cond v then (None, [([], v)]) else (Some n, [])
        | _ :: _ => (Some n, [])
        end
    end
  else
    match q, n with
    | k :: r, Branch cs =>
        match find_with (fun c => Some (del_node c r cond)) None k cs with
        | None => (Some n, [])
        | Some res =>
            (rebuild (match fst res with
                      | Some c' => aset k c' cs
                      | None => adel k cs
                      end),
             map (fun pv => (k :: fst pv, snd pv)) (snd res))
        end
    | _, _ => (Some n, [])
    end.

(** DeleteConditional / WalkDeleted: new tree and removed leaves. *)
Definition delete_cond (t : tree) (q : path) (cond : V -> bool) : tree * list (path * V) :=
  match t with
  | None => (None, [])
  | Some n => del_node n q cond
  end.

Definition delete (t : tree) (q : path) : tree * list (path * V) :=
  delete_cond t q (fun _ => true).

End Tree.

Arguments node : clear implicits.
Arguments tree : clear implicits.

(** Leaf handles on top of the sequential tree model (C09).

    [GetLeaf] hands out a [*ctree.Leaf]: a pointer to the node that holds the
    leaf.  Through it a caller may read ([Value]) and overwrite ([Update]) the
    value later.  The tree is "a map that changes only through add and delete"
    only if such a handle
      - reads and writes the stored value of its path while that leaf is stored
        (an [Add] over an existing leaf keeps the node), and
      - is inert from the moment the leaf is deleted: it keeps the value it had,
        later updates through it touch nothing in the tree, not even a leaf
        re-added at the same path (that one lives in a new node).
    The layer keeps a few handle slots next to the tree.  A slot is live at a
    path or stale.  Handles that were live on the same leaf when it was deleted
    point to the same detached node: they form a group (named by the path and
    the number of the deleting step) that shares one value.  Handles are taken only on leaves at
    non-empty paths (the root node is never replaced, and a handle on a branch
    position is known finding KF-C09-1).

    [hmstep] runs the layer over the tree model, [hfstep] over the flat-map
    specification; [hcheck_all] is the evaluator the harness calls. *)
From Gnmi Require Import Base.Prelude CTree.CTreeModel CTree.CTreeCheck.
Open Scope Z_scope.

Inductive hslot := HNone | HLive (p : path) | HStale (p : path) (e : nat) (v : Z).

Inductive hop :=
| HOp (o : op)
| HHold (s : nat) (p : path)      (* slot s := GetLeaf p if p is a stored leaf, else empty *)
| HUpdate (s : nat) (v : Z)       (* slot s .Update v *)
| HValue (s : nat).               (* slot s .Value *)

Definition slots := list hslot.

Definition sget (sl : slots) (s : nat) : hslot := nth s sl HNone.

Fixpoint sset (sl : slots) (s : nat) (h : hslot) : slots :=
  match s, sl with
  | O, [] => [h]
  | O, _ :: sl' => h :: sl'
  | S s', [] => HNone :: sset [] s' h
  | S s', x :: sl' => x :: sset sl' s' h
  end.

Fixpoint assoc_path (l : list (path * Z)) (p : path) : option Z :=
  match l with
  | [] => None
  | (q, v) :: l' => if path_eqb p q then Some v else assoc_path l' p
  end.

(** a live handle whose leaf is among the deleted ones keeps that leaf's value *)
Definition stale_by (e : nat) (del : list (path * Z)) (h : hslot) : hslot :=
  match h with
  | HLive p => match assoc_path del p with Some v => HStale p e v | None => h end
  | _ => h
  end.

(** writing through a detached handle is seen by its whole group and by nothing else *)
Definition group_set (p : path) (e : nat) (v : Z) (h : hslot) : hslot :=
  match h with
  | HStale p' e' _ => if path_eqb p p' && Nat.eqb e e' then HStale p e v else h
  | _ => h
  end.

(** the handle part of a state: the slots and the number of tree operations so far *)
Definition hpart := (slots * nat)%type.

Definition deleted_of (t : tree Z) (o : op) : list (path * Z) :=
  match o with
  | ODelete q c | OWalkDeleted q c => snd (delete_cond t q (cnd_eval c))
  | _ => []
  end.

Definition fdeleted_of (f : flat) (o : op) : list (path * Z) :=
  match o with
  | ODelete q c | OWalkDeleted q c => fselect f q c
  | _ => []
  end.

Definition okind (o : option Z) : nkind :=
  match o with Some v => KLeaf v | None => KAbsent end.

Definition hmstep (st : tree Z * hpart) (h : hop) : (tree Z * hpart) * obs :=
  let '(t, (sl, n)) := st in
  match h with
  | HOp o => ((fst (mstep t o), (map (stale_by n (deleted_of t o)) sl, S n)), snd (mstep t o))
  | HHold s p =>
      match p, lookup t p with
      | _ :: _, Some _ => ((t, (sset sl s (HLive p), n)), RBool true)
      | _, _ => ((t, (sset sl s HNone, n)), RBool false)
      end
  | HUpdate s v =>
      match sget sl s with
      | HNone => (st, RBool false)
      | HLive p => ((match add t p v with Some t' => t' | None => t end, (sl, n)), RBool true)
      | HStale p e _ => ((t, (map (group_set p e v) sl, n)), RBool true)
      end
  | HValue s =>
      match sget sl s with
      | HNone => (st, RKind KAbsent)
      | HLive p => (st, RKind (okind (lookup t p)))
      | HStale _ _ v => (st, RKind (KLeaf v))
      end
  end.

Definition hfstep (st : flat * hpart) (h : hop) : (flat * hpart) * obs :=
  let '(f, (sl, n)) := st in
  match h with
  | HOp o => ((fst (fstep f o), (map (stale_by n (fdeleted_of f o)) sl, S n)), snd (fstep f o))
  | HHold s p =>
      match p, flookup f p with
      | _ :: _, Some _ => ((f, (sset sl s (HLive p), n)), RBool true)
      | _, _ => ((f, (sset sl s HNone, n)), RBool false)
      end
  | HUpdate s v =>
      match sget sl s with
      | HNone => (st, RBool false)
      | HLive p => (((p, v) :: fremove f p, (sl, n)), RBool true)
      | HStale p e _ => ((f, (map (group_set p e v) sl, n)), RBool true)
      end
  | HValue s =>
      match sget sl s with
      | HNone => (st, RKind KAbsent)
      | HLive p => (st, RKind (okind (flookup f p)))
      | HStale _ _ v => (st, RKind (KLeaf v))
      end
  end.

Definition hop_op (h : hop) : op :=
  match h with HOp o => o | _ => OWalk end.   (* only used for [canon]: handle answers have no order *)

Definition hknown_class (f : flat) (h : hop) (r : obs) : N :=
  match h with HOp o => known_class f o r | _ => 0%N end.

(** what a detached handle reads is not part of the property (which speaks of the
    tree): a difference there is a correspondence mismatch only *)
Definition spec_silent (sl : slots) (h : hop) : bool :=
  match h with
  | HValue s => match sget sl s with HStale _ _ _ => true | _ => false end
  | _ => false
  end.

(** verdict tags as in CTreeCheck.v: 1 = implementation differs from the model,
    2 = implementation differs from the specification, 10+k = known finding k *)
Fixpoint hcheck_from (i : nat) (ms : tree Z * hpart) (fs : flat * hpart) (c : list (hop * obs))
  : list (nat * N) :=
  match c with
  | [] => []
  | (h, r) :: c' =>
      let '(ms', rm) := hmstep ms h in
      let '(fs', rf) := hfstep fs h in
      let o := hop_op h in
      let r' := canon o r in
      let v1 := if obs_eqb r' (canon o rm) then [] else [(i, 1%N)] in
      let v2 := if obs_eqb r' (canon o rf) || spec_silent (fst (snd fs)) h then []
                else match hknown_class (fst fs) h r with
                     | 0%N => [(i, 2%N)]
                     | k => [(i, (10 + k)%N)]
                     end in
      v1 ++ v2 ++ hcheck_from (S i) ms' fs' c'
  end.

Definition hcheck_case (c : list (hop * obs)) : list (nat * N) :=
  hcheck_from 0 (None, ([], O)) ([], ([], O)) c.

Fixpoint hcheck_all_from (i : nat) (cs : list (list (hop * obs))) : list (nat * nat * N) :=
  match cs with
  | [] => []
  | c :: cs' => map (fun sn => (i, fst sn, snd sn)) (hcheck_case c) ++ hcheck_all_from (S i) cs'
  end.

Definition hcheck_all (cs : list (list (hop * obs))) : list (nat * nat * N) :=
  hcheck_all_from 0 cs.

(** The executable flat-map specification used as property checker K_P in
    CTreeCheck.v ([fstep]) is what the model ([mstep]) refines, operation by
    operation and hence for every operation sequence: the abstraction relation
    [R] is preserved and every answer agrees (unordered answers up to
    permutation), with ONE exception -- GetLeaf on a path that addresses a
    branch (known finding KF-C09-1), which is exactly [known_class]. *)
From Gnmi Require Import Base.Prelude CTree.CTreeModel CTree.CTreeProofs CTree.CTreeTheorems
  CTree.CTreeCheck.
From Coq Require Import Sorting.Sorted.
Open Scope Z_scope.

Definition R (t : tree Z) (f : flat) : Prop :=
  NoDup (map fst f) /\ forall p v, In (p, v) f <-> lookup t p = Some v.

(** ** flat-map helpers *)

Lemma flookup_Some_In f p v : flookup f p = Some v -> In (p, v) f.
Proof.
  induction f as [|[q w] f IH]; cbn; [discriminate|].
  destruct (path_eqb_spec p q) as [->|Hn].
  - intros E; inversion E; subst. now left.
  - intros H. right. now apply IH.
Qed.

Lemma flookup_None_notin f p : flookup f p = None -> forall v, ~ In (p, v) f.
Proof.
  induction f as [|[q w] f IH]; cbn; [intros _ v []|].
  destruct (path_eqb_spec p q) as [->|Hn]; [discriminate|].
  intros H v [E|Hin]; [inversion E; congruence|]. exact (IH H v Hin).
Qed.

Lemma R_flookup t f p : R t f -> flookup f p = lookup t p.
Proof.
  intros [Hnd HR]. destruct (flookup f p) as [v|] eqn:E.
  - apply flookup_Some_In in E. now apply HR in E.
  - destruct (lookup t p) as [v|] eqn:L; [|reflexivity].
    apply HR in L. exfalso. exact (flookup_None_notin f p E v L).
Qed.

Lemma NoDup_fst_inj {A B} (l : list (A * B)) a b b' :
  NoDup (map fst l) -> In (a, b) l -> In (a, b') l -> b = b'.
Proof.
  induction l as [|[x y] l IH]; cbn; [intros _ []|].
  intros Hnd H1 H2. inversion Hnd as [|? ? Hni Hnd']; subst.
  destruct H1 as [E1|H1], H2 as [E2|H2].
  - congruence.
  - inversion E1; subst. exfalso. apply Hni. apply in_map_iff. exists (a, b'). auto.
  - inversion E2; subst. exfalso. apply Hni. apply in_map_iff. exists (a, b). auto.
  - eauto.
Qed.

Lemma NoDup_of_fst {A B} (l : list (A * B)) : NoDup (map fst l) -> NoDup l.
Proof.
  induction l as [|x l IH]; cbn; intros H; [constructor|].
  inversion H as [|? ? Hni Hnd]; subst. constructor; [|auto].
  intros Hin. apply Hni. now apply in_map.
Qed.

Lemma perm_of_same {A B} (l1 l2 : list (A * B)) :
  NoDup (map fst l1) -> NoDup (map fst l2) ->
  (forall x, In x l1 <-> In x l2) -> Permutation l1 l2.
Proof.
  intros H1 H2 H. apply NoDup_Permutation; auto using NoDup_of_fst.
Qed.

Lemma NoDup_map_filter {A B} (g : A -> B) (h : A -> bool) l :
  NoDup (map g l) -> NoDup (map g (filter h l)).
Proof.
  induction l as [|x l IH]; cbn; intros H; [constructor|].
  inversion H as [|? ? Hni Hnd]; subst. destruct (h x); cbn; [constructor|]; auto.
  intros Hin. apply Hni. apply in_map_iff in Hin as (y & E & Hy). apply filter_In in Hy as [Hy _].
  apply in_map_iff. eauto.
Qed.

Lemma fbranch_spec t f p :
  R t f -> (fbranch f p = true <-> exists s v, s <> [] /\ lookup t (p ++ s) = Some v).
Proof.
  intros [_ HR]. unfold fbranch. rewrite existsb_exists. split.
  - intros ([q v] & Hin & Hs). cbn [fst] in Hs. apply strict_prefix_spec in Hs as (k & s & ->).
    exists (k :: s), v. split; [discriminate|]. now apply HR.
  - intros (s & v & Hs & Hl). exists (p ++ s, v). split; [now apply HR|]. cbn [fst].
    apply strict_prefix_spec. destruct s as [|k s]; [congruence|eauto].
Qed.

Lemma fconflict_spec t f p :
  R t f -> (fconflict f p = false <-> conflict_free t p).
Proof.
  intros [_ HR]. unfold fconflict, conflict_free. split.
  - intros H q w Hq. apply HR in Hq.
    destruct (strict_prefix q p) eqn:E1, (strict_prefix p q) eqn:E2; auto; exfalso;
      (assert (X : existsb (fun qv : path * Z => strict_prefix (fst qv) p || strict_prefix p (fst qv)) f = true)
         by (apply existsb_exists; exists (q, w); cbn [fst]; rewrite E1, E2; auto); congruence).
  - intros H. destruct (existsb _ f) eqn:E; [|reflexivity]. apply existsb_exists in E as ([q w] & Hin & Hc).
    cbn [fst] in Hc. apply HR in Hin. destruct (H q w Hin) as [H1 H2]. rewrite H1, H2 in Hc. discriminate.
Qed.

(** ** agreement of answers *)

Inductive obs_equiv : op -> obs -> obs -> Prop :=
| OE_add o b : obs_equiv o (RAdd b) (RAdd b)
| OE_kind o k : obs_equiv o (RKind k) (RKind k)
| OE_leaves o a b : Permutation a b -> obs_equiv o (RLeaves a) (RLeaves b)
| OE_paths o a b : Permutation a b -> obs_equiv o (RPaths a) (RPaths b)
| OE_vals o a b : Permutation a b -> obs_equiv o (RVals a) (RVals b)
| OE_names_none o : obs_equiv o (RNames None) (RNames None)
| OE_names o a b : Permutation a b -> obs_equiv o (RNames (Some a)) (RNames (Some b))
| OE_bool o b : obs_equiv o (RBool b) (RBool b)
| OE_known_getleaf p : obs_equiv (OGetLeaf p) (RKind KBranch) (RKind KAbsent).

Lemma kind_get_spec t f p :
  wf_tree t -> R t f -> kind_of (get t p) = fkind f p.
Proof.
  intros Hwf HR. unfold fkind. rewrite (R_flookup t f p HR).
  pose proof (get_leaf_exact t p) as HL. pose proof (is_branch_exact t p Hwf) as HB.
  pose proof (fbranch_spec t f p HR) as HF. unfold is_branch_at in HB.
  destruct (get t p) as [[v|cs]|] eqn:G; cbn [kind_of].
  - now rewrite (proj1 (HL v) eq_refl).
  - destruct (lookup t p) as [v|] eqn:L; [pose proof (proj2 (HL v) eq_refl) as X; discriminate|].
    rewrite (proj2 HF (proj1 HB eq_refl)). reflexivity.
  - destruct (lookup t p) as [v|] eqn:L; [pose proof (proj2 (HL v) eq_refl) as X; discriminate|].
    destruct (fbranch f p) eqn:E; [|reflexivity].
    pose proof (proj2 HB (proj1 HF eq_refl)) as X. discriminate.
Qed.

Lemma dedup_In l x : In x (dedup l) <-> In x l.
Proof.
  induction l as [|y l IH]; cbn [dedup]; [tauto|].
  destruct (existsb (String.eqb y) l) eqn:E.
  - rewrite IH. split; [now right|]. intros [<-|H]; [|assumption].
    apply existsb_exists in E as (z & Hz & Ez). apply String.eqb_eq in Ez. now subst.
  - cbn [In]. now rewrite IH.
Qed.

Lemma dedup_NoDup l : NoDup (dedup l).
Proof.
  induction l as [|y l IH]; cbn [dedup]; [constructor|].
  destruct (existsb (String.eqb y) l) eqn:E; [assumption|]. constructor; [|assumption].
  rewrite dedup_In. intros Hin.
  assert (X : existsb (String.eqb y) l = true)
    by (apply existsb_exists; exists y; split; [assumption|apply String.eqb_refl]). congruence.
Qed.

Lemma skipn_app_len {A} (p s : list A) : skipn (List.length p) (p ++ s) = s.
Proof. induction p; cbn; auto. Qed.

Lemma fchildren_spec t f p k :
  R t f -> (In k (fchildren f p) <-> exists s v, lookup t (p ++ k :: s) = Some v).
Proof.
  intros [_ HR]. unfold fchildren. rewrite dedup_In, in_flat_map. split.
  - intros ([q v] & Hin & Hk). cbn [fst] in Hk.
    destruct (strict_prefix p q) eqn:E; [|destruct Hk].
    apply strict_prefix_spec in E as (k' & s & ->). rewrite skipn_app_len in Hk.
    destruct Hk as [<-|[]]. exists s, v. now apply HR.
  - intros (s & v & Hl). exists (p ++ k :: s, v). split; [now apply HR|]. cbn [fst].
    assert (E : strict_prefix p (p ++ k :: s) = true) by (apply strict_prefix_spec; eauto).
    rewrite E, skipn_app_len. now left.
Qed.

(** ** the refinement step *)

Theorem step_refines (t : tree Z) (f : flat) (o : op) :
  wf_tree t -> R t f ->
  wf_tree (fst (mstep t o)) /\ R (fst (mstep t o)) (fst (fstep f o)) /\
  obs_equiv o (snd (mstep t o)) (snd (fstep f o)).
Proof.
  intros Hwf HR. pose proof HR as [Hnd HRm].
  destruct o as [p v|p|p|p|q| | |q c|q c|p|p|q]; cbn [mstep fstep fst snd].
  - (* Add *)
    pose proof (fconflict_spec t f p HR) as HC. pose proof (add_ok_iff t p v Hwf) as HA.
    destruct (add t p v) as [t'|] eqn:E.
    + assert (Hcf : fconflict f p = false) by (apply HC, HA; congruence).
      rewrite Hcf. cbn [fst snd]. destruct (add_spec t t' p v Hwf E) as [Hwf' Hl].
      split; [assumption|]. split; [|constructor].
      split.
      * cbn [map fst]. constructor.
        -- unfold fremove. intros Hin. apply in_map_iff in Hin as ([q w] & Eq & Hin). cbn [fst] in Eq. subst q.
           apply filter_In in Hin as [_ Hne]. cbn [fst] in Hne. now rewrite path_eqb_refl in Hne.
        -- unfold fremove. now apply NoDup_map_filter.
      * intros q w. rewrite Hl. cbn [In]. unfold fremove. rewrite filter_In. cbn [fst].
        destruct (path_eqb_spec q p) as [->|Hn].
        -- split; [intros [H|[_ H]]; [congruence|discriminate]|intros H; left; congruence].
        -- rewrite <- HRm. split; [intros [H|[H _]]; [congruence|assumption]|intros H; right; auto].
    + assert (Hcf : fconflict f p = true).
      { destruct (fconflict f p) eqn:X; [reflexivity|]. pose proof (proj2 HA (proj1 HC eq_refl)). congruence. }
      rewrite Hcf. cbn [fst snd]. split; [assumption|]. split; [assumption|constructor].
  - (* Get *)
    split; [assumption|]. split; [assumption|]. rewrite (kind_get_spec t f p Hwf HR). constructor.
  - (* GetLeaf *)
    split; [assumption|]. split; [assumption|].
    rewrite (kind_get_spec t f p Hwf HR). unfold fkind.
    destruct (flookup f p); [constructor|]. destruct (fbranch f p); constructor.
  - (* GetLeafValue *)
    split; [assumption|]. split; [assumption|]. rewrite (R_flookup t f p HR). constructor.
  - (* Query *)
    split; [assumption|]. split; [assumption|]. constructor.
    apply perm_of_same; [now apply query_once|unfold fselect; now apply NoDup_map_filter|].
    intros [p v]. rewrite (query_exact t q p v Hwf). unfold fselect. rewrite filter_In. cbn [fst snd cnd_eval].
    rewrite andb_true_r, HRm. tauto.
  - (* Walk *)
    split; [assumption|]. split; [assumption|]. constructor.
    apply perm_of_same; [now apply walk_once|assumption|].
    intros [p v]. rewrite (walk_exact t p v Hwf), HRm. tauto.
  - (* WalkSorted *)
    split; [assumption|]. split; [assumption|]. constructor.
    destruct (walk_sorted_exact t Hwf) as [Hp _]. rewrite Hp.
    unfold sort_leaves. rewrite <- (isort_perm leaf_leb f).
    apply perm_of_same; [now apply walk_once|assumption|].
    intros [p v]. rewrite (walk_exact t p v Hwf), HRm. tauto.
  - (* Delete *)
    destruct (delete_spec t q (cnd_eval c) Hwf) as (Hw & Hl & Hr & Hn).
    split; [assumption|]. split.
    + split; [unfold fkeep; now apply NoDup_map_filter|].
      intros s v. unfold fkeep. rewrite filter_In. cbn [fst snd]. rewrite Hl, HRm. unfold sel.
      destruct (lookup t s) as [w|] eqn:L.
      * split.
        -- intros [E Hk]. inversion E; subst. apply negb_true_iff in Hk. now rewrite Hk.
        -- destruct (qmatch q s && cnd_eval c w) eqn:K; [discriminate|]. intros E; inversion E; subst.
           now rewrite K.
      * split; [intros [E _]; discriminate|discriminate].
    + constructor. apply Permutation_map.
      apply perm_of_same; [assumption|unfold fselect; now apply NoDup_map_filter|].
      intros [s v]. rewrite Hr. unfold fselect. rewrite filter_In. cbn [fst snd].
      rewrite andb_true_iff, HRm. tauto.
  - (* WalkDeleted *)
    destruct (delete_spec t q (cnd_eval c) Hwf) as (Hw & Hl & Hr & Hn).
    split; [assumption|]. split.
    + split; [unfold fkeep; now apply NoDup_map_filter|].
      intros s v. unfold fkeep. rewrite filter_In. cbn [fst snd]. rewrite Hl, HRm. unfold sel.
      destruct (lookup t s) as [w|] eqn:L.
      * split.
        -- intros [E Hk]. inversion E; subst. apply negb_true_iff in Hk. now rewrite Hk.
        -- destruct (qmatch q s && cnd_eval c w) eqn:K; [discriminate|]. intros E; inversion E; subst.
           now rewrite K.
      * split; [intros [E _]; discriminate|discriminate].
    + constructor. apply Permutation_map.
      apply perm_of_same; [assumption|unfold fselect; now apply NoDup_map_filter|].
      intros [s v]. rewrite Hr. unfold fselect. rewrite filter_In. cbn [fst snd].
      rewrite andb_true_iff, HRm. tauto.
  - (* Children *)
    split; [assumption|]. split; [assumption|].
    pose proof (fbranch_spec t f p HR) as HF. pose proof (is_branch_exact t p Hwf) as HB.
    unfold is_branch_at in HB. unfold children_at.
    destruct (get t p) as [[x|cs]|] eqn:G.
    + destruct (fbranch f p) eqn:E; [pose proof (proj2 HB (proj1 HF eq_refl)) as X; discriminate|constructor].
    + rewrite (proj2 HF (proj1 HB eq_refl)).
      assert (Hc : children_at t p = Some (keys cs)) by (unfold children_at; now rewrite G).
      destruct (children_exact t p _ Hwf Hc) as [Hnd' Hk].
      constructor. apply NoDup_Permutation; [assumption|apply dedup_NoDup|].
      intros k. rewrite Hk, (fchildren_spec t f p k HR). tauto.
    + destruct (fbranch f p) eqn:E; [pose proof (proj2 HB (proj1 HF eq_refl)) as X; discriminate|constructor].
  - (* IsBranch *)
    split; [assumption|]. split; [assumption|].
    pose proof (fbranch_spec t f p HR) as HF. pose proof (is_branch_exact t p Hwf) as HB.
    destruct (is_branch_at t p) eqn:E1, (fbranch f p) eqn:E2; try constructor.
    + pose proof (proj2 HF (proj1 HB eq_refl)). congruence.
    + pose proof (proj2 HB (proj1 HF eq_refl)). congruence.
  - (* Query with a failing visitor *)
    split; [assumption|]. split; [assumption|].
    assert (HP : Permutation (query t q) (fselect f q CAll)).
    { apply perm_of_same; [now apply query_once|unfold fselect; now apply NoDup_map_filter|].
      intros [p v]. rewrite (query_exact t q p v Hwf). unfold fselect. rewrite filter_In. cbn [fst snd cnd_eval].
      rewrite andb_true_r, HRm. tauto. }
    destruct (query t q) as [|x l] eqn:E1, (fselect f q CAll) as [|y l'] eqn:E2; try constructor.
    + apply Permutation_nil in HP. discriminate.
    + apply Permutation_sym, Permutation_nil in HP. discriminate.
Qed.

(** ** every operation sequence: the model's answers are the specification's *)

Fixpoint mrun (t : tree Z) (os : list op) : list obs :=
  match os with [] => [] | o :: os' => snd (mstep t o) :: mrun (fst (mstep t o)) os' end.

Fixpoint frun (f : flat) (os : list op) : list obs :=
  match os with [] => [] | o :: os' => snd (fstep f o) :: frun (fst (fstep f o)) os' end.

Lemma R_empty : R None [].
Proof. split; [constructor|]. intros p v; split; [intros []|discriminate]. Qed.

Theorem run_refines (os : list op) :
  Forall2 (fun o rr => obs_equiv o (fst rr) (snd rr)) os (combine (mrun None os) (frun [] os)).
Proof.
  assert (G : forall t f, wf_tree t -> R t f ->
              Forall2 (fun o rr => obs_equiv o (fst rr) (snd rr)) os (combine (mrun t os) (frun f os))).
  { induction os as [|o os IH]; intros t f Hwf HR; cbn [mrun frun combine]; [constructor|].
    destruct (step_refines t f o Hwf HR) as (Hwf' & HR' & He).
    constructor; [exact He|]. now apply IH. }
  apply G; [exact I|exact R_empty].
Qed.

(** Proofs about the concurrent model of ctree (CTreeConc.v): invariants of
    every reachable state, for every set of API calls and every schedule. *)
From Gnmi Require Import Base.Prelude CTree.CTreeModel CTree.CTreeConc.
From Coq Require Import Arith Lia.
Open Scope nat_scope.

(** * Generic definitions (kept here: Base/Lts.v is not depended upon) *)

(** states reachable from the initial state of a program (one API call per
    thread) under any schedule *)
Inductive reach (ops : list cop) : state -> Prop :=
| reach_init : reach ops (init_state ops)
| reach_step s i s' : reach ops s -> step s i = Some s' -> reach ops s'.

Lemma reach_run_sched ops sch : reach ops (run_sched (init_state ops) sch).
Proof.
  assert (G : forall s, reach ops s -> reach ops (run_sched s sch)).
  { induction sch as [|i sch IH]; intros s R; cbn; [exact R|].
    destruct (step s i) eqn:E; [apply IH; econstructor; eauto|apply IH; exact R]. }
  apply G. constructor.
Qed.

(** * Lists *)

Lemma nth_error_set_nth_eq {A} (l : list A) i x y :
  nth_error l i = Some y -> nth_error (set_nth l i x) i = Some x.
Proof.
  revert i; induction l as [|a l IH]; intros [|i]; cbn; try discriminate; auto.
Qed.

Lemma nth_error_set_nth_neq {A} (l : list A) i j x :
  i <> j -> nth_error (set_nth l i x) j = nth_error l j.
Proof.
  revert i j; induction l as [|a l IH]; intros [|i] [|j] H; cbn; auto; try lia.
Qed.

Lemma length_set_nth {A} (l : list A) i x : List.length (set_nth l i x) = List.length l.
Proof. revert i; induction l as [|a l IH]; intros [|i]; cbn; auto. Qed.

Lemma In_set_nth {A} (l : list A) i x y :
  In y (set_nth l i x) -> y = x \/ In y l.
Proof.
  revert i; induction l as [|a l IH]; intros [|i]; cbn; auto.
  - intros [H|H]; auto.
  - intros [H|H]; auto. destruct (IH _ H); auto.
Qed.

(** * Heap primitives *)

Lemma length_upd_node h n f : List.length (upd_node h n f) = List.length h.
Proof. revert n; induction h as [|x h IH]; intros [|n]; cbn; auto. Qed.

Lemma nth_upd_node_eq h n f x :
  nth_error h n = Some x -> nth_error (upd_node h n f) n = Some (f x).
Proof.
  revert n; induction h as [|a h IH]; intros [|n]; cbn; try discriminate.
  - intros E; inversion E; auto.
  - apply IH.
Qed.

Lemma nth_upd_node_neq h n m f : n <> m -> nth_error (upd_node h n f) m = nth_error h m.
Proof.
  revert n m; induction h as [|a h IH]; intros [|n] [|m] H; cbn; auto; try lia.
Qed.

Lemma nth_upd_node_none h n f m :
  nth_error h m = None -> nth_error (upd_node h n f) m = None.
Proof.
  intros H. apply nth_error_None. rewrite length_upd_node. apply nth_error_None. exact H.
Qed.

Lemma length_set_cont h n c : List.length (set_cont h n c) = List.length h.
Proof. apply length_upd_node. Qed.

Lemma get_cont_set_eq h n c : n < List.length h -> get_cont (set_cont h n c) n = c.
Proof.
  intros L. unfold get_cont, set_cont.
  destruct (nth_error h n) as [x|] eqn:E.
  - erewrite nth_upd_node_eq by eauto. reflexivity.
  - apply nth_error_None in E. lia.
Qed.

Lemma get_cont_set_neq h n m c : n <> m -> get_cont (set_cont h n c) m = get_cont h m.
Proof. intros H. unfold get_cont, set_cont. rewrite nth_upd_node_neq by auto. reflexivity. Qed.

Lemma get_cont_app_l h h2 n : n < List.length h -> get_cont (h ++ h2) n = get_cont h n.
Proof. intros L. unfold get_cont. rewrite nth_error_app1 by auto. reflexivity. Qed.

Lemma get_cont_oob h n : List.length h <= n -> get_cont h n = CNil.
Proof. intros L. unfold get_cont. apply nth_error_None in L. rewrite L. reflexivity. Qed.

(** the mutex part of a node *)
Definition mu_of (x : hnode) : nat * bool * nat := (rd x, wr x, pw x).

Definition same_mu (h h' : heap) : Prop :=
  forall n x, nth_error h n = Some x ->
              exists x', nth_error h' n = Some x' /\ mu_of x' = mu_of x.

Lemma same_mu_refl h : same_mu h h.
Proof. intros n x E. eauto. Qed.

Lemma same_mu_trans a b c : same_mu a b -> same_mu b c -> same_mu a c.
Proof.
  intros H1 H2 n x E. destruct (H1 _ _ E) as [y [Ey My]].
  destruct (H2 _ _ Ey) as [z [Ez Mz]]. exists z. split; auto. congruence.
Qed.

Lemma same_mu_set_cont h n c : same_mu h (set_cont h n c).
Proof.
  intros m x E. unfold set_cont. destruct (Nat.eq_dec n m) as [->|D].
  - erewrite nth_upd_node_eq by eauto. eexists; split; eauto.
  - rewrite nth_upd_node_neq by auto. eauto.
Qed.

Lemma same_mu_app h h2 : same_mu h (h ++ h2).
Proof.
  intros m x E. exists x. split; auto. rewrite nth_error_app1; auto.
  apply nth_error_Some. congruence.
Qed.

(** * Delete on the heap only shrinks child lists *)

(** [h'] has the same nodes and mutexes as [h]; every node's content is
    unchanged, or a branch whose children are a sub-list of the old ones, or
    (root only) cleared. *)
Definition shrinks (h h' : heap) : Prop :=
  List.length h' = List.length h /\ same_mu h h' /\
  forall n, get_cont h' n = get_cont h n \/
            get_cont h' n = CNil \/
            exists cs cs', get_cont h n = CBranch cs /\ get_cont h' n = CBranch cs' /\ incl cs' cs.

Lemma shrinks_refl h : shrinks h h.
Proof. split; [auto|split; [apply same_mu_refl|auto]]. Qed.

Lemma shrinks_trans a b c : shrinks a b -> shrinks b c -> shrinks a c.
Proof.
  intros [L1 [M1 C1]] [L2 [M2 C2]]. split; [congruence|]. split; [eapply same_mu_trans; eauto|].
  intros n. destruct (C2 n) as [E2|[E2|[cs [cs' [E2 [E2' I2]]]]]].
  - rewrite E2. apply C1.
  - auto.
  - destruct (C1 n) as [E1|[E1|[ds [ds' [E1 [E1' I1]]]]]].
    + right; right. exists cs, cs'. rewrite <- E1. auto.
    + rewrite E1 in E2. discriminate.
    + right; right. rewrite E1' in E2. inversion E2; subst.
      exists ds, cs'. repeat split; auto. eapply incl_tran; eauto.
Qed.

Lemma shrinks_then_set h h' n cs cs' :
  shrinks h h' -> get_cont h n = CBranch cs -> incl cs' cs ->
  shrinks h (set_cont h' n (CBranch cs')).
Proof.
  intros [L [M C]] E I.
  assert (Ln : n < List.length h).
  { destruct (Nat.lt_ge_cases n (List.length h)); auto. rewrite get_cont_oob in E by auto. discriminate. }
  split; [rewrite length_set_cont; auto|].
  split; [eapply same_mu_trans; [exact M|apply same_mu_set_cont]|].
  intros m. destruct (Nat.eq_dec n m) as [<-|D].
  - right; right. exists cs, cs'. rewrite get_cont_set_eq by lia. auto.
  - rewrite get_cont_set_neq by auto. apply C.
Qed.

Lemma shrinks_then_nil h h' n : shrinks h h' -> shrinks h (set_cont h' n CNil).
Proof.
  intros [L [M C]].
  split; [rewrite length_set_cont; auto|].
  split; [eapply same_mu_trans; [exact M|apply same_mu_set_cont]|].
  intros m. destruct (Nat.eq_dec n m) as [<-|D].
  - destruct (Nat.lt_ge_cases n (List.length h')) as [Ln|Ln].
    + right; left. apply get_cont_set_eq; auto.
    + rewrite get_cont_oob by (rewrite length_set_cont; auto).
      left. rewrite get_cont_oob; auto. lia.
  - rewrite get_cont_set_neq by auto. apply C.
Qed.

Lemma incl_adel {A} k (l : list (string * A)) : incl (adel k l) l.
Proof.
  induction l as [|kc l IH]; cbn; [apply incl_refl|].
  destruct (String.eqb k (fst kc)).
  - apply incl_tl, incl_refl.
  - intros x [H|H]; [left; auto|right; apply IH; auto].
Qed.

Lemma hdel_shrinks fuel : forall h n q, shrinks h (fst (fst (hdel fuel h n q))).
Proof.
  induction fuel as [|f IH]; intros h n q; cbn; [apply shrinks_refl|].
  destruct (heads_all q).
  - destruct (get_cont h n) as [|v|cs] eqn:E; cbn; try apply shrinks_refl.
    + destruct (strip_glob q); cbn; apply shrinks_refl.
    + set (F := fun (acc : heap * list (string * nat) * list path) (kc : string * nat) =>
                  let r := hdel f (fst (fst acc)) (snd kc) (strip_glob q) in
                  (fst (fst r),
                   if snd (fst r) then snd (fst acc) else snd (fst acc) ++ [kc],
                   snd acc ++ map (cons (fst kc)) (snd r))).
      assert (G : forall l acc,
                 shrinks h (fst (fst acc)) -> incl (snd (fst acc)) cs -> incl l cs ->
                 shrinks h (fst (fst (fold_left F l acc))) /\
                 incl (snd (fst (fold_left F l acc))) cs).
      { induction l as [|kc l IHl]; intros acc S I Il; cbn; [auto|].
        apply IHl.
        - unfold F; cbn. eapply shrinks_trans; [exact S|apply IH].
        - unfold F; cbn. destruct (snd (fst (hdel f (fst (fst acc)) (snd kc) (strip_glob q)))); auto.
          apply incl_app; auto. intros x [<-|[]]. apply Il. left; auto.
        - intros x Hx. apply Il. right; auto. }
      destruct (G cs (h, [], [])) as [S I]; cbn; auto using shrinks_refl, incl_refl.
      { intros x []. }
      eapply shrinks_then_set; eauto.
  - destruct q as [|k r]; cbn; [apply shrinks_refl|].
    destruct (get_cont h n) as [|v|cs] eqn:E; cbn; try apply shrinks_refl.
    destruct (assoc k cs) as [c|] eqn:A; cbn; [|apply shrinks_refl].
    eapply shrinks_then_set; [apply IH|exact E|].
    destruct (snd (fst (hdel f h c r))); [apply incl_adel|apply incl_refl].
Qed.

Lemma hdelete_shrinks h q : shrinks h (fst (hdelete h q)).
Proof.
  unfold hdelete.
  pose proof (hdel_shrinks (S (List.length h)) h 0 q) as Hs.
  destruct (hdel (S (List.length h)) h 0 q) as [[h' d] ls]. cbn [fst snd] in *.
  destruct d.
  - apply shrinks_then_nil. exact Hs.
  - exact Hs.
Qed.

(** * Invariants *)

(** every child id is larger than its parent's and names an existing node *)
Definition heap_ok (h : heap) : Prop :=
  0 < List.length h /\
  forall n cs, get_cont h n = CBranch cs ->
               Forall (fun kc : string * nat => n < snd kc /\ snd kc < List.length h) cs.

Definition ids_lt (hs : list (nat * lmode)) (n : nat) : Prop := Forall (fun x => fst x < n) hs.

(** the held locks, most recent first, have strictly decreasing node ids *)
Fixpoint sorted_desc (hs : list (nat * lmode)) : Prop :=
  match hs with
  | [] => True
  | x :: r => ids_lt r (fst x) /\ sorted_desc r
  end.

(** lock coupling: whoever holds anything holds the root *)
Definition rooted (hs : list (nat * lmode)) : Prop := hs = [] \/ exists m, In (0, m) hs.

(** about to lock node [n] *)
Definition waiting (hl : nat) (hs : list (nat * lmode)) (n : nat) : Prop :=
  n < hl /\ ids_lt hs n /\ (hs = [] -> n = 0) /\ rooted hs.

(** inside a critical section on node [n] *)
Definition inside (hs : list (nat * lmode)) (n : nat) (m : lmode) : Prop :=
  (exists r, hs = (n, m) :: r) /\ rooted hs.

Definition frames_ok (hl : nat) (hs : list (nat * lmode)) (fr : list (list qitem)) : Prop :=
  Forall2 (fun x (items : list qitem) =>
             Forall (fun it : qitem => fst x < fst (fst it) /\ fst (fst it) < hl) items) hs fr.

(** Delete's frames pair with the locks it holds: frame i is for the node
    whose WRITE lock is the i-th held lock; children still to process have
    larger ids than their parent *)
Definition dframes_ok (hl : nat) (hs : list (nat * lmode)) (fr : list dframe) : Prop :=
  Forall2 (fun x f => x = (dn f, MW) /\
                      Forall (fun kc : string * nat => dn f < snd kc /\ snd kc < hl) (dtodo f))
          hs fr.

Definition pc_ok (hl : nat) (hs : list (nat * lmode)) (p : pc) : Prop :=
  match p with
  | PStart _ | PDone _ => hs = []
  | PAddEnter t0 _ _ | PAddTAcq t0 _ | PAddUpg t0 _ _ _ | PAddUAcq t0 _ _ _
  | PGetEnter t0 _ => waiting hl hs t0
  | PAddTCrit t0 _ | PAddSlow t0 _ _ _ => inside hs t0 MW
  | PAddIRead t0 _ _ _ | PAddIRel t0 _ _ _ | PGetRead t0 _ => inside hs t0 MR
  | PUnwind k => rooted hs /\ match k with UVal n => n < hl | UDone _ => True end
  | PHVal n | PHUpd n _ | PHUpdAcq n _ => hs = [] /\ n < hl
  | PHValRead n => hs = [(n, MR)]
  | PHUpdWrite n _ => hs = [(n, MW)]
  | PHRel _ => exists n m, hs = [(n, m)]
  | PDel _ | PDelAcq _ => hs = []
  | PDelCrit _ => hs = [(0, MW)]
  | PQEnter t0 _ _ _ fr => waiting hl hs t0 /\ frames_ok hl hs fr
  | PQRead t0 _ _ _ fr => inside hs t0 MR /\ frames_ok hl (tl hs) fr
  | PQVisit _ _ _ fr | PQNext _ fr => rooted hs /\ frames_ok hl hs fr
  | PLDel _ | PLDelAcq _ => hs = []
  | PLVisit n _ fr => inside hs n MW /\ dframes_ok hl (tl hs) fr
  | PLNext fr | PLBack _ _ fr => rooted hs /\ hs <> [] /\ dframes_ok hl hs fr
  | PLEnter c _ fr | PLCAcq c _ fr => waiting hl hs c /\ hs <> [] /\ dframes_ok hl hs fr
  | PLRet _ _ fr => rooted hs /\ exists n r, hs = (n, MW) :: r /\ dframes_ok hl r fr
  end.

Definition thread_ok (hl : nat) (t : thread) : Prop :=
  sorted_desc (held t) /\ ids_lt (held t) hl /\ pc_ok hl (held t) (tpc t).

Lemma ids_lt_mono hs n m : ids_lt hs n -> n <= m -> ids_lt hs m.
Proof. unfold ids_lt. intros H L. eapply Forall_impl; [|exact H]. cbn. intros; lia. Qed.

Lemma rooted_tail x hs : sorted_desc (x :: hs) -> rooted (x :: hs) -> rooted hs.
Proof.
  intros [L _] [E|[m [E|I]]]; [discriminate| |right; eauto].
  destruct hs as [|y r]; [left; auto|].
  exfalso. subst x. inversion L; subst. cbn in *. lia.
Qed.

Lemma rooted_push hl hs n m : waiting hl hs n -> rooted ((n, m) :: hs).
Proof.
  intros [_ [_ [Z [E|[m' I]]]]]; right.
  - rewrite (Z E). exists m. left; auto.
  - exists m'. right; auto.
Qed.

Lemma rooted_single n m : rooted [(n, m)] -> n = 0.
Proof. intros [E|[m' [E|[]]]]; [discriminate|]. inversion E; auto. Qed.

Lemma frames_ok_mono hl hl' hs fr : hl <= hl' -> frames_ok hl hs fr -> frames_ok hl' hs fr.
Proof.
  intros L H. induction H; constructor; auto.
  eapply Forall_impl; [|eassumption]. cbn. intros; lia.
Qed.

Lemma dframes_ok_mono hl hl' hs fr : hl <= hl' -> dframes_ok hl hs fr -> dframes_ok hl' hs fr.
Proof.
  intros L H. induction H as [|x f hs fr [E F] _ IH]; constructor; auto.
  split; auto. eapply Forall_impl; [|exact F]. cbn. intros; lia.
Qed.

Lemma waiting_mono hl hl' hs n : hl <= hl' -> waiting hl hs n -> waiting hl' hs n.
Proof. intros L [A B]. split; [lia|auto]. Qed.

Lemma pc_ok_mono hl hl' hs p : hl <= hl' -> pc_ok hl hs p -> pc_ok hl' hs p.
Proof.
  intros L. destruct p; cbn; auto; intros H;
    repeat match goal with
           | H : _ /\ _ |- _ => destruct H
           | |- _ /\ _ => split
           | k : ucont |- _ => destruct k
           | H : exists _, _ |- _ => destruct H
           end; eauto 7 using waiting_mono, frames_ok_mono, dframes_ok_mono; try lia.
Qed.

Lemma thread_ok_mono hl hl' t : hl <= hl' -> thread_ok hl t -> thread_ok hl' t.
Proof.
  intros L [S [I P]]. split; [auto|]. split; [eapply ids_lt_mono; eauto|eapply pc_ok_mono; eauto].
Qed.

(** ** heap_ok is preserved by every heap update the model makes *)

Lemma get_cont_upd_mu h n f m :
  (forall x, cont (f x) = cont x) -> get_cont (upd_node h n f) m = get_cont h m.
Proof.
  intros Hf. unfold get_cont. destruct (Nat.eq_dec n m) as [->|D].
  - destruct (nth_error h m) as [x|] eqn:E.
    + erewrite nth_upd_node_eq by eauto. apply Hf.
    + rewrite nth_upd_node_none; auto.
  - rewrite nth_upd_node_neq; auto.
Qed.

Lemma heap_ok_upd_mu h n f :
  (forall x, cont (f x) = cont x) -> heap_ok h -> heap_ok (upd_node h n f).
Proof.
  intros Hf [L H]. split; [rewrite length_upd_node; auto|].
  intros m cs E. rewrite get_cont_upd_mu in E by auto. rewrite length_upd_node. eauto.
Qed.

Lemma heap_ok_rlock h n : heap_ok h -> heap_ok (do_rlock h n).
Proof. apply heap_ok_upd_mu. auto. Qed.
Lemma heap_ok_req h n : heap_ok h -> heap_ok (do_req h n).
Proof. apply heap_ok_upd_mu. auto. Qed.
Lemma heap_ok_acq h n : heap_ok h -> heap_ok (do_acq h n).
Proof. apply heap_ok_upd_mu. auto. Qed.
Lemma heap_ok_rel h n m : heap_ok h -> heap_ok (do_rel h n m).
Proof. destruct m; apply heap_ok_upd_mu; auto. Qed.

Lemma length_do_rlock h n : List.length (do_rlock h n) = List.length h.
Proof. apply length_upd_node. Qed.
Lemma length_do_req h n : List.length (do_req h n) = List.length h.
Proof. apply length_upd_node. Qed.
Lemma length_do_acq h n : List.length (do_acq h n) = List.length h.
Proof. apply length_upd_node. Qed.
Lemma length_do_rel h n m : List.length (do_rel h n m) = List.length h.
Proof. destruct m; apply length_upd_node. Qed.

Lemma heap_ok_shrinks h h' : heap_ok h -> shrinks h h' -> heap_ok h'.
Proof.
  intros [L H] [Ln [_ C]]. split; [lia|]. intros n cs E. rewrite Ln.
  destruct (C n) as [E1|[E1|[ds [ds' [E1 [E1' I]]]]]].
  - rewrite E1 in E. eauto.
  - rewrite E1 in E; discriminate.
  - rewrite E1' in E. inversion E; subst ds'. specialize (H _ _ E1).
    rewrite Forall_forall in *. intros x Hx. apply H. apply I. exact Hx.
Qed.

Lemma heap_ok_set_leaf h n v : heap_ok h -> heap_ok (set_cont h n (CLeaf v)).
Proof.
  intros [L H]. split; [rewrite length_set_cont; auto|].
  intros m cs E. rewrite length_set_cont. destruct (Nat.eq_dec n m) as [->|D].
  - destruct (Nat.lt_ge_cases m (List.length h)).
    + rewrite get_cont_set_eq in E by auto. discriminate.
    + rewrite get_cont_oob in E by (rewrite length_set_cont; auto). discriminate.
  - rewrite get_cont_set_neq in E by auto. eauto.
Qed.

Lemma length_new_chain base r v : List.length (new_chain base r v) = S (List.length r).
Proof. revert base; induction r as [|k r IH]; intros base; cbn; auto. Qed.

Lemma new_chain_branch r : forall base v i cs,
  get_cont (new_chain base r v) i = CBranch cs ->
  exists k, cs = [(k, S (base + i))] /\ S i < List.length (new_chain base r v).
Proof.
  induction r as [|k r IH]; intros base v i cs E.
  - destruct i as [|[|i]]; cbn in E; discriminate.
  - destruct i as [|i].
    + cbn in E. inversion E; subst. exists k. split; [f_equal; f_equal; lia|].
      cbn. rewrite length_new_chain. lia.
    + change (get_cont (new_chain (S base) r v) i = CBranch cs) in E.
      destruct (IH _ _ _ _ E) as [k' [-> L]]. exists k'. split; [f_equal; f_equal; lia|].
      cbn. lia.
Qed.

Lemma heap_ok_alloc h t0 cs0 k r v :
  heap_ok h -> t0 < List.length h ->
  Forall (fun kc : string * nat => t0 < snd kc /\ snd kc < List.length h) cs0 ->
  heap_ok (set_cont h t0 (CBranch (cs0 ++ [(k, List.length h)])) ++ new_chain (List.length h) r v).
Proof.
  intros [L H] Lt F.
  assert (LL : List.length (set_cont h t0 (CBranch (cs0 ++ [(k, List.length h)]))
                            ++ new_chain (List.length h) r v)
               = List.length h + S (List.length r)).
  { rewrite app_length, length_set_cont, length_new_chain. auto. }
  split; [lia|]. intros n cs E. rewrite LL.
  destruct (Nat.lt_ge_cases n (List.length h)) as [Ln|Ln].
  - rewrite get_cont_app_l in E by (rewrite length_set_cont; auto).
    destruct (Nat.eq_dec t0 n) as [->|D].
    + rewrite get_cont_set_eq in E by auto. inversion E; subst cs.
      apply Forall_app. split.
      * eapply Forall_impl; [|exact F]. cbn. intros; lia.
      * constructor; [cbn; lia|constructor].
    + rewrite get_cont_set_neq in E by auto. specialize (H _ _ E).
      eapply Forall_impl; [|exact H]. cbn. intros; lia.
  - unfold get_cont in E. rewrite nth_error_app2 in E by (rewrite length_set_cont; auto).
    rewrite length_set_cont in E.
    change (get_cont (new_chain (List.length h) r v) (n - List.length h) = CBranch cs) in E.
    destruct (new_chain_branch _ _ _ _ _ E) as [k' [-> L']]. rewrite length_new_chain in L'.
    constructor; [cbn; lia|constructor].
Qed.

(** ** one step of a thread preserves the invariants *)

Ltac inv H := inversion H; subst; clear H.

Lemma mk_thread_ok hl o p hs :
  sorted_desc hs -> ids_lt hs hl -> pc_ok hl hs p -> thread_ok hl (TH o p hs).
Proof. intros; split; [|split]; auto. Qed.

Lemma sorted_push hl hs n m : sorted_desc hs -> waiting hl hs n -> sorted_desc ((n, m) :: hs).
Proof. intros S [_ [I _]]. cbn. auto. Qed.

Lemma ids_push hl hs n (m : lmode) : ids_lt hs hl -> n < hl -> ids_lt ((n, m) :: hs) hl.
Proof. intros. constructor; auto. Qed.

Lemma inside_push hl hs n m : waiting hl hs n -> inside ((n, m) :: hs) n m.
Proof. intros W. split; [eexists; eauto|eapply rooted_push; eauto]. Qed.

Lemma waiting_lt hl hs n : waiting hl hs n -> n < hl.
Proof. intros [A _]; auto. Qed.

(** a child read under the lock of the top-most held node can be locked next *)
Lemma waiting_child h hs t0 m cs k c :
  heap_ok h -> sorted_desc hs -> inside hs t0 m ->
  get_cont h t0 = CBranch cs -> assoc k cs = Some c ->
  waiting (List.length h) hs c.
Proof.
  intros [_ HO] S [[r ->] R] E A. specialize (HO _ _ E). rewrite Forall_forall in HO.
  destruct (HO _ (assoc_In _ _ _ A)) as [L1 L2]. cbn in *.
  split; [auto|]. split.
  - constructor; [cbn; lia|]. destruct S as [I _]. eapply ids_lt_mono; [exact I|lia].
  - split; [discriminate|exact R].
Qed.

Lemma waiting_pop hl t0 m r :
  sorted_desc ((t0, m) :: r) -> ids_lt ((t0, m) :: r) hl -> rooted ((t0, m) :: r) ->
  waiting hl r t0.
Proof.
  intros S I R. split; [inv I; auto|]. split; [destruct S; auto|]. split.
  - intros ->. eapply rooted_single; eauto.
  - eapply rooted_tail; eauto.
Qed.

Lemma frames_items_ok h hs t0 r0 c pre q :
  heap_ok h -> hs = (t0, MR) :: r0 ->
  Forall (fun it : qitem => t0 < fst (fst it) /\ fst (fst it) < List.length h)
         (query_items c pre q) \/ True.
Proof. auto. Qed.

Lemma query_items_ok h t0 pre q :
  heap_ok h ->
  Forall (fun it : qitem => t0 < fst (fst it) /\ fst (fst it) < List.length h)
         (query_items (get_cont h t0) pre q).
Proof.
  intros [_ HO]. unfold query_items.
  destruct (get_cont h t0) as [|v|cs] eqn:E.
  - destruct q as [|k r]; [constructor|]. destruct (is_glob k); constructor.
  - destruct q as [|k r]; [constructor|]. destruct (is_glob k); constructor.
  - specialize (HO _ _ E).
    assert (G : forall r', Forall (fun it : qitem => t0 < fst (fst it) /\ fst (fst it) < List.length h)
                            (map (fun kc : string * nat => (snd kc, pre ++ [fst kc], r')) cs)).
    { intros r'. apply Forall_map. eapply Forall_impl; [|exact HO]. cbn. auto. }
    destruct q as [|k r]; [apply G|]. destruct (is_glob k); [apply G|].
    destruct (assoc k cs) as [c|] eqn:A; [|constructor].
    rewrite Forall_forall in HO. specialize (HO _ (assoc_In _ _ _ A)). cbn in HO.
    constructor; [cbn; auto|constructor].
Qed.

Local Arguments do_rel : simpl never.
Local Arguments do_rlock : simpl never.
Local Arguments do_req : simpl never.
Local Arguments do_acq : simpl never.
Local Arguments set_cont : simpl never.
Local Arguments hdelete : simpl never.
Local Arguments new_chain : simpl never.

Lemma waiting_root hl : 0 < hl -> waiting hl [] 0.
Proof. intros L. split; [auto|]. split; [constructor|]. split; [auto|left; auto]. Qed.

Lemma tstep_ok b h t h' t' :
  heap_ok h -> thread_ok (List.length h) t -> tstep_gen b h t = Some (h', t') ->
  heap_ok h' /\ List.length h <= List.length h' /\ thread_ok (List.length h') t'.
Proof.
  intros HO [SO [IL PO]] ST. destruct t as [o p hs]. unfold tstep_gen in ST. cbn [tpc held top] in *.
  destruct p; cbn -[hdelete hdel do_rel do_rlock do_req do_acq set_cont new_chain can_rlock can_lock] in ST;
    try discriminate.
  - (* PStart *) inv ST. cbn in PO. subst hs. split; [auto|]. split; [auto|].
    destruct HO as [L0 _].
    apply mk_thread_ok; [exact I|constructor|].
    destruct o0; cbn [start_pc].
    + apply waiting_root; auto.
    + apply waiting_root; auto.
    + split; [apply waiting_root; auto|constructor].
    + reflexivity.
    + reflexivity.
    + destruct (Nat.ltb_spec n (List.length h')); cbn; auto.
    + destruct (Nat.ltb_spec n (List.length h')); cbn; auto.
  - (* PAddEnter *) cbn in PO. destruct p as [|k r]; cbn in ST.
    + inv ST. rewrite length_do_req. split; [apply heap_ok_req; auto|]. split; [auto|].
      apply mk_thread_ok; auto.
    + destruct (can_rlock b h t); [|discriminate]. inv ST. rewrite length_do_rlock.
      split; [apply heap_ok_rlock; auto|]. split; [auto|].
      apply mk_thread_ok; [eapply sorted_push; eauto|eapply ids_push; eauto using waiting_lt|].
      cbn. eapply inside_push; eauto.
  - (* PAddTAcq *) cbn in PO. destruct (can_lock h t); [|discriminate]. inv ST. rewrite length_do_acq.
    split; [apply heap_ok_acq; auto|]. split; [auto|].
    apply mk_thread_ok; [eapply sorted_push; eauto|eapply ids_push; eauto using waiting_lt|].
    cbn. eapply inside_push; eauto.
  - (* PAddTCrit *) cbn in PO. inv ST. destruct PO as [[r ->] R].
    destruct (get_cont h t); cbn.
    + rewrite length_set_cont. split; [apply heap_ok_set_leaf; auto|]. split; [auto|].
      apply mk_thread_ok; cbn; auto.
    + rewrite length_set_cont. split; [apply heap_ok_set_leaf; auto|]. split; [auto|].
      apply mk_thread_ok; cbn; auto.
    + split; [auto|]. split; [auto|]. apply mk_thread_ok; cbn; auto.
  - (* PAddIRead *) cbn in PO. inv ST.
    destruct (get_cont h t) as [|v0|cs] eqn:E; cbn.
    + split; [auto|]. split; [auto|]. apply mk_thread_ok; cbn; auto.
    + split; [auto|]. split; [auto|]. apply mk_thread_ok; cbn; auto. split; [apply PO|auto].
    + destruct (assoc k cs) as [c|] eqn:A; cbn.
      * split; [auto|]. split; [auto|]. apply mk_thread_ok; cbn; auto. eapply waiting_child; eauto.
      * split; [auto|]. split; [auto|]. apply mk_thread_ok; cbn; auto.
  - (* PAddIRel *) cbn in PO. destruct PO as [[r0 ->] R]. inv ST. rewrite length_do_rel.
    split; [apply heap_ok_rel; auto|]. split; [auto|].
    apply mk_thread_ok; [destruct SO; auto|inv IL; auto|].
    cbn. eapply waiting_pop; eauto.
  - (* PAddUpg *) cbn in PO. inv ST. rewrite length_do_req. split; [apply heap_ok_req; auto|].
    split; [auto|]. apply mk_thread_ok; cbn; auto.
  - (* PAddUAcq *) cbn in PO. destruct (can_lock h t); [|discriminate]. inv ST. rewrite length_do_acq.
    split; [apply heap_ok_acq; auto|]. split; [auto|].
    apply mk_thread_ok; [eapply sorted_push; eauto|eapply ids_push; eauto using waiting_lt|].
    cbn. eapply inside_push; eauto.
  - (* PAddSlow *) cbn in PO. inv ST.
    assert (Lt : t < List.length h).
    { destruct PO as [[r0 ->] _]. inv IL. auto. }
    destruct (get_cont h t) as [|v0|cs] eqn:E; cbn.
    + pose proof (heap_ok_alloc h t [] k r v HO Lt (Forall_nil _)) as HA. cbn [app] in HA.
      split; [exact HA|].
      rewrite app_length, length_set_cont, length_new_chain.
      split; [lia|]. apply mk_thread_ok; [auto|eapply ids_lt_mono; eauto; lia|].
      cbn. destruct PO as [[r0 ->] R]. split; [lia|]. split; [eapply ids_lt_mono; eauto; lia|].
      split; [discriminate|exact R].
    + split; [auto|]. split; [auto|]. apply mk_thread_ok; cbn; auto. split; [apply PO|auto].
    + destruct (assoc k cs) as [c|] eqn:A; cbn.
      * split; [auto|]. split; [auto|]. apply mk_thread_ok; cbn; auto. eapply waiting_child; eauto.
      * destruct HO as [L0 HO']. pose proof (HO' _ _ E) as F.
        pose proof (heap_ok_alloc h t cs k r v (conj L0 HO') Lt F) as HA.
        split; [exact HA|].
        rewrite app_length, length_set_cont, length_new_chain.
        split; [lia|]. apply mk_thread_ok; [auto|eapply ids_lt_mono; eauto; lia|].
        cbn. destruct PO as [[r0 ->] R]. split; [lia|]. split; [eapply ids_lt_mono; eauto; lia|].
        split; [discriminate|exact R].
  - (* PGetEnter *) cbn in PO. destruct (can_rlock b h t); [|discriminate]. inv ST. rewrite length_do_rlock.
    split; [apply heap_ok_rlock; auto|]. split; [auto|].
    apply mk_thread_ok; [eapply sorted_push; eauto|eapply ids_push; eauto using waiting_lt|].
    cbn. eapply inside_push; eauto.
  - (* PGetRead *) cbn in PO. inv ST. destruct p as [|k r]; cbn.
    + split; [auto|]. split; [auto|]. apply mk_thread_ok; cbn; auto. split; [apply PO|].
      destruct PO as [[r0 ->] _]. inv IL. auto.
    + destruct (get_cont h t) as [|v0|cs] eqn:E; cbn.
      * split; [auto|]. split; [auto|]. apply mk_thread_ok; cbn; auto. split; [apply PO|auto].
      * split; [auto|]. split; [auto|]. apply mk_thread_ok; cbn; auto. split; [apply PO|auto].
      * destruct (assoc k cs) as [c|] eqn:A; cbn.
        -- split; [auto|]. split; [auto|]. apply mk_thread_ok; cbn; auto. eapply waiting_child; eauto.
        -- split; [auto|]. split; [auto|]. apply mk_thread_ok; cbn; auto. split; [apply PO|auto].
  - (* PUnwind *) cbn in PO. destruct PO as [R K]. destruct hs as [|[n m] r].
    + destruct k; cbn in ST; inv ST; (split; [auto|]; split; [auto|]; apply mk_thread_ok; cbn; auto).
    + inv ST. rewrite length_do_rel. split; [apply heap_ok_rel; auto|]. split; [auto|].
      apply mk_thread_ok; [destruct SO; auto|inv IL; auto|]. cbn. split; [eapply rooted_tail; eauto|auto].
  - (* PHVal *) cbn in PO. destruct PO as [-> L]. destruct (can_rlock b h n); [|discriminate]. inv ST.
    rewrite length_do_rlock. split; [apply heap_ok_rlock; auto|]. split; [auto|].
    apply mk_thread_ok; [cbn; split; [constructor|auto]|constructor; [auto|constructor]|]. cbn. auto.
  - (* PHValRead *) cbn in PO. subst hs. inv ST. split; [auto|]. split; [auto|].
    apply mk_thread_ok; cbn; eauto.
  - (* PHUpd *) cbn in PO. inv ST. rewrite length_do_req. split; [apply heap_ok_req; auto|].
    split; [auto|]. apply mk_thread_ok; cbn; auto.
  - (* PHUpdAcq *) cbn in PO. destruct PO as [-> L]. destruct (can_lock h n); [|discriminate]. inv ST.
    rewrite length_do_acq. split; [apply heap_ok_acq; auto|]. split; [auto|].
    apply mk_thread_ok; [cbn; split; [constructor|auto]|constructor; [auto|constructor]|]. cbn. auto.
  - (* PHUpdWrite *) cbn in PO. subst hs. inv ST. rewrite length_set_cont.
    split; [apply heap_ok_set_leaf; auto|]. split; [auto|]. apply mk_thread_ok; cbn; eauto.
  - (* PHRel *) cbn in PO. destruct PO as [n [m ->]]. inv ST. rewrite length_do_rel.
    split; [apply heap_ok_rel; auto|]. split; [auto|]. apply mk_thread_ok; cbn; auto. constructor.
  - (* PDel *) cbn in PO. inv ST. rewrite length_do_req. split; [apply heap_ok_req; auto|].
    split; [auto|]. apply mk_thread_ok; cbn; auto.
  - (* PDelAcq *) cbn in PO. subst hs. destruct (can_lock h 0); [|discriminate]. inv ST.
    rewrite length_do_acq. split; [apply heap_ok_acq; auto|]. split; [auto|].
    destruct HO as [L0 _].
    apply mk_thread_ok; [cbn; split; [constructor|auto]|constructor; [auto|constructor]|]. cbn. auto.
  - (* PDelCrit *) cbn in PO. subst hs. pose proof (hdelete_shrinks h q) as Sh.
    remember (hdelete h q) as hd. clear Heqhd. injection ST as <- <-.
    destruct Sh as [Ln Sh'].
    split; [eapply heap_ok_shrinks; [exact HO|split; [exact Ln|exact Sh']]|].
    rewrite Ln. split; [auto|].
    apply mk_thread_ok; auto. split; [right; exists MW; left; auto|exact I].
  - (* PQEnter *) cbn in PO. destruct PO as [W F]. destruct (can_rlock b h t); [|discriminate]. inv ST.
    rewrite length_do_rlock. split; [apply heap_ok_rlock; auto|]. split; [auto|].
    apply mk_thread_ok; [eapply sorted_push; eauto|eapply ids_push; eauto using waiting_lt|].
    cbn. split; [eapply inside_push; eauto|auto].
  - (* PQRead *) cbn in PO. destruct PO as [[[r0 ->] R] F]. cbn in F.
    destruct (query_visits (get_cont h t) q) eqn:QV; inv ST;
      (split; [auto|]; split; [auto|]; apply mk_thread_ok; auto).
    + split; [auto|]. constructor; [constructor|auto].
    + split; [auto|]. constructor; [|auto]. apply query_items_ok; auto.
  - (* PQVisit *) cbn in PO. inv ST. split; [auto|]. split; [auto|]. apply mk_thread_ok; auto.
    destruct o as [| |q0 [k|]| | | |]; cbn; auto.
    destruct (Nat.eqb (List.length acc) k); cbn; auto. split; [apply PO|auto].
  - (* PQNext *) cbn in PO. destruct PO as [R F]. destruct fr as [|[|[[c pre] q] todo] fr].
    + inv ST. inv F. split; [auto|]. split; [auto|]. apply mk_thread_ok; cbn; auto.
    + inv F. destruct x as [n m]. inv ST. rewrite length_do_rel.
      split; [apply heap_ok_rel; auto|]. split; [auto|].
      apply mk_thread_ok; [destruct SO; auto|inv IL; auto|]. cbn. split; [eapply rooted_tail; eauto|auto].
    + inv ST. inv F. inv H2. cbn in H1. destruct H1 as [L1 L2]. split; [auto|]. split; [auto|].
      apply mk_thread_ok; auto. split.
      * split; [auto|]. split.
        -- constructor; [auto|]. destruct SO as [I _]. eapply ids_lt_mono; [exact I|lia].
        -- split; [discriminate|auto].
      * constructor; auto.
  - (* PLDel *) cbn in PO. inv ST. rewrite length_do_req. split; [apply heap_ok_req; auto|].
    split; [auto|]. apply mk_thread_ok; cbn; auto.
  - (* PLDelAcq *) cbn in PO. subst hs. destruct (can_lock h 0); [|discriminate]. inv ST.
    rewrite length_do_acq. split; [apply heap_ok_acq; auto|]. split; [auto|].
    destruct HO as [L0 _].
    apply mk_thread_ok; [cbn; split; [constructor|auto]|constructor; [auto|constructor]|].
    cbn. split; [split; [eexists; reflexivity|right; exists MW; left; reflexivity]|constructor].
  - (* PLVisit *) cbn in PO. destruct PO as [IN F]. assert (IN' := IN). destruct IN' as [[r0 Hr] R].
    subst hs. cbn in F.
    assert (Lt : n < List.length h) by (inv IL; auto).
    assert (NX : forall q' cs, get_cont h n = CBranch cs ->
                 thread_ok (List.length h) (TH o (PLNext (DF n q' "" cs [] :: fr)) ((n, MW) :: r0))).
    { intros q' cs E. apply mk_thread_ok; auto. cbn. split; [auto|]. split; [discriminate|].
      constructor; [|auto]. split; [reflexivity|]. cbn. destruct HO as [_ HO']. eauto. }
    assert (RT : forall d ls, thread_ok (List.length h) (TH o (PLRet d ls fr) ((n, MW) :: r0))).
    { intros d ls. apply mk_thread_ok; auto. cbn. split; [auto|]. eauto. }
    destruct (heads_all q).
    + destruct (get_cont h n) as [| |cs] eqn:E; inv ST.
      * split; [auto|]. split; [auto|]. apply RT.
      * destruct (strip_glob q); (split; [auto|]; split; [auto|]; apply RT).
      * split; [auto|]. split; [auto|]. apply NX. reflexivity.
    + destruct q as [|k r]; [inv ST; split; [auto|]; split; [auto|]; apply RT|].
      destruct (get_cont h n) as [| |cs] eqn:E; try (inv ST; split; [auto|]; split; [auto|]; apply RT).
      destruct (assoc k cs) as [c|] eqn:A; inv ST; (split; [auto|]; split; [auto|]); [|apply RT].
      apply mk_thread_ok; auto. cbn. split; [auto|]. split; [discriminate|].
      constructor; [|auto]. split; [reflexivity|]. cbn. constructor; [|constructor].
      destruct HO as [_ HO']. specialize (HO' _ _ E). rewrite Forall_forall in HO'.
      apply (HO' _ (assoc_In _ _ _ A)).
  - (* PLNext *) cbn in PO. destruct PO as [R [NE F]]. destruct fr as [|f fr]; [inv F; contradiction|].
    assert (F0 := F). inversion F0 as [|x f0 l fr0 [Ex Ft] Frest]; subst. clear F0.
    destruct (dtodo f) as [|[k c] rest] eqn:Dt; inv ST; (split; [auto|]; split; [auto|]).
    + apply mk_thread_ok; auto. cbn. split; [auto|]. eauto.
    + inversion Ft as [|kc0 rest0 [L1 L2] Ft']; subst. cbn in L1, L2.
      apply mk_thread_ok; auto. cbn. split; [|split; [discriminate|]].
      * split; [auto|]. split; [|split; [discriminate|auto]].
        constructor; [cbn; auto|]. destruct SO as [I _]. eapply ids_lt_mono; [exact I|cbn; lia].
      * constructor; [|auto]. split; [reflexivity|]. cbn. auto.
  - (* PLEnter *) cbn in PO. destruct PO as [W [NE F]]. inv ST. rewrite length_do_req.
    split; [apply heap_ok_req; auto|]. split; [auto|]. apply mk_thread_ok; cbn; auto.
  - (* PLCAcq *) cbn in PO. destruct PO as [W [NE F]]. destruct (can_lock h c); [|discriminate]. inv ST.
    rewrite length_do_acq. split; [apply heap_ok_acq; auto|]. split; [auto|].
    apply mk_thread_ok; [eapply sorted_push; eauto|eapply ids_push; eauto using waiting_lt|].
    cbn. split; [eapply inside_push; eauto|auto].
  - (* PLRet *) cbn in PO. destruct PO as [R [n [r0 [Hh F]]]]. subst hs. destruct fr as [|f fr].
    + (* root done *) inv F. pose proof (rooted_single _ _ R) as Z. subst n. inv ST.
      destruct del.
      * rewrite length_set_cont. split; [|split; [auto|]].
        -- eapply heap_ok_shrinks; [exact HO|]. apply shrinks_then_nil. apply shrinks_refl.
        -- apply mk_thread_ok; cbn; auto.
      * split; [auto|]. split; [auto|]. apply mk_thread_ok; cbn; auto.
    + inv ST. rewrite length_do_rel. split; [apply heap_ok_rel; auto|]. split; [auto|].
      apply mk_thread_ok; [destruct SO; auto|inv IL; auto|]. cbn.
      split; [eapply rooted_tail; eauto|]. split; [inv F; discriminate|auto].
  - (* PLBack *) cbn in PO. destruct PO as [R [NE F]]. destruct fr as [|f fr]; [inv F; contradiction|].
    assert (F0 := F). inversion F0 as [|x f0 l fr0 [Ex Ft] Frest]; subst. clear F0.
    assert (TK : forall acc', thread_ok (List.length h)
                   (TH o (PLNext (DF (dn f) (dq f) (dcur f) (dtodo f) acc' :: fr)) ((dn f, MW) :: l))).
    { intros acc'. apply mk_thread_ok; auto. cbn. split; [auto|]. split; [discriminate|].
      constructor; [|auto]. split; [reflexivity|auto]. }
    destruct del.
    + destruct (get_cont h (dn f)) as [| |cs] eqn:E; inv ST; try (split; [auto|]; split; [auto|]; apply TK).
      rewrite length_set_cont. split; [|split; [auto|apply TK]].
      eapply heap_ok_shrinks; [exact HO|]. eapply shrinks_then_set; [apply shrinks_refl|exact E|apply incl_adel].
    + inv ST. split; [auto|]. split; [auto|]. apply TK.
Qed.

(** ** what one step does to the mutexes and to the stepping thread *)

Definition fresh_mu (h h' : heap) : Prop :=
  forall n x, nth_error h' n = Some x -> List.length h <= n -> mu_of x = (0, false, 0).

Definition not_acq (t : thread) : Prop := forall n, lockop_of t <> LAcq n.

Local Arguments new_chain base !r v.

Lemma new_chain_fresh r : forall base v i x,
  nth_error (new_chain base r v) i = Some x -> mu_of x = (0, false, 0).
Proof.
  induction r as [|k r IH]; intros base v i x E.
  - destruct i as [|[|i]]; cbn in E; try discriminate. inv E. reflexivity.
  - destruct i as [|i]; cbn in E.
    + inv E. reflexivity.
    + eapply IH; eauto.
Qed.

Local Arguments new_chain : simpl never.

Lemma alloc_mu h t0 c r v :
  same_mu h (set_cont h t0 c ++ new_chain (List.length h) r v) /\
  fresh_mu h (set_cont h t0 c ++ new_chain (List.length h) r v).
Proof.
  split.
  - eapply same_mu_trans; [apply same_mu_set_cont|apply same_mu_app].
  - intros n x E L. rewrite nth_error_app2 in E by (rewrite length_set_cont; auto).
    eapply new_chain_fresh; eauto.
Qed.

Lemma fresh_mu_same_len h h' : List.length h' = List.length h -> fresh_mu h h'.
Proof.
  intros L n x E Ln. assert (n < List.length h') by (apply nth_error_Some; congruence). lia.
Qed.

Lemma local_step_mu h p :
  same_mu h (fst (local_step h p)) /\ fresh_mu h (fst (local_step h p)).
Proof.
  assert (Id : same_mu h h /\ fresh_mu h h).
  { split; [apply same_mu_refl|apply fresh_mu_same_len; auto]. }
  assert (SC : forall n c, same_mu h (set_cont h n c) /\ fresh_mu h (set_cont h n c)).
  { intros. split; [apply same_mu_set_cont|apply fresh_mu_same_len, length_set_cont]. }
  destruct p; cbn -[hdelete set_cont new_chain]; auto.
  - destruct (get_cont h t); cbn -[set_cont]; auto.
  - destruct (get_cont h t) as [| |cs]; cbn; auto. destruct (assoc k cs); auto.
  - destruct (get_cont h t) as [| |cs]; cbn -[set_cont new_chain]; auto.
    + apply alloc_mu.
    + destruct (assoc k cs); cbn -[set_cont new_chain]; auto. apply alloc_mu.
  - destruct p as [|k r]; cbn; auto. destruct (get_cont h t) as [| |cs]; cbn; auto.
    destruct (assoc k cs); auto.
  - destruct k; auto.
  - pose proof (hdelete_shrinks h q) as [L [M _]]. split; [exact M|apply fresh_mu_same_len; auto].
  - destruct (query_visits (get_cont h t) q); auto.
  - destruct fr as [|[|[[c pre0] q0] todo] fr]; auto.
  - destruct (heads_all q).
    + destruct (get_cont h n); auto. destruct (strip_glob q); auto.
    + destruct q as [|k r]; auto. destruct (get_cont h n) as [| |cs]; auto. destruct (assoc k cs); auto.
  - destruct fr as [|f fr]; auto. destruct (dtodo f) as [|[k c] rest]; auto.
  - destruct fr as [|f fr]; auto. destruct del; cbn -[set_cont]; auto.
  - destruct fr as [|f fr]; auto. destruct del; cbn -[set_cont]; auto.
    destruct (get_cont h (dn f)); cbn -[set_cont]; auto.
Qed.

Lemma local_step_not_acq h p o hs :
  lockop_of (TH o p hs) = LNone -> not_acq (TH o (snd (local_step h p)) hs).
Proof.
  intros LN n. unfold lockop_of in *. cbn [tpc held] in *.
  destruct p; cbn -[Nat.ltb hdelete set_cont new_chain] in *; try discriminate;
    repeat (first
              [ match goal with |- context [start_pc ?a ?b] => destruct b end
              | match goal with |- context [match get_cont ?a ?b with _ => _ end] => destruct (get_cont a b) end
              | match goal with |- context [match assoc ?a ?b with _ => _ end] => destruct (assoc a b) end
              | match goal with |- context [if Nat.ltb ?a ?b then _ else _] => destruct (Nat.ltb a b) end
              | match goal with |- context [if Nat.eqb ?a ?b then _ else _] => destruct (Nat.eqb a b) end
              | match goal with |- context [match query_visits ?a ?b with _ => _ end] => destruct (query_visits a b) end
              | match goal with |- context [match query_items ?a ?b ?c with _ => _ end] => destruct (query_items a b c) end
              | match goal with |- context [if heads_all ?a then _ else _] => destruct (heads_all a) end
              | match goal with |- context [match strip_glob ?a with _ => _ end] => destruct (strip_glob a) end
              | match goal with |- context [match dtodo ?a with _ => _ end] => destruct (dtodo a) as [|[? ?] ?] end
              | match goal with |- context [match ?x with _ => _ end] => is_var x; destruct x end ];
            cbn -[Nat.ltb hdelete set_cont new_chain] in *; try discriminate).
Qed.

Lemma visit_override_not_acq o p p' hs :
  not_acq (TH o p' hs) -> not_acq (TH o (visit_override o p p') hs).
Proof.
  intros H. unfold visit_override. destruct p; auto. destruct o; auto.
  destruct failat; auto. destruct (Nat.eqb (List.length acc) n); auto.
  intros m. unfold lockop_of. cbn. destruct hs; discriminate.
Qed.

Lemma tstep_shape b h t h' t' :
  tstep_gen b h t = Some (h', t') ->
  match lockop_of t with
  | LNone => h' = fst (local_step h (tpc t)) /\
             t' = TH (top t) (visit_override (top t) (tpc t) (snd (local_step h (tpc t)))) (held t)
  | LRLock n => can_rlock b h n = true /\ h' = do_rlock h n /\
                t' = TH (top t) (after_lock (tpc t)) ((n, MR) :: held t)
  | LReq n => h' = do_req h n /\ t' = TH (top t) (after_lock (tpc t)) (held t)
  | LAcq n => can_lock h n = true /\ h' = do_acq h n /\
              t' = TH (top t) (after_lock (tpc t)) ((n, MW) :: held t)
  | LRel => exists n m hs, held t = (n, m) :: hs /\ h' = do_rel h n m /\
                           t' = TH (top t) (after_lock (tpc t)) hs
  end.
Proof.
  unfold tstep_gen. destruct (is_done (tpc t)); [discriminate|].
  destruct (lockop_of t).
  - intros E; inv E; auto.
  - destruct (can_rlock b h n); [|discriminate]. intros E; inv E; auto.
  - intros E; inv E; auto.
  - destruct (can_lock h n); [|discriminate]. intros E; inv E; auto.
  - destruct (held t) as [|[n m] hs]; [discriminate|]. intros E; inv E. eauto 8.
Qed.

Lemma after_lock_not_acq o p hs hs' :
  (forall n, lockop_of (TH o p hs) <> LReq n) -> lockop_of (TH o p hs) <> LNone ->
  not_acq (TH o (after_lock p) hs').
Proof.
  intros NR NN n. unfold lockop_of in *. cbn [tpc held] in *.
  destruct p; cbn in *; try congruence; try discriminate;
    repeat (match goal with
            | |- context [match ?x with _ => _ end] => is_var x; destruct x
            | H : context [match ?x with _ => _ end] |- _ => is_var x; destruct x
            end; cbn in *; try congruence; try discriminate).
  all: try (exfalso; eapply NR; reflexivity).
Qed.

Lemma after_lock_req o p hs hs' n :
  lockop_of (TH o p hs) = LReq n -> lockop_of (TH o (after_lock p) hs') = LAcq n.
Proof.
  unfold lockop_of. cbn [tpc held].
  destruct p; cbn; try discriminate;
    repeat (match goal with
            | |- context [match ?x with _ => _ end] => is_var x; destruct x
            end; cbn; try discriminate); intros E; inv E; auto.
Qed.

(** ** lock accounting: the mutex fields count the threads *)

Fixpoint cnt (n : nat) (m : lmode) (hs : list (nat * lmode)) : nat :=
  match hs with
  | [] => 0
  | x :: r => (if Nat.eqb (fst x) n && lmode_eqb (snd x) m then 1 else 0) + cnt n m r
  end.

Definition pcnt (n : nat) (t : thread) : nat :=
  match lockop_of t with
  | LAcq a => if Nat.eqb a n then 1 else 0
  | _ => 0
  end.

Definition tsum (f : thread -> nat) (ts : list thread) : nat :=
  fold_right (fun t a => f t + a) 0 ts.

Definition wbit (x : hnode) : nat := if wr x then 1 else 0.

Definition acct (s : state) : Prop :=
  forall n x, nth_error (hp s) n = Some x ->
    rd x = tsum (fun t => cnt n MR (held t)) (thr s) /\
    wbit x = tsum (fun t => cnt n MW (held t)) (thr s) /\
    pw x = tsum (pcnt n) (thr s).

Definition Inv (s : state) : Prop :=
  heap_ok (hp s) /\ Forall (thread_ok (List.length (hp s))) (thr s) /\ acct s.

Lemma tsum_set_nth f ts i t t' :
  nth_error ts i = Some t -> tsum f (set_nth ts i t') + f t = tsum f ts + f t'.
Proof.
  unfold tsum.
  revert i; induction ts as [|a ts IH]; intros [|i] E; cbn in *; try discriminate.
  - inv E. lia.
  - specialize (IH _ E). lia.
Qed.

Lemma tsum_zero f ts : Forall (fun t => f t = 0) ts -> tsum f ts = 0.
Proof. unfold tsum. induction 1 as [|t ts Ht _ IH]; cbn; [auto|]. rewrite Ht, IH. auto. Qed.

Lemma tsum_ge f ts i t : nth_error ts i = Some t -> f t <= tsum f ts.
Proof.
  unfold tsum.
  revert i; induction ts as [|a ts IH]; intros [|i] E; cbn in *; try discriminate.
  - inv E. lia.
  - specialize (IH _ E). lia.
Qed.

Lemma cnt_zero_lt hs hl n m : ids_lt hs hl -> hl <= n -> cnt n m hs = 0.
Proof.
  induction 1 as [|x r L _ IH]; intros Hn; cbn; [auto|].
  destruct (Nat.eqb_spec (fst x) n); [lia|]. cbn. auto.
Qed.

Lemma lockop_target_lt hl t n :
  0 < hl -> thread_ok hl t -> (lockop_of t = LAcq n \/ lockop_of t = LReq n \/ lockop_of t = LRLock n) -> n < hl.
Proof.
  intros L0 [_ [_ P]]. destruct t as [o p hs]. unfold lockop_of. cbn [tpc held] in *.
  destruct p; cbn in *; intros [E|[E|E]]; try discriminate;
    repeat (match goal with
            | H : context [match ?x with _ => _ end] |- _ => is_var x; destruct x
            end; cbn in *; try discriminate);
    inv E;
    repeat match goal with
           | H : waiting _ _ _ |- _ => destruct H as [? _]
           | H : _ /\ _ |- _ => destruct H
           end; auto.
Qed.

Lemma pcnt_zero_lt hl t n : 0 < hl -> thread_ok hl t -> hl <= n -> pcnt n t = 0.
Proof.
  intros L0 T L. unfold pcnt. destruct (lockop_of t) eqn:E; auto.
  destruct (Nat.eqb_spec n0 n); auto. subst.
  assert (n < hl) by (eapply lockop_target_lt; eauto). lia.
Qed.

Lemma Inv_init ops : Inv (init_state ops).
Proof.
  split; [|split].
  - split; [cbn; lia|]. intros n cs E. destruct n as [|[|n]]; cbn in E; discriminate.
  - cbn. apply Forall_forall. intros t Ht. apply in_map_iff in Ht. destruct Ht as [o [<- _]].
    apply mk_thread_ok; cbn; auto. constructor.
  - intros n x E. cbn in E. destruct n as [|[|n]]; cbn in E; try discriminate. inv E. cbn.
    assert (Z : forall f, (forall o, f (TH o (PStart o) []) = 0) ->
                          tsum f (map (fun o => TH o (PStart o) []) ops) = 0).
    { intros f Hf. induction ops as [|o ops IH]; cbn; auto. rewrite Hf. auto. }
    repeat split; symmetry;
      [apply (Z (fun t => cnt 0 MR (held t)))|apply (Z (fun t => cnt 0 MW (held t)))|apply (Z (pcnt 0))];
      auto.
Qed.

Lemma tsum_same f ts i t t' :
  nth_error ts i = Some t -> f t' = f t -> tsum f (set_nth ts i t') = tsum f ts.
Proof. intros E H. pose proof (tsum_set_nth f ts i t t' E). lia. Qed.

Lemma tsum_up f ts i t t' :
  nth_error ts i = Some t -> f t' = S (f t) -> tsum f (set_nth ts i t') = S (tsum f ts).
Proof. intros E H. pose proof (tsum_set_nth f ts i t t' E). lia. Qed.

Lemma tsum_down f ts i t t' :
  nth_error ts i = Some t -> f t = S (f t') -> S (tsum f (set_nth ts i t')) = tsum f ts.
Proof. intros E H. pose proof (tsum_set_nth f ts i t t' E). lia. Qed.

Lemma cnt_cons_eq n m r : cnt n m ((n, m) :: r) = S (cnt n m r).
Proof. cbn. rewrite Nat.eqb_refl. destruct m; reflexivity. Qed.

Lemma cnt_cons_neq n m a b r : (a <> n \/ b <> m) -> cnt n m ((a, b) :: r) = cnt n m r.
Proof.
  intros H. cbn. destruct (Nat.eqb_spec a n); cbn; auto.
  destruct b, m; cbn; auto; destruct H; congruence.
Qed.

Lemma pcnt_not_acq n t : not_acq t -> pcnt n t = 0.
Proof. intros H. unfold pcnt. destruct (lockop_of t) eqn:E; auto. exfalso. eapply H; eauto. Qed.

Lemma pcnt_other n t : (forall a, lockop_of t <> LAcq a) -> pcnt n t = 0.
Proof. apply pcnt_not_acq. Qed.

Lemma Forall_nth_error {A} (P : A -> Prop) l i x : Forall P l -> nth_error l i = Some x -> P x.
Proof. intros F E. rewrite Forall_forall in F. apply F. eapply nth_error_In; eauto. Qed.

Lemma acct_step b s i s' : Inv s -> step_gen b s i = Some s' -> acct s'.
Proof.
  intros [HO [TO AC]] ST. unfold step_gen in ST.
  destruct (nth_error (thr s) i) as [t|] eqn:Et; [|discriminate].
  destruct (tstep_gen b (hp s) t) as [[h' t']|] eqn:Ets; [|discriminate]. inv ST.
  pose proof (Forall_nth_error _ _ _ _ TO Et) as Tt.
  pose proof (tstep_shape _ _ _ _ _ Ets) as SH.
  destruct s as [h ts]. unfold acct in AC. cbn [hp thr] in *.
  assert (L0 : 0 < List.length h) by apply HO.
  intros n x' E'. cbn [hp thr] in *.
  destruct (lockop_of t) eqn:LO.
  - (* local step *)
    destruct SH as [-> ->].
    pose proof (local_step_mu h (tpc t)) as [SM FM].
    assert (NA : not_acq (TH (top t) (visit_override (top t) (tpc t) (snd (local_step h (tpc t)))) (held t))).
    { apply visit_override_not_acq. apply local_step_not_acq. destruct t; exact LO. }
    rewrite (tsum_same (fun t0 => cnt n MR (held t0)) ts i t _ Et) by reflexivity.
    rewrite (tsum_same (fun t0 => cnt n MW (held t0)) ts i t _ Et) by reflexivity.
    rewrite (tsum_same (pcnt n) ts i t _ Et)
      by (rewrite pcnt_not_acq by exact NA; unfold pcnt; rewrite LO; reflexivity).
    destruct (Nat.lt_ge_cases n (List.length h)) as [Ln|Ln].
    + destruct (nth_error h n) as [x|] eqn:Ex; [|apply nth_error_None in Ex; lia].
      destruct (SM _ _ Ex) as [x'' [Ex'' M]]. rewrite E' in Ex''. inv Ex''.
      destruct (AC _ _ Ex) as [A1 [A2 A3]]. unfold mu_of in M. injection M as M1 M2 M3.
      cbn [thr] in *. unfold wbit in *. rewrite M1, M2, M3. auto.
    + pose proof (FM _ _ E' Ln) as M. unfold mu_of in M. injection M as M1 M2 M3.
      unfold wbit. rewrite M1, M2, M3.
      rewrite !tsum_zero; auto.
      * eapply Forall_impl; [|exact TO]. intros t0 T0. eapply pcnt_zero_lt; eauto.
      * eapply Forall_impl; [|exact TO]. intros t0 [_ [I0 _]]. eapply cnt_zero_lt; eauto.
      * eapply Forall_impl; [|exact TO]. intros t0 [_ [I0 _]]. eapply cnt_zero_lt; eauto.
  - (* RLock *)
    destruct SH as [CR [-> ->]].
    assert (NA : not_acq (TH (top t) (after_lock (tpc t)) ((n0, MR) :: held t))).
    { destruct t as [o p hs]. apply (after_lock_not_acq o p hs); cbn [top tpc held] in *; rewrite LO; discriminate. }
    rewrite (tsum_same (pcnt n) ts i t _ Et)
      by (rewrite pcnt_not_acq by exact NA; unfold pcnt; rewrite LO; reflexivity).
    unfold do_rlock in E'. destruct (Nat.eq_dec n0 n) as [->|D].
    + destruct (nth_error h n) as [x|] eqn:Ex; [|rewrite nth_upd_node_none in E' by auto; discriminate].
      erewrite nth_upd_node_eq in E' by eauto. inv E'. cbn [rd wr pw]. unfold wbit; cbn [wr].
      destruct (AC _ _ Ex) as [A1 [A2 A3]].
      rewrite (tsum_up (fun t0 => cnt n MR (held t0)) ts i t _ Et) by (cbn [held]; apply cnt_cons_eq).
      rewrite (tsum_same (fun t0 => cnt n MW (held t0)) ts i t _ Et)
        by (cbn [held]; apply cnt_cons_neq; right; discriminate).
      unfold wbit in A2. auto.
    + rewrite nth_upd_node_neq in E' by auto. destruct (AC _ _ E') as [A1 [A2 A3]].
      rewrite (tsum_same (fun t0 => cnt n MR (held t0)) ts i t _ Et) by (cbn [held]; apply cnt_cons_neq; auto).
      rewrite (tsum_same (fun t0 => cnt n MW (held t0)) ts i t _ Et) by (cbn [held]; apply cnt_cons_neq; auto).
      auto.
  - (* Lock announced *)
    destruct SH as [-> ->].
    assert (LA : lockop_of (TH (top t) (after_lock (tpc t)) (held t)) = LAcq n0).
    { destruct t as [o p hs]. apply (after_lock_req o p hs). exact LO. }
    rewrite (tsum_same (fun t0 => cnt n MR (held t0)) ts i t _ Et) by reflexivity.
    rewrite (tsum_same (fun t0 => cnt n MW (held t0)) ts i t _ Et) by reflexivity.
    unfold do_req in E'. destruct (Nat.eq_dec n0 n) as [->|D].
    + destruct (nth_error h n) as [x|] eqn:Ex; [|rewrite nth_upd_node_none in E' by auto; discriminate].
      erewrite nth_upd_node_eq in E' by eauto. inv E'. cbn [rd wr pw]. unfold wbit; cbn [wr].
      destruct (AC _ _ Ex) as [A1 [A2 A3]].
      rewrite (tsum_up (pcnt n) ts i t _ Et)
        by (unfold pcnt; rewrite LA, LO, Nat.eqb_refl; reflexivity).
      unfold wbit in A2. auto.
    + rewrite nth_upd_node_neq in E' by auto. destruct (AC _ _ E') as [A1 [A2 A3]].
      rewrite (tsum_same (pcnt n) ts i t _ Et).
      * auto.
      * unfold pcnt. rewrite LA, LO. destruct (Nat.eqb_spec n0 n); congruence.
  - (* Lock acquired *)
    destruct SH as [CL [-> ->]].
    assert (NA : not_acq (TH (top t) (after_lock (tpc t)) ((n0, MW) :: held t))).
    { destruct t as [o p hs]. apply (after_lock_not_acq o p hs); cbn [top tpc held] in *; rewrite LO; discriminate. }
    unfold do_acq in E'. destruct (Nat.eq_dec n0 n) as [->|D].
    + unfold can_lock in CL.
      destruct (nth_error h n) as [x|] eqn:Ex; [|discriminate].
      erewrite nth_upd_node_eq in E' by eauto. inv E'. cbn [rd wr pw]. unfold wbit; cbn [wr].
      destruct (AC _ _ Ex) as [A1 [A2 A3]].
      apply andb_true_iff in CL. destruct CL as [C1 C2]. apply negb_true_iff in C1.
      apply Nat.eqb_eq in C2. unfold wbit in A2. rewrite C1 in A2.
      rewrite (tsum_same (fun t0 => cnt n MR (held t0)) ts i t _ Et)
        by (cbn [held]; apply cnt_cons_neq; right; discriminate).
      rewrite (tsum_up (fun t0 => cnt n MW (held t0)) ts i t _ Et) by (cbn [held]; apply cnt_cons_eq).
      pose proof (tsum_down (pcnt n) ts i t (TH (top t) (after_lock (tpc t)) ((n, MW) :: held t)) Et) as PD.
      rewrite (pcnt_not_acq _ _ NA) in PD. unfold pcnt at 1 in PD. rewrite LO, Nat.eqb_refl in PD.
      specialize (PD eq_refl). split; [auto|]. split; [lia|lia].
    + rewrite nth_upd_node_neq in E' by auto. destruct (AC _ _ E') as [A1 [A2 A3]].
      rewrite (tsum_same (fun t0 => cnt n MR (held t0)) ts i t _ Et) by (cbn [held]; apply cnt_cons_neq; auto).
      rewrite (tsum_same (fun t0 => cnt n MW (held t0)) ts i t _ Et) by (cbn [held]; apply cnt_cons_neq; auto).
      rewrite (tsum_same (pcnt n) ts i t _ Et).
      * auto.
      * rewrite pcnt_not_acq by exact NA. unfold pcnt. rewrite LO.
        destruct (Nat.eqb_spec n0 n); congruence.
  - (* release *)
    destruct SH as [m [md [hs [Hh [-> ->]]]]].
    assert (NA : not_acq (TH (top t) (after_lock (tpc t)) hs)).
    { destruct t as [o p hs0]. apply (after_lock_not_acq o p hs0); cbn [top tpc held] in *; rewrite LO; discriminate. }
    rewrite (tsum_same (pcnt n) ts i t _ Et)
      by (rewrite pcnt_not_acq by exact NA; unfold pcnt; rewrite LO; reflexivity).
    destruct (Nat.eq_dec m n) as [->|D].
    + destruct (nth_error h n) as [x|] eqn:Ex.
      2:{ destruct md; unfold do_rel in E'; rewrite nth_upd_node_none in E' by auto; discriminate. }
      destruct (AC _ _ Ex) as [A1 [A2 A3]].
      destruct md; unfold do_rel in E'; erewrite nth_upd_node_eq in E' by eauto; inv E';
        cbn [rd wr pw]; unfold wbit; cbn [wr].
      * pose proof (tsum_down (fun t0 => cnt n MR (held t0)) ts i t (TH (top t) (after_lock (tpc t)) hs) Et) as PD.
        cbn [held] in PD. rewrite Hh, cnt_cons_eq in PD. specialize (PD eq_refl).
        rewrite (tsum_same (fun t0 => cnt n MW (held t0)) ts i t _ Et)
          by (cbn [held]; rewrite Hh; symmetry; apply cnt_cons_neq; right; discriminate).
        unfold wbit in A2. split; [lia|auto].
      * pose proof (tsum_down (fun t0 => cnt n MW (held t0)) ts i t (TH (top t) (after_lock (tpc t)) hs) Et) as PD.
        cbn [held] in PD. rewrite Hh, cnt_cons_eq in PD. specialize (PD eq_refl).
        rewrite (tsum_same (fun t0 => cnt n MR (held t0)) ts i t _ Et)
          by (cbn [held]; rewrite Hh; symmetry; apply cnt_cons_neq; right; discriminate).
        unfold wbit in A2. split; [auto|]. split; [|auto]. destruct (wr x); lia.
    + assert (E'' : nth_error h n = Some x').
      { destruct md; unfold do_rel in E'; rewrite nth_upd_node_neq in E' by auto; exact E'. }
      destruct (AC _ _ E'') as [A1 [A2 A3]].
      rewrite (tsum_same (fun t0 => cnt n MR (held t0)) ts i t _ Et)
        by (cbn [held]; rewrite Hh; symmetry; apply cnt_cons_neq; auto).
      rewrite (tsum_same (fun t0 => cnt n MW (held t0)) ts i t _ Et)
        by (cbn [held]; rewrite Hh; symmetry; apply cnt_cons_neq; auto).
      auto.
Qed.

Lemma Inv_step b s i s' : Inv s -> step_gen b s i = Some s' -> Inv s'.
Proof.
  intros I ST. pose proof (acct_step _ _ _ _ I ST) as AC.
  destruct I as [HO [TO _]]. unfold step_gen in ST.
  destruct (nth_error (thr s) i) as [t|] eqn:Et; [|discriminate].
  destruct (tstep_gen b (hp s) t) as [[h' t']|] eqn:Ets; [|discriminate]. inv ST.
  pose proof (Forall_nth_error _ _ _ _ TO Et) as Tt.
  destruct (tstep_ok _ _ _ _ _ HO Tt Ets) as [HO' [Ln Tt']].
  split; [exact HO'|]. split; [|exact AC]. cbn [hp thr].
  apply Forall_forall. intros t0 H0. apply In_set_nth in H0. destruct H0 as [->|H0]; [exact Tt'|].
  rewrite Forall_forall in TO. eapply thread_ok_mono; [exact Ln|]. apply TO. exact H0.
Qed.

Theorem reach_Inv ops s : reach ops s -> Inv s.
Proof. induction 1; [apply Inv_init|eapply Inv_step; eauto]. Qed.

(** * Theorems *)

(** ** lock coupling *)

Lemma pc_rooted hl hs p : sorted_desc hs -> pc_ok hl hs p -> is_handle_pc p = false -> rooted hs.
Proof.
  intros S P H. destruct p; cbn in *; try discriminate;
    repeat match goal with
           | H : _ /\ _ |- _ => destruct H
           | H : waiting _ _ _ |- _ => destruct H as [_ [_ [_ ?]]]
           | H : inside _ _ _ |- _ => destruct H as [_ ?]
           end; subst; auto; try (left; reflexivity); try (right; exists MW; left; reflexivity).
Qed.

(** In every reachable state, a thread that is not a leaf-handle operation
    and holds any lock holds the root lock (it is the oldest lock it holds). *)
Theorem lock_coupling ops s i t :
  reach ops s -> nth_error (thr s) i = Some t -> is_handle_pc (tpc t) = false ->
  held t <> [] -> exists m, In (0, m) (held t).
Proof.
  intros R E H NE. destruct (reach_Inv _ _ R) as [_ [TO _]].
  destruct (Forall_nth_error _ _ _ _ TO E) as [S [_ P]].
  destruct (pc_rooted _ _ _ S P H) as [Z|Z]; [contradiction|exact Z].
Qed.

(** locks are taken in strictly increasing node-id order; children have larger
    ids than their parents, so this is strictly increasing depth *)
Theorem lock_order ops s i t n :
  reach ops s -> nth_error (thr s) i = Some t ->
  (lockop_of t = LRLock n \/ lockop_of t = LReq n \/ lockop_of t = LAcq n) ->
  Forall (fun x => fst x < n) (held t).
Proof.
  intros R E L. destruct (reach_Inv _ _ R) as [_ [TO _]].
  destruct (Forall_nth_error _ _ _ _ TO E) as [S [_ P]].
  destruct t as [o p hs]. unfold lockop_of in L. cbn [tpc held] in *.
  destruct p; cbn in *; destruct L as [L|[L|L]]; try discriminate;
    repeat (match goal with
            | H : context [match ?x with _ => _ end] |- _ => is_var x; destruct x
            end; cbn in *; try discriminate);
    inv L;
    repeat match goal with
           | H : _ /\ _ |- _ => destruct H
           | H : waiting _ _ _ |- _ => destruct H as [_ [? _]]
           end; subst; auto; try constructor.
Qed.

(** ** deadlock freedom *)

Lemma thread_lock_order hl t n :
  thread_ok hl t ->
  (lockop_of t = LRLock n \/ lockop_of t = LReq n \/ lockop_of t = LAcq n) ->
  ids_lt (held t) n.
Proof.
  intros [S [_ P]] L.
  destruct t as [o p hs]. unfold lockop_of in L. cbn [tpc held] in *.
  destruct p; cbn in *; destruct L as [L|[L|L]]; try discriminate;
    repeat (match goal with
            | H : context [match ?x with _ => _ end] |- _ => is_var x; destruct x
            end; cbn in *; try discriminate);
    inv L;
    repeat match goal with
           | H : _ /\ _ |- _ => destruct H
           | H : waiting _ _ _ |- _ => destruct H as [_ [? _]]
           end; subst; auto; try constructor.
Qed.

Lemma lrel_nonempty hl t : thread_ok hl t -> lockop_of t = LRel -> held t <> [].
Proof.
  intros [S [_ P]] L. destruct t as [o p hs]. unfold lockop_of in L. cbn [tpc held] in *.
  destruct p; cbn in *; try discriminate;
    repeat (match goal with
            | H : context [match ?x with _ => _ end] |- _ => is_var x; destruct x
            end; cbn in *; try discriminate);
    repeat match goal with
           | H : _ /\ _ |- _ => destruct H
           | H : inside _ _ _ |- _ => destruct H as [[? ?] _]
           | H : exists _, _ |- _ => destruct H
           | H : frames_ok _ _ (_ :: _) |- _ => inv H
           end; subst; try discriminate.
Qed.

Definition wants (t : thread) (n : nat) : Prop := lockop_of t = LRLock n \/ lockop_of t = LAcq n.

Lemma enabled_or_wants s i t :
  Inv s -> nth_error (thr s) i = Some t -> is_done (tpc t) = false ->
  enabled_strict s i = true \/ exists n, wants t n /\ n < List.length (hp s).
Proof.
  intros [HO [TO _]] E D. pose proof (Forall_nth_error _ _ _ _ TO E) as Tt.
  unfold enabled_strict, step_gen. rewrite E. unfold tstep_gen. rewrite D.
  destruct (lockop_of t) eqn:LO.
  - left; reflexivity.
  - right. exists n. split; [left; auto|]. eapply lockop_target_lt; eauto. apply HO.
  - left; reflexivity.
  - right. exists n. split; [right; auto|]. eapply lockop_target_lt; eauto. apply HO.
  - left. pose proof (lrel_nonempty _ _ Tt LO) as NE. destruct (held t) as [|[n m] hs]; [contradiction|reflexivity].
Qed.

Lemma tsum_pos f ts : 0 < tsum f ts -> exists i t, nth_error ts i = Some t /\ 0 < f t.
Proof.
  unfold tsum. induction ts as [|a ts IH]; cbn; [lia|]. intros H.
  destruct (f a) as [|k] eqn:Fa.
  - destruct (IH H) as [i [t [E P]]]. exists (S i), t. auto.
  - exists 0, a. split; [reflexivity|lia].
Qed.

Lemma cnt_pos n m hs : 0 < cnt n m hs -> In (n, m) hs.
Proof.
  induction hs as [|[a b] r IH]; cbn; [lia|].
  destruct (Nat.eqb_spec a n); cbn.
  - destruct b, m; cbn; intros H; auto; left; subst; reflexivity.
  - auto.
Qed.

Lemma holder_not_done hl t : thread_ok hl t -> held t <> [] -> is_done (tpc t) = false.
Proof.
  intros [_ [_ P]] NE. destruct (tpc t); cbn in *; auto. contradiction.
Qed.

Lemma In_ids_lt hs n a m : ids_lt hs n -> In (a, m) hs -> a < n.
Proof. intros F I. unfold ids_lt in F. rewrite Forall_forall in F. apply (F _ I). Qed.

Lemma lockop_done t : is_done (tpc t) = true -> lockop_of t = LNone.
Proof. unfold lockop_of. destruct (tpc t); cbn; try discriminate; auto. Qed.

Lemma progress_from_wants d : forall s, Inv s -> forall i t n,
  nth_error (thr s) i = Some t -> wants t n -> n < List.length (hp s) ->
  List.length (hp s) - n <= d -> exists j, enabled_strict s j = true.
Proof.
  induction d as [|d IH]; intros s I i t n E W Ln Ld; [lia|].
  destruct I as [HO [TO AC]].
  assert (I : Inv s) by (split; [|split]; auto).
  (* a thread holding n leads to progress *)
  assert (HOLD : forall j t3 m3, nth_error (thr s) j = Some t3 -> In (n, m3) (held t3) ->
                                 exists j', enabled_strict s j' = true).
  { intros j t3 m3 E3 I3. pose proof (Forall_nth_error _ _ _ _ TO E3) as T3.
    assert (D3 : is_done (tpc t3) = false).
    { eapply holder_not_done; eauto. intros Z. rewrite Z in I3. destruct I3. }
    destruct (enabled_or_wants _ _ _ I E3 D3) as [En|[n3 [W3 L3]]]; [eauto|].
    assert (n < n3).
    { eapply In_ids_lt; [|exact I3]. eapply thread_lock_order; [exact T3|].
      destruct W3; auto. }
    eapply (IH s I j t3 n3); eauto. lia. }
  destruct (nth_error (hp s) n) as [x|] eqn:Ex; [|apply nth_error_None in Ex; lia].
  destruct (AC _ _ Ex) as [A1 [A2 A3]].
  assert (RD : 0 < rd x -> exists j', enabled_strict s j' = true).
  { intros P. rewrite A1 in P. destruct (tsum_pos _ _ P) as [j [t3 [E3 P3]]].
    eapply HOLD; [exact E3|]. apply cnt_pos. exact P3. }
  assert (WR : wr x = true -> exists j', enabled_strict s j' = true).
  { intros P. unfold wbit in A2. rewrite P in A2.
    assert (P' : 0 < tsum (fun t0 => cnt n MW (held t0)) (thr s)) by lia.
    destruct (tsum_pos _ _ P') as [j [t3 [E3 P3]]].
    eapply HOLD; [exact E3|]. apply cnt_pos. exact P3. }
  (* an announced writer on n acquires as soon as nobody holds n *)
  assert (ACQ : forall j t2, nth_error (thr s) j = Some t2 -> lockop_of t2 = LAcq n ->
                             exists j', enabled_strict s j' = true).
  { intros j t2 E2 L2. destruct (wr x) eqn:Wx; [apply WR; auto|].
    destruct (rd x) as [|k] eqn:Rx; [|apply RD; lia].
    exists j. unfold enabled_strict, step_gen. rewrite E2. unfold tstep_gen.
    assert (D2 : is_done (tpc t2) = false).
    { destruct (is_done (tpc t2)) eqn:D2; auto. rewrite lockop_done in L2 by auto. discriminate. }
    rewrite D2, L2. unfold can_lock. rewrite Ex, Wx, Rx. reflexivity. }
  destruct W as [W|W].
  - (* a reader waits for a writer that holds or has announced *)
    destruct (wr x) eqn:Wx; [apply WR; auto|].
    destruct (pw x) as [|k] eqn:Px.
    + exists i. unfold enabled_strict, step_gen. rewrite E. unfold tstep_gen.
      assert (D : is_done (tpc t) = false).
      { destruct (is_done (tpc t)) eqn:D; auto. rewrite lockop_done in W by auto. discriminate. }
      rewrite D, W. unfold can_rlock. rewrite Ex, Wx, Px. reflexivity.
    + assert (P' : 0 < tsum (pcnt n) (thr s)) by lia.
      destruct (tsum_pos _ _ P') as [j [t2 [E2 P2]]].
      eapply ACQ; [exact E2|]. unfold pcnt in P2. destruct (lockop_of t2); try lia.
      destruct (Nat.eqb_spec n0 n); [subst; auto|lia].
  - eapply ACQ; eauto.
Qed.

(** In every reachable state in which some call has not returned, some thread
    can take a step -- even when every announced writer is given preference
    over arriving readers. *)
Theorem deadlock_free ops s :
  reach ops s ->
  (exists i t, nth_error (thr s) i = Some t /\ is_done (tpc t) = false) ->
  exists j, enabled_strict s j = true.
Proof.
  intros R [i [t [E D]]]. pose proof (reach_Inv _ _ R) as I.
  destruct (enabled_or_wants _ _ _ I E D) as [En|[n [W L]]]; [eauto|].
  eapply progress_from_wants; eauto.
Qed.

(** ** mutual exclusion *)

Definition Excl (h : heap) : Prop :=
  forall n x, nth_error h n = Some x -> wr x = true -> rd x = 0.

Lemma Excl_upd h n f :
  Excl h ->
  (forall x, nth_error h n = Some x -> wr (f x) = true -> rd (f x) = 0) ->
  Excl (upd_node h n f).
Proof.
  intros EX Hf m x' E W. destruct (Nat.eq_dec n m) as [->|D].
  - destruct (nth_error h m) as [x|] eqn:Ex.
    + erewrite nth_upd_node_eq in E by eauto. inv E. eauto.
    + rewrite nth_upd_node_none in E by auto. discriminate.
  - rewrite nth_upd_node_neq in E by auto. eauto.
Qed.

Lemma Excl_step b s i s' : Excl (hp s) -> step_gen b s i = Some s' -> Excl (hp s').
Proof.
  intros EX ST. unfold step_gen in ST.
  destruct (nth_error (thr s) i) as [t|] eqn:Et; [|discriminate].
  destruct (tstep_gen b (hp s) t) as [[h' t']|] eqn:Ets; [|discriminate]. inv ST. cbn [hp].
  pose proof (tstep_shape _ _ _ _ _ Ets) as SH.
  destruct (lockop_of t) eqn:LO.
  - destruct SH as [-> _]. pose proof (local_step_mu (hp s) (tpc t)) as [SM FM].
    intros n x' E W. destruct (Nat.lt_ge_cases n (List.length (hp s))) as [Ln|Ln].
    + destruct (nth_error (hp s) n) as [x|] eqn:Ex; [|apply nth_error_None in Ex; lia].
      destruct (SM _ _ Ex) as [x'' [Ex'' M]]. rewrite E in Ex''. inv Ex''.
      unfold mu_of in M. injection M as M1 M2 M3. rewrite M1. apply (EX _ _ Ex). congruence.
    + pose proof (FM _ _ E Ln) as M. unfold mu_of in M. injection M as M1 M2 M3. auto.
  - destruct SH as [CR [-> _]]. apply Excl_upd; auto. intros x Ex W. cbn in W.
    unfold can_rlock in CR. rewrite Ex in CR. rewrite W in CR. discriminate.
  - destruct SH as [-> _]. apply Excl_upd; auto. intros x Ex W. cbn in *. eauto.
  - destruct SH as [CL [-> _]]. apply Excl_upd; auto. intros x Ex W. cbn.
    unfold can_lock in CL. rewrite Ex in CL. apply andb_true_iff in CL. destruct CL as [_ C].
    apply Nat.eqb_eq in C. exact C.
  - destruct SH as [n [m [hs [_ [-> _]]]]]. destruct m; apply Excl_upd; auto.
    + intros x Ex W. cbn in *. rewrite (EX _ _ Ex W). reflexivity.
    + intros x Ex W. cbn in W. discriminate.
Qed.

Lemma reach_Excl ops s : reach ops s -> Excl (hp s).
Proof.
  induction 1.
  - intros n x E W. cbn in E. destruct n as [|[|n]]; cbn in E; try discriminate. inv E. reflexivity.
  - eapply Excl_step; eauto.
Qed.

Lemma tsum_ge2 f ts i j ti tj :
  i <> j -> nth_error ts i = Some ti -> nth_error ts j = Some tj -> f ti + f tj <= tsum f ts.
Proof.
  unfold tsum. revert i j; induction ts as [|a ts IH]; intros [|i] [|j] D Ei Ej; cbn in *;
    try discriminate; try lia.
  - inv Ei. pose proof (tsum_ge f ts j tj Ej). unfold tsum in *. lia.
  - inv Ej. pose proof (tsum_ge f ts i ti Ei). unfold tsum in *. lia.
  - assert (i <> j) by lia. specialize (IH _ _ H Ei Ej). lia.
Qed.

Lemma cnt_In n m hs : In (n, m) hs -> 0 < cnt n m hs.
Proof.
  induction hs as [|[a b] r IH]; cbn; [tauto|]. intros [E|I].
  - inv E. rewrite Nat.eqb_refl. destruct m; cbn; lia.
  - specialize (IH I). lia.
Qed.

(** a write lock excludes every other holder *)
Lemma excl_pair s i j ti tj n m :
  Inv s -> Excl (hp s) -> i <> j ->
  nth_error (thr s) i = Some ti -> nth_error (thr s) j = Some tj ->
  In (n, MW) (held ti) -> In (n, m) (held tj) -> False.
Proof.
  intros [HO [TO AC]] EX D Ei Ej Ii Ij.
  pose proof (Forall_nth_error _ _ _ _ TO Ei) as [_ [ILi _]].
  assert (Ln : n < List.length (hp s)) by (eapply In_ids_lt; eauto).
  destruct (nth_error (hp s) n) as [x|] eqn:Ex; [|apply nth_error_None in Ex; lia].
  destruct (AC _ _ Ex) as [A1 [A2 A3]].
  pose proof (cnt_In _ _ _ Ii) as Ci. pose proof (cnt_In _ _ _ Ij) as Cj.
  destruct m.
  - pose proof (tsum_ge (fun t => cnt n MW (held t)) _ _ _ Ei) as G1.
    pose proof (tsum_ge (fun t => cnt n MR (held t)) _ _ _ Ej) as G2. cbn in G1, G2.
    unfold wbit in A2. destruct (wr x) eqn:W; [|lia].
    rewrite (EX _ _ Ex W) in A1. lia.
  - pose proof (tsum_ge2 (fun t => cnt n MW (held t)) _ _ _ _ _ D Ei Ej) as G. cbn in G.
    unfold wbit in A2. destruct (wr x); lia.
Qed.

(** ** Delete is atomic: while a Delete is inside its critical section no
    other tree operation holds any lock (so none is inside a critical section
    or between two lock operations of a traversal), and nobody holds the root. *)
Theorem delete_atomic ops s i j ti tj q :
  reach ops s -> i <> j ->
  nth_error (thr s) i = Some ti -> nth_error (thr s) j = Some tj ->
  tpc ti = PDelCrit q ->
  (is_handle_pc (tpc tj) = false -> held tj = []) /\ (forall m, ~ In (0, m) (held tj)).
Proof.
  intros R D Ei Ej P. pose proof (reach_Inv _ _ R) as I. pose proof (reach_Excl _ _ R) as EX.
  destruct I as [HO [TO AC]].
  pose proof (Forall_nth_error _ _ _ _ TO Ei) as [_ [_ Pi]]. rewrite P in Pi. cbn in Pi.
  assert (Hi : In (0, MW) (held ti)) by (rewrite Pi; left; reflexivity).
  assert (NR : forall m, ~ In (0, m) (held tj)).
  { intros m Hm. eapply (excl_pair s i j ti tj 0 m); eauto. split; [|split]; auto. }
  split; [|exact NR]. intros NH.
  pose proof (Forall_nth_error _ _ _ _ TO Ej) as [Sj [_ Pj]].
  destruct (pc_rooted _ _ _ Sj Pj NH) as [Z|[m Z]]; [exact Z|]. exfalso. eapply NR; eauto.
Qed.

(** ** no data race (lockset style) *)

(** every content access of a critical section other than Delete's is made
    under the lock of the accessed node, writes under its write lock *)
Definition is_ldel (p : pc) : bool :=
  match p with
  | PLDel _ | PLDelAcq _ | PLVisit _ _ _ | PLNext _ | PLEnter _ _ _ | PLCAcq _ _ _
  | PLRet _ _ _ | PLBack _ _ _ => true
  | _ => false
  end.

(** Delete (as of 3480f62) touches a node only under that node's write lock *)
Lemma access_holds_ldel hl hs p h a :
  is_ldel p = true -> pc_ok hl hs p -> In a (accesses h p) ->
  exists m, In (fst (fst a), m) hs /\ (snd a = true -> m = MW).
Proof.
  intros L P I. destruct p; try discriminate; cbn in P, I; try contradiction.
  - destruct P as [[[r0 ->] _] _]. exists MW.
    destruct I as [<-|[<-|[]]]; cbn; split; auto.
  - destruct fr as [|f fr]; [contradiction|]. destruct P as [_ [_ F]].
    inversion F as [|x f0 l fr0 [Ex _] _]; subst.
    destruct (dtodo f); cbn in I; [|contradiction]. destruct I as [<-|[]].
    exists MW. cbn. split; auto.
  - destruct fr as [|f fr]; [|contradiction]. destruct P as [R [n [r0 [-> F]]]].
    inversion F; subst. pose proof (rooted_single _ _ R) as Z. subst n.
    destruct I as [<-|[]]. exists MW. cbn. split; auto.
  - destruct fr as [|f fr]; [contradiction|]. destruct P as [_ [_ F]].
    inversion F as [|x f0 l fr0 [Ex _] _]; subst.
    destruct I as [<-|[]]. exists MW. cbn. split; auto.
Qed.

Lemma access_holds hl hs p h a :
  pc_ok hl hs p -> (forall q, p <> PDelCrit q) -> In a (accesses h p) ->
  exists m, In (fst (fst a), m) hs /\ (snd a = true -> m = MW).
Proof.
  intros P ND I.
  destruct (is_ldel p) eqn:LD; [eapply access_holds_ldel; eauto|].
  destruct p; try discriminate; cbn in I; try contradiction;
    try (exfalso; eapply ND; reflexivity).
  all: cbn in P.
  all: repeat match goal with
              | H : _ /\ _ |- _ => destruct H
              | H : inside _ _ _ |- _ => destruct H as [[? ->] _]
              | p : path |- _ => destruct p; cbn in I; try contradiction
              end.
  all: subst.
  all: repeat match goal with
              | H : _ \/ _ |- _ => destruct H
              | H : False |- _ => contradiction
              end; subst; cbn; eexists; (split; [left; reflexivity|]); auto; try discriminate.
Qed.

Definition is_del_crit (p : pc) : bool := match p with PDelCrit _ => true | _ => false end.

Lemma del_crit_dec p : (exists q, p = PDelCrit q) \/ (forall q, p <> PDelCrit q).
Proof. destruct p; try (right; intros; discriminate). left; eauto. Qed.

(** In every reachable state, if two different threads are at content accesses
    that conflict (same node, same location, at least one write), then one of
    them is Delete's critical section and the other is an operation through a
    retained leaf handle. *)
Theorem no_data_race ops s i j ti tj :
  reach ops s -> i <> j ->
  nth_error (thr s) i = Some ti -> nth_error (thr s) j = Some tj ->
  race_between (hp s) ti tj = true ->
  (is_handle_pc (tpc ti) = true /\ exists q, tpc tj = PDelCrit q) \/
  (is_handle_pc (tpc tj) = true /\ exists q, tpc ti = PDelCrit q).
Proof.
  intros R D Ei Ej RB. pose proof (reach_Inv _ _ R) as I. pose proof (reach_Excl _ _ R) as EX.
  assert (I' := I). destruct I' as [HO [TO AC]].
  pose proof (Forall_nth_error _ _ _ _ TO Ei) as [Si [_ Pi]].
  pose proof (Forall_nth_error _ _ _ _ TO Ej) as [Sj [_ Pj]].
  unfold race_between in RB. apply existsb_exists in RB. destruct RB as [a [Ia RB]].
  apply existsb_exists in RB. destruct RB as [c [Ic CF]].
  unfold conflict in CF. apply andb_true_iff in CF. destruct CF as [CF W].
  apply andb_true_iff in CF. destruct CF as [N _]. apply Nat.eqb_eq in N.
  destruct (del_crit_dec (tpc ti)) as [[qi Di]|NDi]; destruct (del_crit_dec (tpc tj)) as [[qj Dj]|NDj].
  - (* two deletes *) exfalso. rewrite Di in Pi. rewrite Dj in Pj. cbn in Pi, Pj.
    eapply (excl_pair s i j ti tj 0 MW); eauto; [rewrite Pi|rewrite Pj]; left; reflexivity.
  - (* ti deletes *) destruct (is_handle_pc (tpc tj)) eqn:Hj; [right; eauto|]. exfalso.
    destruct (access_holds _ _ _ _ _ Pj NDj Ic) as [m [Im _]].
    destruct (delete_atomic ops s i j ti tj qi R D Ei Ej Di) as [Z _].
    rewrite (Z Hj) in Im. destruct Im.
  - (* tj deletes *) destruct (is_handle_pc (tpc ti)) eqn:Hi; [left; eauto|]. exfalso.
    destruct (access_holds _ _ _ _ _ Pi NDi Ia) as [m [Im _]].
    assert (D' : j <> i) by auto.
    destruct (delete_atomic ops s j i tj ti qj R D' Ej Ei Dj) as [Z _].
    rewrite (Z Hi) in Im. destruct Im.
  - (* neither: both hold the node's lock, one of them the write lock *)
    exfalso.
    destruct (access_holds _ _ _ _ _ Pi NDi Ia) as [ma [Ima Wa]].
    destruct (access_holds _ _ _ _ _ Pj NDj Ic) as [mc [Imc Wc]].
    rewrite <- N in Imc. apply orb_true_iff in W. destruct W as [W|W].
    + rewrite (Wa W) in Ima. eapply (excl_pair s i j); eauto.
    + rewrite (Wc W) in Imc. eapply (excl_pair s j i); eauto.
Qed.

(** The exception is real (known finding 7.17): Leaf.Update through a retained
    handle is at its write while Delete, holding only the root lock, is in its
    critical section reading the same leaf. *)
Definition race_witness_ops : list cop := [CAdd ["a"%string] 1%Z; CHUpdate 1 5%Z; CDeleteUnlocked ["a"%string]].
Definition race_witness_sched : list nat :=
  [0;0;0;0;0;0;0;0;0;0;0;0;0;0;0;0; 1;1;1; 2;2;2].

Theorem handle_delete_race_refuted :
  exists ops s i j ti tj,
    reach ops s /\ i <> j /\
    nth_error (thr s) i = Some ti /\ nth_error (thr s) j = Some tj /\
    is_handle_pc (tpc ti) = true /\ (exists q, tpc tj = PDelCrit q) /\
    race_between (hp s) ti tj = true.
Proof.
  exists race_witness_ops, (run_sched (init_state race_witness_ops) race_witness_sched), 1, 2.
  eexists. eexists.
  split; [apply reach_run_sched|]. split; [discriminate|].
  split; [vm_compute; reflexivity|]. split; [vm_compute; reflexivity|].
  split; [reflexivity|]. split; [eexists; reflexivity|]. vm_compute. reflexivity.
Qed.

(** ** concurrent adds survive *)

(** programs that never unlink or overwrite through a handle *)
Definition quiet_op (o : cop) : bool :=
  match o with CDelete _ | CDeleteUnlocked _ | CHUpdate _ _ => false | _ => true end.

Definition quiet_pc (p : pc) : bool :=
  match p with
  | PStart o => quiet_op o
  | PDel _ | PDelAcq _ | PDelCrit _ | PHUpd _ _ | PHUpdAcq _ _ | PHUpdWrite _ _ => false
  | PLDel _ | PLDelAcq _ | PLVisit _ _ _ | PLNext _ | PLEnter _ _ _ | PLCAcq _ _ _
  | PLRet _ _ _ | PLBack _ _ _ => false
  | _ => true
  end.

(** contents only grow: a branch keeps every child it has, a leaf stays a leaf *)
Definition cont_mono (h h' : heap) : Prop :=
  forall n, match get_cont h n with
            | CBranch cs => exists cs', get_cont h' n = CBranch cs' /\
                                        forall k c, assoc k cs = Some c -> assoc k cs' = Some c
            | CLeaf _ => exists v', get_cont h' n = CLeaf v'
            | CNil => True
            end.

Lemma cont_mono_same h h' : (forall n, get_cont h' n = get_cont h n) -> cont_mono h h'.
Proof.
  intros H n. rewrite <- (H n). destruct (get_cont h' n); eauto.
Qed.

Lemma resolve_mono h h' : cont_mono h h' -> forall p n m,
  resolve h n p = Some m -> resolve h' n p = Some m.
Proof.
  intros CM. induction p as [|k r IH]; intros n m E; cbn in *; [exact E|].
  specialize (CM n). destruct (get_cont h n) as [|v|cs]; try discriminate.
  destruct CM as [cs' [-> Hcs]]. destruct (assoc k cs) as [c|] eqn:A; [|discriminate].
  rewrite (Hcs _ _ A). apply IH. exact E.
Qed.

Definition leaf_at (h : heap) (p : path) : Prop :=
  exists n v, resolve h 0 p = Some n /\ get_cont h n = CLeaf v.

Lemma leaf_at_mono h h' p : cont_mono h h' -> leaf_at h p -> leaf_at h' p.
Proof.
  intros CM [n [v [R L]]]. pose proof (CM n) as C. rewrite L in C. destruct C as [v' C].
  exists n, v'. split; [eapply resolve_mono; eauto|exact C].
Qed.

Lemma assoc_app_some {A} k (l l2 : list (string * A)) c :
  assoc k l = Some c -> assoc k (l ++ l2) = Some c.
Proof.
  induction l as [|kc l IH]; cbn; [discriminate|]. destruct (String.eqb k (fst kc)); auto.
Qed.

Lemma assoc_app_none {A} k (l : list (string * A)) c :
  assoc k l = None -> assoc k (l ++ [(k, c)]) = Some c.
Proof.
  induction l as [|kc l IH]; cbn.
  - rewrite String.eqb_refl. reflexivity.
  - destruct (String.eqb k (fst kc)); [discriminate|auto].
Qed.

Lemma cont_mono_set_app h t0 c0 h2 :
  t0 < List.length h ->
  match get_cont h t0 with
  | CBranch cs => exists cs', c0 = CBranch cs' /\ forall k c, assoc k cs = Some c -> assoc k cs' = Some c
  | CLeaf _ => exists v', c0 = CLeaf v'
  | CNil => True
  end ->
  cont_mono h (set_cont h t0 c0 ++ h2).
Proof.
  intros L H n. destruct (Nat.lt_ge_cases n (List.length h)) as [Ln|Ln].
  - rewrite get_cont_app_l by (rewrite length_set_cont; auto).
    destruct (Nat.eq_dec t0 n) as [->|D].
    + rewrite get_cont_set_eq by auto. destruct (get_cont h n); auto.
    + rewrite get_cont_set_neq by auto. destruct (get_cont h n); eauto.
  - rewrite (get_cont_oob h n) by auto. exact I.
Qed.

Lemma local_step_cont_mono hl hs h p :
  pc_ok hl hs p -> ids_lt hs (List.length h) -> quiet_pc p = true ->
  cont_mono h (fst (local_step h p)).
Proof.
  intros P IL Q.
  assert (Id : cont_mono h h) by (apply cont_mono_same; auto).
  destruct p; cbn -[set_cont new_chain hdelete] in *; try discriminate; auto.
  - (* terminalAdd *)
    destruct P as [[r0 ->] _]. inv IL. cbn in *.
    destruct (get_cont h t) eqn:E; cbn -[set_cont]; auto.
    + rewrite <- (app_nil_r (set_cont h t (CLeaf v))). apply cont_mono_set_app; auto. rewrite E. exact I.
    + rewrite <- (app_nil_r (set_cont h t (CLeaf v))). apply cont_mono_set_app; auto. rewrite E. eauto.
  - destruct (get_cont h t) as [| |cs]; cbn; auto. destruct (assoc k cs); auto.
  - (* slowAdd *)
    destruct P as [[r0 ->] _]. inv IL. cbn in *.
    destruct (get_cont h t) as [| |cs] eqn:E; cbn -[set_cont new_chain]; auto.
    + apply cont_mono_set_app; auto. rewrite E. exact I.
    + destruct (assoc k cs) eqn:A; cbn -[set_cont new_chain]; auto.
      apply cont_mono_set_app; auto. rewrite E. eexists; split; [reflexivity|].
      intros; apply assoc_app_some; auto.
  - destruct p as [|k r]; cbn; auto. destruct (get_cont h t) as [| |cs]; cbn; auto.
    destruct (assoc k cs); auto.
  - destruct k; auto.
  - destruct (query_visits (get_cont h t) q); auto.
  - destruct fr as [|[|[[c pre0] q0] todo] fr]; auto.
Qed.

Lemma tstep_cont_mono b h t h' t' :
  thread_ok (List.length h) t -> quiet_pc (tpc t) = true ->
  tstep_gen b h t = Some (h', t') -> cont_mono h h'.
Proof.
  intros [_ [IL P]] Q ST. pose proof (tstep_shape _ _ _ _ _ ST) as SH.
  destruct (lockop_of t).
  - destruct SH as [-> _]. eapply local_step_cont_mono; eauto.
  - destruct SH as [_ [-> _]]. apply cont_mono_same. intros; apply get_cont_upd_mu; auto.
  - destruct SH as [-> _]. apply cont_mono_same. intros; apply get_cont_upd_mu; auto.
  - destruct SH as [_ [-> _]]. apply cont_mono_same. intros; apply get_cont_upd_mu; auto.
  - destruct SH as [n [m [hs [_ [-> _]]]]]. apply cont_mono_same.
    intros; destruct m; apply get_cont_upd_mu; auto.
Qed.

Ltac qfin :=
  repeat (match goal with
          | H : context [match ?x with _ => _ end] |- _ => is_var x; destruct x
          | |- context [match ?x with _ => _ end] => is_var x; destruct x
          end; cbn in *; try discriminate; auto).

Lemma tstep_quiet b h t h' t' :
  quiet_pc (tpc t) = true -> tstep_gen b h t = Some (h', t') -> quiet_pc (tpc t') = true.
Proof.
  intros Q ST. pose proof (tstep_shape _ _ _ _ _ ST) as SH.
  destruct t as [o p hs]. cbn [tpc top held] in *.
  destruct (lockop_of (TH o p hs)) eqn:LO.
  - destruct SH as [_ ->]. cbn [tpc].
    destruct p; cbn -[Nat.ltb hdelete set_cont new_chain] in *; try discriminate; auto;
    repeat (first
              [ match goal with |- context [start_pc ?a ?b] => destruct b end
              | match goal with |- context [match get_cont ?a ?b with _ => _ end] => destruct (get_cont a b) end
              | match goal with |- context [match assoc ?a ?b with _ => _ end] => destruct (assoc a b) end
              | match goal with |- context [if Nat.ltb ?a ?b then _ else _] => destruct (Nat.ltb a b) end
              | match goal with |- context [if Nat.eqb ?a ?b then _ else _] => destruct (Nat.eqb a b) end
              | match goal with |- context [match query_visits ?a ?b with _ => _ end] => destruct (query_visits a b) end
              | match goal with |- context [match ?x with _ => _ end] => is_var x; destruct x end ];
            cbn -[Nat.ltb hdelete set_cont new_chain] in *; try discriminate; auto).
  - destruct SH as [_ [_ ->]]. cbn [tpc]. destruct p; cbn in *; try discriminate; auto; qfin.
  - destruct SH as [_ ->]. cbn [tpc]. destruct p; cbn in *; try discriminate; auto; qfin.
  - destruct SH as [_ [_ ->]]. cbn [tpc]. destruct p; cbn in *; try discriminate; auto; qfin.
  - destruct SH as [n [m [hs' [_ [_ ->]]]]]. cbn [tpc]. destruct p; cbn in *; try discriminate; auto; qfin.
Qed.

Definition add_ok (h : heap) (t : thread) : Prop :=
  match top t with
  | CAdd p v =>
      match tpc t with
      | PStart o => o = CAdd p v
      | PAddEnter t0 p' v' =>
          v' = v /\ exists pre, p = pre ++ p' /\ resolve h 0 pre = Some t0
      | PAddIRead t0 k r v' | PAddIRel t0 k r v' | PAddUpg t0 k r v'
      | PAddUAcq t0 k r v' | PAddSlow t0 k r v' =>
          v' = v /\ exists pre, p = pre ++ k :: r /\ resolve h 0 pre = Some t0
      | PAddTAcq t0 v' | PAddTCrit t0 v' => v' = v /\ resolve h 0 p = Some t0
      | PUnwind (UDone (XAdd true)) | PDone (XAdd true) | PHRel (XAdd true) => leaf_at h p
      | _ => True
      end
  | _ => True
  end.

Lemma add_ok_mono h h' t : cont_mono h h' -> add_ok h t -> add_ok h' t.
Proof.
  intros CM. unfold add_ok. destruct (top t); auto. destruct (tpc t); auto.
  all: try (intros [E [pre [Ep R]]]; split; [auto|]; exists pre; split; [auto|];
            eapply resolve_mono; eauto).
  all: try (intros [E R]; split; [auto|]; eapply resolve_mono; eauto).
  - destruct r; auto. destruct ok; auto. apply leaf_at_mono; auto.
  - destruct k; auto. destruct r; auto. destruct ok; auto. apply leaf_at_mono; auto.
  - destruct r; auto. destruct ok; auto. apply leaf_at_mono; auto.
Qed.

Lemma resolve_snoc h pre : forall n t0 cs k c,
  resolve h n pre = Some t0 -> get_cont h t0 = CBranch cs -> assoc k cs = Some c ->
  resolve h n (pre ++ [k]) = Some c.
Proof.
  induction pre as [|a pre IH]; intros n t0 cs k c R E A; cbn in *.
  - inv R. rewrite E, A. reflexivity.
  - destruct (get_cont h n) as [| |ds]; try discriminate.
    destruct (assoc a ds); [|discriminate]. eapply IH; eauto.
Qed.

Lemma app_snoc_cons {A} (pre : list A) k r : pre ++ k :: r = (pre ++ [k]) ++ r.
Proof. rewrite <- app_assoc. reflexivity. Qed.

Lemma add_ok_step b h t h' t' :
  thread_ok (List.length h) t -> quiet_pc (tpc t) = true -> add_ok h t ->
  tstep_gen b h t = Some (h', t') -> add_ok h' t'.
Proof.
  intros TO Q A ST.
  pose proof (tstep_cont_mono _ _ _ _ _ TO Q ST) as CM.
  pose proof (tstep_shape _ _ _ _ _ ST) as SH.
  destruct TO as [_ [IL P]].
  destruct t as [o p hs]. unfold add_ok in *. cbn [top tpc held] in *.
  destruct o as [pa va| | | | | |];
    try (destruct (lockop_of (TH _ p hs)); repeat match goal with
                                                  | H : _ /\ _ |- _ => destruct H
                                                  | H : exists _, _ |- _ => destruct H
                                                  end; subst; exact I).
  assert (RM : forall q n m, resolve h n q = Some m -> resolve h' n q = Some m)
    by (intros; eapply resolve_mono; eauto).
  destruct p; cbn -[set_cont new_chain hdelete] in SH, Q; try discriminate.
  - (* PStart *) destruct SH as [_ ->]. cbn [top tpc]. subst o. cbn.
    split; [auto|]. exists []. split; [reflexivity|reflexivity].
  - (* PAddEnter *) destruct A as [-> [pre [-> R]]]. destruct p as [|k r]; cbn in SH.
    + destruct SH as [_ ->]. cbn. split; [auto|]. rewrite app_nil_r. auto.
    + destruct SH as [_ [_ ->]]. cbn. split; [auto|]. exists pre. auto.
  - (* PAddTAcq *) destruct A as [-> R]. destruct SH as [_ [_ ->]]. cbn. auto.
  - (* PAddTCrit *) destruct A as [-> R]. destruct SH as [Eh ->]. cbn [top tpc].
    cbn -[set_cont] in Eh. destruct P as [[r0 ->] _]. inv IL. cbn in *.
    destruct (get_cont h t) eqn:E; cbn -[set_cont] in *; auto.
    + try subst h'. exists t, va. split; [auto|apply get_cont_set_eq; auto].
    + try subst h'. exists t, va. split; [auto|apply get_cont_set_eq; auto].
  - (* PAddIRead *) destruct A as [-> [pre [-> R]]]. destruct SH as [Eh ->]. cbn [top tpc].
    destruct (get_cont h t) as [| |cs] eqn:E; cbn in *; try subst h'.
    + split; [auto|]. exists pre. auto.
    + exact I.
    + destruct (assoc k cs) as [c|] eqn:As; cbn.
      * split; [auto|]. exists (pre ++ [k]). split; [apply app_snoc_cons|].
        eapply resolve_snoc; eauto.
      * split; [auto|]. exists pre. auto.
  - (* PAddIRel *) destruct A as [-> [pre [-> R]]]. destruct SH as [n [m [hs' [_ [_ ->]]]]]. cbn.
    split; [auto|]. exists pre. auto.
  - (* PAddUpg *) destruct A as [-> [pre [-> R]]]. destruct SH as [_ ->]. cbn.
    split; [auto|]. exists pre. auto.
  - (* PAddUAcq *) destruct A as [-> [pre [-> R]]]. destruct SH as [_ [_ ->]]. cbn.
    split; [auto|]. exists pre. auto.
  - (* PAddSlow *) destruct A as [-> [pre [-> R]]]. destruct SH as [Eh ->]. cbn [top tpc].
    destruct P as [[r0 ->] _]. inv IL. cbn in *.
    destruct (get_cont h t) as [| |cs] eqn:E; cbn -[set_cont new_chain] in *.
    + split; [auto|]. exists (pre ++ [k]). split; [apply app_snoc_cons|].
      eapply resolve_snoc; [apply RM; eauto| |].
      * try subst h'. rewrite get_cont_app_l by (rewrite length_set_cont; auto).
        apply get_cont_set_eq; auto.
      * cbn. rewrite String.eqb_refl. reflexivity.
    + exact I.
    + destruct (assoc k cs) as [c|] eqn:As; cbn -[set_cont new_chain] in *.
      * try subst h'. split; [auto|]. exists (pre ++ [k]). split; [apply app_snoc_cons|].
        eapply resolve_snoc; eauto.
      * split; [auto|]. exists (pre ++ [k]). split; [apply app_snoc_cons|].
        eapply resolve_snoc; [apply RM; eauto| |].
        -- try subst h'. rewrite get_cont_app_l by (rewrite length_set_cont; auto).
           apply get_cont_set_eq; auto.
        -- apply assoc_app_none; auto.
  - (* PGetEnter *) destruct SH as [_ [_ ->]]. exact I.
  - (* PGetRead *) destruct SH as [_ ->]. cbn [top tpc]. destruct p as [|k r]; cbn; auto.
    destruct (get_cont h t) as [| |cs]; cbn; auto. destruct (assoc k cs); cbn; auto.
  - (* PUnwind *) destruct hs as [|[n m] r0].
    + destruct SH as [_ ->]. cbn [top tpc]. destruct k as [r|n]; cbn; auto.
      destruct r; auto. destruct ok; auto. eapply leaf_at_mono; eauto.
    + destruct SH as [n' [m' [hs' [_ [_ ->]]]]]. cbn [top tpc after_lock].
      destruct k as [r|n0]; auto. destruct r; auto. destruct ok; auto. eapply leaf_at_mono; eauto.
  - destruct SH as [_ [_ ->]]. exact I.
  - destruct SH as [_ ->]. exact I.
  - destruct SH as [n' [m' [hs' [_ [_ ->]]]]]. cbn. destruct r; auto. destruct ok; auto.
    eapply leaf_at_mono; eauto.
  - destruct SH as [_ [_ ->]]. exact I.
  - destruct SH as [_ ->]. cbn [top tpc]. destruct (query_visits (get_cont h t) q); exact I.
  - destruct SH as [_ ->]. exact I.
  - destruct fr as [|[|[[c pre0] q0] todo] fr]; cbn in SH.
    + destruct SH as [_ ->]. exact I.
    + destruct SH as [n' [m' [hs' [_ [_ ->]]]]]. exact I.
    + destruct SH as [_ ->]. exact I.
Qed.

Definition AInv (s : state) : Prop :=
  Inv s /\ Forall (fun t => quiet_pc (tpc t) = true) (thr s) /\ Forall (add_ok (hp s)) (thr s).

Lemma AInv_step s i s' : AInv s -> step s i = Some s' -> AInv s'.
Proof.
  intros [I [Q A]] ST. pose proof (Inv_step _ _ _ _ I ST) as I'.
  split; [exact I'|]. unfold step, step_gen in ST.
  destruct (nth_error (thr s) i) as [t|] eqn:Et; [|discriminate].
  destruct (tstep_gen false (hp s) t) as [[h' t']|] eqn:Ets; [|discriminate]. inv ST. cbn [hp thr].
  destruct I as [HO [TO _]].
  pose proof (Forall_nth_error _ _ _ _ TO Et) as Tt.
  pose proof (Forall_nth_error _ _ _ _ Q Et) as Qt. cbn beta in Qt.
  pose proof (Forall_nth_error _ _ _ _ A Et) as At.
  pose proof (tstep_cont_mono _ _ _ _ _ Tt Qt Ets) as CM.
  split.
  - apply Forall_forall. intros t0 H0. apply In_set_nth in H0. destruct H0 as [->|H0].
    + eapply tstep_quiet; [exact Qt|exact Ets].
    + rewrite Forall_forall in Q. auto.
  - apply Forall_forall. intros t0 H0. apply In_set_nth in H0. destruct H0 as [->|H0].
    + eapply add_ok_step; eauto.
    + rewrite Forall_forall in A. eapply add_ok_mono; eauto.
Qed.

Lemma AInv_init ops : forallb quiet_op ops = true -> AInv (init_state ops).
Proof.
  intros Q. split; [apply Inv_init|]. rewrite forallb_forall in Q. cbn. split.
  - apply Forall_forall. intros t Ht. apply in_map_iff in Ht. destruct Ht as [o [<- Ho]]. cbn. auto.
  - apply Forall_forall. intros t Ht. apply in_map_iff in Ht. destruct Ht as [o [<- Ho]].
    unfold add_ok. cbn. destruct o; auto.
Qed.

Lemma reach_AInv ops s : forallb quiet_op ops = true -> reach ops s -> AInv s.
Proof. intros Q R. induction R; [apply AInv_init; auto|eapply AInv_step; eauto]. Qed.

(** the thread with index i always executes the i-th call of the program *)
Lemma reach_top ops s : reach ops s -> map top (thr s) = ops.
Proof.
  induction 1 as [|s i s' R IHreach H0].
  - cbn. rewrite map_map. cbn. apply map_id.
  - unfold step, step_gen in H0.
    destruct (nth_error (thr s) i) as [t|] eqn:Et; [|discriminate].
    destruct (tstep_gen false (hp s) t) as [[h' t']|] eqn:Ets; [|discriminate]. inv H0. cbn [thr].
    pose proof (tstep_shape _ _ _ _ _ Ets) as SH.
    assert (T : top t' = top t).
    { destruct (lockop_of t); repeat match goal with
                                     | H : _ /\ _ |- _ => destruct H
                                     | H : exists _, _ |- _ => destruct H
                                     end; subst; reflexivity. }
    clear - Et T. revert i Et.
    induction (thr s) as [|a l IH]; intros [|i] Et; cbn in *; try discriminate.
    + inv Et. rewrite T. reflexivity.
    + f_equal. eauto.
Qed.

(** Concurrent adds all survive: in any run of any set of Adds, lookups,
    queries and handle reads (no Delete, no Update through a handle), under
    every interleaving -- including any number of threads inside the
    reader->writer exchange window of the same node -- an Add that returned
    success has its path stored as a leaf in every later state. *)
Theorem concurrent_adds_survive ops s i t p v :
  forallb quiet_op ops = true -> reach ops s ->
  nth_error (thr s) i = Some t -> nth_error ops i = Some (CAdd p v) ->
  tpc t = PDone (XAdd true) -> leaf_at (hp s) p.
Proof.
  intros Q R Et Eo D. destruct (reach_AInv _ _ Q R) as [_ [_ A]].
  pose proof (Forall_nth_error _ _ _ _ A Et) as At.
  assert (T : top t = CAdd p v).
  { pose proof (reach_top _ _ R) as M. rewrite <- M in Eo.
    rewrite nth_error_map, Et in Eo. cbn in Eo. inv Eo. reflexivity. }
  unfold add_ok in At. rewrite T, D in At. exact At.
Qed.

(** the re-check after the lock exchange: no step of an Add ever replaces or
    removes a child that is already there (every stored path keeps resolving
    to the same node) *)
Theorem upgrade_recheck ops s i s' p n :
  forallb quiet_op ops = true -> reach ops s -> step s i = Some s' ->
  resolve (hp s) 0 p = Some n -> resolve (hp s') 0 p = Some n.
Proof.
  intros Q R ST E. destruct (reach_AInv _ _ Q R) as [[HO [TO _]] [Qs _]].
  unfold step, step_gen in ST.
  destruct (nth_error (thr s) i) as [t|] eqn:Et; [|discriminate].
  destruct (tstep_gen false (hp s) t) as [[h' t']|] eqn:Ets; [|discriminate]. inv ST. cbn [hp].
  eapply resolve_mono; [|exact E].
  eapply tstep_cont_mono; [| |exact Ets].
  - eapply Forall_nth_error; eauto.
  - apply (Forall_nth_error _ _ _ _ Qs Et).
Qed.

(** non-vacuity: four adders beneath a branch that does not exist yet, all
    parked in the exchange window of the root, then released one by one *)
Definition adds4 : list cop :=
  [CAdd ["a"; "b"; "x"]%string 1%Z; CAdd ["a"; "b"; "y"]%string 2%Z;
   CAdd ["a"; "c"]%string 3%Z; CAdd ["a"; "b"; "z"]%string 4%Z].

Definition adds4_sched : list nat :=
  (* each runs to add:upgrade at the root: PStart, RLock, read, RUnlock *)
  [0;0;0;0; 1;1;1;1; 2;2;2;2; 3;3;3;3] ++
  repeat 2 40 ++ repeat 0 40 ++ repeat 3 40 ++ repeat 1 40.

Example concurrent_adds_survive_example :
  let s := run_sched (init_state adds4) adds4_sched in
  map tpc (thr s) = [PDone (XAdd true); PDone (XAdd true); PDone (XAdd true); PDone (XAdd true)]
  /\ map (fun t => match tpc t with PAddUpg 0 _ _ _ => true | _ => false end)
         (thr (run_sched (init_state adds4) (firstn 16 adds4_sched))) = [true; true; true; true]
  /\ leaves_of (hp s)
     = [(["a"; "c"], 3); (["a"; "b"; "x"], 1); (["a"; "b"; "z"], 4); (["a"; "b"; "y"], 2)]%string%Z.
Proof. vm_compute. repeat split. Qed.


(** * The tree as of repo commit 3480f62: Delete locks every node it visits *)

(** programs of the current code (the pre-3480f62 Delete is [CDeleteUnlocked]) *)
Definition patched_op (o : cop) : bool :=
  match o with CDeleteUnlocked _ => false | _ => true end.

Definition patched_pc (p : pc) : bool :=
  match p with
  | PStart o => patched_op o
  | PDel _ | PDelAcq _ | PDelCrit _ => false
  | _ => true
  end.

Lemma tstep_patched b h t h' t' :
  patched_pc (tpc t) = true -> tstep_gen b h t = Some (h', t') -> patched_pc (tpc t') = true.
Proof.
  intros Q ST. pose proof (tstep_shape _ _ _ _ _ ST) as SH.
  destruct t as [o p hs]. cbn [tpc top held] in *.
  destruct (lockop_of (TH o p hs)) eqn:LO.
  - destruct SH as [_ ->]. cbn [tpc].
    destruct p; cbn -[Nat.ltb hdelete set_cont new_chain] in *; try discriminate; auto;
    repeat (first
              [ match goal with |- context [start_pc ?a ?b] => destruct b end
              | match goal with |- context [match get_cont ?a ?b with _ => _ end] => destruct (get_cont a b) end
              | match goal with |- context [match assoc ?a ?b with _ => _ end] => destruct (assoc a b) end
              | match goal with |- context [if Nat.ltb ?a ?b then _ else _] => destruct (Nat.ltb a b) end
              | match goal with |- context [if Nat.eqb ?a ?b then _ else _] => destruct (Nat.eqb a b) end
              | match goal with |- context [match query_visits ?a ?b with _ => _ end] => destruct (query_visits a b) end
              | match goal with |- context [if heads_all ?a then _ else _] => destruct (heads_all a) end
              | match goal with |- context [match strip_glob ?a with _ => _ end] => destruct (strip_glob a) end
              | match goal with |- context [match dtodo ?a with _ => _ end] => destruct (dtodo a) as [|[? ?] ?] end
              | match goal with |- context [match ?x with _ => _ end] => is_var x; destruct x end ];
            cbn -[Nat.ltb hdelete set_cont new_chain] in *; try discriminate; auto).
  - destruct SH as [_ [_ ->]]. cbn [tpc]. destruct p; cbn in *; try discriminate; auto; qfin.
  - destruct SH as [_ ->]. cbn [tpc]. destruct p; cbn in *; try discriminate; auto; qfin.
  - destruct SH as [_ [_ ->]]. cbn [tpc]. destruct p; cbn in *; try discriminate; auto; qfin.
  - destruct SH as [n [m [hs' [_ [_ ->]]]]]. cbn [tpc]. destruct p; cbn in *; try discriminate; auto; qfin.
Qed.

Lemma reach_patched ops s :
  forallb patched_op ops = true -> reach ops s ->
  Forall (fun t => patched_pc (tpc t) = true) (thr s).
Proof.
  intros Q R. induction R as [|s i s' R IH ST].
  - cbn. rewrite forallb_forall in Q. apply Forall_forall. intros t Ht.
    apply in_map_iff in Ht. destruct Ht as [o [<- Ho]]. cbn. auto.
  - unfold step, step_gen in ST.
    destruct (nth_error (thr s) i) as [t|] eqn:Et; [|discriminate].
    destruct (tstep_gen false (hp s) t) as [[h' t']|] eqn:Ets; [|discriminate]. inv ST. cbn [thr].
    apply Forall_forall. intros t0 H0. apply In_set_nth in H0. destruct H0 as [->|H0].
    + eapply tstep_patched; [|exact Ets]. apply (Forall_nth_error _ _ _ _ IH Et).
    + rewrite Forall_forall in IH. auto.
Qed.

(** no data race at all: in every reachable state of every program of the
    current code, no two threads stand at conflicting content accesses --
    leaf-handle operations against Delete included *)
Theorem no_data_race_patched ops s i j ti tj :
  forallb patched_op ops = true -> reach ops s -> i <> j ->
  nth_error (thr s) i = Some ti -> nth_error (thr s) j = Some tj ->
  race_between (hp s) ti tj = false.
Proof.
  intros Q R D Ei Ej. destruct (race_between (hp s) ti tj) eqn:RB; [exfalso|reflexivity].
  pose proof (reach_patched _ _ Q R) as PP.
  destruct (no_data_race ops s i j ti tj R D Ei Ej RB) as [[_ [q Pq]]|[_ [q Pq]]].
  - pose proof (Forall_nth_error _ _ _ _ PP Ej) as X. cbn in X. rewrite Pq in X. discriminate.
  - pose proof (Forall_nth_error _ _ _ _ PP Ei) as X. cbn in X. rewrite Pq in X. discriminate.
Qed.

(** whoever holds the root's write lock (a Delete from its first to its last
    critical section, an Add restructuring the root) excludes every other
    tree operation; only single-node handle operations can be under way *)
Theorem root_writer_excludes ops s i j ti tj :
  reach ops s -> i <> j ->
  nth_error (thr s) i = Some ti -> nth_error (thr s) j = Some tj ->
  In (0, MW) (held ti) ->
  (is_handle_pc (tpc tj) = false -> held tj = []) /\ (forall m, ~ In (0, m) (held tj)).
Proof.
  intros R D Ei Ej Hi. pose proof (reach_Inv _ _ R) as I. pose proof (reach_Excl _ _ R) as EX.
  destruct I as [HO [TO AC]].
  assert (NR : forall m, ~ In (0, m) (held tj)).
  { intros m Hm. eapply (excl_pair s i j ti tj 0 m); eauto. split; [|split]; auto. }
  split; [|exact NR]. intros NH.
  pose proof (Forall_nth_error _ _ _ _ TO Ej) as [Sj [_ Pj]].
  destruct (pc_rooted _ _ _ Sj Pj NH) as [Z|[m Z]]; [exact Z|]. exfalso. eapply NR; eauto.
Qed.

(** a Delete that has entered the tree holds the root's write lock until it returns *)
Definition in_delete (p : pc) : bool :=
  match p with
  | PLVisit _ _ _ | PLNext _ | PLEnter _ _ _ | PLCAcq _ _ _ | PLRet _ _ _ | PLBack _ _ _ => true
  | _ => false
  end.

Lemma dframes_all_mw hl hs fr : dframes_ok hl hs fr -> Forall (fun x => snd x = MW) hs.
Proof. induction 1 as [|x f hs fr [E _] _ IH]; constructor; auto. subst x. reflexivity. Qed.

Lemma in_delete_holds_root hl t :
  thread_ok hl t -> in_delete (tpc t) = true -> In (0, MW) (held t).
Proof.
  intros [_ [_ P]] D. destruct t as [o p hs]. cbn [tpc held] in *.
  assert (G : rooted hs -> hs <> [] -> Forall (fun x => snd x = MW) hs -> In (0, MW) hs).
  { intros [Z|[m Hm]] NE F; [contradiction|]. rewrite Forall_forall in F.
    specialize (F _ Hm). cbn in F. subst m. exact Hm. }
  destruct p; try discriminate; cbn in P.
  - destruct P as [[[r0 ->] R] F]. apply G; auto; [discriminate|].
    constructor; [reflexivity|]. eapply dframes_all_mw; eauto.
  - destruct P as [R [NE F]]. apply G; auto. eapply dframes_all_mw; eauto.
  - destruct P as [[_ [_ [_ R]]] [NE F]]. apply G; auto. eapply dframes_all_mw; eauto.
  - destruct P as [[_ [_ [_ R]]] [NE F]]. apply G; auto. eapply dframes_all_mw; eauto.
  - destruct P as [R [n [r0 [-> F]]]]. apply G; auto; [discriminate|].
    constructor; [reflexivity|]. eapply dframes_all_mw; eauto.
  - destruct P as [R [NE F]]. apply G; auto. eapply dframes_all_mw; eauto.
Qed.

Theorem delete_atomic_patched ops s i j ti tj :
  reach ops s -> i <> j ->
  nth_error (thr s) i = Some ti -> nth_error (thr s) j = Some tj ->
  in_delete (tpc ti) = true ->
  (is_handle_pc (tpc tj) = false -> held tj = []) /\ (forall m, ~ In (0, m) (held tj)).
Proof.
  intros R D Ei Ej P. eapply root_writer_excludes; eauto.
  destruct (reach_Inv _ _ R) as [_ [TO _]].
  eapply in_delete_holds_root; [eapply Forall_nth_error; eauto|exact P].
Qed.

(** a call that has returned -- normally, with an error of its own, or with the
    error of a failing VisitFunc -- holds no lock *)
Theorem returned_holds_nothing ops s i t :
  reach ops s -> nth_error (thr s) i = Some t -> is_done (tpc t) = true -> held t = [].
Proof.
  intros R E D. destruct (reach_Inv _ _ R) as [_ [TO _]].
  destruct (Forall_nth_error _ _ _ _ TO E) as [_ [_ P]].
  destruct (tpc t); try discriminate. exact P.
Qed.

(** the error of a failing visitor does abort the query in the model (non-vacuity) *)
Example failing_visitor_example :
  let ops := [CAdd ["a"; "b"]%string 1%Z; CQuery ["a"; "b"]%string (Some 0); CDelete ["a"]%string] in
  let s := run_sched (init_state ops) (repeat 0 40 ++ repeat 1 40 ++ repeat 2 60) in
  map (fun t => (tpc t, held t)) (thr s)
  = [(PDone (XAdd true), []); (PDone (XFail [(["a"; "b"]%string, 1%Z)]), []);
     (PDone (XPaths [["a"; "b"]%string]), [])].
Proof. vm_compute. reflexivity. Qed.

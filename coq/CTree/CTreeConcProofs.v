(** Proofs about the concurrent model of ctree (CTreeConc.v): invariants of
    every reachable state, for every set of API calls and every schedule. *)
From Gnmi Require Import Base.Prelude CTree.CTreeModel CTree.CTreeConc.
From Coq Require Import Arith Lia.
Open Scope nat_scope.

(** * Generic definitions (kept here: Base/Lts.v is not depended upon) *)

(** states reachable from the initial state of a program (one API call per
    thread) under any schedule *)
Inductive reach (ops : list cop) : state -> Prop :=
| reach_init : reach ops (init_state ops)
| reach_step s i s' : reach ops s -> step s i = Some s' -> reach ops s'.

Lemma reach_run_sched ops sch : reach ops (run_sched (init_state ops) sch).
Proof.
  assert (G : forall s, reach ops s -> reach ops (run_sched s sch)).
  { induction sch as [|i sch IH]; intros s R; cbn; [exact R|].
    destruct (step s i) eqn:E; [apply IH; econstructor; eauto|apply IH; exact R]. }
  apply G. constructor.
Qed.

(** * Lists *)

Lemma nth_error_set_nth_eq {A} (l : list A) i x y :
  nth_error l i = Some y -> nth_error (set_nth l i x) i = Some x.
Proof.
  revert i; induction l as [|a l IH]; intros [|i]; cbn; try discriminate; auto.
Qed.

Lemma nth_error_set_nth_neq {A} (l : list A) i j x :
  i <> j -> nth_error (set_nth l i x) j = nth_error l j.
Proof.
  revert i j; induction l as [|a l IH]; intros [|i] [|j] H; cbn; auto; try lia.
Qed.

Lemma length_set_nth {A} (l : list A) i x : List.length (set_nth l i x) = List.length l.
Proof. revert i; induction l as [|a l IH]; intros [|i]; cbn; auto. Qed.

Lemma In_set_nth {A} (l : list A) i x y :
  In y (set_nth l i x) -> y = x \/ In y l.
Proof.
  revert i; induction l as [|a l IH]; intros [|i]; cbn; auto.
  - intros [H|H]; auto.
  - intros [H|H]; auto. destruct (IH _ H); auto.
Qed.

(** * Heap primitives *)

Lemma length_upd_node h n f : List.length (upd_node h n f) = List.length h.
Proof. revert n; induction h as [|x h IH]; intros [|n]; cbn; auto. Qed.

Lemma nth_upd_node_eq h n f x :
  nth_error h n = Some x -> nth_error (upd_node h n f) n = Some (f x).
Proof.
  revert n; induction h as [|a h IH]; intros [|n]; cbn; try discriminate.
  - intros E; inversion E; auto.
  - apply IH.
Qed.

Lemma nth_upd_node_neq h n m f : n <> m -> nth_error (upd_node h n f) m = nth_error h m.
Proof.
  revert n m; induction h as [|a h IH]; intros [|n] [|m] H; cbn; auto; try lia.
Qed.

Lemma nth_upd_node_none h n f m :
  nth_error h m = None -> nth_error (upd_node h n f) m = None.
Proof.
  intros H. apply nth_error_None. rewrite length_upd_node. apply nth_error_None. exact H.
Qed.

Lemma length_set_cont h n c : List.length (set_cont h n c) = List.length h.
Proof. apply length_upd_node. Qed.

Lemma get_cont_set_eq h n c : n < List.length h -> get_cont (set_cont h n c) n = c.
Proof.
  intros L. unfold get_cont, set_cont.
  destruct (nth_error h n) as [x|] eqn:E.
  - erewrite nth_upd_node_eq by eauto. reflexivity.
  - apply nth_error_None in E. lia.
Qed.

Lemma get_cont_set_neq h n m c : n <> m -> get_cont (set_cont h n c) m = get_cont h m.
Proof. intros H. unfold get_cont, set_cont. rewrite nth_upd_node_neq by auto. reflexivity. Qed.

Lemma get_cont_app_l h h2 n : n < List.length h -> get_cont (h ++ h2) n = get_cont h n.
Proof. intros L. unfold get_cont. rewrite nth_error_app1 by auto. reflexivity. Qed.

Lemma get_cont_oob h n : List.length h <= n -> get_cont h n = CNil.
Proof. intros L. unfold get_cont. apply nth_error_None in L. rewrite L. reflexivity. Qed.

(** the mutex part of a node *)
Definition mu_of (x : hnode) : nat * bool * nat := (rd x, wr x, pw x).

Definition same_mu (h h' : heap) : Prop :=
  forall n x, nth_error h n = Some x ->
              exists x', nth_error h' n = Some x' /\ mu_of x' = mu_of x.

Lemma same_mu_refl h : same_mu h h.
Proof. intros n x E. eauto. Qed.

Lemma same_mu_trans a b c : same_mu a b -> same_mu b c -> same_mu a c.
Proof.
  intros H1 H2 n x E. destruct (H1 _ _ E) as [y [Ey My]].
  destruct (H2 _ _ Ey) as [z [Ez Mz]]. exists z. split; auto. congruence.
Qed.

Lemma same_mu_set_cont h n c : same_mu h (set_cont h n c).
Proof.
  intros m x E. unfold set_cont. destruct (Nat.eq_dec n m) as [->|D].
  - erewrite nth_upd_node_eq by eauto. eexists; split; eauto.
  - rewrite nth_upd_node_neq by auto. eauto.
Qed.

Lemma same_mu_app h h2 : same_mu h (h ++ h2).
Proof.
  intros m x E. exists x. split; auto. rewrite nth_error_app1; auto.
  apply nth_error_Some. congruence.
Qed.

(** * Delete on the heap only shrinks child lists *)

(** [h'] has the same nodes and mutexes as [h]; every node's content is
    unchanged, or a branch whose children are a sub-list of the old ones, or
    (root only) cleared. *)
Definition shrinks (h h' : heap) : Prop :=
  List.length h' = List.length h /\ same_mu h h' /\
  forall n, get_cont h' n = get_cont h n \/
            get_cont h' n = CNil \/
            exists cs cs', get_cont h n = CBranch cs /\ get_cont h' n = CBranch cs' /\ incl cs' cs.

Lemma shrinks_refl h : shrinks h h.
Proof. split; [auto|split; [apply same_mu_refl|auto]]. Qed.

Lemma shrinks_trans a b c : shrinks a b -> shrinks b c -> shrinks a c.
Proof.
  intros [L1 [M1 C1]] [L2 [M2 C2]]. split; [congruence|]. split; [eapply same_mu_trans; eauto|].
  intros n. destruct (C2 n) as [E2|[E2|[cs [cs' [E2 [E2' I2]]]]]].
  - rewrite E2. apply C1.
  - auto.
  - destruct (C1 n) as [E1|[E1|[ds [ds' [E1 [E1' I1]]]]]].
    + right; right. exists cs, cs'. rewrite <- E1. auto.
    + rewrite E1 in E2. discriminate.
    + right; right. rewrite E1' in E2. inversion E2; subst.
      exists ds, cs'. repeat split; auto. eapply incl_tran; eauto.
Qed.

Lemma shrinks_then_set h h' n cs cs' :
  shrinks h h' -> get_cont h n = CBranch cs -> incl cs' cs ->
  shrinks h (set_cont h' n (CBranch cs')).
Proof.
  intros [L [M C]] E I.
  assert (Ln : n < List.length h).
  { destruct (Nat.lt_ge_cases n (List.length h)); auto. rewrite get_cont_oob in E by auto. discriminate. }
  split; [rewrite length_set_cont; auto|].
  split; [eapply same_mu_trans; [exact M|apply same_mu_set_cont]|].
  intros m. destruct (Nat.eq_dec n m) as [<-|D].
  - right; right. exists cs, cs'. rewrite get_cont_set_eq by lia. auto.
  - rewrite get_cont_set_neq by auto. apply C.
Qed.

Lemma shrinks_then_nil h h' n : shrinks h h' -> shrinks h (set_cont h' n CNil).
Proof.
  intros [L [M C]].
  split; [rewrite length_set_cont; auto|].
  split; [eapply same_mu_trans; [exact M|apply same_mu_set_cont]|].
  intros m. destruct (Nat.eq_dec n m) as [<-|D].
  - destruct (Nat.lt_ge_cases n (List.length h')) as [Ln|Ln].
    + right; left. apply get_cont_set_eq; auto.
    + rewrite get_cont_oob by (rewrite length_set_cont; auto).
      left. rewrite get_cont_oob; auto. lia.
  - rewrite get_cont_set_neq by auto. apply C.
Qed.

Lemma incl_adel {A} k (l : list (string * A)) : incl (adel k l) l.
Proof.
  induction l as [|kc l IH]; cbn; [apply incl_refl|].
  destruct (String.eqb k (fst kc)).
  - apply incl_tl, incl_refl.
  - intros x [H|H]; [left; auto|right; apply IH; auto].
Qed.

Lemma hdel_shrinks fuel : forall h n q, shrinks h (fst (fst (hdel fuel h n q))).
Proof.
  induction fuel as [|f IH]; intros h n q; cbn; [apply shrinks_refl|].
  destruct (heads_all q).
  - destruct (get_cont h n) as [|v|cs] eqn:E; cbn; try apply shrinks_refl.
    + destruct (strip_glob q); cbn; apply shrinks_refl.
    + set (F := fun (acc : heap * list (string * nat) * list path) (kc : string * nat) =>
                  let r := hdel f (fst (fst acc)) (snd kc) (strip_glob q) in
                  (fst (fst r),
                   if snd (fst r) then snd (fst acc) else snd (fst acc) ++ [kc],
                   snd acc ++ map (cons (fst kc)) (snd r))).
      assert (G : forall l acc,
                 shrinks h (fst (fst acc)) -> incl (snd (fst acc)) cs -> incl l cs ->
                 shrinks h (fst (fst (fold_left F l acc))) /\
                 incl (snd (fst (fold_left F l acc))) cs).
      { induction l as [|kc l IHl]; intros acc S I Il; cbn; [auto|].
        apply IHl.
        - unfold F; cbn. eapply shrinks_trans; [exact S|apply IH].
        - unfold F; cbn. destruct (snd (fst (hdel f (fst (fst acc)) (snd kc) (strip_glob q)))); auto.
          apply incl_app; auto. intros x [<-|[]]. apply Il. left; auto.
        - intros x Hx. apply Il. right; auto. }
      destruct (G cs (h, [], [])) as [S I]; cbn; auto using shrinks_refl, incl_refl.
      { intros x []. }
      eapply shrinks_then_set; eauto.
  - destruct q as [|k r]; cbn; [apply shrinks_refl|].
    destruct (get_cont h n) as [|v|cs] eqn:E; cbn; try apply shrinks_refl.
    destruct (assoc k cs) as [c|] eqn:A; cbn; [|apply shrinks_refl].
    eapply shrinks_then_set; [apply IH|exact E|].
    destruct (snd (fst (hdel f h c r))); [apply incl_adel|apply incl_refl].
Qed.

Lemma hdelete_shrinks h q : shrinks h (fst (hdelete h q)).
Proof.
  unfold hdelete.
  pose proof (hdel_shrinks (S (List.length h)) h 0 q) as Hs.
  destruct (hdel (S (List.length h)) h 0 q) as [[h' d] ls]. cbn [fst snd] in *.
  destruct d.
  - apply shrinks_then_nil. exact Hs.
  - exact Hs.
Qed.

(** * Invariants *)

(** every child id is larger than its parent's and names an existing node *)
Definition heap_ok (h : heap) : Prop :=
  0 < List.length h /\
  forall n cs, get_cont h n = CBranch cs ->
               Forall (fun kc : string * nat => n < snd kc /\ snd kc < List.length h) cs.

Definition ids_lt (hs : list (nat * lmode)) (n : nat) : Prop := Forall (fun x => fst x < n) hs.

(** the held locks, most recent first, have strictly decreasing node ids *)
Fixpoint sorted_desc (hs : list (nat * lmode)) : Prop :=
  match hs with
  | [] => True
  | x :: r => ids_lt r (fst x) /\ sorted_desc r
  end.

(** lock coupling: whoever holds anything holds the root *)
Definition rooted (hs : list (nat * lmode)) : Prop := hs = [] \/ exists m, In (0, m) hs.

(** about to lock node [n] *)
Definition waiting (hl : nat) (hs : list (nat * lmode)) (n : nat) : Prop :=
  n < hl /\ ids_lt hs n /\ (hs = [] -> n = 0) /\ rooted hs.

(** inside a critical section on node [n] *)
Definition inside (hs : list (nat * lmode)) (n : nat) (m : lmode) : Prop :=
  (exists r, hs = (n, m) :: r) /\ rooted hs.

Definition frames_ok (hl : nat) (hs : list (nat * lmode)) (fr : list (list qitem)) : Prop :=
  Forall2 (fun x (items : list qitem) =>
             Forall (fun it : qitem => fst x < fst (fst it) /\ fst (fst it) < hl) items) hs fr.

Definition pc_ok (hl : nat) (hs : list (nat * lmode)) (p : pc) : Prop :=
  match p with
  | PStart _ | PDone _ => hs = []
  | PAddEnter t0 _ _ | PAddTAcq t0 _ | PAddUpg t0 _ _ _ | PAddUAcq t0 _ _ _
  | PGetEnter t0 _ => waiting hl hs t0
  | PAddTCrit t0 _ | PAddSlow t0 _ _ _ => inside hs t0 MW
  | PAddIRead t0 _ _ _ | PAddIRel t0 _ _ _ | PGetRead t0 _ => inside hs t0 MR
  | PUnwind k => rooted hs /\ match k with UVal n => n < hl | UDone _ => True end
  | PHVal n | PHUpd n _ | PHUpdAcq n _ => hs = [] /\ n < hl
  | PHValRead n => hs = [(n, MR)]
  | PHUpdWrite n _ => hs = [(n, MW)]
  | PHRel _ => exists n m, hs = [(n, m)]
  | PDel _ | PDelAcq _ => hs = []
  | PDelCrit _ => hs = [(0, MW)]
  | PQEnter t0 _ _ _ fr => waiting hl hs t0 /\ frames_ok hl hs fr
  | PQRead t0 _ _ _ fr => inside hs t0 MR /\ frames_ok hl (tl hs) fr
  | PQVisit _ _ _ fr | PQNext _ fr => rooted hs /\ frames_ok hl hs fr
  end.

Definition thread_ok (hl : nat) (t : thread) : Prop :=
  sorted_desc (held t) /\ ids_lt (held t) hl /\ pc_ok hl (held t) (tpc t).

Lemma ids_lt_mono hs n m : ids_lt hs n -> n <= m -> ids_lt hs m.
Proof. unfold ids_lt. intros H L. eapply Forall_impl; [|exact H]. cbn. intros; lia. Qed.

Lemma rooted_tail x hs : sorted_desc (x :: hs) -> rooted (x :: hs) -> rooted hs.
Proof.
  intros [L _] [E|[m [E|I]]]; [discriminate| |right; eauto].
  destruct hs as [|y r]; [left; auto|].
  exfalso. subst x. inversion L; subst. cbn in *. lia.
Qed.

Lemma rooted_push hl hs n m : waiting hl hs n -> rooted ((n, m) :: hs).
Proof.
  intros [_ [_ [Z [E|[m' I]]]]]; right.
  - rewrite (Z E). exists m. left; auto.
  - exists m'. right; auto.
Qed.

Lemma rooted_single n m : rooted [(n, m)] -> n = 0.
Proof. intros [E|[m' [E|[]]]]; [discriminate|]. inversion E; auto. Qed.

Lemma frames_ok_mono hl hl' hs fr : hl <= hl' -> frames_ok hl hs fr -> frames_ok hl' hs fr.
Proof.
  intros L H. induction H; constructor; auto.
  eapply Forall_impl; [|eassumption]. cbn. intros; lia.
Qed.

Lemma waiting_mono hl hl' hs n : hl <= hl' -> waiting hl hs n -> waiting hl' hs n.
Proof. intros L [A B]. split; [lia|auto]. Qed.

Lemma pc_ok_mono hl hl' hs p : hl <= hl' -> pc_ok hl hs p -> pc_ok hl' hs p.
Proof.
  intros L. destruct p; cbn; auto; intros H;
    repeat match goal with
           | H : _ /\ _ |- _ => destruct H
           | |- _ /\ _ => split
           | k : ucont |- _ => destruct k
           end; eauto using waiting_mono, frames_ok_mono; try lia.
Qed.

Lemma thread_ok_mono hl hl' t : hl <= hl' -> thread_ok hl t -> thread_ok hl' t.
Proof.
  intros L [S [I P]]. split; [auto|]. split; [eapply ids_lt_mono; eauto|eapply pc_ok_mono; eauto].
Qed.

(** ** heap_ok is preserved by every heap update the model makes *)

Lemma get_cont_upd_mu h n f m :
  (forall x, cont (f x) = cont x) -> get_cont (upd_node h n f) m = get_cont h m.
Proof.
  intros Hf. unfold get_cont. destruct (Nat.eq_dec n m) as [->|D].
  - destruct (nth_error h m) as [x|] eqn:E.
    + erewrite nth_upd_node_eq by eauto. apply Hf.
    + rewrite nth_upd_node_none; auto.
  - rewrite nth_upd_node_neq; auto.
Qed.

Lemma heap_ok_upd_mu h n f :
  (forall x, cont (f x) = cont x) -> heap_ok h -> heap_ok (upd_node h n f).
Proof.
  intros Hf [L H]. split; [rewrite length_upd_node; auto|].
  intros m cs E. rewrite get_cont_upd_mu in E by auto. rewrite length_upd_node. eauto.
Qed.

Lemma heap_ok_rlock h n : heap_ok h -> heap_ok (do_rlock h n).
Proof. apply heap_ok_upd_mu. auto. Qed.
Lemma heap_ok_req h n : heap_ok h -> heap_ok (do_req h n).
Proof. apply heap_ok_upd_mu. auto. Qed.
Lemma heap_ok_acq h n : heap_ok h -> heap_ok (do_acq h n).
Proof. apply heap_ok_upd_mu. auto. Qed.
Lemma heap_ok_rel h n m : heap_ok h -> heap_ok (do_rel h n m).
Proof. destruct m; apply heap_ok_upd_mu; auto. Qed.

Lemma length_do_rlock h n : List.length (do_rlock h n) = List.length h.
Proof. apply length_upd_node. Qed.
Lemma length_do_req h n : List.length (do_req h n) = List.length h.
Proof. apply length_upd_node. Qed.
Lemma length_do_acq h n : List.length (do_acq h n) = List.length h.
Proof. apply length_upd_node. Qed.
Lemma length_do_rel h n m : List.length (do_rel h n m) = List.length h.
Proof. destruct m; apply length_upd_node. Qed.

Lemma heap_ok_shrinks h h' : heap_ok h -> shrinks h h' -> heap_ok h'.
Proof.
  intros [L H] [Ln [_ C]]. split; [lia|]. intros n cs E. rewrite Ln.
  destruct (C n) as [E1|[E1|[ds [ds' [E1 [E1' I]]]]]].
  - rewrite E1 in E. eauto.
  - rewrite E1 in E; discriminate.
  - rewrite E1' in E. inversion E; subst ds'. specialize (H _ _ E1).
    rewrite Forall_forall in *. intros x Hx. apply H. apply I. exact Hx.
Qed.

Lemma heap_ok_set_leaf h n v : heap_ok h -> heap_ok (set_cont h n (CLeaf v)).
Proof.
  intros [L H]. split; [rewrite length_set_cont; auto|].
  intros m cs E. rewrite length_set_cont. destruct (Nat.eq_dec n m) as [->|D].
  - destruct (Nat.lt_ge_cases m (List.length h)).
    + rewrite get_cont_set_eq in E by auto. discriminate.
    + rewrite get_cont_oob in E by (rewrite length_set_cont; auto). discriminate.
  - rewrite get_cont_set_neq in E by auto. eauto.
Qed.

Lemma length_new_chain base r v : List.length (new_chain base r v) = S (List.length r).
Proof. revert base; induction r as [|k r IH]; intros base; cbn; auto. Qed.

Lemma new_chain_branch r : forall base v i cs,
  get_cont (new_chain base r v) i = CBranch cs ->
  exists k, cs = [(k, S (base + i))] /\ S i < List.length (new_chain base r v).
Proof.
  induction r as [|k r IH]; intros base v i cs E.
  - destruct i as [|[|i]]; cbn in E; discriminate.
  - destruct i as [|i].
    + cbn in E. inversion E; subst. exists k. split; [f_equal; f_equal; lia|].
      cbn. rewrite length_new_chain. lia.
    + change (get_cont (new_chain (S base) r v) i = CBranch cs) in E.
      destruct (IH _ _ _ _ E) as [k' [-> L]]. exists k'. split; [f_equal; f_equal; lia|].
      cbn. lia.
Qed.

Lemma heap_ok_alloc h t0 cs0 k r v :
  heap_ok h -> t0 < List.length h ->
  Forall (fun kc : string * nat => t0 < snd kc /\ snd kc < List.length h) cs0 ->
  heap_ok (set_cont h t0 (CBranch (cs0 ++ [(k, List.length h)])) ++ new_chain (List.length h) r v).
Proof.
  intros [L H] Lt F.
  assert (LL : List.length (set_cont h t0 (CBranch (cs0 ++ [(k, List.length h)]))
                            ++ new_chain (List.length h) r v)
               = List.length h + S (List.length r)).
  { rewrite app_length, length_set_cont, length_new_chain. auto. }
  split; [lia|]. intros n cs E. rewrite LL.
  destruct (Nat.lt_ge_cases n (List.length h)) as [Ln|Ln].
  - rewrite get_cont_app_l in E by (rewrite length_set_cont; auto).
    destruct (Nat.eq_dec t0 n) as [->|D].
    + rewrite get_cont_set_eq in E by auto. inversion E; subst cs.
      apply Forall_app. split.
      * eapply Forall_impl; [|exact F]. cbn. intros; lia.
      * constructor; [cbn; lia|constructor].
    + rewrite get_cont_set_neq in E by auto. specialize (H _ _ E).
      eapply Forall_impl; [|exact H]. cbn. intros; lia.
  - unfold get_cont in E. rewrite nth_error_app2 in E by (rewrite length_set_cont; auto).
    rewrite length_set_cont in E.
    change (get_cont (new_chain (List.length h) r v) (n - List.length h) = CBranch cs) in E.
    destruct (new_chain_branch _ _ _ _ _ E) as [k' [-> L']]. rewrite length_new_chain in L'.
    constructor; [cbn; lia|constructor].
Qed.

(** ** one step of a thread preserves the invariants *)

Ltac inv H := inversion H; subst; clear H.

Lemma mk_thread_ok hl o p hs :
  sorted_desc hs -> ids_lt hs hl -> pc_ok hl hs p -> thread_ok hl (TH o p hs).
Proof. intros; split; [|split]; auto. Qed.

Lemma sorted_push hl hs n m : sorted_desc hs -> waiting hl hs n -> sorted_desc ((n, m) :: hs).
Proof. intros S [_ [I _]]. cbn. auto. Qed.

Lemma ids_push hl hs n (m : lmode) : ids_lt hs hl -> n < hl -> ids_lt ((n, m) :: hs) hl.
Proof. intros. constructor; auto. Qed.

Lemma inside_push hl hs n m : waiting hl hs n -> inside ((n, m) :: hs) n m.
Proof. intros W. split; [eexists; eauto|eapply rooted_push; eauto]. Qed.

Lemma waiting_lt hl hs n : waiting hl hs n -> n < hl.
Proof. intros [A _]; auto. Qed.

(** a child read under the lock of the top-most held node can be locked next *)
Lemma waiting_child h hs t0 m cs k c :
  heap_ok h -> sorted_desc hs -> inside hs t0 m ->
  get_cont h t0 = CBranch cs -> assoc k cs = Some c ->
  waiting (List.length h) hs c.
Proof.
  intros [_ HO] S [[r ->] R] E A. specialize (HO _ _ E). rewrite Forall_forall in HO.
  destruct (HO _ (assoc_In _ _ _ A)) as [L1 L2]. cbn in *.
  split; [auto|]. split.
  - constructor; [cbn; lia|]. destruct S as [I _]. eapply ids_lt_mono; [exact I|lia].
  - split; [discriminate|exact R].
Qed.

Lemma waiting_pop hl t0 m r :
  sorted_desc ((t0, m) :: r) -> ids_lt ((t0, m) :: r) hl -> rooted ((t0, m) :: r) ->
  waiting hl r t0.
Proof.
  intros S I R. split; [inv I; auto|]. split; [destruct S; auto|]. split.
  - intros ->. eapply rooted_single; eauto.
  - eapply rooted_tail; eauto.
Qed.

Lemma frames_items_ok h hs t0 r0 c pre q :
  heap_ok h -> hs = (t0, MR) :: r0 ->
  Forall (fun it : qitem => t0 < fst (fst it) /\ fst (fst it) < List.length h)
         (query_items c pre q) \/ True.
Proof. auto. Qed.

Lemma query_items_ok h t0 pre q :
  heap_ok h ->
  Forall (fun it : qitem => t0 < fst (fst it) /\ fst (fst it) < List.length h)
         (query_items (get_cont h t0) pre q).
Proof.
  intros [_ HO]. unfold query_items.
  destruct (get_cont h t0) as [|v|cs] eqn:E.
  - destruct q as [|k r]; [constructor|]. destruct (is_glob k); constructor.
  - destruct q as [|k r]; [constructor|]. destruct (is_glob k); constructor.
  - specialize (HO _ _ E).
    assert (G : forall r', Forall (fun it : qitem => t0 < fst (fst it) /\ fst (fst it) < List.length h)
                            (map (fun kc : string * nat => (snd kc, pre ++ [fst kc], r')) cs)).
    { intros r'. apply Forall_map. eapply Forall_impl; [|exact HO]. cbn. auto. }
    destruct q as [|k r]; [apply G|]. destruct (is_glob k); [apply G|].
    destruct (assoc k cs) as [c|] eqn:A; [|constructor].
    rewrite Forall_forall in HO. specialize (HO _ (assoc_In _ _ _ A)). cbn in HO.
    constructor; [cbn; auto|constructor].
Qed.

Local Arguments do_rel : simpl never.
Local Arguments do_rlock : simpl never.
Local Arguments do_req : simpl never.
Local Arguments do_acq : simpl never.
Local Arguments set_cont : simpl never.
Local Arguments hdelete : simpl never.
Local Arguments new_chain : simpl never.

Lemma waiting_root hl : 0 < hl -> waiting hl [] 0.
Proof. intros L. split; [auto|]. split; [constructor|]. split; [auto|left; auto]. Qed.

Lemma tstep_ok b h t h' t' :
  heap_ok h -> thread_ok (List.length h) t -> tstep_gen b h t = Some (h', t') ->
  heap_ok h' /\ List.length h <= List.length h' /\ thread_ok (List.length h') t'.
Proof.
  intros HO [SO [IL PO]] ST. destruct t as [o p hs]. unfold tstep_gen in ST. cbn [tpc held top] in *.
  destruct p; cbn -[hdelete hdel do_rel do_rlock do_req do_acq set_cont new_chain can_rlock can_lock] in ST;
    try discriminate.
  - (* PStart *) inv ST. cbn in PO. subst hs. split; [auto|]. split; [auto|].
    destruct HO as [L0 _].
    apply mk_thread_ok; [exact I|constructor|].
    destruct o0; cbn [start_pc].
    + apply waiting_root; auto.
    + apply waiting_root; auto.
    + split; [apply waiting_root; auto|constructor].
    + reflexivity.
    + destruct (Nat.ltb_spec n (List.length h')); cbn; auto.
    + destruct (Nat.ltb_spec n (List.length h')); cbn; auto.
  - (* PAddEnter *) cbn in PO. destruct p as [|k r]; cbn in ST.
    + inv ST. rewrite length_do_req. split; [apply heap_ok_req; auto|]. split; [auto|].
      apply mk_thread_ok; auto.
    + destruct (can_rlock b h t); [|discriminate]. inv ST. rewrite length_do_rlock.
      split; [apply heap_ok_rlock; auto|]. split; [auto|].
      apply mk_thread_ok; [eapply sorted_push; eauto|eapply ids_push; eauto using waiting_lt|].
      cbn. eapply inside_push; eauto.
  - (* PAddTAcq *) cbn in PO. destruct (can_lock h t); [|discriminate]. inv ST. rewrite length_do_acq.
    split; [apply heap_ok_acq; auto|]. split; [auto|].
    apply mk_thread_ok; [eapply sorted_push; eauto|eapply ids_push; eauto using waiting_lt|].
    cbn. eapply inside_push; eauto.
  - (* PAddTCrit *) cbn in PO. inv ST. destruct PO as [[r ->] R].
    destruct (get_cont h t); cbn.
    + rewrite length_set_cont. split; [apply heap_ok_set_leaf; auto|]. split; [auto|].
      apply mk_thread_ok; cbn; auto.
    + rewrite length_set_cont. split; [apply heap_ok_set_leaf; auto|]. split; [auto|].
      apply mk_thread_ok; cbn; auto.
    + split; [auto|]. split; [auto|]. apply mk_thread_ok; cbn; auto.
  - (* PAddIRead *) cbn in PO. inv ST.
    destruct (get_cont h t) as [|v0|cs] eqn:E; cbn.
    + split; [auto|]. split; [auto|]. apply mk_thread_ok; cbn; auto.
    + split; [auto|]. split; [auto|]. apply mk_thread_ok; cbn; auto. split; [apply PO|auto].
    + destruct (assoc k cs) as [c|] eqn:A; cbn.
      * split; [auto|]. split; [auto|]. apply mk_thread_ok; cbn; auto. eapply waiting_child; eauto.
      * split; [auto|]. split; [auto|]. apply mk_thread_ok; cbn; auto.
  - (* PAddIRel *) cbn in PO. destruct PO as [[r0 ->] R]. inv ST. rewrite length_do_rel.
    split; [apply heap_ok_rel; auto|]. split; [auto|].
    apply mk_thread_ok; [destruct SO; auto|inv IL; auto|].
    cbn. eapply waiting_pop; eauto.
  - (* PAddUpg *) cbn in PO. inv ST. rewrite length_do_req. split; [apply heap_ok_req; auto|].
    split; [auto|]. apply mk_thread_ok; cbn; auto.
  - (* PAddUAcq *) cbn in PO. destruct (can_lock h t); [|discriminate]. inv ST. rewrite length_do_acq.
    split; [apply heap_ok_acq; auto|]. split; [auto|].
    apply mk_thread_ok; [eapply sorted_push; eauto|eapply ids_push; eauto using waiting_lt|].
    cbn. eapply inside_push; eauto.
  - (* PAddSlow *) cbn in PO. inv ST.
    assert (Lt : t < List.length h).
    { destruct PO as [[r0 ->] _]. inv IL. auto. }
    destruct (get_cont h t) as [|v0|cs] eqn:E; cbn.
    + pose proof (heap_ok_alloc h t [] k r v HO Lt (Forall_nil _)) as HA. cbn [app] in HA.
      split; [exact HA|].
      rewrite app_length, length_set_cont, length_new_chain.
      split; [lia|]. apply mk_thread_ok; [auto|eapply ids_lt_mono; eauto; lia|].
      cbn. destruct PO as [[r0 ->] R]. split; [lia|]. split; [eapply ids_lt_mono; eauto; lia|].
      split; [discriminate|exact R].
    + split; [auto|]. split; [auto|]. apply mk_thread_ok; cbn; auto. split; [apply PO|auto].
    + destruct (assoc k cs) as [c|] eqn:A; cbn.
      * split; [auto|]. split; [auto|]. apply mk_thread_ok; cbn; auto. eapply waiting_child; eauto.
      * destruct HO as [L0 HO']. pose proof (HO' _ _ E) as F.
        pose proof (heap_ok_alloc h t cs k r v (conj L0 HO') Lt F) as HA.
        split; [exact HA|].
        rewrite app_length, length_set_cont, length_new_chain.
        split; [lia|]. apply mk_thread_ok; [auto|eapply ids_lt_mono; eauto; lia|].
        cbn. destruct PO as [[r0 ->] R]. split; [lia|]. split; [eapply ids_lt_mono; eauto; lia|].
        split; [discriminate|exact R].
  - (* PGetEnter *) cbn in PO. destruct (can_rlock b h t); [|discriminate]. inv ST. rewrite length_do_rlock.
    split; [apply heap_ok_rlock; auto|]. split; [auto|].
    apply mk_thread_ok; [eapply sorted_push; eauto|eapply ids_push; eauto using waiting_lt|].
    cbn. eapply inside_push; eauto.
  - (* PGetRead *) cbn in PO. inv ST. destruct p as [|k r]; cbn.
    + split; [auto|]. split; [auto|]. apply mk_thread_ok; cbn; auto. split; [apply PO|].
      destruct PO as [[r0 ->] _]. inv IL. auto.
    + destruct (get_cont h t) as [|v0|cs] eqn:E; cbn.
      * split; [auto|]. split; [auto|]. apply mk_thread_ok; cbn; auto. split; [apply PO|auto].
      * split; [auto|]. split; [auto|]. apply mk_thread_ok; cbn; auto. split; [apply PO|auto].
      * destruct (assoc k cs) as [c|] eqn:A; cbn.
        -- split; [auto|]. split; [auto|]. apply mk_thread_ok; cbn; auto. eapply waiting_child; eauto.
        -- split; [auto|]. split; [auto|]. apply mk_thread_ok; cbn; auto. split; [apply PO|auto].
  - (* PUnwind *) cbn in PO. destruct PO as [R K]. destruct hs as [|[n m] r].
    + destruct k; cbn in ST; inv ST; (split; [auto|]; split; [auto|]; apply mk_thread_ok; cbn; auto).
    + inv ST. rewrite length_do_rel. split; [apply heap_ok_rel; auto|]. split; [auto|].
      apply mk_thread_ok; [destruct SO; auto|inv IL; auto|]. cbn. split; [eapply rooted_tail; eauto|auto].
  - (* PHVal *) cbn in PO. destruct PO as [-> L]. destruct (can_rlock b h n); [|discriminate]. inv ST.
    rewrite length_do_rlock. split; [apply heap_ok_rlock; auto|]. split; [auto|].
    apply mk_thread_ok; [cbn; split; [constructor|auto]|constructor; [auto|constructor]|]. cbn. auto.
  - (* PHValRead *) cbn in PO. subst hs. inv ST. split; [auto|]. split; [auto|].
    apply mk_thread_ok; cbn; eauto.
  - (* PHUpd *) cbn in PO. inv ST. rewrite length_do_req. split; [apply heap_ok_req; auto|].
    split; [auto|]. apply mk_thread_ok; cbn; auto.
  - (* PHUpdAcq *) cbn in PO. destruct PO as [-> L]. destruct (can_lock h n); [|discriminate]. inv ST.
    rewrite length_do_acq. split; [apply heap_ok_acq; auto|]. split; [auto|].
    apply mk_thread_ok; [cbn; split; [constructor|auto]|constructor; [auto|constructor]|]. cbn. auto.
  - (* PHUpdWrite *) cbn in PO. subst hs. inv ST. rewrite length_set_cont.
    split; [apply heap_ok_set_leaf; auto|]. split; [auto|]. apply mk_thread_ok; cbn; eauto.
  - (* PHRel *) cbn in PO. destruct PO as [n [m ->]]. inv ST. rewrite length_do_rel.
    split; [apply heap_ok_rel; auto|]. split; [auto|]. apply mk_thread_ok; cbn; auto. constructor.
  - (* PDel *) cbn in PO. inv ST. rewrite length_do_req. split; [apply heap_ok_req; auto|].
    split; [auto|]. apply mk_thread_ok; cbn; auto.
  - (* PDelAcq *) cbn in PO. subst hs. destruct (can_lock h 0); [|discriminate]. inv ST.
    rewrite length_do_acq. split; [apply heap_ok_acq; auto|]. split; [auto|].
    destruct HO as [L0 _].
    apply mk_thread_ok; [cbn; split; [constructor|auto]|constructor; [auto|constructor]|]. cbn. auto.
  - (* PDelCrit *) cbn in PO. subst hs. pose proof (hdelete_shrinks h q) as Sh.
    remember (hdelete h q) as hd. clear Heqhd. injection ST as <- <-.
    destruct Sh as [Ln Sh'].
    split; [eapply heap_ok_shrinks; [exact HO|split; [exact Ln|exact Sh']]|].
    rewrite Ln. split; [auto|].
    apply mk_thread_ok; auto. split; [right; exists MW; left; auto|exact I].
  - (* PQEnter *) cbn in PO. destruct PO as [W F]. destruct (can_rlock b h t); [|discriminate]. inv ST.
    rewrite length_do_rlock. split; [apply heap_ok_rlock; auto|]. split; [auto|].
    apply mk_thread_ok; [eapply sorted_push; eauto|eapply ids_push; eauto using waiting_lt|].
    cbn. split; [eapply inside_push; eauto|auto].
  - (* PQRead *) cbn in PO. destruct PO as [[[r0 ->] R] F]. cbn in F.
    destruct (query_visits (get_cont h t) q) eqn:QV; inv ST;
      (split; [auto|]; split; [auto|]; apply mk_thread_ok; auto).
    + split; [auto|]. constructor; [constructor|auto].
    + split; [auto|]. constructor; [|auto]. apply query_items_ok; auto.
  - (* PQVisit *) cbn in PO. inv ST. split; [auto|]. split; [auto|]. apply mk_thread_ok; cbn; auto.
  - (* PQNext *) cbn in PO. destruct PO as [R F]. destruct fr as [|[|[[c pre] q] todo] fr].
    + inv ST. inv F. split; [auto|]. split; [auto|]. apply mk_thread_ok; cbn; auto.
    + inv F. destruct x as [n m]. inv ST. rewrite length_do_rel.
      split; [apply heap_ok_rel; auto|]. split; [auto|].
      apply mk_thread_ok; [destruct SO; auto|inv IL; auto|]. cbn. split; [eapply rooted_tail; eauto|auto].
    + inv ST. inv F. inv H2. cbn in H1. destruct H1 as [L1 L2]. split; [auto|]. split; [auto|].
      apply mk_thread_ok; auto. split.
      * split; [auto|]. split.
        -- constructor; [auto|]. destruct SO as [I _]. eapply ids_lt_mono; [exact I|lia].
        -- split; [discriminate|auto].
      * constructor; auto.
Qed.

(** ** what one step does to the mutexes and to the stepping thread *)

Definition fresh_mu (h h' : heap) : Prop :=
  forall n x, nth_error h' n = Some x -> List.length h <= n -> mu_of x = (0, false, 0).

Definition not_acq (t : thread) : Prop := forall n, lockop_of t <> LAcq n.

Local Arguments new_chain base !r v.

Lemma new_chain_fresh r : forall base v i x,
  nth_error (new_chain base r v) i = Some x -> mu_of x = (0, false, 0).
Proof.
  induction r as [|k r IH]; intros base v i x E.
  - destruct i as [|[|i]]; cbn in E; try discriminate. inv E. reflexivity.
  - destruct i as [|i]; cbn in E.
    + inv E. reflexivity.
    + eapply IH; eauto.
Qed.

Local Arguments new_chain : simpl never.

Lemma alloc_mu h t0 c r v :
  same_mu h (set_cont h t0 c ++ new_chain (List.length h) r v) /\
  fresh_mu h (set_cont h t0 c ++ new_chain (List.length h) r v).
Proof.
  split.
  - eapply same_mu_trans; [apply same_mu_set_cont|apply same_mu_app].
  - intros n x E L. rewrite nth_error_app2 in E by (rewrite length_set_cont; auto).
    eapply new_chain_fresh; eauto.
Qed.

Lemma fresh_mu_same_len h h' : List.length h' = List.length h -> fresh_mu h h'.
Proof.
  intros L n x E Ln. assert (n < List.length h') by (apply nth_error_Some; congruence). lia.
Qed.

Lemma local_step_mu h p :
  same_mu h (fst (local_step h p)) /\ fresh_mu h (fst (local_step h p)).
Proof.
  assert (Id : same_mu h h /\ fresh_mu h h).
  { split; [apply same_mu_refl|apply fresh_mu_same_len; auto]. }
  assert (SC : forall n c, same_mu h (set_cont h n c) /\ fresh_mu h (set_cont h n c)).
  { intros. split; [apply same_mu_set_cont|apply fresh_mu_same_len, length_set_cont]. }
  destruct p; cbn -[hdelete set_cont new_chain]; auto.
  - destruct (get_cont h t); cbn -[set_cont]; auto.
  - destruct (get_cont h t) as [| |cs]; cbn; auto. destruct (assoc k cs); auto.
  - destruct (get_cont h t) as [| |cs]; cbn -[set_cont new_chain]; auto.
    + apply alloc_mu.
    + destruct (assoc k cs); cbn -[set_cont new_chain]; auto. apply alloc_mu.
  - destruct p as [|k r]; cbn; auto. destruct (get_cont h t) as [| |cs]; cbn; auto.
    destruct (assoc k cs); auto.
  - destruct k; auto.
  - pose proof (hdelete_shrinks h q) as [L [M _]]. split; [exact M|apply fresh_mu_same_len; auto].
  - destruct (query_visits (get_cont h t) q); auto.
  - destruct fr as [|[|[[c pre0] q0] todo] fr]; auto.
Qed.

Lemma local_step_not_acq h p o hs :
  lockop_of (TH o p hs) = LNone -> not_acq (TH o (snd (local_step h p)) hs).
Proof.
  intros LN n. unfold lockop_of in *. cbn [tpc held] in *.
  destruct p; cbn -[Nat.ltb hdelete set_cont new_chain] in *; try discriminate;
    repeat (first
              [ match goal with |- context [start_pc ?a ?b] => destruct b end
              | match goal with |- context [match get_cont ?a ?b with _ => _ end] => destruct (get_cont a b) end
              | match goal with |- context [match assoc ?a ?b with _ => _ end] => destruct (assoc a b) end
              | match goal with |- context [if Nat.ltb ?a ?b then _ else _] => destruct (Nat.ltb a b) end
              | match goal with |- context [match query_visits ?a ?b with _ => _ end] => destruct (query_visits a b) end
              | match goal with |- context [match query_items ?a ?b ?c with _ => _ end] => destruct (query_items a b c) end
              | match goal with |- context [match ?x with _ => _ end] => is_var x; destruct x end ];
            cbn -[Nat.ltb hdelete set_cont new_chain] in *; try discriminate).
Qed.

Lemma tstep_shape b h t h' t' :
  tstep_gen b h t = Some (h', t') ->
  match lockop_of t with
  | LNone => h' = fst (local_step h (tpc t)) /\
             t' = TH (top t) (snd (local_step h (tpc t))) (held t)
  | LRLock n => can_rlock b h n = true /\ h' = do_rlock h n /\
                t' = TH (top t) (after_lock (tpc t)) ((n, MR) :: held t)
  | LReq n => h' = do_req h n /\ t' = TH (top t) (after_lock (tpc t)) (held t)
  | LAcq n => can_lock h n = true /\ h' = do_acq h n /\
              t' = TH (top t) (after_lock (tpc t)) ((n, MW) :: held t)
  | LRel => exists n m hs, held t = (n, m) :: hs /\ h' = do_rel h n m /\
                           t' = TH (top t) (after_lock (tpc t)) hs
  end.
Proof.
  unfold tstep_gen. destruct (is_done (tpc t)); [discriminate|].
  destruct (lockop_of t).
  - intros E; inv E; auto.
  - destruct (can_rlock b h n); [|discriminate]. intros E; inv E; auto.
  - intros E; inv E; auto.
  - destruct (can_lock h n); [|discriminate]. intros E; inv E; auto.
  - destruct (held t) as [|[n m] hs]; [discriminate|]. intros E; inv E. eauto 8.
Qed.

Lemma after_lock_not_acq o p hs hs' :
  (forall n, lockop_of (TH o p hs) <> LReq n) -> lockop_of (TH o p hs) <> LNone ->
  not_acq (TH o (after_lock p) hs').
Proof.
  intros NR NN n. unfold lockop_of in *. cbn [tpc held] in *.
  destruct p; cbn in *; try congruence; try discriminate;
    repeat (match goal with
            | |- context [match ?x with _ => _ end] => is_var x; destruct x
            | H : context [match ?x with _ => _ end] |- _ => is_var x; destruct x
            end; cbn in *; try congruence; try discriminate).
  all: try (exfalso; eapply NR; reflexivity).
Qed.

Lemma after_lock_req o p hs hs' n :
  lockop_of (TH o p hs) = LReq n -> lockop_of (TH o (after_lock p) hs') = LAcq n.
Proof.
  unfold lockop_of. cbn [tpc held].
  destruct p; cbn; try discriminate;
    repeat (match goal with
            | |- context [match ?x with _ => _ end] => is_var x; destruct x
            end; cbn; try discriminate); intros E; inv E; auto.
Qed.

(** ** lock accounting: the mutex fields count the threads *)

Fixpoint cnt (n : nat) (m : lmode) (hs : list (nat * lmode)) : nat :=
  match hs with
  | [] => 0
  | x :: r => (if Nat.eqb (fst x) n && lmode_eqb (snd x) m then 1 else 0) + cnt n m r
  end.

Definition pcnt (n : nat) (t : thread) : nat :=
  match lockop_of t with
  | LAcq a => if Nat.eqb a n then 1 else 0
  | _ => 0
  end.

Definition tsum (f : thread -> nat) (ts : list thread) : nat :=
  fold_right (fun t a => f t + a) 0 ts.

Definition wbit (x : hnode) : nat := if wr x then 1 else 0.

Definition acct (s : state) : Prop :=
  forall n x, nth_error (hp s) n = Some x ->
    rd x = tsum (fun t => cnt n MR (held t)) (thr s) /\
    wbit x = tsum (fun t => cnt n MW (held t)) (thr s) /\
    pw x = tsum (pcnt n) (thr s).

Definition Inv (s : state) : Prop :=
  heap_ok (hp s) /\ Forall (thread_ok (List.length (hp s))) (thr s) /\ acct s.

Lemma tsum_set_nth f ts i t t' :
  nth_error ts i = Some t -> tsum f (set_nth ts i t') + f t = tsum f ts + f t'.
Proof.
  unfold tsum.
  revert i; induction ts as [|a ts IH]; intros [|i] E; cbn in *; try discriminate.
  - inv E. lia.
  - specialize (IH _ E). lia.
Qed.

Lemma tsum_zero f ts : Forall (fun t => f t = 0) ts -> tsum f ts = 0.
Proof. induction 1; cbn; lia. Qed.

Lemma tsum_ge f ts i t : nth_error ts i = Some t -> f t <= tsum f ts.
Proof.
  unfold tsum.
  revert i; induction ts as [|a ts IH]; intros [|i] E; cbn in *; try discriminate.
  - inv E. lia.
  - specialize (IH _ E). lia.
Qed.

Lemma cnt_zero_lt hs hl n m : ids_lt hs hl -> hl <= n -> cnt n m hs = 0.
Proof.
  induction 1 as [|x r L _ IH]; intros Hn; cbn; [auto|].
  destruct (Nat.eqb_spec (fst x) n); [lia|]. cbn. auto.
Qed.

Lemma lockop_target_lt hl t n :
  thread_ok hl t -> (lockop_of t = LAcq n \/ lockop_of t = LReq n \/ lockop_of t = LRLock n) -> n < hl.
Proof.
  intros [_ [_ P]]. destruct t as [o p hs]. unfold lockop_of. cbn [tpc held] in *.
  destruct p; cbn in *; intros [E|[E|E]]; try discriminate;
    repeat (match goal with
            | H : context [match ?x with _ => _ end] |- _ => is_var x; destruct x
            end; cbn in *; try discriminate);
    inv E;
    repeat match goal with
           | H : waiting _ _ _ |- _ => destruct H as [? _]
           | H : _ /\ _ |- _ => destruct H
           end; auto.
Qed.

Lemma pcnt_zero_lt hl t n : thread_ok hl t -> hl <= n -> pcnt n t = 0.
Proof.
  intros T L. unfold pcnt. destruct (lockop_of t) eqn:E; auto.
  destruct (Nat.eqb_spec n0 n); auto. subst.
  assert (n < hl) by (eapply lockop_target_lt; eauto). lia.
Qed.

Lemma Inv_init ops : Inv (init_state ops).
Proof.
  split; [|split].
  - split; [cbn; lia|]. intros n cs E. destruct n as [|[|n]]; cbn in E; discriminate.
  - cbn. apply Forall_forall. intros t Ht. apply in_map_iff in Ht. destruct Ht as [o [<- _]].
    apply mk_thread_ok; cbn; auto. constructor.
  - intros n x E. cbn in E. destruct n as [|[|n]]; cbn in E; try discriminate. inv E. cbn.
    assert (Z : forall f, (forall o, f (TH o (PStart o) []) = 0) ->
                          tsum f (map (fun o => TH o (PStart o) []) ops) = 0).
    { intros f Hf. induction ops as [|o ops IH]; cbn; auto. rewrite Hf. auto. }
    rewrite !Z; auto.
Qed.

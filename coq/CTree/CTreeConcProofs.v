(** Proofs about the concurrent model of ctree (CTreeConc.v): invariants of
    every reachable state, for every set of API calls and every schedule. *)
From Gnmi Require Import Base.Prelude CTree.CTreeModel CTree.CTreeConc.
From Coq Require Import Arith Lia.
Open Scope nat_scope.

(** * Generic definitions (kept here: Base/Lts.v is not depended upon) *)

(** states reachable from the initial state of a program (one API call per
    thread) under any schedule *)
Inductive reach (ops : list cop) : state -> Prop :=
| reach_init : reach ops (init_state ops)
| reach_step s i s' : reach ops s -> step s i = Some s' -> reach ops s'.

Lemma reach_run_sched ops sch : reach ops (run_sched (init_state ops) sch).
Proof.
  assert (G : forall s, reach ops s -> reach ops (run_sched s sch)).
  { induction sch as [|i sch IH]; intros s R; cbn; [exact R|].
    destruct (step s i) eqn:E; [apply IH; econstructor; eauto|apply IH; exact R]. }
  apply G. constructor.
Qed.

(** * Lists *)

Lemma nth_error_set_nth_eq {A} (l : list A) i x y :
  nth_error l i = Some y -> nth_error (set_nth l i x) i = Some x.
Proof.
  revert i; induction l as [|a l IH]; intros [|i]; cbn; try discriminate; auto.
Qed.

Lemma nth_error_set_nth_neq {A} (l : list A) i j x :
  i <> j -> nth_error (set_nth l i x) j = nth_error l j.
Proof.
  revert i j; induction l as [|a l IH]; intros [|i] [|j] H; cbn; auto; try lia.
Qed.

Lemma length_set_nth {A} (l : list A) i x : List.length (set_nth l i x) = List.length l.
Proof. revert i; induction l as [|a l IH]; intros [|i]; cbn; auto. Qed.

Lemma In_set_nth {A} (l : list A) i x y :
  In y (set_nth l i x) -> y = x \/ In y l.
Proof.
  revert i; induction l as [|a l IH]; intros [|i]; cbn; auto.
  - intros [H|H]; auto.
  - intros [H|H]; auto. destruct (IH _ H); auto.
Qed.

(** * Heap primitives *)

Lemma length_upd_node h n f : List.length (upd_node h n f) = List.length h.
Proof. revert n; induction h as [|x h IH]; intros [|n]; cbn; auto. Qed.

Lemma nth_upd_node_eq h n f x :
  nth_error h n = Some x -> nth_error (upd_node h n f) n = Some (f x).
Proof.
  revert n; induction h as [|a h IH]; intros [|n]; cbn; try discriminate.
  - intros E; inversion E; auto.
  - apply IH.
Qed.

Lemma nth_upd_node_neq h n m f : n <> m -> nth_error (upd_node h n f) m = nth_error h m.
Proof.
  revert n m; induction h as [|a h IH]; intros [|n] [|m] H; cbn; auto; try lia.
Qed.

Lemma nth_upd_node_none h n f m :
  nth_error h m = None -> nth_error (upd_node h n f) m = None.
Proof.
  intros H. apply nth_error_None. rewrite length_upd_node. apply nth_error_None. exact H.
Qed.

Lemma length_set_cont h n c : List.length (set_cont h n c) = List.length h.
Proof. apply length_upd_node. Qed.

Lemma get_cont_set_eq h n c : n < List.length h -> get_cont (set_cont h n c) n = c.
Proof.
  intros L. unfold get_cont, set_cont.
  destruct (nth_error h n) as [x|] eqn:E.
  - erewrite nth_upd_node_eq by eauto. reflexivity.
  - apply nth_error_None in E. lia.
Qed.

Lemma get_cont_set_neq h n m c : n <> m -> get_cont (set_cont h n c) m = get_cont h m.
Proof. intros H. unfold get_cont, set_cont. rewrite nth_upd_node_neq by auto. reflexivity. Qed.

Lemma get_cont_app_l h h2 n : n < List.length h -> get_cont (h ++ h2) n = get_cont h n.
Proof. intros L. unfold get_cont. rewrite nth_error_app1 by auto. reflexivity. Qed.

Lemma get_cont_oob h n : List.length h <= n -> get_cont h n = CNil.
Proof. intros L. unfold get_cont. apply nth_error_None in L. rewrite L. reflexivity. Qed.

(** the mutex part of a node *)
Definition mu_of (x : hnode) : nat * bool * nat := (rd x, wr x, pw x).

Definition same_mu (h h' : heap) : Prop :=
  forall n x, nth_error h n = Some x ->
              exists x', nth_error h' n = Some x' /\ mu_of x' = mu_of x.

Lemma same_mu_refl h : same_mu h h.
Proof. intros n x E. eauto. Qed.

Lemma same_mu_trans a b c : same_mu a b -> same_mu b c -> same_mu a c.
Proof.
  intros H1 H2 n x E. destruct (H1 _ _ E) as [y [Ey My]].
  destruct (H2 _ _ Ey) as [z [Ez Mz]]. exists z. split; auto. congruence.
Qed.

Lemma same_mu_set_cont h n c : same_mu h (set_cont h n c).
Proof.
  intros m x E. unfold set_cont. destruct (Nat.eq_dec n m) as [->|D].
  - erewrite nth_upd_node_eq by eauto. eexists; split; eauto.
  - rewrite nth_upd_node_neq by auto. eauto.
Qed.

Lemma same_mu_app h h2 : same_mu h (h ++ h2).
Proof.
  intros m x E. exists x. split; auto. rewrite nth_error_app1; auto.
  apply nth_error_Some. congruence.
Qed.

(** * Delete on the heap only shrinks child lists *)

(** [h'] has the same nodes and mutexes as [h]; every node's content is
    unchanged, or a branch whose children are a sub-list of the old ones, or
    (root only) cleared. *)
Definition shrinks (h h' : heap) : Prop :=
  List.length h' = List.length h /\ same_mu h h' /\
  forall n, get_cont h' n = get_cont h n \/
            get_cont h' n = CNil \/
            exists cs cs', get_cont h n = CBranch cs /\ get_cont h' n = CBranch cs' /\ incl cs' cs.

Lemma shrinks_refl h : shrinks h h.
Proof. split; [auto|split; [apply same_mu_refl|auto]]. Qed.

Lemma shrinks_trans a b c : shrinks a b -> shrinks b c -> shrinks a c.
Proof.
  intros [L1 [M1 C1]] [L2 [M2 C2]]. split; [congruence|]. split; [eapply same_mu_trans; eauto|].
  intros n. destruct (C2 n) as [E2|[E2|[cs [cs' [E2 [E2' I2]]]]]].
  - rewrite E2. apply C1.
  - auto.
  - destruct (C1 n) as [E1|[E1|[ds [ds' [E1 [E1' I1]]]]]].
    + right; right. exists cs, cs'. rewrite <- E1. auto.
    + rewrite E1 in E2. discriminate.
    + right; right. rewrite E1' in E2. inversion E2; subst.
      exists ds, cs'. repeat split; auto. eapply incl_tran; eauto.
Qed.

Lemma shrinks_then_set h h' n cs cs' :
  shrinks h h' -> get_cont h n = CBranch cs -> incl cs' cs ->
  shrinks h (set_cont h' n (CBranch cs')).
Proof.
  intros [L [M C]] E I.
  assert (Ln : n < List.length h).
  { destruct (Nat.lt_ge_cases n (List.length h)); auto. rewrite get_cont_oob in E by auto. discriminate. }
  split; [rewrite length_set_cont; auto|].
  split; [eapply same_mu_trans; [exact M|apply same_mu_set_cont]|].
  intros m. destruct (Nat.eq_dec n m) as [<-|D].
  - right; right. exists cs, cs'. rewrite get_cont_set_eq by lia. auto.
  - rewrite get_cont_set_neq by auto. apply C.
Qed.

Lemma shrinks_then_nil h h' n : shrinks h h' -> shrinks h (set_cont h' n CNil).
Proof.
  intros [L [M C]].
  split; [rewrite length_set_cont; auto|].
  split; [eapply same_mu_trans; [exact M|apply same_mu_set_cont]|].
  intros m. destruct (Nat.eq_dec n m) as [<-|D].
  - destruct (Nat.lt_ge_cases n (List.length h')) as [Ln|Ln].
    + right; left. apply get_cont_set_eq; auto.
    + rewrite get_cont_oob by (rewrite length_set_cont; auto).
      left. rewrite get_cont_oob; auto. lia.
  - rewrite get_cont_set_neq by auto. apply C.
Qed.

Lemma incl_adel {A} k (l : list (string * A)) : incl (adel k l) l.
Proof.
  induction l as [|kc l IH]; cbn; [apply incl_refl|].
  destruct (String.eqb k (fst kc)).
  - apply incl_tl, incl_refl.
  - intros x [H|H]; [left; auto|right; apply IH; auto].
Qed.

Lemma hdel_shrinks fuel : forall h n q, shrinks h (fst (fst (hdel fuel h n q))).
Proof.
  induction fuel as [|f IH]; intros h n q; cbn; [apply shrinks_refl|].
  destruct (heads_all q).
  - destruct (get_cont h n) as [|v|cs] eqn:E; cbn; try apply shrinks_refl.
    + destruct (strip_glob q); cbn; apply shrinks_refl.
    + set (F := fun (acc : heap * list (string * nat) * list path) (kc : string * nat) =>
                  let r := hdel f (fst (fst acc)) (snd kc) (strip_glob q) in
                  (fst (fst r),
                   if snd (fst r) then snd (fst acc) else snd (fst acc) ++ [kc],
                   snd acc ++ map (cons (fst kc)) (snd r))).
      assert (G : forall l acc,
                 shrinks h (fst (fst acc)) -> incl (snd (fst acc)) cs -> incl l cs ->
                 shrinks h (fst (fst (fold_left F l acc))) /\
                 incl (snd (fst (fold_left F l acc))) cs).
      { induction l as [|kc l IHl]; intros acc S I Il; cbn; [auto|].
        apply IHl.
        - unfold F; cbn. eapply shrinks_trans; [exact S|apply IH].
        - unfold F; cbn. destruct (snd (fst (hdel f (fst (fst acc)) (snd kc) (strip_glob q)))); auto.
          apply incl_app; auto. intros x [<-|[]]. apply Il. left; auto.
        - intros x Hx. apply Il. right; auto. }
      destruct (G cs (h, [], [])) as [S I]; cbn; auto using shrinks_refl, incl_refl.
      { intros x []. }
      eapply shrinks_then_set; eauto.
  - destruct q as [|k r]; cbn; [apply shrinks_refl|].
    destruct (get_cont h n) as [|v|cs] eqn:E; cbn; try apply shrinks_refl.
    destruct (assoc k cs) as [c|] eqn:A; cbn; [|apply shrinks_refl].
    eapply shrinks_then_set; [apply IH|exact E|].
    destruct (snd (fst (hdel f h c r))); [apply incl_adel|apply incl_refl].
Qed.

Lemma hdelete_shrinks h q : shrinks h (fst (hdelete h q)).
Proof.
  unfold hdelete.
  pose proof (hdel_shrinks (S (List.length h)) h 0 q) as Hs.
  destruct (hdel (S (List.length h)) h 0 q) as [[h' d] ls]. cbn [fst snd] in *.
  destruct d.
  - apply shrinks_then_nil. exact Hs.
  - exact Hs.
Qed.

(** * Invariants *)

(** every child id is larger than its parent's and names an existing node *)
Definition heap_ok (h : heap) : Prop :=
  0 < List.length h /\
  forall n cs, get_cont h n = CBranch cs ->
               Forall (fun kc : string * nat => n < snd kc /\ snd kc < List.length h) cs.

Definition ids_lt (hs : list (nat * lmode)) (n : nat) : Prop := Forall (fun x => fst x < n) hs.

(** the held locks, most recent first, have strictly decreasing node ids *)
Fixpoint sorted_desc (hs : list (nat * lmode)) : Prop :=
  match hs with
  | [] => True
  | x :: r => ids_lt r (fst x) /\ sorted_desc r
  end.

(** lock coupling: whoever holds anything holds the root *)
Definition rooted (hs : list (nat * lmode)) : Prop := hs = [] \/ exists m, In (0, m) hs.

(** about to lock node [n] *)
Definition waiting (hl : nat) (hs : list (nat * lmode)) (n : nat) : Prop :=
  n < hl /\ ids_lt hs n /\ (hs = [] -> n = 0) /\ rooted hs.

(** inside a critical section on node [n] *)
Definition inside (hs : list (nat * lmode)) (n : nat) (m : lmode) : Prop :=
  (exists r, hs = (n, m) :: r) /\ rooted hs.

Definition frames_ok (hl : nat) (hs : list (nat * lmode)) (fr : list (list qitem)) : Prop :=
  Forall2 (fun x (items : list qitem) =>
             Forall (fun it : qitem => fst x < fst (fst it) /\ fst (fst it) < hl) items) hs fr.

Definition pc_ok (hl : nat) (hs : list (nat * lmode)) (p : pc) : Prop :=
  match p with
  | PStart _ | PDone _ => hs = []
  | PAddEnter t0 _ _ | PAddTAcq t0 _ | PAddUpg t0 _ _ _ | PAddUAcq t0 _ _ _
  | PGetEnter t0 _ => waiting hl hs t0
  | PAddTCrit t0 _ | PAddSlow t0 _ _ _ => inside hs t0 MW
  | PAddIRead t0 _ _ _ | PAddIRel t0 _ _ _ | PGetRead t0 _ => inside hs t0 MR
  | PUnwind k => rooted hs /\ match k with UVal n => n < hl | UDone _ => True end
  | PHVal n | PHUpd n _ | PHUpdAcq n _ => hs = [] /\ n < hl
  | PHValRead n => hs = [(n, MR)]
  | PHUpdWrite n _ => hs = [(n, MW)]
  | PHRel _ => exists n m, hs = [(n, m)]
  | PDel _ | PDelAcq _ => hs = []
  | PDelCrit _ => hs = [(0, MW)]
  | PQEnter t0 _ _ _ fr => waiting hl hs t0 /\ frames_ok hl hs fr
  | PQRead t0 _ _ _ fr => inside hs t0 MR /\ frames_ok hl (tl hs) fr
  | PQVisit _ _ _ fr | PQNext _ fr => rooted hs /\ frames_ok hl hs fr
  end.

Definition thread_ok (hl : nat) (t : thread) : Prop :=
  sorted_desc (held t) /\ ids_lt (held t) hl /\ pc_ok hl (held t) (tpc t).

Lemma ids_lt_mono hs n m : ids_lt hs n -> n <= m -> ids_lt hs m.
Proof. unfold ids_lt. intros H L. eapply Forall_impl; [|exact H]. cbn. intros; lia. Qed.

Lemma rooted_tail x hs : sorted_desc (x :: hs) -> rooted (x :: hs) -> rooted hs.
Proof.
  intros [L _] [E|[m [E|I]]]; [discriminate| |right; eauto].
  destruct hs as [|y r]; [left; auto|].
  exfalso. subst x. inversion L; subst. cbn in *. lia.
Qed.

Lemma rooted_push hl hs n m : waiting hl hs n -> rooted ((n, m) :: hs).
Proof.
  intros [_ [_ [Z [E|[m' I]]]]]; right.
  - rewrite (Z E). exists m. left; auto.
  - exists m'. right; auto.
Qed.

Lemma rooted_single n m : rooted [(n, m)] -> n = 0.
Proof. intros [E|[m' [E|[]]]]; [discriminate|]. inversion E; auto. Qed.

Lemma frames_ok_mono hl hl' hs fr : hl <= hl' -> frames_ok hl hs fr -> frames_ok hl' hs fr.
Proof.
  intros L H. induction H; constructor; auto.
  eapply Forall_impl; [|eassumption]. cbn. intros; lia.
Qed.

Lemma waiting_mono hl hl' hs n : hl <= hl' -> waiting hl hs n -> waiting hl' hs n.
Proof. intros L [A B]. split; [lia|auto]. Qed.

Lemma pc_ok_mono hl hl' hs p : hl <= hl' -> pc_ok hl hs p -> pc_ok hl' hs p.
Proof.
  intros L. destruct p; cbn; auto; intros H;
    repeat match goal with
           | H : _ /\ _ |- _ => destruct H
           | |- _ /\ _ => split
           | k : ucont |- _ => destruct k
           end; eauto using waiting_mono, frames_ok_mono; try lia.
Qed.

Lemma thread_ok_mono hl hl' t : hl <= hl' -> thread_ok hl t -> thread_ok hl' t.
Proof.
  intros L [S [I P]]. split; [auto|]. split; [eapply ids_lt_mono; eauto|eapply pc_ok_mono; eauto].
Qed.

(** ** heap_ok is preserved by every heap update the model makes *)

Lemma get_cont_upd_mu h n f m :
  (forall x, cont (f x) = cont x) -> get_cont (upd_node h n f) m = get_cont h m.
Proof.
  intros Hf. unfold get_cont. destruct (Nat.eq_dec n m) as [->|D].
  - destruct (nth_error h m) as [x|] eqn:E.
    + erewrite nth_upd_node_eq by eauto. apply Hf.
    + rewrite nth_upd_node_none; auto.
  - rewrite nth_upd_node_neq; auto.
Qed.

Lemma heap_ok_upd_mu h n f :
  (forall x, cont (f x) = cont x) -> heap_ok h -> heap_ok (upd_node h n f).
Proof.
  intros Hf [L H]. split; [rewrite length_upd_node; auto|].
  intros m cs E. rewrite get_cont_upd_mu in E by auto. rewrite length_upd_node. eauto.
Qed.

Lemma heap_ok_rlock h n : heap_ok h -> heap_ok (do_rlock h n).
Proof. apply heap_ok_upd_mu. auto. Qed.
Lemma heap_ok_req h n : heap_ok h -> heap_ok (do_req h n).
Proof. apply heap_ok_upd_mu. auto. Qed.
Lemma heap_ok_acq h n : heap_ok h -> heap_ok (do_acq h n).
Proof. apply heap_ok_upd_mu. auto. Qed.
Lemma heap_ok_rel h n m : heap_ok h -> heap_ok (do_rel h n m).
Proof. destruct m; apply heap_ok_upd_mu; auto. Qed.

Lemma length_do_rlock h n : List.length (do_rlock h n) = List.length h.
Proof. apply length_upd_node. Qed.
Lemma length_do_req h n : List.length (do_req h n) = List.length h.
Proof. apply length_upd_node. Qed.
Lemma length_do_acq h n : List.length (do_acq h n) = List.length h.
Proof. apply length_upd_node. Qed.
Lemma length_do_rel h n m : List.length (do_rel h n m) = List.length h.
Proof. destruct m; apply length_upd_node. Qed.

Lemma heap_ok_shrinks h h' : heap_ok h -> shrinks h h' -> heap_ok h'.
Proof.
  intros [L H] [Ln [_ C]]. split; [lia|]. intros n cs E. rewrite Ln.
  destruct (C n) as [E1|[E1|[ds [ds' [E1 [E1' I]]]]]].
  - rewrite E1 in E. eauto.
  - rewrite E1 in E; discriminate.
  - rewrite E1' in E. inversion E; subst ds'. specialize (H _ _ E1).
    rewrite Forall_forall in *. intros x Hx. apply H. apply I. exact Hx.
Qed.

Lemma heap_ok_set_leaf h n v : heap_ok h -> heap_ok (set_cont h n (CLeaf v)).
Proof.
  intros [L H]. split; [rewrite length_set_cont; auto|].
  intros m cs E. rewrite length_set_cont. destruct (Nat.eq_dec n m) as [->|D].
  - destruct (Nat.lt_ge_cases m (List.length h)).
    + rewrite get_cont_set_eq in E by auto. discriminate.
    + rewrite get_cont_oob in E by (rewrite length_set_cont; auto). discriminate.
  - rewrite get_cont_set_neq in E by auto. eauto.
Qed.

Lemma length_new_chain base r v : List.length (new_chain base r v) = S (List.length r).
Proof. revert base; induction r as [|k r IH]; intros base; cbn; auto. Qed.

Lemma new_chain_branch r : forall base v i cs,
  get_cont (new_chain base r v) i = CBranch cs ->
  exists k, cs = [(k, S (base + i))] /\ S i < List.length (new_chain base r v).
Proof.
  induction r as [|k r IH]; intros base v i cs E.
  - destruct i as [|[|i]]; cbn in E; discriminate.
  - destruct i as [|i].
    + cbn in E. inversion E; subst. exists k. split; [f_equal; f_equal; lia|].
      cbn. rewrite length_new_chain. lia.
    + change (get_cont (new_chain (S base) r v) i = CBranch cs) in E.
      destruct (IH _ _ _ _ E) as [k' [-> L]]. exists k'. split; [f_equal; f_equal; lia|].
      cbn. lia.
Qed.

Lemma heap_ok_alloc h t0 cs0 k r v :
  heap_ok h -> t0 < List.length h ->
  Forall (fun kc : string * nat => t0 < snd kc /\ snd kc < List.length h) cs0 ->
  heap_ok (set_cont h t0 (CBranch (cs0 ++ [(k, List.length h)])) ++ new_chain (List.length h) r v).
Proof.
  intros [L H] Lt F.
  assert (LL : List.length (set_cont h t0 (CBranch (cs0 ++ [(k, List.length h)]))
                            ++ new_chain (List.length h) r v)
               = List.length h + S (List.length r)).
  { rewrite app_length, length_set_cont, length_new_chain. auto. }
  split; [lia|]. intros n cs E. rewrite LL.
  destruct (Nat.lt_ge_cases n (List.length h)) as [Ln|Ln].
  - rewrite get_cont_app_l in E by (rewrite length_set_cont; auto).
    destruct (Nat.eq_dec t0 n) as [->|D].
    + rewrite get_cont_set_eq in E by auto. inversion E; subst cs.
      apply Forall_app. split.
      * eapply Forall_impl; [|exact F]. cbn. intros; lia.
      * constructor; [cbn; lia|constructor].
    + rewrite get_cont_set_neq in E by auto. specialize (H _ _ E).
      eapply Forall_impl; [|exact H]. cbn. intros; lia.
  - unfold get_cont in E. rewrite nth_error_app2 in E by (rewrite length_set_cont; auto).
    rewrite length_set_cont in E.
    change (get_cont (new_chain (List.length h) r v) (n - List.length h) = CBranch cs) in E.
    destruct (new_chain_branch _ _ _ _ _ E) as [k' [-> L']]. rewrite length_new_chain in L'.
    constructor; [cbn; lia|constructor].
Qed.

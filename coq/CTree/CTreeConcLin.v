(** Linearization points of the point operations of the concurrent ctree
    model: wherever a Get or an Add stands on its way down, it stands on the
    node that its walked prefix leads to in the current tree. *)
From Gnmi Require Import Base.Prelude CTree.CTreeModel CTree.CTreeConc CTree.CTreeConcProofs.
From Coq Require Import Arith Lia.
Open Scope nat_scope.

Local Arguments do_rel : simpl never.
Local Arguments do_rlock : simpl never.
Local Arguments do_req : simpl never.
Local Arguments do_acq : simpl never.
Local Arguments set_cont : simpl never.
Local Arguments hdelete : simpl never.
Local Arguments new_chain : simpl never.

(** ** point operations act on the node that is currently stored at their path *)

(** a step changes the content of an existing node only under that node's
    write lock (Delete's critical section excepted: it holds the root's) *)
Lemma tstep_frame b h t h' t' n :
  thread_ok (List.length h) t -> tstep_gen b h t = Some (h', t') ->
  (forall q, tpc t <> PDelCrit q) ->
  n < List.length h -> (forall m, In (n, m) (held t) -> m = MR) ->
  get_cont h' n = get_cont h n.
Proof.
  intros [_ [IL P]] ST ND Ln NW. pose proof (tstep_shape _ _ _ _ _ ST) as SH.
  destruct (lockop_of t) eqn:LO.
  - destruct SH as [-> _]. destruct t as [o p hs]. cbn [tpc held top] in *.
    destruct p; cbn -[set_cont new_chain hdelete] in *; auto.
    + (* terminalAdd *) destruct P as [[r0 ->] _].
      assert (n <> t) by (intros ->; specialize (NW MW (or_introl eq_refl)); discriminate).
      destruct (get_cont h t); cbn -[set_cont]; auto; apply get_cont_set_neq; auto.
    + destruct (get_cont h t) as [| |cs]; cbn; auto. destruct (assoc k cs); auto.
    + (* slowAdd *) destruct P as [[r0 ->] _].
      assert (n <> t) by (intros ->; specialize (NW MW (or_introl eq_refl)); discriminate).
      destruct (get_cont h t) as [| |cs]; cbn -[set_cont new_chain]; auto.
      * rewrite get_cont_app_l by (rewrite length_set_cont; auto). apply get_cont_set_neq; auto.
      * destruct (assoc k cs); cbn -[set_cont new_chain]; auto.
        rewrite get_cont_app_l by (rewrite length_set_cont; auto). apply get_cont_set_neq; auto.
    + destruct p as [|k r]; cbn; auto. destruct (get_cont h t) as [| |cs]; cbn; auto.
      destruct (assoc k cs); auto.
    + destruct k; auto.
    + (* Leaf.Update *) subst hs.
      assert (n <> n0) by (intros ->; specialize (NW MW (or_introl eq_refl)); discriminate).
      apply get_cont_set_neq; auto.
    + exfalso. eapply ND; reflexivity.
    + destruct (query_visits (get_cont h t) q); auto.
    + destruct fr as [|[|[[c pre0] q0] todo] fr]; auto.
    + (* PLVisit *) destruct (heads_all q).
      * destruct (get_cont h n0); auto. destruct (strip_glob q); auto.
      * destruct q as [|k r]; auto. destruct (get_cont h n0) as [| |cs]; auto. destruct (assoc k cs); auto.
    + (* PLNext *) destruct fr as [|f fr]; auto. destruct (dtodo f) as [|[k c] rest]; auto.
    + (* PLRet *) destruct fr as [|f fr]; auto. destruct del; cbn -[set_cont]; auto.
      destruct P as [R [n1 [r0 [-> F]]]]. inversion F; subst.
      pose proof (rooted_single _ _ R) as Z. subst n1.
      assert (n <> 0) by (intros ->; specialize (NW MW (or_introl eq_refl)); discriminate).
      apply get_cont_set_neq; auto.
    + (* PLBack *) destruct fr as [|f fr]; auto. destruct del; cbn -[set_cont]; auto.
      destruct P as [_ [_ F]]. inversion F as [|x f0 l fr0 [Ex _] _]; subst.
      assert (n <> dn f) by (intros ->; specialize (NW MW (or_introl eq_refl)); discriminate).
      destruct (get_cont h (dn f)); cbn -[set_cont]; auto. apply get_cont_set_neq; auto.
  - destruct SH as [_ [-> _]]. apply get_cont_upd_mu; auto.
  - destruct SH as [-> _]. apply get_cont_upd_mu; auto.
  - destruct SH as [_ [-> _]]. apply get_cont_upd_mu; auto.
  - destruct SH as [n0 [m [hs [_ [-> _]]]]]. destruct m; apply get_cont_upd_mu; auto.
Qed.

(** the nodes whose content a walk along [pre] from node [n] reads *)
Fixpoint rwalk (h : heap) (n : nat) (pre : path) : option (list nat) :=
  match pre with
  | [] => Some []
  | k :: r =>
      match get_cont h n with
      | CBranch cs =>
          match assoc k cs with
          | Some c => match rwalk h c r with Some l => Some (n :: l) | None => None end
          | None => None
          end
      | _ => None
      end
  end.

Lemma rwalk_frame h h' pre : forall n ns t0,
  rwalk h n pre = Some ns -> resolve h n pre = Some t0 ->
  (forall x, In x ns -> get_cont h' x = get_cont h x) ->
  rwalk h' n pre = Some ns /\ resolve h' n pre = Some t0.
Proof.
  induction pre as [|k r IH]; intros n ns t0 W R F; cbn in *; [auto|].
  destruct (get_cont h n) as [| |cs] eqn:E; try discriminate.
  destruct (assoc k cs) as [c|] eqn:A; try discriminate.
  destruct (rwalk h c r) as [l|] eqn:Wl; try discriminate. inv W.
  rewrite (F n (or_introl eq_refl)), E, A.
  destruct (IH c l t0 Wl R) as [W' R']; [intros; apply F; right; auto|].
  rewrite W'. auto.
Qed.

Lemma rwalk_snoc h pre : forall n ns t0 cs k c,
  rwalk h n pre = Some ns -> resolve h n pre = Some t0 ->
  get_cont h t0 = CBranch cs -> assoc k cs = Some c ->
  rwalk h n (pre ++ [k]) = Some (ns ++ [t0]).
Proof.
  induction pre as [|a pre IH]; intros n ns t0 cs k c W R E A; cbn in *.
  - inv W. inv R. rewrite E, A. reflexivity.
  - destruct (get_cont h n) as [| |ds]; try discriminate.
    destruct (assoc a ds) as [d|]; try discriminate.
    destruct (rwalk h d pre) as [l|] eqn:Wl; try discriminate. inv W.
    erewrite IH; eauto. reflexivity.
Qed.

(** the position a Get or an Add has reached: node [t0], remaining path [p'] *)
Definition walk_pos (t : thread) : option (path * nat * path) :=
  match top t, tpc t with
  | CGetVal p, PGetEnter t0 p' | CGetVal p, PGetRead t0 p' => Some (p, t0, p')
  | CAdd p _, PAddEnter t0 p' _ => Some (p, t0, p')
  | CAdd p _, PAddTAcq t0 _ | CAdd p _, PAddTCrit t0 _ => Some (p, t0, [])
  | CAdd p _, PAddIRead t0 k r _ | CAdd p _, PAddIRel t0 k r _ | CAdd p _, PAddUpg t0 k r _
  | CAdd p _, PAddUAcq t0 k r _ | CAdd p _, PAddSlow t0 k r _ => Some (p, t0, k :: r)
  | _, _ => None
  end.

(** ... it is the node currently stored at the prefix walked so far, and every
    node read on the way is still locked by this thread *)
Definition walk_ok (h : heap) (t : thread) : Prop :=
  match tpc t with
  | PStart o => o = top t
  | _ =>
      match walk_pos t with
      | Some (p, t0, p') =>
          exists pre ns, p = pre ++ p' /\ resolve h 0 pre = Some t0 /\ rwalk h 0 pre = Some ns /\
                         Forall (fun x => x < t0 /\ exists m, In (x, m) (held t)) ns
      | None => True
      end
  end.

Lemma rwalk_nil_inv h n pre : rwalk h n pre = Some [] -> pre = [].
Proof.
  destruct pre as [|k r]; cbn; auto. destruct (get_cont h n) as [| |cs]; try discriminate.
  destruct (assoc k cs) as [c|]; try discriminate. destruct (rwalk h c r); discriminate.
Qed.

Lemma rwalk_head h n pre x l : rwalk h n pre = Some (x :: l) -> x = n.
Proof.
  destruct pre as [|k r]; cbn; [discriminate|]. destruct (get_cont h n) as [| |cs]; try discriminate.
  destruct (assoc k cs) as [c|]; try discriminate. destruct (rwalk h c r); try discriminate.
  intros E; inv E; auto.
Qed.

(** extending the walked prefix by the child just read *)
Lemma walk_extend h hs pre ns t0 m cs k c :
  heap_ok h -> inside hs t0 m ->
  resolve h 0 pre = Some t0 -> rwalk h 0 pre = Some ns ->
  Forall (fun x => x < t0 /\ exists m, In (x, m) hs) ns ->
  get_cont h t0 = CBranch cs -> assoc k cs = Some c ->
  resolve h 0 (pre ++ [k]) = Some c /\ rwalk h 0 (pre ++ [k]) = Some (ns ++ [t0]) /\
  Forall (fun x => x < c /\ exists m, In (x, m) hs) (ns ++ [t0]).
Proof.
  intros [_ HO] [[r0 ->] _] R W F E A.
  split; [eapply resolve_snoc; eauto|]. split; [eapply rwalk_snoc; eauto|].
  specialize (HO _ _ E). rewrite Forall_forall in HO. destruct (HO _ (assoc_In _ _ _ A)) as [L _].
  cbn in L. apply Forall_app. split.
  - eapply Forall_impl; [|exact F]. cbn. intros x [Lx Hx]. split; [lia|exact Hx].
  - constructor; [|constructor]. split; [exact L|]. exists m. left; reflexivity.
Qed.

Lemma walk_ok_pos h t p t0 p' :
  walk_ok h t -> walk_pos t = Some (p, t0, p') ->
  exists pre ns, p = pre ++ p' /\ resolve h 0 pre = Some t0 /\ rwalk h 0 pre = Some ns /\
                 Forall (fun x => x < t0 /\ exists m, In (x, m) (held t)) ns.
Proof.
  intros Wt W. unfold walk_ok in Wt.
  destruct (tpc t) eqn:P; try (rewrite W in Wt; exact Wt).
  unfold walk_pos in W. rewrite P in W. destruct (top t); discriminate.
Qed.

Lemma step_not_start b h t h' t' : tstep_gen b h t = Some (h', t') -> forall o, tpc t' <> PStart o.
Proof.
  intros ST o. pose proof (tstep_shape _ _ _ _ _ ST) as SH.
  destruct t as [o0 p hs]. cbn [tpc top held] in *.
  destruct (lockop_of (TH o0 p hs)) eqn:LO.
  - destruct SH as [_ ->]. cbn [tpc].
    destruct p; cbn -[Nat.ltb hdelete set_cont new_chain] in *; try discriminate;
    repeat (first
              [ match goal with |- context [start_pc ?a ?b] => destruct b end
              | match goal with |- context [match get_cont ?a ?b with _ => _ end] => destruct (get_cont a b) end
              | match goal with |- context [match assoc ?a ?b with _ => _ end] => destruct (assoc a b) end
              | match goal with |- context [if Nat.ltb ?a ?b then _ else _] => destruct (Nat.ltb a b) end
              | match goal with |- context [if Nat.eqb ?a ?b then _ else _] => destruct (Nat.eqb a b) end
              | match goal with |- context [match query_visits ?a ?b with _ => _ end] => destruct (query_visits a b) end
              | match goal with |- context [if heads_all ?a then _ else _] => destruct (heads_all a) end
              | match goal with |- context [match strip_glob ?a with _ => _ end] => destruct (strip_glob a) end
              | match goal with |- context [match dtodo ?a with _ => _ end] => destruct (dtodo a) as [|[? ?] ?] end
              | match goal with |- context [match ?x with _ => _ end] => is_var x; destruct x end ];
            cbn -[Nat.ltb hdelete set_cont new_chain] in *; try discriminate).
  - destruct SH as [_ [_ ->]]. cbn [tpc]. destruct p; cbn in *; try discriminate; qfin.
  - destruct SH as [_ ->]. cbn [tpc]. destruct p; cbn in *; try discriminate; qfin.
  - destruct SH as [_ [_ ->]]. cbn [tpc]. destruct p; cbn in *; try discriminate; qfin.
  - destruct SH as [n [m [hs' [_ [_ ->]]]]]. cbn [tpc]. destruct p; cbn in *; try discriminate; qfin.
Qed.

Lemma walk_ok_intro h t :
  (forall o, tpc t = PStart o -> o = top t) ->
  (forall p t0 p', walk_pos t = Some (p, t0, p') ->
     exists pre ns, p = pre ++ p' /\ resolve h 0 pre = Some t0 /\ rwalk h 0 pre = Some ns /\
                    Forall (fun x => x < t0 /\ exists m, In (x, m) (held t)) ns) ->
  walk_ok h t.
Proof.
  intros S0 W. unfold walk_ok.
  destruct (walk_pos t) as [[[p0 t0] p']|] eqn:E.
  - specialize (W _ _ _ eq_refl). destruct (tpc t) eqn:P; try exact W.
    unfold walk_pos in E. rewrite P in E. destruct (top t); discriminate.
  - destruct (tpc t) eqn:P; try exact I. apply S0. reflexivity.
Qed.

Lemma walk_ok_start h t o : walk_ok h t -> tpc t = PStart o -> o = top t.
Proof. unfold walk_ok. intros W P. rewrite P in W. exact W. Qed.

Lemma walk_ok_step b h t h' t' :
  heap_ok h -> thread_ok (List.length h) t -> walk_ok h t ->
  tstep_gen b h t = Some (h', t') -> walk_ok h' t'.
Proof.
  intros HO TO A ST. apply walk_ok_intro.
  { intros o Pc. exfalso. eapply step_not_start; eauto. }
  pose proof (tstep_shape _ _ _ _ _ ST) as SH.
  destruct TO as [SO [IL P]].
  assert (A' := fun p t0 p' => walk_ok_pos h t p t0 p' A).
  assert (S0 := fun o => walk_ok_start h t o A).
  clear A.
  destruct t as [o p hs]. cbn [top tpc held] in *.
  intros pp tt pq W'.
  (* facts about the walked prefix survive changes of the current node and allocation *)
  assert (KEEP : forall pre ns t0,
             resolve h 0 pre = Some t0 -> rwalk h 0 pre = Some ns ->
             Forall (fun x => x < t0 /\ exists m, In (x, m) hs) ns ->
             (forall x, x < t0 -> x < List.length h -> get_cont h' x = get_cont h x) ->
             resolve h' 0 pre = Some t0 /\ rwalk h' 0 pre = Some ns).
  { intros pre ns t0 R W F G. destruct (rwalk_frame h h' pre 0 ns t0 W R) as [W3 R']; auto.
    intros x Hx. rewrite Forall_forall in F. destruct (F _ Hx) as [Lx [m Hm]].
    apply G; auto. eapply In_ids_lt; eauto. }
  assert (PUSH : forall ns t0 x, Forall (fun y => y < t0 /\ exists m, In (y, m) hs) ns ->
                                 Forall (fun y => y < t0 /\ exists m, In (y, m) (x :: hs)) ns).
  { intros ns t0 x F. eapply Forall_impl; [|exact F]. cbn. intros y [L [m Hm]]. split; auto.
    exists m. right; auto. }
  destruct p; cbn -[set_cont new_chain hdelete Nat.ltb] in SH; try discriminate.
  - (* PStart *) destruct SH as [_ ->]. rewrite (S0 _ eq_refl) in W'. unfold walk_pos in W'. cbn [top tpc] in W'.
    destruct o; cbn -[Nat.ltb] in W'; try discriminate W'.
    all: try (destruct (Nat.ltb n (List.length h)); discriminate W').
    + inv W'. exists [], []. repeat split; auto.
    + inv W'. exists [], []. repeat split; auto.
  - (* PAddEnter *) destruct p as [|k r]; cbn in SH.
    + destruct SH as [-> ->]. unfold walk_pos in W'. cbn [top tpc] in W'. destruct o; try discriminate W'. inv W'.
      destruct (A' _ _ _ eq_refl) as [pre [ns [Ep [R [W F]]]]]. exists pre, ns.
      destruct (KEEP pre ns tt R W F) as [R' W2]; [intros; apply get_cont_upd_mu; auto|]. auto.
    + destruct SH as [_ [-> ->]]. unfold walk_pos in W'. cbn [top tpc] in W'. destruct o; try discriminate W'. inv W'.
      destruct (A' _ _ _ eq_refl) as [pre [ns [Ep [R [W F]]]]]. exists pre, ns.
      destruct (KEEP pre ns tt R W F) as [R' W2]; [intros; apply get_cont_upd_mu; auto|].
      cbn [held]. repeat split; auto.
  - (* PAddTAcq *) destruct SH as [_ [-> ->]]. unfold walk_pos in W'. cbn [top tpc] in W'. destruct o; try discriminate W'. inv W'.
    destruct (A' _ _ _ eq_refl) as [pre [ns [Ep [R [W F]]]]]. exists pre, ns.
    destruct (KEEP pre ns tt R W F) as [R' W2]; [intros; apply get_cont_upd_mu; auto|].
    cbn [held]. repeat split; auto.
  - (* PAddTCrit *) destruct SH as [_ ->]. unfold walk_pos in W'. cbn [top tpc visit_override] in W'.
    destruct o; try discriminate W'; destruct (get_cont h t); discriminate W'.
  - (* PAddIRead *) destruct SH as [-> ->]. unfold walk_pos in W'. cbn [top tpc visit_override held] in *.
    destruct o; try (destruct (get_cont h t) as [| |cs]; cbn in W'; try discriminate W';
                     destruct (assoc k cs); discriminate W').
    destruct (A' _ _ _ eq_refl) as [pre [ns [Ep [R [W F]]]]].
    destruct (get_cont h t) as [| |cs] eqn:E; cbn in W'.
    + inv W'. exists pre, ns. auto.
    + discriminate.
    + destruct (assoc k cs) as [c|] eqn:As; cbn in W'; inv W'.
      * destruct (walk_extend h hs pre ns t MR cs k tt HO P R W F E As) as [R' [W2 F']].
        exists (pre ++ [k]), (ns ++ [t]). split; [apply app_snoc_cons|auto].
      * exists pre, ns. auto.
  - (* PAddIRel *) destruct SH as [n9 [m9 [hs' [Hh [-> ->]]]]]. unfold walk_pos in W'. cbn [top tpc] in W'.
    destruct P as [[r0 Hr] _]. rewrite Hr in Hh. injection Hh as <- <- <-. subst hs.
    destruct o; try discriminate W'. injection W' as <- <- <-.
    destruct (A' _ _ _ eq_refl) as [pre [ns [Ep [R [W F]]]]]. exists pre, ns.
    destruct (KEEP pre ns t R W F) as [R' W2]; [intros; apply get_cont_upd_mu; auto|].
    cbn [held]. repeat split; auto.
    eapply Forall_impl; [|exact F]. cbn. intros x [L [m Hm]]. split; auto.
    exists m. destruct Hm as [Hm|Hm]; [inv Hm; lia|auto].
  - (* PAddUpg *) destruct SH as [-> ->]. unfold walk_pos in W'. cbn [top tpc] in W'.
    destruct o; try discriminate W'. inv W'.
    destruct (A' _ _ _ eq_refl) as [pre [ns [Ep [R [W F]]]]]. exists pre, ns.
    destruct (KEEP pre ns tt R W F) as [R' W2]; [intros; apply get_cont_upd_mu; auto|]. auto.
  - (* PAddUAcq *) destruct SH as [_ [-> ->]]. unfold walk_pos in W'. cbn [top tpc] in W'.
    destruct o; try discriminate W'. inv W'.
    destruct (A' _ _ _ eq_refl) as [pre [ns [Ep [R [W F]]]]]. exists pre, ns.
    destruct (KEEP pre ns tt R W F) as [R' W2]; [intros; apply get_cont_upd_mu; auto|].
    cbn [held]. repeat split; auto.
  - (* PAddSlow *) destruct SH as [Eh ->]. unfold walk_pos in W'. cbn [top tpc visit_override held] in *.
    destruct o; try (destruct (get_cont h t) as [| |cs]; cbn -[set_cont new_chain] in W'; try discriminate W';
                     destruct (assoc k cs); discriminate W').
    destruct (A' _ _ _ eq_refl) as [pre [ns [Ep [R [W F]]]]].
    assert (Lt : t < List.length h) by (destruct P as [[r0 ->] _]; inv IL; auto).
    destruct (get_cont h t) as [| |cs] eqn:E; cbn -[set_cont new_chain] in W', Eh.
    + inv W'.
      set (h' := set_cont h t (CBranch [(k, List.length h)]) ++ new_chain (List.length h) pq v).
      assert (G : forall x, x < t -> x < List.length h -> get_cont h' x = get_cont h x).
      { intros x L1 L2. unfold h'. rewrite get_cont_app_l by (rewrite length_set_cont; auto).
        apply get_cont_set_neq. lia. }
      destruct (rwalk_frame h h' pre 0 ns t W R) as [W2 R'].
      { intros x Hx. rewrite Forall_forall in F. destruct (F _ Hx) as [Lx [m Hm]].
        apply G; auto. eapply In_ids_lt; eauto. }
      assert (E' : get_cont h' t = CBranch [(k, List.length h)]).
      { unfold h'. rewrite get_cont_app_l by (rewrite length_set_cont; auto). apply get_cont_set_eq; auto. }
      exists (pre ++ [k]), (ns ++ [t]). split; [apply app_snoc_cons|].
      split; [eapply resolve_snoc; eauto; cbn; rewrite String.eqb_refl; reflexivity|].
      split; [eapply rwalk_snoc; eauto; cbn; rewrite String.eqb_refl; reflexivity|].
      apply Forall_app. split.
      * eapply Forall_impl; [|exact F]. cbn. intros x [L Hm]. split; [lia|auto].
      * constructor; [|constructor]. split; [auto|]. destruct P as [[r0 ->] _]. exists MW. left; auto.
    + discriminate.
    + destruct (assoc k cs) as [c|] eqn:As; cbn -[set_cont new_chain] in W', Eh; inv W'.
      * destruct (walk_extend h hs pre ns t MW cs k tt HO P R W F E As) as [R' [W2 F']].
        exists (pre ++ [k]), (ns ++ [t]). split; [apply app_snoc_cons|auto].
      * set (h' := set_cont h t (CBranch (cs ++ [(k, List.length h)])) ++ new_chain (List.length h) pq v).
        assert (G : forall x, x < t -> x < List.length h -> get_cont h' x = get_cont h x).
        { intros x L1 L2. unfold h'. rewrite get_cont_app_l by (rewrite length_set_cont; auto).
          apply get_cont_set_neq. lia. }
        destruct (rwalk_frame h h' pre 0 ns t W R) as [W2 R'].
        { intros x Hx. rewrite Forall_forall in F. destruct (F _ Hx) as [Lx [m Hm]].
          apply G; auto. eapply In_ids_lt; eauto. }
        assert (E' : get_cont h' t = CBranch (cs ++ [(k, List.length h)])).
        { unfold h'. rewrite get_cont_app_l by (rewrite length_set_cont; auto). apply get_cont_set_eq; auto. }
        exists (pre ++ [k]), (ns ++ [t]). split; [apply app_snoc_cons|].
        split; [eapply resolve_snoc; eauto; apply assoc_app_none; auto|].
        split; [eapply rwalk_snoc; eauto; apply assoc_app_none; auto|].
        apply Forall_app. split.
        -- eapply Forall_impl; [|exact F]. cbn. intros x [L Hm]. split; [lia|auto].
        -- constructor; [|constructor]. split; [auto|]. destruct P as [[r0 ->] _]. exists MW. left; auto.
  - (* PGetEnter *) destruct SH as [_ [-> ->]]. unfold walk_pos in W'. cbn [top tpc] in W'.
    destruct o; try discriminate W'. inv W'.
    destruct (A' _ _ _ eq_refl) as [pre [ns [Ep [R [W F]]]]]. exists pre, ns.
    destruct (KEEP pre ns tt R W F) as [R' W2]; [intros; apply get_cont_upd_mu; auto|].
    cbn [held]. repeat split; auto.
  - (* PGetRead *) destruct SH as [-> ->]. unfold walk_pos in W'. cbn [top tpc visit_override held] in *.
    destruct p as [|k r]; cbn in W'; [destruct o; discriminate W'|].
    destruct o; try (destruct (get_cont h t) as [| |cs]; cbn in W'; try discriminate W';
                     destruct (assoc k cs); discriminate W').
    destruct (A' _ _ _ eq_refl) as [pre [ns [Ep [R [W F]]]]].
    destruct (get_cont h t) as [| |cs] eqn:E; cbn in W'; try discriminate W'.
    destruct (assoc k cs) as [c|] eqn:As; cbn in W'; inv W'.
    destruct (walk_extend h hs pre ns t MR cs k tt HO P R W F E As) as [R' [W2 F']].
    exists (pre ++ [k]), (ns ++ [t]). split; [apply app_snoc_cons|auto].
  - (* PUnwind *) destruct hs as [|[n m] r0]; cbn in SH.
    + destruct SH as [_ ->]. unfold walk_pos in W'. destruct k; cbn in W'; destruct o; discriminate W'.
    + destruct SH as [n' [m' [hs' [_ [_ ->]]]]]. unfold walk_pos in W'. cbn in W'. destruct o; discriminate W'.
  - destruct SH as [_ [_ ->]]. unfold walk_pos in W'. cbn in W'. destruct o; discriminate W'.
  - destruct SH as [_ ->]. unfold walk_pos in W'. cbn in W'. destruct o; discriminate W'.
  - destruct SH as [_ ->]. unfold walk_pos in W'. cbn in W'. destruct o; discriminate W'.
  - destruct SH as [_ [_ ->]]. unfold walk_pos in W'. cbn in W'. destruct o; discriminate W'.
  - destruct SH as [_ ->]. unfold walk_pos in W'. cbn in W'. destruct o; discriminate W'.
  - destruct SH as [n' [m' [hs' [_ [_ ->]]]]]. unfold walk_pos in W'. cbn in W'. destruct o; discriminate W'.
  - destruct SH as [_ ->]. unfold walk_pos in W'. cbn in W'. destruct o; discriminate W'.
  - destruct SH as [_ [_ ->]]. unfold walk_pos in W'. cbn in W'. destruct o; discriminate W'.
  - destruct SH as [_ ->]. unfold walk_pos in W'. cbn in W'. destruct o; discriminate W'.
  - destruct SH as [_ [_ ->]]. unfold walk_pos in W'. cbn in W'. destruct o; discriminate W'.
  - destruct SH as [_ ->]. unfold walk_pos in W'. cbn [top tpc visit_override] in W'.
    destruct (query_visits (get_cont h t) q); cbn in W'; destruct o; discriminate W'.
  - destruct SH as [_ ->]. unfold walk_pos in W'. cbn [top tpc visit_override] in W'.
    destruct o as [| |q9 [k9|]| | | |]; try discriminate W'.
    all: try (destruct (Nat.eqb (List.length acc) k9); discriminate W').
  - destruct fr as [|[|[[c pre0] q0] todo] fr]; cbn in SH.
    + destruct SH as [_ ->]. unfold walk_pos in W'. cbn in W'. destruct o; discriminate W'.
    + destruct SH as [n' [m' [hs' [_ [_ ->]]]]]. unfold walk_pos in W'. cbn in W'. destruct o; discriminate W'.
    + destruct SH as [_ ->]. unfold walk_pos in W'. cbn in W'. destruct o; discriminate W'.
  - destruct SH as [_ ->]. unfold walk_pos in W'. cbn in W'. destruct o; discriminate W'.
  - destruct SH as [_ [_ ->]]. unfold walk_pos in W'. cbn in W'. destruct o; discriminate W'.
  - destruct SH as [_ ->]. unfold walk_pos in W'. cbn [top tpc visit_override] in W'. destruct (heads_all q).
    + destruct (get_cont h n); cbn in W'; try (destruct o; discriminate W').
      destruct (strip_glob q); cbn in W'; destruct o; discriminate W'.
    + destruct q as [|k r]; cbn in W'; [destruct o; discriminate W'|].
      destruct (get_cont h n) as [| |cs]; cbn in W'; try (destruct o; discriminate W').
      destruct (assoc k cs); cbn in W'; destruct o; discriminate W'.
  - destruct fr as [|f fr]; cbn in SH.
    + destruct SH as [_ ->]. unfold walk_pos in W'. cbn in W'. destruct o; discriminate W'.
    + destruct SH as [_ ->]. unfold walk_pos in W'. cbn [top tpc visit_override] in W'.
      destruct (dtodo f) as [|[k c] rest]; cbn in W'; destruct o; discriminate W'.
  - destruct SH as [_ ->]. unfold walk_pos in W'. cbn in W'. destruct o; discriminate W'.
  - destruct SH as [_ [_ ->]]. unfold walk_pos in W'. cbn in W'. destruct o; discriminate W'.
  - destruct fr as [|f fr]; cbn in SH.
    + destruct SH as [_ ->]. unfold walk_pos in W'. cbn in W'. destruct o; discriminate W'.
    + destruct SH as [n' [m' [hs' [_ [_ ->]]]]]. unfold walk_pos in W'. cbn in W'. destruct o; discriminate W'.
  - destruct fr as [|f fr]; cbn -[set_cont] in SH.
    + destruct SH as [_ ->]. unfold walk_pos in W'. cbn in W'. destruct o; discriminate W'.
    + destruct SH as [_ ->]. unfold walk_pos in W'. cbn in W'. destruct o; discriminate W'.
Qed.


Definition WInv (s : state) : Prop :=
  Inv s /\ Excl (hp s) /\ Forall (walk_ok (hp s)) (thr s).

(** another thread's step leaves the walked prefix of thread [ti] intact: it
    would need the write lock of a node [ti] holds (or, for Delete, the root's) *)
Lemma walk_ok_other s i j ti tj h' tj' :
  WInv s -> i <> j ->
  nth_error (thr s) i = Some ti -> nth_error (thr s) j = Some tj ->
  tstep_gen false (hp s) tj = Some (h', tj') ->
  walk_ok h' ti.
Proof.
  intros [I [EX WO]] D Ei Ej ST. assert (I' := I). destruct I' as [HO [TO AC]].
  pose proof (Forall_nth_error _ _ _ _ WO Ei) as Wi.
  pose proof (Forall_nth_error _ _ _ _ TO Ei) as [_ [ILi _]].
  pose proof (Forall_nth_error _ _ _ _ TO Ej) as Tj.
  assert (MAIN : forall pp9 t09 p9,
             (exists pre9 ns9, pp9 = pre9 ++ p9 /\ resolve (hp s) 0 pre9 = Some t09 /\
                               rwalk (hp s) 0 pre9 = Some ns9 /\
                               Forall (fun x => x < t09 /\ exists m, In (x, m) (held ti)) ns9) ->
             (exists pre9 ns9, pp9 = pre9 ++ p9 /\ resolve h' 0 pre9 = Some t09 /\
                               rwalk h' 0 pre9 = Some ns9 /\
                               Forall (fun x => x < t09 /\ exists m, In (x, m) (held ti)) ns9)).
  { intros pp9 t09 p9 [pre9 [ns9 [E9 [R9 [W9 F9]]]]]. exists pre9, ns9.
    destruct ns9 as [|x0 l].
    - apply rwalk_nil_inv in W9. subst pre9. cbn in R9. inv R9. cbn. repeat split; auto.
    - assert (Hx0 : x0 = 0) by (eapply rwalk_head; eauto). subst x0.
      assert (FR : forall x, In x (0 :: l) -> get_cont h' x = get_cont (hp s) x).
      { intros x Hx. rewrite Forall_forall in F9. destruct (F9 _ Hx) as [_ [m Hm]].
        eapply tstep_frame; eauto.
        - intros q Pq. destruct Tj as [_ [_ Pj]]. rewrite Pq in Pj. cbn in Pj.
          destruct (F9 0 (or_introl eq_refl)) as [_ [m0 Hm0]].
          eapply (excl_pair s j i tj ti 0 m0); eauto. rewrite Pj. left; reflexivity.
        - eapply In_ids_lt; eauto.
        - intros m' Hm'. destruct m'; auto. exfalso. eapply (excl_pair s j i tj ti x m); eauto. }
      destruct (rwalk_frame (hp s) h' pre9 0 (0 :: l) t09 W9 R9 FR) as [W' R']. repeat split; auto. }
  unfold walk_ok in *.
  destruct (tpc ti); auto; destruct (walk_pos ti) as [[[pp9 t09] p9]|]; auto.
Qed.

Lemma WInv_step s i s' : WInv s -> step s i = Some s' -> WInv s'.
Proof.
  intros WI ST. assert (WI' := WI). destruct WI' as [I [EX WO]].
  pose proof (Inv_step _ _ _ _ I ST) as I'. pose proof (Excl_step _ _ _ _ EX ST) as EX'.
  split; [exact I'|]. split; [exact EX'|].
  unfold step, step_gen in ST.
  destruct (nth_error (thr s) i) as [t|] eqn:Et; [|discriminate].
  destruct (tstep_gen false (hp s) t) as [[h' t']|] eqn:Ets; [|discriminate]. inv ST. cbn [hp thr].
  destruct I as [HO [TO _]].
  apply Forall_forall. intros t0 H0.
  apply In_nth_error in H0. destruct H0 as [k Hk].
  destruct (Nat.eq_dec i k) as [->|D].
  - erewrite nth_error_set_nth_eq in Hk by eauto. inv Hk.
    eapply walk_ok_step; eauto; eapply Forall_nth_error; eauto.
  - rewrite nth_error_set_nth_neq in Hk by auto.
    eapply (walk_ok_other s k i t0 t); eauto.
Qed.

Lemma WInv_init ops : WInv (init_state ops).
Proof.
  split; [apply Inv_init|]. split.
  - intros n x E W. cbn in E. destruct n as [|[|n]]; cbn in E; try discriminate. inv E. reflexivity.
  - cbn. apply Forall_forall. intros t Ht. apply in_map_iff in Ht. destruct Ht as [o [<- _]].
    unfold walk_ok. cbn. reflexivity.
Qed.

Lemma reach_WInv ops s : reach ops s -> WInv s.
Proof. induction 1; [apply WInv_init|eapply WInv_step; eauto]. Qed.

(** Linearization points of the point operations, for ALL programs (Deletes and
    handle updates included) and all interleavings: wherever a Get or an Add
    stands on its way down, the node it stands on is the node that the prefix
    walked so far leads to in the CURRENT tree.  In particular
    - when Get makes its final read ([PGetRead t0 []]) it reads the node that
      is stored at its path at that very moment, and
    - when Add writes the value ([PAddTCrit t0 v]) it writes the node that is
      stored at its path at that very moment.
    Together with C10_delete_atomic (Delete's critical section excludes every
    other tree operation) each point operation takes effect at one step. *)
Theorem point_ops_on_current_node ops s i t p t0 p' :
  reach ops s -> nth_error (thr s) i = Some t -> walk_pos t = Some (p, t0, p') ->
  exists pre, p = pre ++ p' /\ resolve (hp s) 0 pre = Some t0.
Proof.
  intros R E W. destruct (reach_WInv _ _ R) as [_ [_ WO]].
  pose proof (Forall_nth_error _ _ _ _ WO E) as Wt. unfold walk_ok in Wt.
  destruct (tpc t) eqn:P;
    try (rewrite W in Wt; destruct Wt as [pre9 [ns9 [Ep [Rp _]]]]; exists pre9; auto).
  unfold walk_pos in W. rewrite P in W. destruct (top t); discriminate.
Qed.

Corollary get_reads_current_node ops s i t p t0 :
  reach ops s -> nth_error (thr s) i = Some t ->
  top t = CGetVal p -> tpc t = PGetRead t0 [] -> resolve (hp s) 0 p = Some t0.
Proof.
  intros R E T P.
  destruct (point_ops_on_current_node ops s i t p t0 [] R E) as [pre [Ep Rp]].
  - unfold walk_pos. rewrite T, P. reflexivity.
  - rewrite app_nil_r in Ep. subst pre. exact Rp.
Qed.

Corollary add_writes_current_node ops s i t p v t0 v' :
  reach ops s -> nth_error (thr s) i = Some t ->
  top t = CAdd p v -> tpc t = PAddTCrit t0 v' -> resolve (hp s) 0 p = Some t0.
Proof.
  intros R E T P.
  destruct (point_ops_on_current_node ops s i t p t0 [] R E) as [pre [Ep Rp]].
  - unfold walk_pos. rewrite T, P. reflexivity.
  - rewrite app_nil_r in Ep. subst pre. exact Rp.
Qed.

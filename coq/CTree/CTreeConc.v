(** Concurrent model of ctree/tree.go: the locking protocol as a labelled
    transition system (executable; definitions only -- proofs are in
    CTreeConcProofs.v).

    The heap is a list of nodes (node id = index, the root is node 0).  A node
    carries its content ([leafBranch]) and the state of its [sync.RWMutex]:
    number of readers, writer flag, number of announced (pending) writers.
    The RWMutex is modelled from its documentation, including writer
    preference: [RLock] blocks while a writer holds or has announced itself.

    A thread executes one API call.  One step of a thread is either ONE lock
    operation (RLock / announce Lock / acquire Lock / RUnlock-or-Unlock of the
    most recently acquired lock -- every release in tree.go is a [defer] or
    releases the lock taken last, so the held locks form a stack) or ONE
    guarded critical section on one node (all reads and writes of a node's
    [leafBranch] made between two lock operations), or a local step.

    Allocation: new nodes are appended, so a child created by [newBranch]
    always has a larger id than its parent.  *)
From Gnmi Require Import Base.Prelude CTree.CTreeModel.
Open Scope Z_scope.

Inductive content :=
| CNil                                  (* leafBranch == nil (empty root) *)
| CLeaf (v : Z)
| CBranch (cs : list (string * nat)).   (* Go map name -> *Tree *)

Record hnode := HN { cont : content; rd : nat; wr : bool; pw : nat }.
Definition heap := list hnode.

Inductive lmode := MR | MW.

Definition lmode_eqb (a b : lmode) : bool :=
  match a, b with MR, MR => true | MW, MW => true | _, _ => false end.

(** ** API calls *)
Inductive cop :=
| CAdd (p : path) (v : Z)
| CGetVal (p : path)            (* GetLeafValue = Get(path).Value() *)
| CQuery (q : path) (failat : option nat)
    (* Query; Walk has the same locking with q = [].  [failat = Some k]: the
       VisitFunc returns an error at its (k+1)-th call, which aborts the query *)
| CDelete (q : path)             (* Delete as of repo commit 3480f62: per-node write locks *)
| CDeleteUnlocked (q : path)     (* the code BEFORE 3480f62: root write lock only (defect C10_1) *)
| CHValue (n : nat)             (* Leaf.Value through a retained handle to node n *)
| CHUpdate (n : nat) (v : Z).   (* Leaf.Update through a retained handle to node n *)

Inductive cres :=
| XAdd (ok : bool)
| XVal (o : option Z)
| XLeaves (l : list (path * Z))
| XPaths (l : list path)
| XFail (l : list (path * Z))    (* Query returned the visitor's error after visiting l *)
| XUnit.

(** a pending child visit of Query: node, its prefix, the remaining query *)
Definition qitem := (nat * path * path)%type.

(** what a thread does once it has released everything it holds *)
Inductive ucont :=
| UDone (r : cres)              (* return r *)
| UVal (n : nat).               (* Get returned node n: call Value() on it *)

(** one level of Delete's recursion: node [dn] (write-locked), the query for
    its children, the child being processed, the children still to process,
    the removed leaf paths collected so far (relative to [dn]) *)
Record dframe := DF { dn : nat; dq : path; dcur : string;
                      dtodo : list (string * nat); dacc : list path }.

Inductive pc :=
| PStart (o : cop)
| PDone (r : cres)
(* Add *)
| PAddEnter (t : nat) (p : path) (v : Z)            (* t.Add(p, v) entered *)
| PAddTAcq (t : nat) (v : Z)                         (* terminalAdd: Lock announced *)
| PAddTCrit (t : nat) (v : Z)                        (* terminalAdd critical section *)
| PAddIRead (t : nat) (k : string) (r : path) (v : Z)  (* intermediateAdd: read under RLock *)
| PAddIRel (t : nat) (k : string) (r : path) (v : Z)   (* RUnlock before the exchange *)
| PAddUpg (t : nat) (k : string) (r : path) (v : Z)    (* hook add:upgrade; next: announce Lock *)
| PAddUAcq (t : nat) (k : string) (r : path) (v : Z)   (* acquire Lock *)
| PAddSlow (t : nat) (k : string) (r : path) (v : Z)   (* slowAdd critical section *)
(* Get *)
| PGetEnter (t : nat) (p : path)
| PGetRead (t : nat) (p : path)
(* release everything held (deferred unlocks), then continue *)
| PUnwind (k : ucont)
(* Leaf.Value / Tree.Value on a handle *)
| PHVal (n : nat)
| PHValRead (n : nat)
(* Leaf.Update on a handle *)
| PHUpd (n : nat) (v : Z)
| PHUpdAcq (n : nat) (v : Z)
| PHUpdWrite (n : nat) (v : Z)
| PHRel (r : cres)               (* release the handle's lock, then return r *)
(* Delete *)
| PDel (q : path)
| PDelAcq (q : path)
| PDelCrit (q : path)
(* Query *)
| PQEnter (t : nat) (pre q : path) (acc : list (path * Z)) (fr : list (list qitem))
| PQRead (t : nat) (pre q : path) (acc : list (path * Z)) (fr : list (list qitem))
| PQVisit (pre : path) (v : Z) (acc : list (path * Z)) (fr : list (list qitem))
| PQNext (acc : list (path * Z)) (fr : list (list qitem))
(* Delete with per-node locking (lockedDelete / internalDelete) *)
| PLDel (q : path)                                   (* announce Lock(root) *)
| PLDelAcq (q : path)                                (* acquire it *)
| PLVisit (n : nat) (q : path) (fr : list dframe)    (* internalDelete entered on n (write-locked) *)
| PLNext (fr : list dframe)                          (* loop over the children of the top frame *)
| PLEnter (c : nat) (q : path) (fr : list dframe)    (* lockedDelete on child c: announce Lock *)
| PLCAcq (c : nat) (q : path) (fr : list dframe)     (* acquire it *)
| PLRet (del : bool) (ls : list path) (fr : list dframe)   (* internalDelete returns; Unlock (deferred) *)
| PLBack (del : bool) (ls : list path) (fr : list dframe). (* back in the parent: delete(b, k), collect *)

(** [top]: the API call this thread executes (never changes) *)
Record thread := TH { top : cop; tpc : pc; held : list (nat * lmode) }.

Record state := ST { hp : heap; thr : list thread }.

(** ** heap primitives *)

Fixpoint upd_node (h : heap) (n : nat) (f : hnode -> hnode) : heap :=
  match h, n with
  | [], _ => []
  | x :: h', O => f x :: h'
  | x :: h', S n' => x :: upd_node h' n' f
  end.

Definition set_cont (h : heap) (n : nat) (c : content) : heap :=
  upd_node h n (fun x => HN c (rd x) (wr x) (pw x)).

Definition get_cont (h : heap) (n : nat) : content :=
  match nth_error h n with Some x => cont x | None => CNil end.

(** [strict = true]: a reader waits while any writer has announced itself
    (writer preference exactly as documented).  [strict = false]: a reader only
    waits for a writer that holds the lock.  The real RWMutex lies between the
    two (a reader that was already waiting when the previous writer unlocked
    is admitted before the next announced writer), so safety is proved for all
    runs of the permissive relation, and progress is proved for the strict
    notion of "enabled". *)
Definition can_rlock (strict : bool) (h : heap) (n : nat) : bool :=
  match nth_error h n with
  | Some x => negb (wr x) && (negb strict || Nat.eqb (pw x) 0)
  | None => false
  end.

Definition can_lock (h : heap) (n : nat) : bool :=
  match nth_error h n with
  | Some x => negb (wr x) && Nat.eqb (rd x) 0
  | None => false
  end.

Definition do_rlock (h : heap) (n : nat) : heap :=
  upd_node h n (fun x => HN (cont x) (S (rd x)) (wr x) (pw x)).
Definition do_req (h : heap) (n : nat) : heap :=
  upd_node h n (fun x => HN (cont x) (rd x) (wr x) (S (pw x))).
Definition do_acq (h : heap) (n : nat) : heap :=
  upd_node h n (fun x => HN (cont x) (rd x) true (Nat.pred (pw x))).
Definition do_rel (h : heap) (n : nat) (m : lmode) : heap :=
  match m with
  | MR => upd_node h n (fun x => HN (cont x) (Nat.pred (rd x)) (wr x) (pw x))
  | MW => upd_node h n (fun x => HN (cont x) (rd x) false (pw x))
  end.

(** newBranch(r, v) allocated at ids base, base+1, ... (parent before child) *)
Fixpoint new_chain (base : nat) (r : path) (v : Z) : list hnode :=
  match r with
  | [] => [HN (CLeaf v) 0 false 0]
  | k :: r' => HN (CBranch [(k, S base)]) 0 false 0 :: new_chain (S base) r' v
  end.

(** ** internalDelete on the heap (condition = always).  Result: new heap,
    "remove me from my parent", removed leaf paths relative to the node. *)
Definition is_nil {A} (l : list A) : bool := match l with [] => true | _ => false end.

Fixpoint hdel (fuel : nat) (h : heap) (n : nat) (q : path) : heap * bool * list path :=
  match fuel with
  | O => (h, false, [])
  | S f =>
      if heads_all q then
        let q' := strip_glob q in
        match get_cont h n with
        | CBranch cs =>
            let res :=
              fold_left
                (fun (acc : heap * list (string * nat) * list path) (kc : string * nat) =>
                   let r := hdel f (fst (fst acc)) (snd kc) q' in
                   (fst (fst r),
                    if snd (fst r) then snd (fst acc) else snd (fst acc) ++ [kc],
                    snd acc ++ map (cons (fst kc)) (snd r)))
                cs (h, [], []) in
            (set_cont (fst (fst res)) n (CBranch (snd (fst res))),
             is_nil (snd (fst res)), snd res)
        | CNil => (h, false, [])
        | CLeaf _ =>
            match q' with
            | [] => (h, true, [[]])
            | _ :: _ => (h, false, [])
            end
        end
      else
        match q, get_cont h n with
        | k :: r, CBranch cs =>
            match assoc k cs with
            | Some c =>
                let res := hdel f h c r in
                let cs' := if snd (fst res) then adel k cs else cs in
                (set_cont (fst (fst res)) n (CBranch cs'), is_nil cs',
                 map (cons k) (snd res))
            | None => (h, false, [])
            end
        | _, _ => (h, false, [])
        end
  end.

(** DeleteConditional's critical section on the root *)
Definition hdelete (h : heap) (q : path) : heap * list path :=
  let res := hdel (S (List.length h)) h 0%nat q in
  (if snd (fst res) then set_cont (fst (fst res)) 0%nat CNil else fst (fst res), snd res).

(** ** the lock operation a thread performs next (a function of its own state) *)
Inductive lockop :=
| LNone                 (* local step / critical section: always enabled *)
| LRLock (n : nat)
| LReq (n : nat)        (* Lock(): announce (readers arriving later wait) *)
| LAcq (n : nat)        (* Lock(): acquire once no reader and no writer holds *)
| LRel.                 (* release the most recently acquired lock *)

Definition lockop_of (t : thread) : lockop :=
  match tpc t with
  | PStart _ => LNone
  | PDone _ => LNone
  | PAddEnter t0 [] _ => LReq t0
  | PAddEnter t0 (_ :: _) _ => LRLock t0
  | PAddTAcq t0 _ => LAcq t0
  | PAddTCrit _ _ => LNone
  | PAddIRead _ _ _ _ => LNone
  | PAddIRel _ _ _ _ => LRel
  | PAddUpg t0 _ _ _ => LReq t0
  | PAddUAcq t0 _ _ _ => LAcq t0
  | PAddSlow _ _ _ _ => LNone
  | PGetEnter t0 _ => LRLock t0
  | PGetRead _ _ => LNone
  | PUnwind _ => match held t with [] => LNone | _ :: _ => LRel end
  | PHVal n => LRLock n
  | PHValRead _ => LNone
  | PHUpd n _ => LReq n
  | PHUpdAcq n _ => LAcq n
  | PHUpdWrite _ _ => LNone
  | PHRel _ => LRel
  | PDel _ => LReq 0%nat
  | PDelAcq _ => LAcq 0%nat
  | PDelCrit _ => LNone
  | PQEnter t0 _ _ _ _ => LRLock t0
  | PQRead _ _ _ _ _ => LNone
  | PQVisit _ _ _ _ => LNone
  | PQNext _ [] => LNone
  | PQNext _ ([] :: _) => LRel
  | PQNext _ ((_ :: _) :: _) => LNone
  | PLDel _ => LReq 0%nat
  | PLDelAcq _ => LAcq 0%nat
  | PLVisit _ _ _ => LNone
  | PLNext _ => LNone
  | PLEnter c _ _ => LReq c
  | PLCAcq c _ _ => LAcq c
  | PLRet _ _ [] => LNone
  | PLRet _ _ (_ :: _) => LRel
  | PLBack _ _ _ => LNone
  end.

(** program counter after a lock operation succeeded *)
Definition after_lock (p : pc) : pc :=
  match p with
  | PAddEnter t0 [] v => PAddTAcq t0 v
  | PAddEnter t0 (k :: r) v => PAddIRead t0 k r v
  | PAddTAcq t0 v => PAddTCrit t0 v
  | PAddIRel t0 k r v => PAddUpg t0 k r v
  | PAddUpg t0 k r v => PAddUAcq t0 k r v
  | PAddUAcq t0 k r v => PAddSlow t0 k r v
  | PGetEnter t0 p0 => PGetRead t0 p0
  | PHVal n => PHValRead n
  | PHUpd n v => PHUpdAcq n v
  | PHUpdAcq n v => PHUpdWrite n v
  | PHRel r => PDone r
  | PDel q => PDelAcq q
  | PDelAcq q => PDelCrit q
  | PQEnter t0 pre q acc fr => PQRead t0 pre q acc fr
  | PQNext acc (_ :: fr) => PQNext acc fr
  | PLDel q => PLDelAcq q
  | PLDelAcq q => PLVisit 0%nat q []
  | PLEnter c q fr => PLCAcq c q fr
  | PLCAcq c q fr => PLVisit c q fr
  | PLRet d ls fr => PLBack d ls fr
  | other => other
  end.

(** ** local steps and critical sections *)

Definition start_pc (h : heap) (o : cop) : pc :=
  match o with
  | CAdd p v => PAddEnter 0%nat p v
  | CGetVal p => PGetEnter 0%nat p
  | CQuery q _ => PQEnter 0%nat [] q [] []
  | CDelete q => PLDel q
  | CDeleteUnlocked q => PDel q
  | CHValue n => if Nat.ltb n (List.length h) then PHVal n else PDone (XVal None)
  | CHUpdate n v => if Nat.ltb n (List.length h) then PHUpd n v else PDone XUnit
  end.

(** children Query descends into from node [t] (enumerateChildren / queryInternal) *)
Definition query_items (c : content) (pre q : path) : list qitem :=
  match q with
  | [] => match c with
          | CBranch cs => map (fun kc => (snd kc, pre ++ [fst kc], [])) cs
          | _ => []
          end
  | k :: r =>
      if is_glob k then
        match c with
        | CBranch cs => map (fun kc => (snd kc, pre ++ [fst kc], r)) cs
        | _ => []
        end
      else
        match c with
        | CBranch cs =>
            match assoc k cs with
            | Some br => [(br, pre ++ [k], r)]
            | None => []
            end
        | _ => []
        end
  end.

(** does Query call the visitor on this node?  (leaf reached with the path
    exhausted, or with exactly one glob left) *)
Definition query_visits (c : content) (q : path) : option Z :=
  match c with
  | CLeaf v =>
      match q with
      | [] => Some v
      | [k] => if is_glob k then Some v else None
      | _ => None
      end
  | _ => None
  end.

Definition local_step (h : heap) (p : pc) : heap * pc :=
  match p with
  | PStart o => (h, start_pc h o)
  | PDone r => (h, PDone r)
  | PAddTCrit t0 v =>
      match get_cont h t0 with
      | CBranch _ => (h, PUnwind (UDone (XAdd false)))      (* leaf in place of a branch *)
      | _ => (set_cont h t0 (CLeaf v), PUnwind (UDone (XAdd true)))
      end
  | PAddIRead t0 k r v =>
      match get_cont h t0 with
      | CNil => (h, PAddIRel t0 k r v)
      | CBranch cs =>
          match assoc k cs with
          | Some br => (h, PAddEnter br r v)                (* br.Add(path[1:]) holding RLock t *)
          | None => (h, PAddIRel t0 k r v)
          end
      | CLeaf _ => (h, PUnwind (UDone (XAdd false)))        (* already a leaf *)
      end
  | PAddSlow t0 k r v =>
      (* slowAdd under the write lock of t0, including the re-check *)
      match get_cont h t0 with
      | CLeaf _ => (h, PUnwind (UDone (XAdd false)))
      | CNil =>
          let br := List.length h in
          (set_cont h t0 (CBranch [(k, br)]) ++ new_chain br r v, PAddEnter br r v)
      | CBranch cs =>
          match assoc k cs with
          | Some br => (h, PAddEnter br r v)                (* added meanwhile: re-check *)
          | None =>
              let br := List.length h in
              (set_cont h t0 (CBranch (cs ++ [(k, br)])) ++ new_chain br r v,
               PAddEnter br r v)
          end
      end
  | PGetRead t0 p0 =>
      match p0 with
      | [] => (h, PUnwind (UVal t0))                       (* Get returns t; then .Value() *)
      | k :: r =>
          match get_cont h t0 with
          | CBranch cs =>
              match assoc k cs with
              | Some br => (h, PGetEnter br r)
              | None => (h, PUnwind (UDone (XVal None)))
              end
          | _ => (h, PUnwind (UDone (XVal None)))
          end
      end
  | PUnwind (UDone r) => (h, PDone r)
  | PUnwind (UVal n) => (h, PHVal n)
  | PHValRead n =>
      (h, PHRel (XVal (match get_cont h n with CLeaf v => Some v | _ => None end)))
  | PHUpdWrite n v => (set_cont h n (CLeaf v), PHRel XUnit)
  | PDelCrit q =>
      (* the code before repo commit 3480f62 (defect C10_1, fixed): Delete
         mutates and reads every descendant while holding the root write lock
         only.  Reachable only from [CDeleteUnlocked]; kept as the regression
         witness C10_handle_delete_race_refuted. *)
      let r := hdelete h q in (fst r, PUnwind (UDone (XPaths (snd r))))
  | PQRead t0 pre q acc fr =>
      let c := get_cont h t0 in
      match query_visits c q with
      | Some v => (h, PQVisit pre v acc ([] :: fr))
      | None => (h, PQNext acc (query_items c pre q :: fr))
      end
  | PQVisit pre v acc fr => (h, PQNext (acc ++ [(pre, v)]) fr)
  | PQNext acc [] => (h, PDone (XLeaves acc))
  | PQNext acc (((c, pre, q) :: todo) :: fr) => (h, PQEnter c pre q acc (todo :: fr))
  | PLVisit n q fr =>
      (* internalDelete on n, which is write-locked *)
      if heads_all q then
        match get_cont h n with
        | CBranch cs => (h, PLNext (DF n (strip_glob q) "" cs [] :: fr))
        | CNil => (h, PLRet false [] fr)
        | CLeaf _ =>
            match strip_glob q with
            | [] => (h, PLRet true [[]] fr)
            | _ :: _ => (h, PLRet false [] fr)
            end
        end
      else
        match q, get_cont h n with
        | k :: r, CBranch cs =>
            match assoc k cs with
            | Some c => (h, PLNext (DF n r "" [(k, c)] [] :: fr))
            | None => (h, PLRet false [] fr)
            end
        | _, _ => (h, PLRet false [] fr)
        end
  | PLNext (f :: fr) =>
      match dtodo f with
      | [] =>
          (* len(b) == 0 *)
          (h, PLRet (match get_cont h (dn f) with CBranch cs => is_nil cs | _ => false end)
                    (dacc f) fr)
      | (k, c) :: rest => (h, PLEnter c (dq f) (DF (dn f) (dq f) k rest (dacc f) :: fr))
      end
  | PLRet del ls [] =>
      (* back in DeleteConditional / WalkDeleted: clear the root *)
      (if del then set_cont h 0%nat CNil else h, PUnwind (UDone (XPaths ls)))
  | PLBack del ls (f :: fr) =>
      ((if del then
          match get_cont h (dn f) with
          | CBranch cs => set_cont h (dn f) (CBranch (adel (dcur f) cs))
          | _ => h
          end
        else h),
       PLNext (DF (dn f) (dq f) (dcur f) (dtodo f) (dacc f ++ map (cons (dcur f)) ls) :: fr))
  | other => (h, other)
  end.

(** ** one step of one thread; [None]: blocked (or finished) *)
Definition is_done (p : pc) : bool := match p with PDone _ => true | _ => false end.

(** the visitor of a Query with [failat = Some k] returns an error at its
    (k+1)-th call: enumerateChildren / queryInternal return that error at once
    at every level, and every deferred RUnlock runs ([PUnwind]) *)
Definition visit_override (o : cop) (p p' : pc) : pc :=
  match p with
  | PQVisit pre v acc _ =>
      match o with
      | CQuery _ (Some k) =>
          if Nat.eqb (List.length acc) k then PUnwind (UDone (XFail (acc ++ [(pre, v)]))) else p'
      | _ => p'
      end
  | _ => p'
  end.

Definition tstep_gen (strict : bool) (h : heap) (t : thread) : option (heap * thread) :=
  if is_done (tpc t) then None else
  match lockop_of t with
  | LNone => let r := local_step h (tpc t) in
             Some (fst r, TH (top t) (visit_override (top t) (tpc t) (snd r)) (held t))
  | LRLock n =>
      if can_rlock strict h n
      then Some (do_rlock h n, TH (top t) (after_lock (tpc t)) ((n, MR) :: held t))
      else None
  | LReq n => Some (do_req h n, TH (top t) (after_lock (tpc t)) (held t))
  | LAcq n =>
      if can_lock h n
      then Some (do_acq h n, TH (top t) (after_lock (tpc t)) ((n, MW) :: held t))
      else None
  | LRel =>
      match held t with
      | (n, m) :: hs => Some (do_rel h n m, TH (top t) (after_lock (tpc t)) hs)
      | [] => None
      end
  end.

Fixpoint set_nth {A} (l : list A) (i : nat) (x : A) : list A :=
  match l, i with
  | [], _ => []
  | _ :: l', O => x :: l'
  | y :: l', S i' => y :: set_nth l' i' x
  end.

Definition step_gen (strict : bool) (s : state) (i : nat) : option state :=
  match nth_error (thr s) i with
  | None => None
  | Some t =>
      match tstep_gen strict (hp s) t with
      | None => None
      | Some (h', t') => Some (ST h' (set_nth (thr s) i t'))
      end
  end.

(** the transition relation all safety theorems quantify over *)
Definition tstep := tstep_gen false.
Definition step := step_gen false.

(** enabled even if every announced writer is given preference *)
Definition enabled_strict (s : state) (i : nat) : bool :=
  match step_gen true s i with Some _ => true | None => false end.

Definition empty_root : hnode := HN CNil 0 false 0.

Definition init_state (ops : list cop) : state :=
  ST [empty_root] (map (fun o => TH o (PStart o) []) ops).

(** run a schedule (a list of thread ids); a choice that is not enabled is skipped *)
Fixpoint run_sched (s : state) (sch : list nat) : state :=
  match sch with
  | [] => s
  | i :: sch' => match step s i with Some s' => run_sched s' sch' | None => run_sched s sch' end
  end.

(** the node a fully specified path leads to from node [n] (no locking: a
    specification device, not a program) *)
Fixpoint resolve (h : heap) (n : nat) (p : path) : option nat :=
  match p with
  | [] => Some n
  | k :: r =>
      match get_cont h n with
      | CBranch cs => match assoc k cs with Some c => resolve h c r | None => None end
      | _ => None
      end
  end.

(** ** abstraction: the sequential tree a heap represents *)
Fixpoint extract (fuel : nat) (h : heap) (n : nat) : option (node Z) :=
  match fuel with
  | O => None
  | S f =>
      match get_cont h n with
      | CNil => None
      | CLeaf v => Some (Leaf v)
      | CBranch cs =>
          Some (Branch (flat_map (fun kc => match extract f h (snd kc) with
                                            | Some c => [(fst kc, c)]
                                            | None => []
                                            end) cs))
      end
  end.

Definition abs_tree (h : heap) : tree Z := extract (S (List.length h)) h 0%nat.

Definition leaves_of (h : heap) : list (path * Z) := walk (abs_tree h).

(** ** content accesses, for the lockset-style race statement.  A critical
    section reads or writes the [leafBranch] field of a node ([AField]) and/or
    the entries of its map ([AMap]); Delete's critical section touches every
    node reachable from the root without taking their locks. *)
Inductive aloc := AField | AMap.

Definition aloc_eqb (a b : aloc) : bool :=
  match a, b with AField, AField => true | AMap, AMap => true | _, _ => false end.

(** (node, location, is-write) *)
Definition access := (nat * aloc * bool)%type.

Fixpoint reach (fuel : nat) (h : heap) (n : nat) : list nat :=
  match fuel with
  | O => []
  | S f =>
      n :: match get_cont h n with
           | CBranch cs => flat_map (fun kc => reach f h (snd kc)) cs
           | _ => []
           end
  end.

Definition reachable (h : heap) : list nat := reach (S (List.length h)) h 0%nat.

Definition accesses (h : heap) (p : pc) : list access :=
  match p with
  | PAddTCrit t0 _ => [(t0, AField, true)]
  | PAddIRead t0 _ _ _ => [(t0, AField, false); (t0, AMap, false)]
  | PAddSlow t0 _ _ _ => [(t0, AField, true); (t0, AMap, true)]
  | PGetRead t0 (_ :: _) => [(t0, AField, false); (t0, AMap, false)]
  | PHValRead n => [(n, AField, false)]
  | PHUpdWrite n _ => [(n, AField, true)]
  | PQRead t0 _ _ _ _ => [(t0, AField, false); (t0, AMap, false)]
  | PDelCrit _ =>
      (0%nat, AField, true) ::
      flat_map (fun n => [(n, AField, false); (n, AMap, true)]) (reachable h)
  | PLVisit n _ _ => [(n, AField, false); (n, AMap, false)]
  | PLNext (f :: _) => match dtodo f with [] => [(dn f, AMap, false)] | _ => [] end
  | PLBack _ _ (f :: _) => [(dn f, AMap, true)]
  | PLRet _ _ [] => [(0%nat, AField, true)]
  | _ => []
  end.

Definition conflict (a b : access) : bool :=
  Nat.eqb (fst (fst a)) (fst (fst b)) && aloc_eqb (snd (fst a)) (snd (fst b))
  && (snd a || snd b).

Definition race_between (h : heap) (a b : thread) : bool :=
  existsb (fun x => existsb (conflict x) (accesses h (tpc b))) (accesses h (tpc a)).

Definition is_handle_pc (p : pc) : bool :=
  match p with
  | PHVal _ | PHValRead _ | PHUpd _ _ | PHUpdAcq _ _ | PHUpdWrite _ _ | PHRel _ => true
  | _ => false
  end.

(** Correspondence evaluator and executable property checker for C10.

    Three kinds of cases come from the harness:

    [CSched]  a forced schedule (mode S).  Threads park at the hook point
       [add:upgrade] of ctree.Add, inside the visitor of a Query and inside a
       harness-side critical section on a leaf (a paused Leaf.Update); the
       controller advances one thread at a time and records, once every
       thread is parked, blocked in a mutex or finished, the status of every
       thread and, for every node of the tree, whether its RWMutex is free /
       read-held / write-held-or-announced (TryLock/TryRLock probes).
       The LTS of CTreeConc.v must be able to produce exactly these
       observations (acceptance over all orders in which simultaneously
       runnable threads may run), the results and the final content: tag 1.
       The history of the run must be linearizable w.r.t. the flat
       specification of C09: tag 2.

    [CWin]  one window of a free-running workload (mode A): the content at the
       quiescent point before (a Walk), completed operations with invocation /
       response ticks, the content at the quiescent point after.
       Point operations must be linearizable from the first content to the
       second (tag 2); queries/walks must satisfy the weak specification
       (tag 3); no operation may panic or hang (tag 4).

    [CEvent]  process-level observations: fatal runtime error or hang of a
       workload (tag 4), race-detector reports (tag 5). *)
From Gnmi Require Import Base.Prelude CTree.CTreeModel CTree.CTreeCheck CTree.CTreeConc CTree.LinCheck.
Open Scope Z_scope.

(** ** operations and results as the harness reports them *)
Inductive aop :=
| AAdd (p : path) (v : Z)
| AGetVal (p : path)
| ADelete (q : path)
| AQuery (q : path)             (* Walk = AQuery [] *)
| AQueryErr (q : path)          (* Query / Walk / WalkSorted aborted by an error of its visitor *)
| AHUpd (p : path) (v : Z)      (* Leaf.Update through a handle obtained for path p *)
| AHVal (p : path).             (* Leaf.Value through such a handle *)

Inductive ares :=
| RsAdd (ok : bool)
| RsVal (o : option Z)
| RsPaths (l : list path)
| RsLeaves (l : list (path * Z))
| RsUnit
| RsQErr                        (* the visitor's error came back *)
| RsSwallowed                   (* the visitor returned an error but the traversal returned nil *)
| RsPanic
| RsHang.

Definition hop := @opr aop ares.

(** ** the specification: flat prefix-free map of C09 ([CTreeCheck.fstep]) *)
Definition spec_step (f : flat) (o : aop) (r : ares) : list flat :=
  match o, r with
  | AAdd p v, RsAdd ok =>
      let fr := fstep f (OAdd p v) in
      if obs_eqb (RAdd ok) (snd fr) then [fst fr] else []
  | AGetVal p, RsVal o =>
      let fr := fstep f (OGetLeafValue p) in
      if obs_eqb (RKind (match o with Some v => KLeaf v | None => KAbsent end)) (snd fr)
      then [f] else []
  | ADelete q, RsPaths l =>
      let fr := fstep f (ODelete q CAll) in
      if obs_eqb (RPaths (sort_paths l)) (canon (ODelete q CAll) (snd fr)) then [fst fr] else []
  | AHUpd p v, RsUnit =>
      (* the handle may be stale (its node deleted meanwhile): then no effect *)
      match flookup f p with
      | Some _ => [(p, v) :: fremove f p; f]
      | None => [f]
      end
  | AHVal _, RsVal _ => [f]       (* a retained handle may return any earlier value *)
  | AQuery _, RsLeaves _ => [f]   (* judged by the weak specification below *)
  | AQueryErr _, RsQErr => [f]    (* an aborted query reports nothing *)
  | AQueryErr _, RsSwallowed => [f] (* not a matter of C10's statement; the model disagrees (tag 1) *)
  | AQueryErr _, RsLeaves _ => [f] (* fewer leaves than the visitor tolerates: it completed *)
  | _, _ => []
  end.

(** answers that leave the specification state as it is (search hint only) *)
Definition spec_pure (o : aop) (r : ares) : bool :=
  match o, r with
  | AGetVal _, _ => true
  | AHVal _, _ => true
  | AQuery _, _ => true
  | AQueryErr _, _ => true
  | AAdd _ _, RsAdd false => true
  | ADelete _, RsPaths [] => true
  | _, _ => false
  end.

Definition same_content (a b : flat) : bool :=
  list_eqb leaf_eqb (sort_leaves a) (sort_leaves b).

(** ** weak query specification *)
Definition affects (b : hop) (p : path) (v : Z) : bool :=
  match o_op b with
  | ADelete q => qmatch q p
  | AAdd p' v' => path_eqb p' p && negb (Z.eqb v' v)
  | AHUpd p' v' => path_eqb p' p && negb (Z.eqb v' v)
  | _ => false
  end.

Definition mem_leaf (x : path * Z) (l : list (path * Z)) : bool := existsb (leaf_eqb x) l.

Definition adds_leaf (b : hop) (x : path * Z) : bool :=
  match o_op b, o_ret b with
  | AAdd p v, RsAdd true => leaf_eqb (p, v) x
  | AHUpd p v, _ => leaf_eqb (p, v) x
  | _, _ => false
  end.

Definition deleted_by (b : hop) (p : path) : bool :=
  match o_op b, o_ret b with
  | ADelete _, RsPaths l => existsb (path_eqb p) l
  | _, _ => false
  end.

(** [x] was stored for the whole duration of query [qy]: stored at the start of
    the window or by an Add that responded before the query was invoked, and
    no operation that could remove or change it was invoked before the query
    responded. *)
Definition stable_present (s0 : flat) (ops : list hop) (qy : hop) (x : path * Z) : bool :=
  (mem_leaf x s0 ||
   existsb (fun b => match o_op b, o_ret b with
                     | AAdd p v, RsAdd true => leaf_eqb (p, v) x && precedesb b qy
                     | _, _ => false
                     end) ops)
  && forallb (fun b => negb (affects b (fst x) (snd x)) || precedesb qy b) ops.

(** [x] may have been stored at some time during query [qy] *)
Definition possibly_present (s0 : flat) (ops : list hop) (qy : hop) (x : path * Z) : bool :=
  (mem_leaf x s0 && negb (existsb (fun b => deleted_by b (fst x) && precedesb b qy) ops))
  || existsb (fun b => adds_leaf b x && Nat.ltb (o_inv b) (o_res qy)) ops.

Fixpoint nodup_paths (l : list (path * Z)) : bool :=
  match l with
  | [] => true
  | x :: l' => negb (existsb (fun y => path_eqb (fst x) (fst y)) l') && nodup_paths l'
  end.

Definition candidates (s0 : flat) (ops : list hop) : list (path * Z) :=
  s0 ++ flat_map (fun b => match o_op b, o_ret b with
                           | AAdd p v, RsAdd true => [(p, v)]
                           | _, _ => []
                           end) ops.

(** a delete is atomic with respect to a traversal: of the leaves one Delete
    removed (its returned paths) that the traversal selects, the traversal
    reports all or none -- unless the delete was invoked only after the traversal returned, or some
    other operation of the window also adds or removes one of them (then the
    history does not determine it). *)
Definition touches_path (b : hop) (p : path) : bool :=
  match o_op b with
  | ADelete q => qmatch q p
  | AAdd p' _ => path_eqb p' p
  | AHUpd p' _ => path_eqb p' p
  | _ => false
  end.

Definition delete_split_free (ops : list hop) (qy : hop) (q : path) (l : list (path * Z)) : bool :=
  forallb (fun d =>
    match o_op d, o_ret d with
    | ADelete _, RsPaths removed =>
        let m := filter (qmatch q) removed in
        let disturbed :=
          existsb (fun b => negb (Nat.eqb (o_inv b) (o_inv d)) && existsb (touches_path b) m) ops in
        let seen := filter (fun p => existsb (fun x => path_eqb p (fst x)) l) m in
        precedesb qy d || disturbed || is_nil seen || Nat.eqb (List.length seen) (List.length m)
    | _, _ => true
    end) ops.

Definition query_ok (s0 : flat) (ops : list hop) (qy : hop) : bool :=
  match o_op qy, o_ret qy with
  | AQuery q, RsLeaves l =>
      nodup_paths l && delete_split_free ops qy q l
      && forallb (fun x => qmatch q (fst x) && possibly_present s0 ops qy x) l
      && forallb (fun x => negb (qmatch q (fst x) && stable_present s0 ops qy x) || mem_leaf x l)
                 (candidates s0 ops)
  | _, _ => true
  end.

Definition is_bad_ret (r : ares) : bool :=
  match r with RsPanic | RsHang => true | _ => false end.

Fixpoint find_idx {A} (f : A -> bool) (l : list A) (i : nat) : list nat :=
  match l with
  | [] => []
  | x :: l' => (if f x then [i] else []) ++ find_idx f l' (S i)
  end.

(** the property on one window of observations: K_P *)
Definition is_query (o : hop) : bool := match o_op o with AQuery _ => true | _ => false end.

Definition window_check (s0 : flat) (ops : list hop) (final : flat) : list (nat * N) :=
  let bad := find_idx (fun o => is_bad_ret (o_ret o)) ops 0 in
  match bad with
  | i :: _ => [(i, 4%N)]
  | [] =>
      (if lin_check spec_step spec_pure s0 (filter (fun o => negb (is_query o)) ops)
                    (fun f => same_content f final)
       then [] else [(0%nat, 2%N)])
      ++ map (fun i => (i, 3%N)) (find_idx (fun o => negb (query_ok s0 ops o)) ops 0)
  end.

(** ** forced schedules against the LTS *)
Inductive sop :=
| SAdd (p : path) (v : Z)
| SGetVal (p : path)
| SQuery (q : path)
| SQueryErr (q : path) (k : nat)  (* Query whose visitor returns an error at its (k+1)-th call *)
| SWalk (failat : option nat)    (* Walk / WalkSorted (same locking as Query []), visitor failing at call failat+1 *)
| SDelCond (q : path)            (* DeleteConditional with the always-true condition *)
| SDelete (q : path)
| SHold (p : path) (v : Z).     (* Leaf.Update on the leaf at p, paused inside its critical section *)

Definition park_pc (p : pc) : bool :=
  match p with
  | PAddUpg _ _ _ _ | PQVisit _ _ _ _ | PHUpdWrite _ _ => true
  | _ => false
  end.

Definition cop_of (h : heap) (o : sop) : cop :=
  match o with
  | SAdd p v => CAdd p v
  | SGetVal p => CGetVal p
  | SQuery q => CQuery q None
  | SQueryErr q k => CQuery q (Some k)
  | SWalk f => CQuery [] f
  | SDelCond q => CDelete q
  | SDelete q => CDelete q
  | SHold p v =>
      (* the harness takes handles to leaves only (a handle to a branch is
         known finding KF-C09-1 and Update through it destroys the subtree) *)
      match resolve h 0%nat p with
      | Some n => match get_cont h n with
                  | CLeaf _ => CHUpdate n v
                  | _ => CHUpdate (List.length h) v
                  end
      | None => CHUpdate (List.length h) v      (* nil handle: nothing happens *)
      end
  end.

(** model configuration: LTS state + which threads have been started *)
Record cfg := CFG { cst : state; cstarted : list bool }.

(** points at which a thread gives up two-phase locking (it acquires after
    having released): between Get and Value of GetLeafValue, and between the
    children of a Query or of a Delete.  Together with the hook points and blocked
    acquisitions these are the only places where the interleaving with other
    threads matters (every stretch between them is a sequence of acquisitions
    followed by releases, which commutes with the other threads' steps), so
    the acceptance check lets simultaneously runnable threads interleave at
    exactly these points. *)
Definition yield_pc (p : pc) : bool :=
  match p with
  | PHVal _ | PQEnter _ _ _ _ _ | PLEnter _ _ _ => true
  | _ => false
  end.

(** Go iterates over a map in an unspecified order: whenever a Query has just
    computed or resumed the list of children it still has to visit, every
    rotation of that list is a possible continuation (rotating again after
    each child yields every order). *)
Fixpoint rotations_from {A} (pre l : list A) : list (list A) :=
  match l with
  | [] => []
  | x :: l' => (l ++ pre) :: rotations_from (pre ++ [x]) l'
  end.

Definition variants (s : state) (i : nat) : list state :=
  match nth_error (thr s) i with
  | Some (TH o (PQNext acc ((x :: y :: todo) :: fr)) hs) =>
      map (fun td => ST (hp s) (set_nth (thr s) i (TH o (PQNext acc (td :: fr)) hs)))
          (rotations_from [] (x :: y :: todo))
  | Some (TH o (PLNext (DF n q k (x :: y :: todo) acc :: fr)) hs) =>
      map (fun td => ST (hp s) (set_nth (thr s) i (TH o (PLNext (DF n q k td acc :: fr)) hs)))
          (rotations_from [] (x :: y :: todo))
  | _ => [s]
  end.

Definition stops (s : state) (i : nat) : bool :=
  match nth_error (thr s) i with
  | Some t => park_pc (tpc t) || is_done (tpc t) || yield_pc (tpc t)
  | None => true
  end.

Fixpoint run_thread (strict : bool) (fuel : nat) (s : state) (i : nat) : list state :=
  match fuel with
  | O => [s]
  | S f =>
      match step_gen strict s i with
      | None => [s]
      | Some s' =>
          flat_map (fun v => if stops v i then [v] else run_thread strict f v i) (variants s' i)
      end
  end.

(** a started thread that is neither finished nor parked at a hook and can
    take a step ([strict]: even if announced writers are preferred) *)
Definition thread_free (strict : bool) (s : state) (st : list bool) (i : nat) : bool :=
  match nth_error st i, nth_error (thr s) i with
  | Some true, Some t =>
      negb (is_done (tpc t)) && negb (park_pc (tpc t))
      && match step_gen strict s i with Some _ => true | None => false end
  | _, _ => false
  end.

Definition free_threads (strict : bool) (s : state) (st : list bool) : list nat :=
  filter (thread_free strict s st) (seq 0 (List.length (thr s))).

Definition run_fuel : nat := 4000.

(** a reader that waits only because a writer has announced itself is
    admitted (the real RWMutex does this for readers that were already waiting
    when the previous writer unlocked), then runs on *)
Definition barge (s : state) (i : nat) : list state :=
  match step s i with
  | Some s' =>
      flat_map (fun v => if stops v i then [v] else run_thread true run_fuel v i) (variants s' i)
  | None => [s]
  end.

(** all stable states reachable by letting runnable threads run, one at a
    time, in any order.  A state is stable when no thread is runnable under
    the strict reading of writer preference (see [can_rlock]). *)
Fixpoint settle (fuel : nat) (s : state) (st : list bool) : list state :=
  match fuel with
  | O => [s]
  | S f =>
      let sf := free_threads true s st in
      (if is_nil sf then [s] else [])
      ++ flat_map (fun i => flat_map (fun v => settle f v st) (run_thread true run_fuel s i)) sf
      ++ flat_map (fun i => if existsb (Nat.eqb i) sf then []
                            else flat_map (fun v => settle f v st) (barge s i))
                  (free_threads false s st)
  end.

(** the controller starts thread [i] or releases it from its hook *)
Definition advance (prog : list sop) (c : cfg) (i : nat) : list cfg :=
  let s := cst c in
  let started := match nth_error (cstarted c) i with Some b => b | None => true end in
  let s1 :=
    if started then s
    else match nth_error prog i with
         | Some o => let co := cop_of (hp s) o in ST (hp s) (set_nth (thr s) i (TH co (PStart co) []))
         | None => s
         end in
  let st' := set_nth (cstarted c) i true in
  (* leave the park point / PStart: one step that is always enabled *)
  let s2 := match step s1 i with Some s' => variants s' i | None => [s1] end in
  map (fun s' => CFG s' st') (flat_map (fun v => settle 24 v st') s2).

(** status of a thread: 0 not started, 1 parked at a hook, 2 blocked in a mutex, 3 finished *)
Definition status_of (c : cfg) (i : nat) : nat :=
  match nth_error (cstarted c) i, nth_error (thr (cst c)) i with
  | Some true, Some t =>
      if is_done (tpc t) then 3%nat else if park_pc (tpc t) then 1%nat else 2%nat
  | _, _ => 0%nat
  end.

Definition statuses (c : cfg) : list nat :=
  map (status_of c) (seq 0 (List.length (thr (cst c)))).

(** lock class of a node: 0 free, 1 read-held, 2 write-held or writer announced *)
Definition lock_class (x : hnode) : nat :=
  if wr x || negb (Nat.eqb (pw x) 0) then 2%nat
  else if Nat.eqb (rd x) 0 then 0%nat else 1%nat.

Fixpoint snap (fuel : nat) (h : heap) (n : nat) (pre : path) : list (path * nat) :=
  match fuel with
  | O => []
  | S f =>
      match nth_error h n with
      | None => []
      | Some x =>
          (pre, lock_class x) ::
          match cont x with
          | CBranch cs => flat_map (fun kc => snap f h (snd kc) (pre ++ [fst kc])) cs
          | _ => []
          end
      end
  end.

Definition pn_leb (a b : path * nat) : bool := path_leb (fst a) (fst b).
Definition pn_eqb (a b : path * nat) : bool := path_eqb (fst a) (fst b) && Nat.eqb (snd a) (snd b).

Definition snapshot (h : heap) : list (path * nat) :=
  isort pn_leb (snap (S (List.length h)) h 0%nat []).

Definition res_of (p : pc) : ares :=
  match p with
  | PDone (XAdd ok) => RsAdd ok
  | PDone (XVal o) => RsVal o
  | PDone (XLeaves l) => RsLeaves (sort_leaves l)
  | PDone (XPaths l) => RsPaths (sort_paths l)
  | PDone XUnit => RsUnit
  | PDone (XFail _) => RsQErr
  | _ => RsHang
  end.

Definition ares_eqb (a b : ares) : bool :=
  match a, b with
  | RsAdd x, RsAdd y => Bool.eqb x y
  | RsVal None, RsVal None => true
  | RsVal (Some x), RsVal (Some y) => Z.eqb x y
  | RsPaths x, RsPaths y => list_eqb path_eqb (sort_paths x) (sort_paths y)
  | RsLeaves x, RsLeaves y => list_eqb leaf_eqb (sort_leaves x) (sort_leaves y)
  | RsUnit, RsUnit => true
  | RsQErr, RsQErr => true
  | _, _ => false
  end.

Record sobs := SOBS { so_tid : nat; so_status : list nat; so_locks : list (path * nat) }.

Definition obs_match (c : cfg) (o : sobs) : bool :=
  list_eqb Nat.eqb (statuses c) (so_status o)
  && list_eqb pn_eqb (snapshot (hp (cst c))) (isort pn_leb (so_locks o)).

Definition init_cfg (prog : list sop) : cfg :=
  CFG (ST [empty_root] (map (fun _ => TH (CGetVal []) (PDone XUnit) []) prog)) (map (fun _ => false) prog).

(** acceptance: the configurations the model can be in after the observed
    steps; [inl i]: no model run explains observation [i] *)
Fixpoint accept (prog : list sop) (cs : list cfg) (obs : list sobs) (i : nat) : nat + list cfg :=
  match obs with
  | [] => inr cs
  | o :: obs' =>
      match filter (fun c => obs_match c o) (flat_map (fun c => advance prog c (so_tid o)) cs) with
      | [] => inl i
      | cs' => accept prog cs' obs' (S i)
      end
  end.

Definition final_match (c : cfg) (results : list ares) (final : flat) : bool :=
  list_eqb ares_eqb (map (fun t => res_of (tpc t)) (thr (cst c))) results
  && same_content (leaves_of (hp (cst c))) final.

(** history of a forced schedule: a thread is invoked at the step that starts
    it and responds at the first step after which it is seen finished *)
Fixpoint first_idx {A} (f : A -> bool) (l : list A) (i : nat) : option nat :=
  match l with
  | [] => None
  | x :: l' => if f x then Some i else first_idx f l' (S i)
  end.

Definition aop_of (o : sop) : aop :=
  match o with
  | SAdd p v => AAdd p v
  | SGetVal p => AGetVal p
  | SQuery q => AQuery q
  | SQueryErr q _ => AQueryErr q
  | SWalk None => AQuery []
  | SWalk (Some _) => AQueryErr []
  | SDelCond q => ADelete q
  | SDelete q => ADelete q
  | SHold p v => AHUpd p v
  end.

Definition sched_history (prog : list sop) (obs : list sobs) (results : list ares) : list hop :=
  flat_map (fun i =>
    match nth_error prog i, nth_error results i,
          first_idx (fun o => Nat.eqb (so_tid o) i) obs 0,
          first_idx (fun o => Nat.eqb (nth i (so_status o) 0%nat) 3) obs 0 with
    | Some o, Some r, Some a, Some b => [OPR i (2 * a) (2 * b + 1) (aop_of o) r]
    | Some o, Some r, Some a, None => [OPR i (2 * a) (2 * List.length obs + 1) (aop_of o) RsHang]
    | _, _, _, _ => []
    end) (seq 0 (List.length prog)).

(** lock coupling judged on the implementation's own lock probes (K_P, no
    model involved): while some tree operation is blocked in a mutex, or some
    node below the root is locked and no handle operation is in flight, the
    root lock must be held by someone. *)
Definition is_hold (o : sop) : bool := match o with SHold _ _ => true | _ => false end.

(** operations that, at least in their last phase, lock a single node without
    holding the root: paused updates and the Value() part of GetLeafValue *)
Definition handleish (o : sop) : bool :=
  match o with SHold _ _ | SGetVal _ => true | _ => false end.

Definition sop_path (o : sop) : path :=
  match o with
  | SAdd p _ | SGetVal p | SQuery p | SQueryErr p _ | SDelete p | SDelCond p | SHold p _ => p
  | SWalk _ => []
  end.

Definition coupling_ok (prog : list sop) (o : sobs) : bool :=
  let idx := seq 0 (List.length prog) in
  let stat := fun i => nth i (so_status o) 0%nat in
  let kind := fun f i => match nth_error prog i with Some x => f x | None => false end in
  let root_free := existsb (fun pc => is_nil (fst pc) && Nat.eqb (snd pc) 0) (so_locks o) in
  let tree_blocked := existsb (fun i => negb (kind handleish i) && Nat.eqb (stat i) 2) idx in
  let handle_active :=
    existsb (fun i => kind handleish i && (Nat.eqb (stat i) 1 || Nat.eqb (stat i) 2)) idx in
  let below_busy := existsb (fun pc => negb (is_nil (fst pc)) && negb (Nat.eqb (snd pc) 0)) (so_locks o) in
  negb root_free || (negb tree_blocked && (negb below_busy || handle_active)).

(** a GetLeafValue that was started while a paused update already held the
    write lock of the very leaf it asks for, and is blocked while that update
    is still paused, cannot have reached the leaf: it waits inside Get and so
    must hold the root lock. *)
Definition get_coupling_ok (prog : list sop) (obs : list sobs) (k : nat) : bool :=
  match nth_error obs k with
  | None => true
  | Some o =>
      let root_free := existsb (fun pc => is_nil (fst pc) && Nat.eqb (snd pc) 0) (so_locks o) in
      negb root_free ||
      forallb (fun g =>
        match nth_error prog g with
        | Some (SGetVal p) =>
            negb (Nat.eqb (nth g (so_status o) 0%nat) 2) ||
            match first_idx (fun x => Nat.eqb (so_tid x) g) obs 0 with
            | Some (S a) =>
                negb (existsb (fun w =>
                        match nth_error prog w, nth_error obs a with
                        | Some (SHold q _), Some oa =>
                            path_eqb p q && Nat.eqb (nth w (so_status oa) 0%nat) 1
                            && Nat.eqb (nth w (so_status o) 0%nat) 1
                        | _, _ => false
                        end) (seq 0 (List.length prog)))
            | _ => true
            end
        | _ => true
        end) (seq 0 (List.length prog))
  end.

(** writer exclusion judged on the implementation's observations: an Add to
    path p that started and returned success while one and the same Query for
    exactly p stayed parked inside its visitor on that leaf (so it held the
    leaf's read lock all the time) cannot have held the leaf's write lock. *)
Definition write_excl_ok (prog : list sop) (obs : list sobs) (results : list ares) (w : nat) : bool :=
  match nth_error prog w, nth_error results w with
  | Some (SAdd p _), Some (RsAdd true) =>
      match first_idx (fun x => Nat.eqb (so_tid x) w) obs 0,
            first_idx (fun x => Nat.eqb (nth w (so_status x) 0%nat) 3) obs 0 with
      | Some (S a), Some b =>
          negb (existsb (fun q =>
                  match nth_error prog q, nth_error obs a, nth_error obs b with
                  | Some (SQuery qp), Some oa, Some ob =>
                      path_eqb p qp && negb (existsb is_glob qp)
                      && Nat.eqb (nth q (so_status oa) 0%nat) 1
                      && Nat.eqb (nth q (so_status ob) 0%nat) 1
                      && negb (existsb (fun x => Nat.eqb (so_tid x) q)
                                       (firstn (S b - S a) (skipn (S a) obs)))
                  | _, _, _ => false
                  end) (seq 0 (List.length prog)))
      | _, _ => true
      end
  | _, _ => true
  end.

(** Delete respects node locks (defect C10_1, fixed by repo commit 3480f62): a
    Delete must not return a leaf among its removed paths while a paused
    Leaf.Update has been sitting inside its critical section on that very leaf
    (owning its write lock) since before the Delete was started. *)
Definition delete_respects_locks (prog : list sop) (obs : list sobs) (results : list ares) (d : nat) : bool :=
  match nth_error prog d, nth_error results d with
  | Some (SDelete _), Some (RsPaths removed) =>
      match first_idx (fun x => Nat.eqb (so_tid x) d) obs 0,
            first_idx (fun x => Nat.eqb (nth d (so_status x) 0%nat) 3) obs 0 with
      | Some (S a), Some b =>
          negb (existsb (fun w =>
                     match nth_error prog w, nth_error obs a, nth_error obs b with
                     | Some (SHold p _), Some oa, Some ob =>
                         existsb (path_eqb p) removed
                         && Nat.eqb (nth w (so_status oa) 0%nat) 1
                         && Nat.eqb (nth w (so_status ob) 0%nat) 1
                     | _, _, _ => false
                     end) (seq 0 (List.length prog)))
      | _, _ => true
      end
  | _, _ => true
  end.

(** Delete is lock-coupled too (judged on the implementation's lock probes, no
    model involved): a Delete that is blocked in a mutex while nothing else is
    in flight except paused Leaf.Updates can only be waiting for the leaf of one
    of them, and it must then own the write lock of every node above that leaf
    (a node it passed without its lock is open to whoever holds a handle to it). *)
Definition is_del (o : sop) : bool :=
  match o with SDelete _ | SDelCond _ => true | _ => false end.

Definition delete_coupling_ok (prog : list sop) (o : sobs) : bool :=
  let idx := seq 0 (List.length prog) in
  let stat := fun i => nth i (so_status o) 0%nat in
  let kind := fun f i => match nth_error prog i with Some x => f x | None => false end in
  let cls := fun q => match find (fun pc => path_eqb (fst pc) q) (so_locks o) with
                      | Some pc => snd pc | None => 0%nat end in
  match filter (fun i => kind is_del i && Nat.eqb (stat i) 2) idx with
  | [d] =>
      if forallb (fun i => Nat.eqb i d || Nat.eqb (stat i) 0 || Nat.eqb (stat i) 3
                           || (kind is_hold i && Nat.eqb (stat i) 1)) idx
      then existsb (fun w =>
             kind is_hold w && Nat.eqb (stat w) 1 &&
             match nth_error prog w with
             | Some x => forallb (fun k => Nat.eqb (cls (firstn k (sop_path x))) 2)
                                 (seq 0 (List.length (sop_path x)))
             | None => false
             end) idx
      else true
  | _ => true
  end.

Definition sched_check (prog : list sop) (obs : list sobs) (results : list ares) (final : flat)
  : list (nat * N) :=
  (match accept prog [init_cfg prog] obs 0 with
   | inl i => [(i, 1%N)]
   | inr cs => if existsb (fun c => final_match c results final) cs then []
               else [(List.length obs, 1%N)]
   end)
  ++ map (fun i => (i, 6%N)) (find_idx (fun o => negb (coupling_ok prog o)) obs 0)
  ++ map (fun i => (i, 6%N))
         (filter (fun k => negb (get_coupling_ok prog obs k)) (seq 0 (List.length obs)))
  ++ map (fun i => (i, 6%N)) (find_idx (fun o => negb (delete_coupling_ok prog o)) obs 0)
  ++ map (fun w => (w, 7%N))
         (filter (fun w => negb (write_excl_ok prog obs results w)) (seq 0 (List.length prog)))
  ++ map (fun d => (d, 8%N))
         (filter (fun d => negb (delete_respects_locks prog obs results d)) (seq 0 (List.length prog)))

  ++ window_check [] (sched_history prog obs results) final.

(** ** cases *)
Inductive c10case :=
| CWin (s0 : flat) (ops : list hop) (final : flat)
| CSched (prog : list sop) (obs : list sobs) (results : list ares) (final : flat)
| CStress (allowed final : flat) (bad : N)
    (* unsynchronised stress run: every stored (path, value) must have been
       written by someone; bad: 0 fine, 1 a call panicked, 2 no progress (deadlock) *)
| CEvent (kind : N).   (* 1 fatal error / crash, 2 hang, 3 race: Leaf.Update || Delete, 4 other race *)

Definition check_case (c : c10case) : list (nat * N) :=
  match c with
  | CWin s0 ops final => window_check s0 ops final
  | CSched prog obs results final => sched_check prog obs results final
  | CStress allowed final bad =>
      match bad with
      | 0%N => if forallb (fun x => mem_leaf x allowed) final && nodup_paths final
               then [] else [(0%nat, 2%N)]
      | _ => [(0%nat, 4%N)]
      end
  | CEvent 3%N => [(0%nat, 5%N)]
  | CEvent 4%N => [(0%nat, 5%N)]
  | CEvent 0%N => []
  | CEvent _ => [(0%nat, 4%N)]
  end.

Fixpoint check_all_from (i : nat) (cs : list c10case) : list (nat * nat * N) :=
  match cs with
  | [] => []
  | c :: cs' => map (fun sn => (i, fst sn, snd sn)) (check_case c) ++ check_all_from (S i) cs'
  end.

Definition check_all (cs : list c10case) : list (nat * nat * N) := check_all_from 0 cs.

(** soundness of the linearizability part of K_P: an accepted window is
    linearizable w.r.t. the flat specification and ends in the observed content *)
Lemma window_check_linearizable s0 ops final :
  window_check s0 ops final = [] ->
  linearizable spec_step s0 (filter (fun o => negb (is_query o)) ops)
               (fun f => same_content f final = true).
Proof.
  unfold window_check. intros H.
  destruct (find_idx (fun o => is_bad_ret (o_ret o)) ops 0); [|discriminate].
  destruct (lin_check spec_step spec_pure s0 (filter (fun o => negb (is_query o)) ops)
              (fun f => same_content f final)) eqn:E.
  - apply lin_check_sound in E. exact E.
  - cbn in H. discriminate.
Qed.

(** Tree-level statements of C09 over the ctree model, derived from the node-level
    characterisations in CTreeProofs.v.  The abstraction of a tree is [lookup]
    (a partial map from paths to values); every operation is characterised
    exactly in terms of it, for every tree reachable by any sequence of
    Add / Delete / DeleteConditional / WalkDeleted operations. *)
From Gnmi Require Import Base.Prelude CTree.CTreeModel CTree.CTreeProofs.
From Coq Require Import Sorting.Sorted.

Section Theorems.
Context {V : Type}.
Notation node := (node V).
Notation tree := (tree V).

(** * Histories: the operations that change the tree *)

Inductive mut :=
| MAdd (p : path) (v : V)
| MDel (q : path) (c : V -> bool).   (* Delete = MDel q (fun _ => true) *)

Definition mut_step (t : tree) (m : mut) : tree :=
  match m with
  | MAdd p v => match add t p v with Some t' => t' | None => t end
  | MDel q c => fst (delete_cond t q c)
  end.

Definition run (ms : list mut) : tree := fold_left mut_step ms None.

(** * Add *)

Lemma add_spec (t t' : tree) p v :
  wf_tree t -> add t p v = Some t' ->
  wf_tree t' /\ forall q, lookup t' q = if path_eqb q p then Some v else lookup t q.
Proof.
  destruct t as [n|]; cbn [add wf_tree].
  - intros Hwf. destruct (add_node n p v) as [n'|] eqn:Ha; [|discriminate].
    intros E; inversion E; subst. cbn [wf_tree lookup]. eapply add_node_spec; eauto.
  - intros _ E; inversion E; subst. cbn [wf_tree lookup]. split; [apply wf_new_branch|].
    intros q. rewrite lookup_new_branch. now destruct (path_eqb q p).
Qed.

(** an add succeeds exactly when the new path conflicts with no stored path *)
Definition conflict_free (t : tree) (p : path) : Prop :=
  forall q (w : V), lookup t q = Some w ->
    strict_prefix q p = false /\ strict_prefix p q = false.

Lemma add_ok_iff (t : tree) p v :
  wf_tree t -> (add t p v <> None <-> conflict_free t p).
Proof.
  destruct t as [n|]; cbn [add wf_tree]; intros Hwf.
  - rewrite <- (add_node_ok_iff n p v Hwf). destruct (add_node n p v); split; congruence.
  - split; [|congruence]. intros _ q w Hq. discriminate.
Qed.

(** * Delete *)

Lemma delete_spec (t : tree) q c :
  wf_tree t ->
  wf_tree (fst (delete_cond t q c)) /\
  (forall s, lookup (fst (delete_cond t q c)) s = sel q c (lookup t s) s) /\
  (forall s v, In (s, v) (snd (delete_cond t q c)) <->
               lookup t s = Some v /\ qmatch q s = true /\ c v = true) /\
  NoDup (map fst (snd (delete_cond t q c))).
Proof.
  destruct t as [n|]; cbn [delete_cond wf_tree]; intros Hwf.
  - destruct (del_node_spec n q c Hwf) as (Hw & Hl & Hr & Hn).
    split; [|split; [|split]]; try assumption.
    assert (H : forall o : option node, (forall n', o = Some n' -> wf n') -> wf_tree o)
      by (intros [x|] H; cbn [wf_tree]; auto).
    apply H. exact Hw.
  - cbn. split; [exact I|]. split; [reflexivity|]. split; [|constructor].
    intros s v. split; [intros []|intros (H & _); discriminate].
Qed.

(** * Reachable trees are well formed (distinct names, no empty branch) *)

Lemma mut_step_wf t m : wf_tree t -> wf_tree (mut_step t m).
Proof.
  intros Hwf. destruct m as [p v|q c]; cbn [mut_step].
  - destruct (add t p v) as [t'|] eqn:E; [|assumption]. now apply (add_spec t t' p v).
  - now apply delete_spec.
Qed.

Lemma run_wf_from ms : forall t, wf_tree t -> wf_tree (fold_left mut_step ms t).
Proof.
  induction ms as [|m ms IH]; cbn [fold_left]; intros t Hwf; [assumption|].
  apply IH. now apply mut_step_wf.
Qed.

Theorem reachable_wf ms : wf_tree (run ms).
Proof. apply run_wf_from. exact I. Qed.

(** * The tree is a prefix-free map *)

Lemma lookup_tree_prefix_free (t : tree) p s v w :
  lookup t p = Some v -> lookup t (p ++ s) = Some w -> s = [].
Proof.
  destruct t as [n|]; cbn [lookup]; [apply lookup_prefix_free|discriminate].
Qed.

Theorem reachable_prefix_free ms p s v w :
  lookup (run ms) p = Some v -> lookup (run ms) (p ++ s) = Some w -> s = [].
Proof. apply lookup_tree_prefix_free. Qed.

(** every step is the flat-map update it stands for; a failed add changes nothing *)
Theorem mut_step_refines (t : tree) m :
  wf_tree t ->
  match m with
  | MAdd p v =>
      (conflict_free t p /\
       forall q, lookup (mut_step t m) q = if path_eqb q p then Some v else lookup t q)
      \/ (~ conflict_free t p /\ add t p v = None /\ mut_step t m = t)
  | MDel q c =>
      forall s, lookup (mut_step t m) s = sel q c (lookup t s) s
  end.
Proof.
  intros Hwf. destruct m as [p v|q c]; cbn [mut_step].
  - pose proof (add_ok_iff t p v Hwf) as Hiff.
    destruct (add t p v) as [t'|] eqn:E.
    + left. split; [apply Hiff; congruence|]. now apply (add_spec t t' p v).
    + right. split; [|auto]. intros Hc. apply Hiff in Hc. congruence.
  - now apply delete_spec.
Qed.

(** * Query, Walk: exactly the stored leaves that match, each once *)

Theorem query_exact (t : tree) q p v :
  wf_tree t ->
  (In (p, v) (query t q) <-> lookup t p = Some v /\ qmatch q p = true).
Proof.
  destruct t as [n|]; cbn [query lookup wf_tree]; intros Hwf.
  - rewrite (query_node_spec n [] q p v Hwf). cbn [app]. split.
    + intros (s & -> & H1 & H2). auto.
    + intros (H1 & H2). exists p. auto.
  - split; [intros []|intros (H & _); discriminate].
Qed.

Theorem query_once (t : tree) q : wf_tree t -> NoDup (map fst (query t q)).
Proof.
  destruct t as [n|]; cbn [query wf_tree]; intros Hwf; [now apply query_node_nodup|constructor].
Qed.

Theorem walk_exact (t : tree) p v :
  wf_tree t -> (In (p, v) (walk t) <-> lookup t p = Some v).
Proof.
  destruct t as [n|]; cbn [walk lookup wf_tree]; intros Hwf.
  - rewrite (walk_node_spec n [] p v Hwf). cbn [app]. split.
    + intros (s & -> & H1). auto.
    + intros H1. exists p. auto.
  - split; [intros []|discriminate].
Qed.

Theorem walk_once (t : tree) : wf_tree t -> NoDup (map fst (walk t)).
Proof.
  destruct t as [n|]; cbn [walk wf_tree]; intros Hwf; [now apply walk_node_nodup|constructor].
Qed.

(** * Delete agrees with Query *)

Theorem delete_eq_query (t : tree) q c :
  wf_tree t ->
  let r := delete_cond t q c in
  (forall s v, In (s, v) (snd r) <-> In (s, v) (query t q) /\ c v = true) /\
  NoDup (map fst (snd r)) /\
  (forall s, lookup (fst r) s =
             match lookup t s with
             | Some v => if qmatch q s && c v then None else Some v
             | None => None
             end) /\
  wf_tree (fst r).
Proof.
  intros Hwf r. destruct (delete_spec t q c Hwf) as (Hw & Hl & Hr & Hn).
  split; [|split; [|split]]; try assumption.
  intros s v. subst r. rewrite Hr, (query_exact t q s v Hwf). tauto.
Qed.

(** deleting through a leaf removes nothing: a stored leaf at [p] is not
    selected by a path that continues below it, except by the single trailing
    glob that Query also honours *)
Lemma qmatch_app_nil p s : qmatch (p ++ s) p = true -> qmatch s [] = true.
Proof.
  induction p as [|a p IH]; cbn [app]; [auto|].
  cbn [qmatch]. destruct (is_glob a) eqn:G.
  - destruct p as [|a' p'].
    + cbn [app]. destruct s; auto.
    + cbn [app] in *. exact IH.
  - rewrite String.eqb_refl. cbn. exact IH.
Qed.

Theorem delete_through_leaf (t : tree) p k r c v :
  wf_tree t -> lookup t p = Some v ->
  (k <> "*"%string \/ r <> []) ->
  forall w, ~ In (p, w) (snd (delete_cond t (p ++ k :: r) c)).
Proof.
  intros Hwf Hp Hkr w Hin.
  apply (delete_spec t (p ++ k :: r) c Hwf) in Hin. destruct Hin as (_ & Hq & _).
  apply qmatch_app_nil in Hq. apply qmatch_nil in Hq. destruct Hq as [Hq|Hq]; [discriminate|].
  inversion Hq; subst. destruct Hkr; congruence.
Qed.

Theorem delete_empty q (c : V -> bool) : delete_cond (None : tree) q c = (None, []).
Proof. reflexivity. Qed.

(** pruning: after any delete the tree is again well formed (no empty branch
    survives), hence a later add succeeds exactly when no REMAINING leaf
    conflicts with it -- emptied branches never block an add *)
Theorem delete_prunes (t : tree) q c p v :
  wf_tree t ->
  let t' := fst (delete_cond t q c) in
  (add t' p v <> None <-> conflict_free t' p).
Proof.
  intros Hwf t'. apply add_ok_iff. now apply delete_spec.
Qed.

(** * Get / IsBranch / Children in terms of the map *)

Lemma get_node_app (n : node) p s :
  get_node n (p ++ s) = match get_node n p with Some c => get_node c s | None => None end.
Proof.
  revert n; induction p as [|k p IH]; intros n; cbn [app].
  - destruct n; reflexivity.
  - destruct n as [x|cs]; [reflexivity|].
    rewrite !get_node_branch. destruct (assoc k cs) as [c|]; [apply IH|reflexivity].
Qed.

Lemma get_node_nil (n : node) : get_node n [] = Some n.
Proof. destruct n; reflexivity. Qed.

Lemma wf_get_node (n : node) p c : wf n -> get_node n p = Some c -> wf c.
Proof.
  revert n; induction p as [|k p IH]; intros n Hwf.
  - rewrite get_node_nil. now intros E; inversion E; subst.
  - destruct n as [x|cs]; [discriminate|]. rewrite get_node_branch.
    destruct (assoc k cs) as [c0|] eqn:Hk; [|discriminate].
    apply IH. exact (wf_child _ _ _ Hwf Hk).
Qed.

Lemma lookup_node_app (n : node) p s c :
  get_node n p = Some c -> lookup_node n (p ++ s) = lookup_node c s.
Proof. intros H. unfold lookup_node. now rewrite get_node_app, H. Qed.

Theorem get_leaf_exact (t : tree) p v :
  get t p = Some (Leaf v) <-> lookup t p = Some v.
Proof.
  destruct t as [n|]; cbn [get lookup]; [|split; discriminate].
  unfold lookup_node. destruct (get_node n p) as [[x|cs]|]; split; congruence.
Qed.

Theorem is_branch_exact (t : tree) p :
  wf_tree t ->
  (is_branch_at t p = true <-> exists s v, s <> [] /\ lookup t (p ++ s) = Some v).
Proof.
  unfold is_branch_at. destruct t as [n|]; cbn [get lookup wf_tree]; intros Hwf.
  - destruct (get_node n p) as [c|] eqn:Hg.
    + pose proof (wf_get_node n p c Hwf Hg) as Hc. destruct c as [x|cs].
      * split; [discriminate|]. intros (s & v & Hs & Hl).
        rewrite (lookup_node_app n p s _ Hg) in Hl. destruct s; [congruence|discriminate].
      * split; [intros _|reflexivity]. destruct (wf_inhabited _ Hc) as (s & v & Hs).
        exists s, v. split.
        -- intros ->. rewrite lookup_branch_nil in Hs. discriminate.
        -- now rewrite (lookup_node_app n p s _ Hg).
    + split; [discriminate|]. intros (s & v & _ & Hl).
      unfold lookup_node in Hl. rewrite get_node_app, Hg in Hl. discriminate.
  - split; [discriminate|]. intros (s & v & _ & Hl). discriminate.
Qed.

Theorem children_exact (t : tree) p ks :
  wf_tree t -> children_at t p = Some ks ->
  NoDup ks /\ forall k, In k ks <-> exists s v, lookup t (p ++ k :: s) = Some v.
Proof.
  unfold children_at. destruct t as [n|]; cbn [get lookup wf_tree]; intros Hwf; [|discriminate].
  destruct (get_node n p) as [[x|cs]|] eqn:Hg; try discriminate.
  intros E; inversion E; subst. pose proof (wf_get_node n p _ Hwf Hg) as Hc.
  split; [exact (wf_nodup _ Hc)|]. intros k. split.
  - intros Hin. apply in_keys_assoc in Hin as [c Hk].
    destruct (wf_inhabited c (wf_child _ _ _ Hc Hk)) as (s & v & Hs).
    exists s, v. rewrite (lookup_node_app n p (k :: s) _ Hg), lookup_branch_cons, Hk. exact Hs.
  - intros (s & v & Hl). rewrite (lookup_node_app n p (k :: s) _ Hg), lookup_branch_cons in Hl.
    destruct (assoc k cs) as [c|] eqn:Hk; [|discriminate]. eapply assoc_Some_key; eauto.
Qed.

(** * WalkSorted: the same leaves, in lexicographic (bytewise) path order *)

Definition path_lt (p q : path) : Prop := path_ltb p q = true.
Definition str_lt (a b : string) : Prop := String.ltb a b = true.

Lemma StronglySorted_app {A} (R : A -> A -> Prop) l1 l2 :
  StronglySorted R l1 -> StronglySorted R l2 ->
  (forall x y, In x l1 -> In y l2 -> R x y) ->
  StronglySorted R (l1 ++ l2).
Proof.
  induction l1 as [|a l1 IH]; cbn [app]; intros H1 H2 Hx; [assumption|].
  inversion H1 as [|? ? Hs Hf]; subst. constructor.
  - apply IH; auto. intros; apply Hx; cbn; auto.
  - rewrite Forall_app. split; [assumption|]. rewrite Forall_forall. intros y Hy. apply Hx; cbn; auto.
Qed.

Lemma keys_insert_sorted_perm {B} (x : string * B) l :
  Permutation (fst x :: keys l) (keys (insert_sorted key_leb x l)).
Proof.
  exact (Permutation_map fst (insert_sorted_perm key_leb x l)).
Qed.

Lemma insert_sorted_keys_sorted {B} (x : string * B) l :
  ~ In (fst x) (keys l) -> StronglySorted str_lt (keys l) ->
  StronglySorted str_lt (keys (insert_sorted key_leb x l)).
Proof.
  induction l as [|y l IH]; cbn [insert_sorted keys map]; intros Hni Hs.
  - constructor; constructor.
  - inversion Hs as [|? ? Hs' Hf]; subst. unfold key_leb at 1.
    destruct (String.leb (fst x) (fst y)) eqn:E.
    + cbn [keys map]. constructor; [assumption|].
      apply string_leb_ltb in E. destruct E as [E|E]; [|exfalso; apply Hni; cbn; auto].
      constructor; [exact E|]. rewrite Forall_forall in *. intros z Hz.
      eapply string_ltb_trans; [exact E|]. now apply Hf.
    + cbn [keys map]. apply string_nleb_ltb in E. constructor.
      * apply IH; [intros H; apply Hni; cbn; auto|assumption].
      * rewrite Forall_forall in *. intros z Hz.
        apply (Permutation_in _ (Permutation_sym (keys_insert_sorted_perm x l))) in Hz.
        destruct Hz as [<-|Hz]; [exact E|now apply Hf].
Qed.

Lemma isort_keys_sorted {B} (l : list (string * B)) :
  NoDup (keys l) -> StronglySorted str_lt (keys (isort key_leb l)).
Proof.
  induction l as [|x l IH]; cbn [isort keys map]; intros Hnd; [constructor|].
  inversion Hnd as [|? ? Hni Hnd']; subst.
  apply insert_sorted_keys_sorted; [|now apply IH].
  intros Hin. apply Hni.
  assert (Hp : Permutation (keys (isort key_leb l)) (keys l))
    by (apply Permutation_map, Permutation_sym, isort_perm).
  exact (Permutation_in _ Hp Hin).
Qed.

Lemma path_ltb_app_cons pre k1 s1 k2 s2 :
  String.ltb k1 k2 = true -> path_ltb (pre ++ k1 :: s1) (pre ++ k2 :: s2) = true.
Proof.
  intros H. induction pre as [|a pre IH]; cbn [app path_ltb].
  - destruct (String.eqb_spec k1 k2) as [->|_]; [|assumption].
    rewrite string_ltb_irrefl in H. discriminate.
  - now rewrite String.eqb_refl.
Qed.

Lemma sorted_flat_map_snd {B} (R : B -> B -> Prop) (L : list (string * list B)) :
  StronglySorted str_lt (keys L) ->
  (forall k l, In (k, l) L -> StronglySorted R l) ->
  (forall k1 l1 k2 l2 x y, In (k1, l1) L -> In (k2, l2) L -> str_lt k1 k2 ->
                           In x l1 -> In y l2 -> R x y) ->
  StronglySorted R (flat_map snd L).
Proof.
  induction L as [|[k l] L IH]; cbn [flat_map keys map fst snd]; intros Hs Hin Hx; [constructor|].
  inversion Hs as [|? ? Hs' Hf]; subst. apply StronglySorted_app.
  - apply (Hin k l). now left.
  - apply IH; [assumption| |].
    + intros k' l' H. apply (Hin k' l'). now right.
    + intros k1 l1 k2 l2 x y H1 H2. apply (Hx k1 l1 k2 l2 x y); now right.
  - intros x y Hxl Hy. apply in_flat_map in Hy as ([k2 l2] & H2 & Hy). cbn [snd] in Hy.
    apply (Hx k l k2 l2 x y); auto; [now left|now right|].
    rewrite Forall_forall in Hf. apply Hf. unfold keys. apply in_map_iff. exists (k2, l2). auto.
Qed.

Lemma walk_sorted_node_prefix (n : node) : forall pre p v,
  In (p, v) (walk_sorted_node n pre) -> exists s, p = pre ++ s.
Proof.
  induction n as [x|cs IH] using node_ind'; intros pre p v; cbn [walk_sorted_node].
  - intros [H|[]]. inversion H; subst. exists []. now rewrite app_nil_r.
  - rewrite in_flat_map. intros ([k l] & Hin & Hw). cbn [snd] in Hw.
    apply In_isort in Hin. apply in_map_iff in Hin as ([k' c] & E & Hin'). cbn [fst snd] in E.
    inversion E; subst. rewrite Forall_forall in IH. apply (IH _ Hin') in Hw. cbn [fst snd] in Hw.
    destruct Hw as [s ->]. exists (k :: s). now rewrite <- app_assoc.
Qed.

Lemma keys_map_pair {B C} (f : string * B -> C) (cs : list (string * B)) :
  keys (map (fun kc => (fst kc, f kc)) cs) = keys cs.
Proof. induction cs as [|kc cs IH]; cbn [map fst]; [reflexivity|]. now rewrite IH. Qed.

Lemma walk_sorted_node_sorted (n : node) : forall pre,
  wf n -> StronglySorted path_lt (map fst (walk_sorted_node n pre)).
Proof.
  induction n as [x|cs IH] using node_ind'; intros pre Hwf; cbn [walk_sorted_node].
  - cbn. constructor; constructor.
  - pose proof (wf_nodup _ Hwf) as Hnd. inversion Hwf as [|? _ _ Hall]; subst.
    set (F := fun kc : string * node => (fst kc, walk_sorted_node (snd kc) (pre ++ [fst kc]))).
    set (L := isort key_leb (map F cs)).
    assert (HL : forall k l, In (k, l) L ->
                 exists c, In (k, c) cs /\ l = walk_sorted_node c (pre ++ [k])).
    { intros k l H. apply In_isort in H. apply in_map_iff in H as ([k' c] & E & H').
      unfold F in E. cbn [fst snd] in E. inversion E; subst. eauto. }
    rewrite flat_map_concat_map, concat_map, map_map, <- flat_map_concat_map.
    assert (E : flat_map (fun x => map fst (snd x)) L =
                flat_map snd (map (fun kl => (fst kl, map fst (snd kl))) L)).
    { clear. induction L as [|[k l] L IHL]; cbn; [reflexivity|]. now rewrite IHL. }
    rewrite E. apply sorted_flat_map_snd.
    + rewrite keys_map_pair. subst L. apply isort_keys_sorted.
      unfold F. rewrite keys_map_pair. exact Hnd.
    + intros k l H. apply in_map_iff in H as ([k' l'] & E' & H'). cbn [fst snd] in E'.
      inversion E'; subst. destruct (HL _ _ H') as (c & Hc & ->).
      rewrite Forall_forall in IH, Hall. apply (IH _ Hc). exact (Hall _ Hc).
    + intros k1 l1 k2 l2 x y H1 H2 Hlt Hx Hy.
      apply in_map_iff in H1 as ([k1' l1'] & E1 & H1'). cbn [fst snd] in E1. inversion E1; subst.
      apply in_map_iff in H2 as ([k2' l2'] & E2 & H2'). cbn [fst snd] in E2. inversion E2; subst.
      destruct (HL _ _ H1') as (c1 & _ & ->). destruct (HL _ _ H2') as (c2 & _ & ->).
      apply in_map_iff in Hx as ([px vx] & <- & Hx). apply in_map_iff in Hy as ([py vy] & <- & Hy).
      apply walk_sorted_node_prefix in Hx as [s1 ->]. apply walk_sorted_node_prefix in Hy as [s2 ->].
      cbn [fst]. rewrite <- !app_assoc. cbn [app]. now apply path_ltb_app_cons.
Qed.

Lemma flat_map_perm_pointwise {A B} (f g : A -> list B) (l : list A) :
  Forall (fun a => Permutation (f a) (g a)) l -> Permutation (flat_map f l) (flat_map g l).
Proof.
  induction 1 as [|a l Ha _ IH]; cbn [flat_map]; [constructor|]. now apply Permutation_app.
Qed.

Lemma walk_sorted_node_perm (n : node) : forall pre,
  Permutation (walk_sorted_node n pre) (walk_node n pre).
Proof.
  induction n as [x|cs IH] using node_ind'; intros pre; cbn [walk_sorted_node walk_node]; [reflexivity|].
  set (F := fun kc : string * node => (fst kc, walk_sorted_node (snd kc) (pre ++ [fst kc]))).
  transitivity (flat_map snd (map F cs)).
  - apply Permutation_flat_map, Permutation_sym, isort_perm.
  - rewrite flat_map_concat_map, map_map, <- flat_map_concat_map. unfold F; cbn [snd].
    apply flat_map_perm_pointwise. rewrite Forall_forall in *. intros kc Hin. now apply IH.
Qed.

Theorem walk_sorted_exact (t : tree) :
  wf_tree t ->
  Permutation (walk_sorted t) (walk t) /\
  StronglySorted path_lt (map fst (walk_sorted t)).
Proof.
  destruct t as [n|]; cbn [walk_sorted walk wf_tree]; intros Hwf.
  - split; [apply walk_sorted_node_perm|now apply walk_sorted_node_sorted].
  - split; constructor.
Qed.

End Theorems.

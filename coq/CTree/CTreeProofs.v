(** Proofs about the ctree model: it is a prefix-free map from paths to values
    ([lookup] is the abstraction), and Add / Query / Walk / WalkSorted / Delete are
    characterised exactly in terms of [lookup] and [qmatch]. *)
From Gnmi Require Import Base.Prelude CTree.CTreeModel.
From Coq Require Import Sorting.Sorted.

Section Proofs.
Context {V : Type}.
Notation node := (node V).
Notation tree := (tree V).

(** * Induction principle for the nested type *)

Lemma node_ind' (P : node -> Prop) :
  (forall v, P (Leaf v)) ->
  (forall cs, Forall (fun kc => P (snd kc)) cs -> P (Branch cs)) ->
  forall n, P n.
Proof.
  intros Hl Hb. fix IH 1. intros [v|cs]; [apply Hl|apply Hb].
  induction cs as [|[k c] cs IHcs]; constructor; [apply IH|apply IHcs].
Qed.

(** * Well-formedness: what every reachable tree satisfies

    keys of a Go map are distinct, and no branch is empty (newBranch never
    creates one, delete prunes them). *)
Inductive wf : node -> Prop :=
| wf_leaf v : wf (Leaf v)
| wf_branch cs :
    cs <> [] -> NoDup (keys cs) -> Forall (fun kc => wf (snd kc)) cs -> wf (Branch cs).

Definition wf_tree (t : tree) : Prop :=
  match t with None => True | Some n => wf n end.

Lemma wf_child cs k c : wf (Branch cs) -> assoc k cs = Some c -> wf c.
Proof.
  intros H Ha. inversion H as [|? _ _ Hall]; subst.
  apply assoc_In in Ha. rewrite Forall_forall in Hall. exact (Hall _ Ha).
Qed.

Lemma wf_nodup cs : wf (Branch cs) -> NoDup (keys cs).
Proof. now inversion 1. Qed.

(** * lookup *)

Lemma get_node_branch (cs : list (string * node)) k r :
  get_node (Branch cs) (k :: r) =
  match assoc k cs with Some c => get_node c r | None => None end.
Proof. cbn. now rewrite find_with_assoc. Qed.

Lemma lookup_leaf_nil (v : V) : lookup_node (Leaf v) [] = Some v.
Proof. reflexivity. Qed.

Lemma lookup_leaf_cons (v : V) k r : lookup_node (Leaf v) (k :: r) = None.
Proof. reflexivity. Qed.

Lemma lookup_branch_nil (cs : list (string * node)) : lookup_node (Branch cs) [] = None.
Proof. reflexivity. Qed.

Lemma lookup_branch_cons (cs : list (string * node)) k r :
  lookup_node (Branch cs) (k :: r) =
  match assoc k cs with Some c => lookup_node c r | None => None end.
Proof.
  unfold lookup_node. rewrite get_node_branch. now destruct (assoc k cs).
Qed.

Lemma lookup_new_branch p (v : V) q :
  lookup_node (new_branch p v) q = if path_eqb q p then Some v else None.
Proof.
  revert q; induction p as [|k p IH]; intros [|a q]; cbn [new_branch path_eqb]; try reflexivity.
  rewrite lookup_branch_cons. cbn [assoc fst snd].
  destruct (String.eqb_spec a k) as [->|Hn]; cbn; [apply IH|reflexivity].
Qed.

Lemma wf_new_branch p (v : V) : wf (new_branch p v).
Proof.
  induction p as [|k p IH]; cbn; constructor.
  - discriminate.
  - cbn. constructor; [tauto|constructor].
  - constructor; [exact IH|constructor].
Qed.

(** every well-formed node holds at least one leaf *)
Lemma wf_inhabited n : wf n -> exists s v, lookup_node n s = Some v.
Proof.
  induction n as [v|cs IH] using node_ind'; intros Hwf.
  - exists [], v. reflexivity.
  - inversion Hwf as [|? Hne Hnd Hall]; subst.
    destruct cs as [|[k c] cs]; [congruence|].
    inversion IH as [|? ? IHc _]; subst. inversion Hall as [|? ? Hc _]; subst.
    destruct (IHc Hc) as (s & v & Hs).
    exists (k :: s), v. rewrite lookup_branch_cons. cbn. now rewrite String.eqb_refl.
Qed.

(** prefix-freeness is structural *)
Lemma lookup_prefix_free n p s (v w : V) :
  lookup_node n p = Some v -> lookup_node n (p ++ s) = Some w -> s = [].
Proof.
  revert n; induction p as [|k p IH]; intros n; cbn [app].
  - destruct n as [x|cs]; [|rewrite lookup_branch_nil; discriminate].
    intros _. destruct s; [reflexivity|rewrite lookup_leaf_cons; discriminate].
  - destruct n as [x|cs]; [rewrite lookup_leaf_cons; discriminate|].
    rewrite !lookup_branch_cons. destruct (assoc k cs) as [c|]; [apply IH|discriminate].
Qed.

(** * Add *)

Lemma add_node_branch (cs : list (string * node)) k r (v : V) :
  add_node (Branch cs) (k :: r) v =
  match assoc k cs with
  | Some c => match add_node c r v with Some c' => Some (Branch (aset k c' cs)) | None => None end
  | None => Some (Branch (aset k (new_branch r v) cs))
  end.
Proof.
  cbn [add_node]. rewrite alter_assoc.
  destruct (assoc k cs) as [c|]; [destruct (add_node c r v)|]; reflexivity.
Qed.

Lemma aset_nonempty {A} k (a : A) l : aset k a l <> [].
Proof. destruct l as [|[k' a'] l]; cbn; [discriminate|]. destruct (String.eqb k k'); discriminate. Qed.

Lemma Forall_aset {A} (P : string * A -> Prop) k a l :
  Forall P l -> P (k, a) -> Forall P (aset k a l).
Proof.
  intros Hall Hp. induction l as [|[k' a'] l IH]; cbn.
  - constructor; [assumption|constructor].
  - inversion Hall; subst. destruct (String.eqb_spec k k') as [->|Hn]; cbn.
    + constructor; assumption.
    + constructor; auto.
Qed.

Lemma add_node_spec n : forall p (v : V) n',
  wf n -> add_node n p v = Some n' ->
  wf n' /\ forall q, lookup_node n' q = if path_eqb q p then Some v else lookup_node n q.
Proof.
  induction n as [x|cs IH] using node_ind'; intros p v n' Hwf Hadd.
  - destruct p as [|k r]; cbn in Hadd; [|discriminate]. inversion Hadd; subst. split; [constructor|].
    intros [|a q]; reflexivity.
  - destruct p as [|k r]; [cbn in Hadd; discriminate|].
    rewrite add_node_branch in Hadd.
    pose proof (wf_nodup _ Hwf) as Hnd.
    inversion Hwf as [|? Hne _ Hall]; subst.
    destruct (assoc k cs) as [c|] eqn:Hk.
    + destruct (add_node c r v) as [c'|] eqn:Hc; [|discriminate]. inversion Hadd; subst; clear Hadd.
      pose proof (assoc_In _ _ _ Hk) as Hin.
      rewrite Forall_forall in IH. specialize (IH _ Hin r v c' (wf_child _ _ _ Hwf Hk) Hc).
      cbn [snd] in IH. destruct IH as [Hwfc' Hl]. split.
      * constructor; [apply aset_nonempty|now apply NoDup_keys_aset|].
        apply Forall_aset; auto.
      * intros [|a q]; [reflexivity|]. rewrite !lookup_branch_cons, assoc_aset. cbn [path_eqb].
        destruct (String.eqb_spec a k) as [->|Hn]; cbn [andb]; [|reflexivity].
        rewrite Hk. apply Hl.
    + inversion Hadd; subst; clear Hadd. split.
      * constructor; [apply aset_nonempty|now apply NoDup_keys_aset|].
        apply Forall_aset; auto. cbn. apply wf_new_branch.
      * intros [|a q]; [reflexivity|]. rewrite !lookup_branch_cons, assoc_aset. cbn [path_eqb].
        destruct (String.eqb_spec a k) as [->|Hn]; cbn [andb]; [|reflexivity].
        rewrite Hk. rewrite lookup_new_branch. now destruct (path_eqb q r).
Qed.

(** [addable n p]: no stored path is a strict prefix of [p] and [p] is not a
    strict prefix of, or equal to the branch position of, any stored path. *)
Definition addable (n : node) (p : path) : Prop :=
  forall q (w : V), lookup_node n q = Some w ->
    strict_prefix q p = false /\ strict_prefix p q = false.

Lemma strict_prefix_cons a p b q :
  strict_prefix (a :: p) (b :: q) = String.eqb a b && strict_prefix p q.
Proof.
  unfold strict_prefix; cbn. destruct (String.eqb a b); cbn; reflexivity.
Qed.

Lemma strict_prefix_nil_cons b q : strict_prefix [] (b :: q) = true.
Proof. reflexivity. Qed.

Lemma strict_prefix_nil_r p : strict_prefix p [] = false.
Proof. destruct p; reflexivity. Qed.

Lemma add_node_ok_iff n : forall p (v : V),
  wf n -> (add_node n p v <> None <-> addable n p).
Proof.
  induction n as [x|cs IH] using node_ind'; intros p v Hwf.
  - destruct p as [|k r]; cbn.
    + split; [|congruence]. intros _ q w Hq. destruct q; [split; reflexivity|discriminate].
    + split; [congruence|]. intros Ha. specialize (Ha [] x eq_refl). cbn in Ha. destruct Ha; discriminate.
  - destruct p as [|k r].
    + cbn. split; [congruence|]. intros Ha. exfalso.
      destruct (wf_inhabited _ Hwf) as (s & w & Hs).
      destruct s as [|a s]; [rewrite lookup_branch_nil in Hs; discriminate|].
      destruct (Ha _ _ Hs) as [_ H]. discriminate.
    + rewrite add_node_branch. destruct (assoc k cs) as [c|] eqn:Hk.
      * pose proof (assoc_In _ _ _ Hk) as Hin. rewrite Forall_forall in IH.
        specialize (IH _ Hin r v (wf_child _ _ _ Hwf Hk)). cbn [snd] in IH.
        assert (Heq : addable (Branch cs) (k :: r) <-> addable c r).
        { unfold addable. split; intros Ha q w Hq.
          - specialize (Ha (k :: q) w). rewrite lookup_branch_cons, Hk in Ha. specialize (Ha Hq).
            rewrite !strict_prefix_cons, String.eqb_refl in Ha. exact Ha.
          - destruct q as [|a q]; [rewrite lookup_branch_nil in Hq; discriminate|].
            rewrite lookup_branch_cons in Hq. rewrite !strict_prefix_cons.
            destruct (String.eqb_spec a k) as [->|Hn].
            + rewrite Hk in Hq. rewrite String.eqb_refl. exact (Ha _ _ Hq).
            + assert (String.eqb k a = false) by (apply String.eqb_neq; congruence).
              rewrite H. split; reflexivity. }
        rewrite Heq, <- IH. destruct (add_node c r v); split; congruence.
      * split; [|congruence]. intros _ q w Hq.
        destruct q as [|a q]; [rewrite lookup_branch_nil in Hq; discriminate|].
        rewrite lookup_branch_cons in Hq. rewrite !strict_prefix_cons.
        destruct (String.eqb_spec a k) as [->|Hn]; [rewrite Hk in Hq; discriminate|].
        assert (String.eqb k a = false) by (apply String.eqb_neq; congruence).
        rewrite H. split; reflexivity.
Qed.

(** * Walk and Query *)

Lemma in_keys_assoc {A} k (l : list (string * A)) : In k (keys l) -> exists a, assoc k l = Some a.
Proof.
  intros H. destruct (assoc k l) eqn:E; eauto. apply assoc_None in E. contradiction.
Qed.

Lemma walk_node_spec n : forall pre p (v : V),
  wf n ->
  (In (p, v) (walk_node n pre) <-> exists s, p = pre ++ s /\ lookup_node n s = Some v).
Proof.
  induction n as [x|cs IH] using node_ind'; intros pre p v Hwf; cbn [walk_node].
  - split.
    + intros [H|[]]. inversion H; subst. exists []. now rewrite app_nil_r.
    + intros (s & -> & Hs). destruct s; [|discriminate]. inversion Hs; subst. rewrite app_nil_r. now left.
  - pose proof (wf_nodup _ Hwf) as Hnd. rewrite in_flat_map. split.
    + intros ([k c] & Hin & Hw). cbn [fst snd] in Hw.
      rewrite Forall_forall in IH. pose proof (In_assoc _ _ _ Hnd Hin) as Hk.
      apply (IH _ Hin) in Hw; [|exact (wf_child _ _ _ Hwf Hk)].
      destruct Hw as (s & -> & Hs). exists (k :: s). rewrite <- app_assoc. split; [reflexivity|].
      rewrite lookup_branch_cons, Hk. exact Hs.
    + intros (s & -> & Hs). destruct s as [|k s]; [rewrite lookup_branch_nil in Hs; discriminate|].
      rewrite lookup_branch_cons in Hs. destruct (assoc k cs) as [c|] eqn:Hk; [|discriminate].
      pose proof (assoc_In _ _ _ Hk) as Hin. exists (k, c). split; [assumption|]. cbn [fst snd].
      rewrite Forall_forall in IH. apply (IH _ Hin); [exact (wf_child _ _ _ Hwf Hk)|].
      exists s. rewrite <- app_assoc. auto.
Qed.

Lemma walk_node_prefix n : forall pre p (v : V),
  In (p, v) (walk_node n pre) -> exists s, p = pre ++ s.
Proof.
  induction n as [x|cs IH] using node_ind'; intros pre p v; cbn [walk_node].
  - intros [H|[]]. inversion H; subst. exists []. now rewrite app_nil_r.
  - rewrite in_flat_map. intros ([k c] & Hin & Hw). cbn [fst snd] in Hw.
    rewrite Forall_forall in IH. apply (IH _ Hin) in Hw. destruct Hw as [s ->].
    exists (k :: s). now rewrite <- app_assoc.
Qed.

Lemma walk_node_nodup n : forall pre, wf n -> NoDup (map fst (walk_node n pre)).
Proof.
  induction n as [x|cs IH] using node_ind'; intros pre Hwf; cbn [walk_node].
  - cbn. constructor; [tauto|constructor].
  - pose proof (wf_nodup _ Hwf) as Hnd. inversion Hwf as [|? _ _ Hall]; subst.
    rewrite flat_map_concat_map, concat_map, map_map, <- flat_map_concat_map.
    apply NoDup_flat_map.
    + eapply NoDup_map_inv; exact Hnd.
    + intros [k c] Hin. cbn [fst snd]. rewrite Forall_forall in IH, Hall.
      apply (IH _ Hin). exact (Hall _ Hin).
    + intros [k c] [k' c'] p Hin Hin' Hp Hp'. cbn [fst snd] in *.
      apply in_map_iff in Hp as ([p1 v1] & <- & H1). apply in_map_iff in Hp' as ([p2 v2] & E & H2).
      cbn [fst] in E. subst p2.
      apply walk_node_prefix in H1 as [s1 E1]. apply walk_node_prefix in H2 as [s2 E2].
      rewrite E1, <- !app_assoc in E2. apply app_inv_head in E2. cbn in E2. inversion E2; subst.
      assert (c = c'); [|congruence].
      pose proof (In_assoc _ _ _ Hnd Hin). pose proof (In_assoc _ _ _ Hnd Hin'). congruence.
Qed.

Lemma qmatch_nil q : qmatch q [] = true -> q = [] \/ q = ["*"].
Proof.
  destruct q as [|k r]; [auto|]. cbn. destruct (is_glob k) eqn:G.
  - destruct r; [|discriminate]. intros _. right. unfold is_glob in G. apply String.eqb_eq in G. now subst.
  - discriminate.
Qed.

Lemma query_node_spec n : forall pre q p (v : V),
  wf n ->
  (In (p, v) (query_node n pre q) <->
   exists s, p = pre ++ s /\ lookup_node n s = Some v /\ qmatch q s = true).
Proof.
  induction n as [x|cs IH] using node_ind'; intros pre q p v Hwf.
  - (* leaf *)
    assert (Hw : forall pre, In (p, v) (walk_node (Leaf x) pre) <->
                             exists s, p = pre ++ s /\ lookup_node (Leaf x) s = Some v)
      by (intros; apply walk_node_spec; constructor).
    destruct q as [|k r]; cbn [query_node].
    + rewrite Hw. split; intros (s & ? & ?); exists s; cbn; auto. tauto.
    + destruct (is_glob k) eqn:G.
      * destruct r as [|k' r'].
        -- rewrite Hw. split; intros (s & ? & ?); exists s; cbn [qmatch]; rewrite ?G; auto. tauto.
        -- split; [intros []|]. intros (s & _ & Hs & Hm). destruct s; [|discriminate].
           cbn in Hm. rewrite G in Hm. discriminate.
      * split; [intros []|]. intros (s & _ & Hs & Hm). destruct s; [|discriminate].
        cbn in Hm. rewrite G in Hm. discriminate.
  - pose proof (wf_nodup _ Hwf) as Hnd.
    assert (Hw : forall pre, In (p, v) (walk_node (Branch cs) pre) <->
                             exists s, p = pre ++ s /\ lookup_node (Branch cs) s = Some v)
      by (intros; now apply walk_node_spec).
    destruct q as [|k r]; cbn [query_node].
    + rewrite Hw. split; intros (s & ? & ?); exists s; cbn; auto. tauto.
    + destruct (is_glob k) eqn:G.
      * destruct r as [|k' r'].
        -- rewrite Hw. split; intros (s & ? & ?); exists s; cbn [qmatch]; rewrite ?G; auto. tauto.
        -- rewrite in_flat_map. split.
           ++ intros ([a c] & Hin & Hq). cbn [fst snd] in Hq.
              rewrite Forall_forall in IH. pose proof (In_assoc _ _ _ Hnd Hin) as Hk.
              apply (IH _ Hin) in Hq; [|exact (wf_child _ _ _ Hwf Hk)].
              destruct Hq as (s & -> & Hs & Hm). exists (a :: s). rewrite <- app_assoc.
              split; [reflexivity|]. rewrite lookup_branch_cons, Hk. split; [exact Hs|].
              cbn [qmatch]. now rewrite G.
           ++ intros (s & -> & Hs & Hm). destruct s as [|a s]; [rewrite lookup_branch_nil in Hs; discriminate|].
              rewrite lookup_branch_cons in Hs. destruct (assoc a cs) as [c|] eqn:Hk; [|discriminate].
              pose proof (assoc_In _ _ _ Hk) as Hin. exists (a, c). split; [assumption|]. cbn [fst snd].
              rewrite Forall_forall in IH. apply (IH _ Hin); [exact (wf_child _ _ _ Hwf Hk)|].
              exists s. rewrite <- app_assoc. cbn [qmatch] in Hm. rewrite G in Hm. auto.
      * rewrite find_with_assoc. split.
        -- destruct (assoc k cs) as [c|] eqn:Hk; [|intros []]. intros Hq.
           pose proof (assoc_In _ _ _ Hk) as Hin. rewrite Forall_forall in IH.
           apply (IH _ Hin) in Hq; [|exact (wf_child _ _ _ Hwf Hk)].
           destruct Hq as (s & -> & Hs & Hm). exists (k :: s). rewrite <- app_assoc.
           split; [reflexivity|]. rewrite lookup_branch_cons, Hk. split; [exact Hs|].
           cbn [qmatch]. now rewrite G, String.eqb_refl.
        -- intros (s & -> & Hs & Hm). destruct s as [|a s]; [rewrite lookup_branch_nil in Hs; discriminate|].
           cbn [qmatch] in Hm. rewrite G in Hm. apply andb_true_iff in Hm as [Hka Hm].
           apply String.eqb_eq in Hka. subst a.
           rewrite lookup_branch_cons in Hs. destruct (assoc k cs) as [c|] eqn:Hk; [|discriminate].
           pose proof (assoc_In _ _ _ Hk) as Hin. rewrite Forall_forall in IH.
           apply (IH _ Hin); [exact (wf_child _ _ _ Hwf Hk)|].
           exists s. rewrite <- app_assoc. auto.
Qed.

Lemma query_node_incl_walk (n : node) : forall pre q x,
  In x (query_node n pre q) -> In x (walk_node n pre).
Proof.
  induction n as [y|cs IH] using node_ind'; intros pre q x.
  - destruct q as [|k r]; cbn [query_node]; [tauto|].
    destruct (is_glob k); [destruct r; [tauto|intros []]|intros []].
  - destruct q as [|k r]; cbn [query_node]; [tauto|].
    destruct (is_glob k).
    + destruct r as [|k' r']; [tauto|]. cbn [walk_node]. rewrite !in_flat_map.
      intros (kc & Hin & Hq). exists kc. split; [assumption|].
      rewrite Forall_forall in IH. eapply IH; eauto.
    + rewrite find_with_assoc. destruct (assoc k cs) as [c|] eqn:Hk; [|intros []].
      intros Hq. cbn [walk_node]. rewrite in_flat_map. exists (k, c).
      split; [now apply assoc_In|]. cbn [fst snd].
      rewrite Forall_forall in IH. eapply (IH (k, c)); eauto. now apply assoc_In.
Qed.

Lemma query_node_nodup n : forall pre q, wf n -> NoDup (map fst (query_node n pre q)).
Proof.
  induction n as [y|cs IH] using node_ind'; intros pre q Hwf.
  - destruct q as [|k r]; cbn [query_node]; [now apply walk_node_nodup|].
    destruct (is_glob k); [destruct r; [now apply walk_node_nodup|constructor]|constructor].
  - pose proof (wf_nodup _ Hwf) as Hnd. inversion Hwf as [|? _ _ Hall]; subst.
    destruct q as [|k r]; cbn [query_node]; [now apply walk_node_nodup|].
    destruct (is_glob k).
    + destruct r as [|k' r']; [now apply walk_node_nodup|].
      rewrite flat_map_concat_map, concat_map, map_map, <- flat_map_concat_map.
      apply NoDup_flat_map.
      * eapply NoDup_map_inv; exact Hnd.
      * intros [a c] Hin. cbn [fst snd]. rewrite Forall_forall in IH, Hall.
        apply (IH _ Hin). exact (Hall _ Hin).
      * intros [a c] [a' c'] p Hin Hin' Hp Hp'. cbn [fst snd] in *.
        apply in_map_iff in Hp as ([p1 v1] & <- & H1). apply in_map_iff in Hp' as ([p2 v2] & E & H2).
        cbn [fst] in E. subst p2.
        apply query_node_incl_walk, walk_node_prefix in H1 as [s1 E1].
        apply query_node_incl_walk, walk_node_prefix in H2 as [s2 E2].
        rewrite E1, <- !app_assoc in E2. apply app_inv_head in E2. cbn in E2. inversion E2; subst.
        assert (c = c'); [|congruence].
        pose proof (In_assoc _ _ _ Hnd Hin). pose proof (In_assoc _ _ _ Hnd Hin'). congruence.
    + rewrite find_with_assoc. destruct (assoc k cs) as [c|] eqn:Hk; [|constructor].
      pose proof (assoc_In _ _ _ Hk) as Hin. rewrite Forall_forall in IH, Hall.
      apply (IH _ Hin). exact (Hall _ Hin).
Qed.

(** * Delete *)

Definition lookup_opt (o : option node) (s : path) : option V :=
  match o with Some n => lookup_node n s | None => None end.

Definition opt_children (g : node -> option node) (cs : list (string * node)) :=
  flat_map (fun kc => match g (snd kc) with Some c' => [(fst kc, c')] | None => [] end) cs.

Lemma collect_fst (f : node -> option node * list (path * V)) cs :
  fst (collect_children (map (fun kc => (fst kc, f (snd kc))) cs)) =
  opt_children (fun c => fst (f c)) cs.
Proof.
  unfold collect_children, opt_children. cbn [fst].
  induction cs as [|[k c] cs IH]; cbn; [reflexivity|]. now rewrite IH.
Qed.

Lemma collect_snd (f : node -> option node * list (path * V)) cs :
  snd (collect_children (map (fun kc => (fst kc, f (snd kc))) cs)) =
  flat_map (fun kc => map (fun pv => (fst kc :: fst pv, snd pv)) (snd (f (snd kc)))) cs.
Proof.
  unfold collect_children. cbn [snd].
  induction cs as [|[k c] cs IH]; cbn; [reflexivity|]. now rewrite IH.
Qed.

Lemma keys_opt_children_incl g cs x : In x (keys (opt_children g cs)) -> In x (keys cs).
Proof.
  unfold opt_children. induction cs as [|[k c] cs IH]; cbn; [tauto|].
  destruct (g c); cbn; tauto.
Qed.

Lemma NoDup_keys_opt_children g cs : NoDup (keys cs) -> NoDup (keys (opt_children g cs)).
Proof.
  unfold opt_children. induction cs as [|[k c] cs IH]; cbn; intros Hnd; [constructor|].
  inversion Hnd as [|? ? Hni Hnd']; subst. destruct (g c); cbn; auto.
  constructor; auto. intros H; apply Hni. eapply keys_opt_children_incl; eauto.
Qed.

Lemma assoc_opt_children g cs a :
  NoDup (keys cs) ->
  assoc a (opt_children g cs) = match assoc a cs with Some ch => g ch | None => None end.
Proof.
  unfold opt_children. induction cs as [|[k c] cs IH]; cbn; intros Hnd; [reflexivity|].
  inversion Hnd as [|? ? Hni Hnd']; subst.
  destruct (String.eqb_spec a k) as [->|Hn].
  - destruct (g c) as [c'|] eqn:G; cbn; [now rewrite String.eqb_refl|].
    destruct (assoc k (flat_map _ cs)) eqn:E; [|reflexivity].
    exfalso; apply Hni. apply assoc_Some_key in E. eapply keys_opt_children_incl; exact E.
  - destruct (g c) as [c'|]; cbn; [|now apply IH].
    destruct (String.eqb_spec a k); [congruence|now apply IH].
Qed.

Lemma Forall_opt_children (P : node -> Prop) g cs :
  Forall (fun kc => forall c', g (snd kc) = Some c' -> P c') cs ->
  Forall (fun kc => P (snd kc)) (opt_children g cs).
Proof.
  unfold opt_children. induction 1 as [|[k c] cs H Hall IH]; cbn; [constructor|].
  cbn in H. destruct (g c) as [c'|]; cbn; auto.
Qed.

Lemma lookup_opt_rebuild_nil cs : lookup_opt (rebuild cs) [] = None.
Proof. destruct cs; reflexivity. Qed.

Lemma lookup_opt_rebuild_cons cs a s :
  lookup_opt (rebuild cs) (a :: s) =
  match assoc a cs with Some c => lookup_node c s | None => None end.
Proof. destruct cs as [|kc cs]; [reflexivity|]. cbn [rebuild lookup_opt]. apply lookup_branch_cons. Qed.

Lemma wf_rebuild cs n' :
  NoDup (keys cs) -> Forall (fun kc => wf (snd kc)) cs -> rebuild cs = Some n' -> wf n'.
Proof.
  destruct cs as [|kc cs]; cbn; [discriminate|]. intros Hnd Hall H. inversion H; subst.
  constructor; [discriminate|assumption|assumption].
Qed.

Lemma Forall_adel {A} (P : string * A -> Prop) k l : Forall P l -> Forall P (adel k l).
Proof.
  induction 1 as [|[k' a'] l H Hall IH]; cbn; [constructor|].
  destruct (String.eqb k k'); auto.
Qed.

Lemma qmatch_heads_all q a s :
  heads_all q = true -> qmatch q (a :: s) = qmatch (strip_glob q) s.
Proof.
  destruct q as [|k r]; cbn; [reflexivity|]. intros ->. destruct r; [reflexivity|reflexivity].
Qed.

Lemma qmatch_heads_all_nil q :
  heads_all q = true -> qmatch q [] = match strip_glob q with [] => true | _ :: _ => false end.
Proof.
  destruct q as [|k r]; cbn; [reflexivity|]. intros ->. destruct r; reflexivity.
Qed.

Lemma qmatch_not_heads q s :
  heads_all q = false ->
  qmatch q s = match q, s with
               | k :: r, a :: s' => String.eqb k a && qmatch r s'
               | _, _ => false
               end.
Proof.
  destruct q as [|k r]; cbn; [discriminate|]. intros ->. destruct s; reflexivity.
Qed.

Definition sel (q : path) (c : V -> bool) (o : option V) (s : path) : option V :=
  match o with
  | Some v => if qmatch q s && c v then None else Some v
  | None => None
  end.

Lemma del_node_spec n : forall q c,
  wf n ->
  (forall n', fst (del_node n q c) = Some n' -> wf n') /\
  (forall s, lookup_opt (fst (del_node n q c)) s = sel q c (lookup_node n s) s) /\
  (forall s v, In (s, v) (snd (del_node n q c)) <->
               lookup_node n s = Some v /\ qmatch q s = true /\ c v = true) /\
  NoDup (map fst (snd (del_node n q c))).
Proof.
  induction n as [x|cs IH] using node_ind'; intros q c Hwf.
  - (* leaf *)
    cbn [del_node]. destruct (heads_all q) eqn:Hh.
    + pose proof (qmatch_heads_all_nil _ Hh) as Hq0.
      destruct (strip_glob q) as [|k' r'] eqn:Hs.
      * destruct (c x) eqn:Hc; cbn [fst snd].
        -- split; [discriminate|]. split; [|split].
           ++ intros [|a s]; cbn; [now rewrite Hq0, Hc|reflexivity].
           ++ intros s v. split.
              ** intros [H|[]]. inversion H; subst. auto.
              ** intros (Hl & _ & _). destruct s; [|discriminate]. inversion Hl; subst. now left.
           ++ cbn. constructor; [tauto|constructor].
        -- split; [intros n' H; inversion H; constructor|]. split; [|split].
           ++ intros [|a s]; cbn; [now rewrite Hq0, Hc|reflexivity].
           ++ intros s v. split; [intros []|]. intros (Hl & _ & Hcv).
              destruct s; [|discriminate]. inversion Hl; subst. congruence.
           ++ constructor.
      * cbn [fst snd]. split; [intros n' H; inversion H; constructor|]. split; [|split].
        -- intros [|a s]; cbn; [now rewrite Hq0|reflexivity].
        -- intros s v. split; [intros []|]. intros (Hl & Hm & _).
           destruct s; [|discriminate]. congruence.
        -- constructor.
    + assert (Hq0 : qmatch q [] = false) by (rewrite qmatch_not_heads by assumption; now destruct q).
      destruct q as [|k r]; cbn [fst snd].
      * discriminate.
      * split; [intros n' H; inversion H; constructor|]. split; [|split].
        -- intros [|a s]; cbn [lookup_opt]; [rewrite lookup_leaf_nil; unfold sel; now rewrite Hq0|reflexivity].
        -- intros s v. split; [intros []|]. intros (Hl & Hm & _).
           destruct s; [|discriminate]. congruence.
        -- constructor.
  - (* branch *)
    pose proof (wf_nodup _ Hwf) as Hnd. inversion Hwf as [|? Hne _ Hall]; subst.
    assert (IH' : forall k ch q c, assoc k cs = Some ch ->
      (forall n', fst (del_node ch q c) = Some n' -> wf n') /\
      (forall s, lookup_opt (fst (del_node ch q c)) s = sel q c (lookup_node ch s) s) /\
      (forall s v, In (s, v) (snd (del_node ch q c)) <->
                   lookup_node ch s = Some v /\ qmatch q s = true /\ c v = true) /\
      NoDup (map fst (snd (del_node ch q c)))).
    { intros k ch q0 c0 Hk. pose proof (assoc_In _ _ _ Hk) as Hin.
      rewrite Forall_forall in IH. apply (IH _ Hin). exact (wf_child _ _ _ Hwf Hk). }
    cbn [del_node]. destruct (heads_all q) eqn:Hh.
    + set (q' := strip_glob q).
      rewrite (collect_fst (fun ch => del_node ch q' c)), (collect_snd (fun ch => del_node ch q' c)).
      cbn [fst snd]. split; [|split; [|split]].
      * intros n' Hn'. eapply wf_rebuild; [| |exact Hn'].
        -- now apply NoDup_keys_opt_children.
        -- apply Forall_opt_children. rewrite Forall_forall. intros [k ch] Hin c' Hc'. cbn [snd] in Hc'.
           destruct (IH' k ch q' c (In_assoc _ _ _ Hnd Hin)) as [Hw _]. auto.
      * intros [|a s].
        -- now rewrite lookup_opt_rebuild_nil, lookup_branch_nil.
        -- rewrite lookup_opt_rebuild_cons, assoc_opt_children, lookup_branch_cons by assumption.
           destruct (assoc a cs) as [ch|] eqn:Ha; [|reflexivity].
           destruct (IH' a ch q' c Ha) as (_ & Hl & _). specialize (Hl s). unfold lookup_opt in Hl.
           rewrite Hl. unfold sel. now rewrite (qmatch_heads_all q a s Hh).
      * intros s v. rewrite in_flat_map. split.
        -- intros ([k ch] & Hin & Hm). cbn [fst snd] in Hm.
           apply in_map_iff in Hm as ([s' v'] & E & Hd). cbn [fst snd] in E. inversion E; subst.
           pose proof (In_assoc _ _ _ Hnd Hin) as Hk.
           destruct (IH' k ch q' c Hk) as (_ & _ & Hi & _). apply Hi in Hd as (Hl & Hm & Hc).
           rewrite lookup_branch_cons, Hk, (qmatch_heads_all q k s' Hh). auto.
        -- intros (Hl & Hm & Hc). destruct s as [|a s]; [rewrite lookup_branch_nil in Hl; discriminate|].
           rewrite lookup_branch_cons in Hl. destruct (assoc a cs) as [ch|] eqn:Ha; [|discriminate].
           exists (a, ch). split; [now apply assoc_In|]. cbn [fst snd].
           apply in_map_iff. exists (s, v). split; [reflexivity|].
           destruct (IH' a ch q' c Ha) as (_ & _ & Hi & _). apply Hi.
           rewrite (qmatch_heads_all q a s Hh) in Hm. auto.
      * rewrite flat_map_concat_map, concat_map, map_map, <- flat_map_concat_map.
        apply NoDup_flat_map.
        -- eapply NoDup_map_inv; exact Hnd.
        -- intros [k ch] Hin. cbn [fst snd]. rewrite map_map. cbn [fst].
           destruct (IH' k ch q' c (In_assoc _ _ _ Hnd Hin)) as (_ & _ & _ & Hn).
           rewrite <- (map_map fst (cons k)). apply FinFun.Injective_map_NoDup; [|exact Hn].
           intros u w E; now inversion E.
        -- intros [k ch] [k' ch'] p Hin Hin' Hp Hp'. cbn [fst snd] in *.
           rewrite map_map in Hp, Hp'. cbn [fst] in Hp, Hp'.
           apply in_map_iff in Hp as (u & <- & _). apply in_map_iff in Hp' as (w & E & _).
           inversion E; subst.
           pose proof (In_assoc _ _ _ Hnd Hin). pose proof (In_assoc _ _ _ Hnd Hin'). congruence.
    + destruct q as [|k r]; [discriminate|].
      rewrite find_with_assoc. destruct (assoc k cs) as [ch|] eqn:Hk; cbn [fst snd].
      * destruct (IH' k ch r c Hk) as (Hw & Hl & Hi & Hn).
        split; [|split; [|split]].
        -- intros n' Hn'. destruct (fst (del_node ch r c)) as [c'|] eqn:Hc'.
           ++ eapply wf_rebuild; [| |exact Hn'].
              ** now apply NoDup_keys_aset.
              ** apply Forall_aset; auto.
           ++ eapply wf_rebuild; [| |exact Hn'].
              ** now apply NoDup_keys_adel.
              ** now apply Forall_adel.
        -- intros [|a s].
           ++ now rewrite lookup_opt_rebuild_nil, lookup_branch_nil.
           ++ rewrite lookup_opt_rebuild_cons, lookup_branch_cons.
              unfold sel. rewrite (qmatch_not_heads _ (a :: s) Hh).
              specialize (Hl s). unfold lookup_opt, sel in Hl.
              destruct (fst (del_node ch r c)) as [c'|] eqn:Hc'.
              ** rewrite assoc_aset. destruct (String.eqb_spec a k) as [->|Hne'].
                 --- rewrite Hk, String.eqb_refl. cbn [andb]. exact Hl.
                 --- assert (String.eqb k a = false) as -> by (apply String.eqb_neq; congruence).
                     cbn [andb]. now destruct (assoc a cs) as [ch'|]; [destruct (lookup_node ch' s)|].
              ** rewrite assoc_adel by assumption. destruct (String.eqb_spec a k) as [->|Hne'].
                 --- rewrite Hk, String.eqb_refl. cbn [andb]. exact Hl.
                 --- assert (String.eqb k a = false) as -> by (apply String.eqb_neq; congruence).
                     cbn [andb]. now destruct (assoc a cs) as [ch'|]; [destruct (lookup_node ch' s)|].
        -- intros s v. rewrite in_map_iff. split.
           ++ intros ([s' v'] & E & Hd). cbn [fst snd] in E. inversion E; subst.
              apply Hi in Hd as (Hl' & Hm & Hc).
              rewrite lookup_branch_cons, Hk, (qmatch_not_heads _ _ Hh), String.eqb_refl. auto.
           ++ intros (Hl' & Hm & Hc). rewrite (qmatch_not_heads _ _ Hh) in Hm.
              destruct s as [|a s]; [discriminate|]. apply andb_true_iff in Hm as [Hka Hm].
              apply String.eqb_eq in Hka. subst a. rewrite lookup_branch_cons, Hk in Hl'.
              exists (s, v). split; [reflexivity|]. apply Hi. auto.
        -- rewrite map_map. cbn [fst]. rewrite <- (map_map fst (cons k)).
           apply FinFun.Injective_map_NoDup; [|exact Hn]. intros u w E; now inversion E.
      * split; [intros n' H; inversion H; subst; exact Hwf|]. split; [|split].
        -- intros s. cbn [lookup_opt]. unfold sel. destruct (lookup_node (Branch cs) s) as [v|] eqn:Hl; [|reflexivity].
           rewrite (qmatch_not_heads _ _ Hh). destruct s as [|a s]; [reflexivity|].
           destruct (String.eqb_spec k a) as [->|Hne']; [|reflexivity].
           rewrite lookup_branch_cons, Hk in Hl. discriminate.
        -- intros s v. split; [intros []|]. intros (Hl & Hm & _).
           rewrite (qmatch_not_heads _ _ Hh) in Hm. destruct s as [|a s]; [discriminate|].
           apply andb_true_iff in Hm as [Hka _]. apply String.eqb_eq in Hka. subst a.
           rewrite lookup_branch_cons, Hk in Hl. discriminate.
        -- constructor.
Qed.

End Proofs.

(** Leaf handles (CTreeHandle.v): the handle layer over the tree model refines
    the handle layer over the flat-map specification for every sequence of
    tree operations and handle operations; a live handle is exactly the leaf
    stored at its path; a handle whose leaf was deleted is inert. *)
From Gnmi Require Import Base.Prelude CTree.CTreeModel CTree.CTreeProofs CTree.CTreeTheorems
  CTree.CTreeCheck CTree.CTreeRefine CTree.CTreeHandle.
Open Scope Z_scope.

(** ** slots *)

Lemma sget_nil s : sget [] s = HNone.
Proof. unfold sget. now destruct s. Qed.

Lemma sget_sset_same sl : forall s h, sget (sset sl s h) s = h.
Proof.
  unfold sget. induction sl as [|x sl IH]; intros s h.
  - induction s as [|s IHs]; cbn [sset nth]; [reflexivity|exact IHs].
  - destruct s as [|s]; cbn [sset nth]; [reflexivity|apply IH].
Qed.

Lemma sget_sset_other sl : forall s s' h, s <> s' -> sget (sset sl s h) s' = sget sl s'.
Proof.
  unfold sget. induction sl as [|x sl IH]; intros s s' h Hne.
  - revert s' Hne. induction s as [|s IHs]; intros s' Hne; destruct s' as [|s']; cbn [sset nth]; try congruence.
    + now destruct s'.
    + rewrite IHs by congruence. now destruct s'.
  - destruct s as [|s], s' as [|s']; cbn [sset nth]; try congruence. apply IH. congruence.
Qed.

Lemma sget_map g sl s : g HNone = HNone -> sget (map g sl) s = g (sget sl s).
Proof.
  unfold sget. intros Hg. revert s. induction sl as [|x sl IH]; intros s; cbn [map nth].
  - now destruct s.
  - destruct s as [|s]; [reflexivity|apply IH].
Qed.

(** every live handle stands on a stored leaf at a non-empty path *)
Definition live_ok (t : tree Z) (sl : slots) : Prop :=
  forall s p, sget sl s = HLive p -> p <> [] /\ lookup t p <> None.

Lemma live_ok_nil t : live_ok t [].
Proof. intros s p H. rewrite sget_nil in H. discriminate. Qed.

Lemma live_ok_sset t sl s h :
  live_ok t sl ->
  (forall p, h = HLive p -> p <> [] /\ lookup t p <> None) ->
  live_ok t (sset sl s h).
Proof.
  intros Hl Hh s' p E. destruct (Nat.eq_dec s s') as [<-|Hne].
  - rewrite sget_sset_same in E. now apply Hh.
  - rewrite sget_sset_other in E by assumption. exact (Hl s' p E).
Qed.

(** ** association lists with distinct keys *)

Lemma assoc_path_In l p v : NoDup (map fst l) -> (assoc_path l p = Some v <-> In (p, v) l).
Proof.
  induction l as [|[q w] l IH]; cbn [assoc_path map fst In]; intros Hnd.
  - split; [discriminate|intros []].
  - inversion Hnd as [|? ? Hni Hnd']; subst. destruct (path_eqb_spec p q) as [->|Hn].
    + split.
      * intros E; inversion E; subst. now left.
      * intros [E|Hin]; [inversion E; reflexivity|].
        exfalso. apply Hni. apply in_map_iff. exists (q, v). auto.
    + rewrite (IH Hnd'). split; [now right|]. intros [E|Hin]; [inversion E; congruence|assumption].
Qed.

Lemma assoc_path_ext l1 l2 p :
  NoDup (map fst l1) -> NoDup (map fst l2) ->
  (forall x, In x l1 <-> In x l2) -> assoc_path l1 p = assoc_path l2 p.
Proof.
  intros H1 H2 H.
  destruct (assoc_path l1 p) as [v|] eqn:E1, (assoc_path l2 p) as [w|] eqn:E2; try reflexivity.
  - apply (assoc_path_In l1 p v H1), H, (assoc_path_In l2 p v H2) in E1. congruence.
  - apply (assoc_path_In l1 p v H1), H, (assoc_path_In l2 p v H2) in E1. congruence.
  - apply (assoc_path_In l2 p w H2), H, (assoc_path_In l1 p w H1) in E2. congruence.
Qed.

(** ** the deleted leaves of the model are those of the specification *)

Lemma deleted_agree t f o p :
  wf_tree t -> R t f -> assoc_path (deleted_of t o) p = assoc_path (fdeleted_of f o) p.
Proof.
  intros Hwf [Hnd HR].
  assert (G : forall q c,
             assoc_path (snd (delete_cond t q (cnd_eval c))) p = assoc_path (fselect f q c) p).
  { intros q c. destruct (delete_spec t q (cnd_eval c) Hwf) as (_ & _ & Hr & Hn).
    apply assoc_path_ext; [assumption|unfold fselect; now apply NoDup_map_filter|].
    intros [s v]. rewrite Hr. unfold fselect. rewrite filter_In. cbn [fst snd].
    rewrite andb_true_iff, HR. tauto. }
  destruct o; cbn [deleted_of fdeleted_of]; try reflexivity; apply G.
Qed.

Lemma stale_agree t f o sl n :
  wf_tree t -> R t f ->
  map (stale_by n (deleted_of t o)) sl = map (stale_by n (fdeleted_of f o)) sl.
Proof.
  intros Hwf HR. apply map_ext. intros [|p|p e v]; cbn [stale_by]; try reflexivity.
  now rewrite (deleted_agree t f o p Hwf HR).
Qed.

(** a tree operation keeps every stored leaf that it does not report as deleted *)
Lemma mstep_keeps (t : tree Z) o p :
  wf_tree t -> lookup t p <> None -> assoc_path (deleted_of t o) p = None ->
  lookup (fst (mstep t o)) p <> None.
Proof.
  intros Hwf Hl Hd.
  assert (G : forall q c, assoc_path (snd (delete_cond t q (cnd_eval c))) p = None ->
                          lookup (fst (delete_cond t q (cnd_eval c))) p <> None).
  { intros q c Ha. destruct (delete_spec t q (cnd_eval c) Hwf) as (_ & Hlk & Hr & Hn).
    rewrite Hlk. unfold sel. destruct (lookup t p) as [v|] eqn:L; [|congruence].
    destruct (qmatch q p && cnd_eval c v) eqn:K; [|discriminate].
    apply andb_true_iff in K as [K1 K2].
    assert (Hin : In (p, v) (snd (delete_cond t q (cnd_eval c)))) by (apply Hr; auto).
    apply (assoc_path_In _ p v Hn) in Hin. congruence. }
  destruct o as [p' v|p'|p'|p'|q| | |q c|q c|p'|p'|q]; cbn [mstep fst snd deleted_of] in *; try assumption.
  - destruct (add t p' v) as [t'|] eqn:E; cbn [fst]; [|assumption].
    destruct (add_spec t t' p' v Hwf E) as [_ Hlk]. rewrite Hlk.
    destruct (path_eqb p p'); [discriminate|assumption].
  - now apply G.
  - now apply G.
Qed.

Lemma mstep_wf t f o : wf_tree t -> R t f -> wf_tree (fst (mstep t o)).
Proof. intros Hwf HR. now destruct (step_refines t f o Hwf HR) as (H & _). Qed.

(** a stored leaf conflicts with no stored path: adding over it succeeds *)
Lemma stored_conflict_free (t : tree Z) p :
  lookup t p <> None -> conflict_free (V:=Z) t p.
Proof.
  intros Hl q w Hq. destruct (lookup t p) as [v|] eqn:L; [|congruence]. split.
  - destruct (strict_prefix q p) eqn:E; [|reflexivity].
    apply strict_prefix_spec in E as (k & s & ->).
    pose proof (lookup_tree_prefix_free t q (k :: s) w v Hq L). discriminate.
  - destruct (strict_prefix p q) eqn:E; [|reflexivity].
    apply strict_prefix_spec in E as (k & s & ->).
    pose proof (lookup_tree_prefix_free t p (k :: s) v w L Hq). discriminate.
Qed.

Lemma add_over_leaf (t : tree Z) p v :
  wf_tree t -> lookup t p <> None ->
  exists t', add t p v = Some t' /\ wf_tree t' /\
             forall q, lookup t' q = if path_eqb q p then Some v else lookup t q.
Proof.
  intros Hwf Hl. pose proof (proj2 (add_ok_iff t p v Hwf) (stored_conflict_free t p Hl)) as Ha.
  destruct (add t p v) as [t'|] eqn:E; [|congruence].
  exists t'. split; [reflexivity|]. now apply (add_spec t t' p v).
Qed.

(** ** the refinement step of the handle layer *)

Definition hobs_equiv (h : hop) (a b : obs) : Prop :=
  match h with HOp o => obs_equiv o a b | _ => a = b end.

Ltac fin5 := split; [assumption|split; [assumption|split; [reflexivity|split; [|reflexivity]]]].

Theorem hstep_refines (t : tree Z) (f : flat) (sl : slots) (n : nat) (h : hop) :
  wf_tree t -> R t f -> live_ok t sl ->
  let ms := hmstep (t, (sl, n)) h in
  let fs := hfstep (f, (sl, n)) h in
  wf_tree (fst (fst ms)) /\ R (fst (fst ms)) (fst (fst fs)) /\
  snd (fst ms) = snd (fst fs) /\ live_ok (fst (fst ms)) (fst (snd (fst ms))) /\
  hobs_equiv h (snd ms) (snd fs).
Proof.
  intros Hwf HR Hlive. cbn zeta. destruct h as [o|s p|s v|s]; cbn [hmstep hfstep hobs_equiv].
  - (* a tree operation *)
    destruct (step_refines t f o Hwf HR) as (Hwf' & HR' & He). cbn [fst snd].
    split; [assumption|]. split; [assumption|]. split; [now rewrite (stale_agree t f o sl n Hwf HR)|].
    split; [|assumption].
    intros s p E. rewrite sget_map in E by reflexivity.
    destruct (sget sl s) as [|p0|p0 e0 v0] eqn:G; cbn [stale_by] in E; try discriminate.
    destruct (assoc_path (deleted_of t o) p0) eqn:A; [discriminate|]. inversion E; subst p0.
    destruct (Hlive s p G) as [Hne Hl]. split; [assumption|]. now apply mstep_keeps.
  - (* hold *)
    destruct p as [|k p']; [|rewrite (R_flookup t f (k :: p') HR);
                             destruct (lookup t (k :: p')) as [w|] eqn:L]; cbn [fst snd].
    + fin5. apply live_ok_sset; [assumption|discriminate].
    + fin5. apply live_ok_sset; [assumption|].
      intros q E; inversion E; subst. split; [discriminate|congruence].
    + fin5. apply live_ok_sset; [assumption|discriminate].
  - (* update through a handle *)
    destruct (sget sl s) as [|p|p e w] eqn:G; cbn [fst snd].
    + fin5. assumption.
    + destruct (Hlive s p G) as [Hne Hl].
      destruct (add_over_leaf t p v Hwf Hl) as (t' & Ea & Hwf' & Hlk). rewrite Ea.
      destruct (step_refines t f (OAdd p v) Hwf HR) as (_ & HR' & _).
      cbn [mstep fstep] in HR'. rewrite Ea in HR'.
      assert (Hcf : fconflict f p = false)
        by (apply (fconflict_spec t f p HR), stored_conflict_free, Hl).
      rewrite Hcf in HR'. cbn [fst] in HR'.
      split; [assumption|]. split; [assumption|]. split; [reflexivity|]. split; [|reflexivity].
      intros s' q E. destruct (Hlive s' q E) as [Hq Hlq]. split; [assumption|]. rewrite Hlk.
      destruct (path_eqb q p); [discriminate|assumption].
    + fin5. intros s' q E. rewrite sget_map in E by reflexivity.
      destruct (sget sl s') as [|q0|q0 e0 v0] eqn:G'; cbn [group_set] in E; try discriminate.
      * inversion E; subst q0. exact (Hlive s' q G').
      * destruct (path_eqb p q0 && Nat.eqb e e0); discriminate.
  - (* value through a handle *)
    destruct (sget sl s) as [|p|p e w] eqn:G; cbn [fst snd];
      (split; [assumption|split; [assumption|split; [reflexivity|split; [assumption|]]]]); try reflexivity.
    now rewrite (R_flookup t f p HR).
Qed.

(** ** every sequence of tree and handle operations *)

Fixpoint hmrun (st : tree Z * hpart) (hs : list hop) : list obs :=
  match hs with [] => [] | h :: hs' => snd (hmstep st h) :: hmrun (fst (hmstep st h)) hs' end.

Fixpoint hfrun (st : flat * hpart) (hs : list hop) : list obs :=
  match hs with [] => [] | h :: hs' => snd (hfstep st h) :: hfrun (fst (hfstep st h)) hs' end.

Definition hm0 : tree Z * hpart := (None, ([], O)).
Definition hf0 : flat * hpart := ([], ([], O)).

Definition hmstate (hs : list hop) : tree Z * hpart :=
  fold_left (fun st h => fst (hmstep st h)) hs hm0.

Definition hfstate (hs : list hop) : flat * hpart :=
  fold_left (fun st h => fst (hfstep st h)) hs hf0.

Theorem hrun_refines (hs : list hop) :
  Forall2 (fun h rr => hobs_equiv h (fst rr) (snd rr)) hs
          (combine (hmrun hm0 hs) (hfrun hf0 hs)).
Proof.
  assert (G : forall t f sl n, wf_tree t -> R t f -> live_ok t sl ->
              Forall2 (fun h rr => hobs_equiv h (fst rr) (snd rr)) hs
                      (combine (hmrun (t, (sl, n)) hs) (hfrun (f, (sl, n)) hs))).
  { induction hs as [|h hs IH]; intros t f sl n Hwf HR Hl; cbn [hmrun hfrun combine]; [constructor|].
    destruct (hstep_refines t f sl n h Hwf HR Hl) as (Hwf' & HR' & Hs & Hl' & He).
    constructor; [exact He|].
    destruct (hmstep (t, (sl, n)) h) as [[t' [sl' n']] rm].
    destruct (hfstep (f, (sl, n)) h) as [[f' hp] rf].
    cbn [fst snd] in *. subst hp. now apply IH. }
  apply G; [exact I|exact R_empty|apply live_ok_nil].
Qed.

(** the states reached: well formed, related, same handles, live handles stand on leaves *)
Theorem hreachable (hs : list hop) :
  wf_tree (fst (hmstate hs)) /\ R (fst (hmstate hs)) (fst (hfstate hs)) /\
  snd (hmstate hs) = snd (hfstate hs) /\ live_ok (fst (hmstate hs)) (fst (snd (hmstate hs))).
Proof.
  unfold hmstate, hfstate, hm0, hf0.
  assert (G : forall t f sl n, wf_tree t -> R t f -> live_ok t sl ->
     let a := fold_left (fun st h => fst (hmstep st h)) hs (t, (sl, n)) in
     let b := fold_left (fun st h => fst (hfstep st h)) hs (f, (sl, n)) in
     wf_tree (fst a) /\ R (fst a) (fst b) /\ snd a = snd b /\ live_ok (fst a) (fst (snd a))).
  { induction hs as [|h hs IH]; intros t f sl n Hwf HR Hl; cbn [fold_left fst snd]; [auto|].
    destruct (hstep_refines t f sl n h Hwf HR Hl) as (Hwf' & HR' & Hs & Hl' & _).
    destruct (hmstep (t, (sl, n)) h) as [[t' [sl' n']] rm].
    destruct (hfstep (f, (sl, n)) h) as [[f' hp] rf].
    cbn [fst snd] in *. subst hp. now apply IH. }
  apply G; [exact I|exact R_empty|apply live_ok_nil].
Qed.

(** ** what a handle can do to the tree *)

(** an update through a handle either changes nothing in the tree (empty or
    detached handle) or is exactly the map update at the handle's own path *)
Theorem handle_update_exact (hs : list hop) s v :
  let t := fst (hmstate hs) in
  let sl := fst (snd (hmstate hs)) in
  let t' := fst (fst (hmstep (hmstate hs) (HUpdate s v))) in
  match sget sl s with
  | HLive p => forall q, lookup t' q = if path_eqb q p then Some v else lookup t q
  | _ => t' = t
  end.
Proof.
  destruct (hreachable hs) as (Hwf & _ & _ & Hl). cbn zeta.
  destruct (hmstate hs) as [t [sl n]]. cbn [fst snd hmstep] in *.
  destruct (sget sl s) as [|p|p e w] eqn:G; cbn [fst]; try reflexivity.
  destruct (Hl s p G) as [_ Hp]. destruct (add_over_leaf t p v Hwf Hp) as (t' & Ea & _ & Hlk).
  now rewrite Ea.
Qed.

(** a live handle reads the value stored at its path *)
Theorem handle_value_exact (hs : list hop) s p :
  let t := fst (hmstate hs) in
  let sl := fst (snd (hmstate hs)) in
  sget sl s = HLive p ->
  exists v, lookup t p = Some v /\ snd (hmstep (hmstate hs) (HValue s)) = RKind (KLeaf v).
Proof.
  destruct (hreachable hs) as (_ & _ & _ & Hl). cbn zeta.
  destruct (hmstate hs) as [t [sl n]]. cbn [fst snd hmstep] in *. intros G.
  destruct (Hl s p G) as [_ Hp]. rewrite G. destruct (lookup t p) as [v|]; [|congruence].
  exists v. split; reflexivity.
Qed.

(** deleting a leaf detaches every handle on it: the handle keeps the deleted
    value and the leaf is gone from the tree *)
Theorem handle_stale_after_delete (hs : list hop) s p w q c :
  let t := fst (hmstate hs) in
  let sl := fst (snd (hmstate hs)) in
  let n := snd (snd (hmstate hs)) in
  sget sl s = HLive p -> lookup t p = Some w -> qmatch q p = true -> cnd_eval c w = true ->
  let st1 := fst (hmstep (hmstate hs) (HOp (ODelete q c))) in
  sget (fst (snd st1)) s = HStale p n w /\ lookup (fst st1) p = None.
Proof.
  destruct (hreachable hs) as (Hwf & _ & _ & _). cbn zeta.
  destruct (hmstate hs) as [t [sl n]]. cbn [fst snd hmstep mstep deleted_of] in *.
  intros G L Hq Hc. destruct (delete_spec t q (cnd_eval c) Hwf) as (_ & Hlk & Hr & Hn). split.
  - rewrite sget_map by reflexivity. rewrite G. cbn [stale_by].
    assert (Hin : In (p, w) (snd (delete_cond t q (cnd_eval c)))) by (apply Hr; auto).
    apply (assoc_path_In _ p w Hn) in Hin. now rewrite Hin.
  - rewrite Hlk, L. unfold sel. now rewrite Hq, Hc.
Qed.

(** whatever is written through a detached handle afterwards, the tree --
    including a leaf added again at the same path -- is untouched, and so is
    every live handle *)
Theorem stale_handle_inert (t : tree Z) (sl : slots) n s p e w (us : list Z) :
  sget sl s = HStale p e w ->
  let st' := fold_left (fun st v => fst (hmstep st (HUpdate s v))) us (t, (sl, n)) in
  fst st' = t /\ forall s' q, sget sl s' = HLive q -> sget (fst (snd st')) s' = HLive q.
Proof.
  revert sl w. induction us as [|v us IH]; intros sl w G; cbn [fold_left]; [cbn; auto|].
  cbn [hmstep]. rewrite G. cbn [fst].
  assert (G' : sget (map (group_set p e v) sl) s = HStale p e v).
  { rewrite sget_map by reflexivity. rewrite G. cbn [group_set].
    now rewrite path_eqb_refl, Nat.eqb_refl. }
  destruct (IH _ v G') as [H1 H2]. split; [exact H1|].
  intros s' q E. apply H2. rewrite sget_map by reflexivity. now rewrite E.
Qed.

(** tree operations that are not deletes never detach a handle *)
Theorem handle_survives_non_delete (t : tree Z) (sl : slots) n o s p :
  deleted_of t o = [] -> sget sl s = HLive p ->
  sget (fst (snd (fst (hmstep (t, (sl, n)) (HOp o))))) s = HLive p.
Proof.
  intros Hd G. cbn [hmstep fst snd]. rewrite sget_map by reflexivity. rewrite G, Hd. reflexivity.
Qed.

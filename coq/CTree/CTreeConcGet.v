(** GetLeafValue in programs with Delete: the answers of all point operations
    (Add, GetLeafValue, Delete) in one sequential witness.  GetLeafValue is
    Get + Value, two critical sections; a Delete that unlinks the node between
    the two linearizes the call just before itself ("helping"). *)
From Gnmi Require Import Base.Prelude CTree.CTreeModel CTree.CTreeConc CTree.CTreeConcProofs
  CTree.CTreeConcLin CTree.CTreeConcAbs CTree.CTreeConcDel.
From Coq Require Import Arith Lia.
Open Scope nat_scope.

Local Arguments do_rel : simpl never.
Local Arguments do_rlock : simpl never.
Local Arguments do_req : simpl never.
Local Arguments do_acq : simpl never.
Local Arguments set_cont : simpl never.
Local Arguments hdelete : simpl never.
Local Arguments new_chain : simpl never.

(** a GetLeafValue between the return of its Get and its Value read *)
Definition in_window (t : thread) : option (path * nat) :=
  match top t, tpc t with
  | CGetVal p, PUnwind (UVal n) | CGetVal p, PHVal n | CGetVal p, PHValRead n => Some (p, n)
  | _, _ => None
  end.

Definition evd (ev : list (nat * cres)) (i : nat) : bool := existsb (fun e => Nat.eqb (fst e) i) ev.

Definition lin_event_G (h : heap) (log : list (nat * path * Z)) (ev : list (nat * cres)) (i : nat) (t : thread)
  : option cres :=
  match top t with
  | CGetVal _ =>
      match tpc t with
      | PHValRead n => if evd ev i then None else Some (XVal (leaf_val (get_cont h n)))
      | PGetRead t0 (k :: _) =>
          match get_cont h t0 with
          | CBranch cs => match assoc k cs with None => Some (XVal None) | Some _ => None end
          | _ => Some (XVal None)
          end
      | _ => None
      end
  | _ => lin_event_D h log i t
  end.

Definition onat_eqb (a b : option nat) : bool :=
  match a, b with Some x, Some y => Nat.eqb x y | None, None => true | _, _ => false end.

Lemma onat_eqb_spec a b : onat_eqb a b = true <-> a = b.
Proof.
  destruct a as [x|], b as [y|]; cbn; split; intros H; try discriminate; auto.
  - apply Nat.eqb_eq in H. congruence.
  - inv H. apply Nat.eqb_refl.
Qed.

(** the GetLeafValues a Delete linearizes just before itself: those in their
    window, not yet linearized, whose node is no longer at their path in the
    heap [h'] the Delete leaves behind *)
Definition help_of (h h' : heap) (ev : list (nat * cres)) (j : nat) (t : thread) : list (nat * cres) :=
  match in_window t with
  | Some (p, n) =>
      if evd ev j then [] else
      if onat_eqb (resolve h' 0 p) (Some n) then [] else [(j, XVal (leaf_val (get_cont h n)))]
  | None => []
  end.

Fixpoint helped_from (h h' : heap) (ev : list (nat * cres)) (j : nat) (ts : list thread) : list (nat * cres) :=
  match ts with
  | [] => []
  | t :: ts' => help_of h h' ev j t ++ helped_from h h' ev (S j) ts'
  end.

Definition helpers (s s' : state) (ev : list (nat * cres)) (t : thread) : list (nat * cres) :=
  match top t, tpc t with
  | CDelete _, PLRet _ _ [] => helped_from (hp s) (hp s') ev 0 (thr s)
  | _, _ => []
  end.

Definition ev_next (s s' : state) log ev (i : nat) (t : thread) : list (nat * cres) :=
  ev ++ helpers s s' ev t ++
  match lin_event_G (hp s) log ev i t with Some r => [(i, r)] | None => [] end.

Inductive reach_lin_G (ops : list cop) : state -> list (nat * path * Z) -> list (nat * cres) -> Prop :=
| rlg_init : reach_lin_G ops (init_state ops) [] []
| rlg_step s i s' t log ev :
    reach_lin_G ops s log ev -> nth_error (thr s) i = Some t -> step s i = Some s' ->
    reach_lin_G ops s'
      (match is_write (hp s) t with Some (p, v) => log ++ [(i, p, v)] | None => log end)
      (ev_next s s' log ev i t).

Lemma reach_lin_G_log ops s log ev : reach_lin_G ops s log ev -> reach_log ops s log.
Proof. induction 1; [constructor|econstructor; eauto]. Qed.

Lemma reach_reach_lin_G ops s : reach ops s -> exists log ev, reach_lin_G ops s log ev.
Proof.
  induction 1 as [|s i s' R [log [ev IH]] ST]; [exists [], []; constructor|].
  unfold step, step_gen in ST. destruct (nth_error (thr s) i) as [t|] eqn:Et; [|discriminate].
  eexists. eexists. eapply (rlg_step ops s i s' t); eauto. unfold step, step_gen. rewrite Et. exact ST.
Qed.

(** the specification with GetLeafValue *)
Definition spec_step_G (m : path -> option Z) (o : cop) (r : cres) (m' : path -> option Z) : Prop :=
  spec_step_D m o r m' \/ (exists p, o = CGetVal p /\ r = XVal (m p) /\ forall q, m' q = m q).

Inductive spec_run_G : (path -> option Z) -> list (cop * cres) -> (path -> option Z) -> Prop :=
| srg_nil m m' : (forall q, m' q = m q) -> spec_run_G m [] m'
| srg_snoc m l m1 o r m2 : spec_run_G m l m1 -> spec_step_G m1 o r m2 -> spec_run_G m (l ++ [(o, r)]) m2.

Lemma spec_step_G_ext m1 m2 o r m' m'' :
  (forall q, m1 q = m2 q) -> (forall q, m' q = m'' q) -> spec_step_G m1 o r m' -> spec_step_G m2 o r m''.
Proof.
  intros E E' [S|[p [-> [-> U]]]]; [left; eapply spec_step_D_ext; eauto|].
  right. exists p. rewrite (E p). split; [reflexivity|]. split; [reflexivity|].
  intros q. rewrite <- E', U. apply E.
Qed.

Lemma spec_run_G_ext m l m1 m2 : (forall q, m1 q = m2 q) -> spec_run_G m l m1 -> spec_run_G m l m2.
Proof.
  intros E R. destruct R as [m m' H|m l m1' o r m2' R S].
  - constructor. intros q. rewrite <- E. apply H.
  - econstructor; [exact R|]. eapply spec_step_G_ext; [reflexivity|exact E|exact S].
Qed.

(** * structure: who has an event *)
Lemma evd_app ev1 ev2 i : evd (ev1 ++ ev2) i = evd ev1 i || evd ev2 i.
Proof. unfold evd. apply existsb_app. Qed.

Lemma evd_In ev i : evd ev i = true <-> exists r, In (i, r) ev.
Proof.
  unfold evd. rewrite existsb_exists. split.
  - intros [[j r] [H E]]. cbn in E. apply Nat.eqb_eq in E. subst j. eauto.
  - intros [r H]. exists (i, r). split; [exact H|apply Nat.eqb_refl].
Qed.

Lemma help_of_In h h' ev j t e : In e (help_of h h' ev j t) ->
  exists p n, in_window t = Some (p, n) /\ evd ev j = false /\ resolve h' 0 p <> Some n /\
              e = (j, XVal (leaf_val (get_cont h n))).
Proof.
  unfold help_of. destruct (in_window t) as [[p n]|]; [|intros []].
  destruct (evd ev j) eqn:E; [intros []|].
  destruct (onat_eqb (resolve h' 0 p) (Some n)) eqn:O; [intros []|].
  intros [<-|[]]. exists p, n. repeat split; auto. intros X. apply onat_eqb_spec in X. congruence.
Qed.

Lemma helped_from_In h h' ev ts : forall j0 e, In e (helped_from h h' ev j0 ts) ->
  exists j t, nth_error ts (j - j0) = Some t /\ j0 <= j /\ In e (help_of h h' ev j t).
Proof.
  induction ts as [|t ts IH]; intros j0 e H; [destruct H|]. cbn in H. apply in_app_or in H. destruct H as [H|H].
  - exists j0, t. rewrite Nat.sub_diag. auto.
  - destruct (IH _ _ H) as [j [t' [E [L I']]]]. exists j, t'. split; [|split; [lia|exact I']].
    replace (j - j0) with (S (j - S j0)) by lia. exact E.
Qed.

Lemma helped_In s s' ev t e : In e (helpers s s' ev t) ->
  exists j tj p n, nth_error (thr s) j = Some tj /\ in_window tj = Some (p, n) /\ evd ev j = false /\
                   resolve (hp s') 0 p <> Some n /\ e = (j, XVal (leaf_val (get_cont (hp s) n))).
Proof.
  unfold helpers. destruct (top t); try (intros []). destruct (tpc t); try (intros []). destruct fr; try (intros []).
  intros H. destruct (helped_from_In _ _ _ _ _ _ H) as [j [tj [E [_ I']]]]. rewrite Nat.sub_0_r in E.
  destruct (help_of_In _ _ _ _ _ _ I') as [p [n [W [EV [NR ->]]]]]. exists j, tj, p, n. auto.
Qed.

(** a call that has an event is past its linearization point or waits in its window *)
Definition post (log : list (nat * path * Z)) (i : nat) (t : thread) : Prop :=
  res_of (tpc t) <> None \/ written log i = true \/ in_window t <> None.

Lemma window_next b h t h' t' :
  in_window t <> None -> tstep_gen b h t = Some (h', t') -> in_window t' <> None \/ res_of (tpc t') <> None.
Proof.
  intros W ST. pose proof (tstep_shape _ _ _ _ _ ST) as SH. unfold in_window in *.
  destruct t as [o p hs]. cbn [tpc top held] in *. destruct o; try contradiction.
  destruct p; try contradiction; unfold lockop_of in SH; cbn [tpc held] in SH.
  - destruct k; try contradiction. destruct hs as [|[n0 m0] hs].
    + destruct SH as [_ ->]. left. cbn. discriminate.
    + destruct SH as [n' [m' [hs' [_ [_ ->]]]]]. left. cbn. discriminate.
  - destruct SH as [_ [_ ->]]. left. cbn. discriminate.
  - destruct SH as [_ ->]. right. cbn. discriminate.
Qed.

Lemma post_step b h log i t h' t' :
  post log i t -> tstep_gen b h t = Some (h', t') ->
  post (match is_write h t with Some (p, v) => log ++ [(i, p, v)] | None => log end) i t'.
Proof.
  intros [RS|[W|IW]] ST.
  - left. destruct (res_of (tpc t)) as [r|] eqn:E; [|contradiction]. rewrite (res_closed _ _ _ _ _ _ E ST). discriminate.
  - right; left. destruct (is_write h t) as [[p v]|]; [apply written_app; auto|auto].
  - destruct (window_next _ _ _ _ _ IW ST) as [X|X]; [right; right; exact X|left; exact X].
Qed.

Lemma lin_post_G b h log ev i t h' t' r :
  lin_event_G h log ev i t = Some r -> tstep_gen b h t = Some (h', t') ->
  res_of (tpc t') = Some r \/ exists p v, is_write h t = Some (p, v).
Proof.
  unfold lin_event_G. intros L ST. destruct (top t) eqn:Tp; try (eapply lin_post_D; eauto; fail).
  pose proof (tstep_shape _ _ _ _ _ ST) as SH. left.
  destruct t as [o p0 hs]. cbn [tpc top held] in *.
  destruct p0 as [| | | | | | | | | | | tg pg | | | | | | | | | | | | | | | | | | | | | |];
    try discriminate L; unfold lockop_of in SH; cbn [tpc held] in SH.
  - destruct pg as [|k r0]; [discriminate|]. destruct SH as [_ ->]. cbn [tpc].
    cbn. destruct (get_cont h tg) as [| |cs]; cbn in *; try (inv L; reflexivity).
    destruct (assoc k cs); [discriminate|]. inv L. reflexivity.
  - destruct SH as [_ ->]. cbn. destruct (evd ev i); [discriminate|]. inv L. reflexivity.
Qed.

Lemma event_post_G ops s log ev :
  reach_lin_G ops s log ev -> forall i t r, nth_error (thr s) i = Some t -> In (i, r) ev -> post log i t.
Proof.
  induction 1 as [|s j s' tj log ev R IH Ej ST]; intros i t r Et H; [destruct H|].
  assert (ST0 := ST). unfold step, step_gen in ST. rewrite Ej in ST.
  destruct (tstep_gen false (hp s) tj) as [[h' tj']|] eqn:Ets; [|discriminate]. inv ST. cbn [thr] in Et.
  set (log' := match is_write (hp s) tj with Some (p, v) => log ++ [(j, p, v)] | None => log end).
  assert (WG : forall k t0, post log k t0 -> k <> j -> post log' k t0).
  { intros k t0 [A|[B|C]] _; [left; auto|right; left|right; right; auto].
    unfold log'. destruct (is_write (hp s) tj) as [[p v]|]; [apply written_app; auto|auto]. }
  unfold ev_next in H. apply in_app_or in H. destruct H as [H|H].
  - (* an old event *)
    destruct (Nat.eq_dec j i) as [->|D].
    + erewrite nth_error_set_nth_eq in Et by eauto. inv Et. eapply post_step; eauto.
    + rewrite nth_error_set_nth_neq in Et by auto. apply WG; auto. eapply IH; eauto.
  - apply in_app_or in H. destruct H as [H|H].
    + (* helped *)
      destruct (helped_In _ _ _ _ _ H) as [k [tk [p [n [Ek [W [_ [_ E]]]]]]]]. injection E as E1 E2. subst k r.
      assert (D : j <> i).
      { intros ->. rewrite Ej in Ek. inv Ek. unfold helpers in H. unfold in_window in W.
        destruct (top tk); try discriminate; destruct H. }
      rewrite nth_error_set_nth_neq in Et by auto. rewrite Ek in Et. inv Et.
      apply WG; auto. right; right. rewrite W. discriminate.
    + destruct (lin_event_G (hp s) log ev j tj) as [r0|] eqn:L; [|destruct H].
      destruct H as [H|[]]. inv H. erewrite nth_error_set_nth_eq in Et by eauto. inv Et.
      destruct (lin_post_G _ _ _ _ _ _ _ _ _ L Ets) as [RS|[p [v W]]].
      * left. rewrite RS. discriminate.
      * right; left. unfold log'. rewrite W. apply written_self.
Qed.

(** * what steps do to the node a GetLeafValue is going to read *)
Definition detached (h : heap) (n : nat) : Prop := forall q, resolve h 0 q <> Some n.

Lemma resolve_set_sub h n0 cs cs' :
  get_cont h n0 = CBranch cs -> (forall a c, assoc a cs' = Some c -> assoc a cs = Some c) ->
  forall q s x, resolve (set_cont h n0 (CBranch cs')) s q = Some x -> resolve h s q = Some x.
Proof.
  intros E SUB.
  assert (Ln : n0 < List.length h).
  { destruct (Nat.lt_ge_cases n0 (List.length h)); auto. rewrite get_cont_oob in E by auto. discriminate. }
  induction q as [|a q IH]; intros s x R; cbn in *; [exact R|].
  destruct (Nat.eq_dec s n0) as [->|D].
  - rewrite get_cont_set_eq in R by auto. rewrite E.
    destruct (assoc a cs') as [c|] eqn:A; [|discriminate]. rewrite (SUB _ _ A). apply IH. exact R.
  - rewrite get_cont_set_neq in R by auto. destruct (get_cont h s) as [| |ds]; try discriminate.
    destruct (assoc a ds); [apply IH; exact R|discriminate].
Qed.

(** a Delete's steps only remove edges; except for the last one (which may
    clear the root) they never touch a leaf's value *)
Lemma del_thread_step b h t h' t' :
  tree_shape h -> in_delete (tpc t) = true -> tstep_gen b h t = Some (h', t') ->
  (forall x, (x <> 0 \/ in_delete (tpc t') = true) -> leaf_val (get_cont h' x) = leaf_val (get_cont h x)) /\
  (forall q x, resolve h' 0 q = Some x -> resolve h 0 q = Some x).
Proof.
  intros TS ID ST. pose proof (tstep_shape _ _ _ _ _ ST) as SH.
  assert (SAME : forall h2 (P : nat -> Prop), (forall x, get_cont h2 x = get_cont h x) ->
            (forall x, P x -> leaf_val (get_cont h2 x) = leaf_val (get_cont h x)) /\
            (forall q x, resolve h2 0 q = Some x -> resolve h 0 q = Some x)).
  { intros h2 P E. split; [intros x _; rewrite E; reflexivity|]. intros q x. rewrite (resolve_ext _ _ E). auto. }
  destruct t as [o p hs]. cbn [tpc top held] in *.
  destruct p; try discriminate ID; unfold lockop_of in SH; cbn [tpc held] in SH.
  - destruct SH as [-> _]. apply SAME. intros x. cbn [local_step].
    destruct (heads_all q); [destruct (get_cont h n); try reflexivity; destruct (strip_glob q); reflexivity|].
    destruct q as [|k r]; try reflexivity. destruct (get_cont h n) as [| |cs]; try reflexivity.
    destruct (assoc k cs); reflexivity.
  - destruct SH as [-> _]. apply SAME. intros x. destruct fr as [|f fr]; [reflexivity|]. cbn [local_step].
    destruct (dtodo f) as [|[k c] rest]; reflexivity.
  - destruct SH as [-> _]. apply SAME. intros; apply get_cont_upd_mu; auto.
  - destruct SH as [_ [-> _]]. apply SAME. intros; apply get_cont_upd_mu; auto.
  - destruct fr as [|f fr].
    + destruct SH as [-> ->]. cbn [local_step fst tpc snd visit_override]. destruct del; [|apply SAME; reflexivity].
      split.
      * intros x [D|D]; [|discriminate D]. rewrite get_cont_set_neq by auto. reflexivity.
      * intros q x R. destruct q as [|a q]; cbn in *; [exact R|].
        destruct (Nat.lt_ge_cases 0 (List.length h)) as [L|L].
        -- rewrite get_cont_set_eq in R by auto. discriminate.
        -- rewrite get_cont_oob in R by (rewrite length_set_cont; lia). discriminate.
    + destruct SH as [n' [m' [hs' [_ [-> _]]]]]. apply SAME. intros; destruct m'; apply get_cont_upd_mu; auto.
  - destruct fr as [|f fr]; [destruct SH as [-> _]; apply SAME; reflexivity|].
    destruct SH as [-> _]. cbn [local_step fst]. destruct del; [|apply SAME; reflexivity].
    destruct (get_cont h (dn f)) as [| |cs] eqn:E; try (apply SAME; reflexivity).
    assert (Ln : dn f < List.length h).
    { destruct (Nat.lt_ge_cases (dn f) (List.length h)); auto. rewrite get_cont_oob in E by auto. discriminate. }
    split.
    + intros x _. destruct (Nat.eq_dec x (dn f)) as [->|D]; [|rewrite get_cont_set_neq by auto; reflexivity].
      rewrite get_cont_set_eq by auto. rewrite E. reflexivity.
    + intros q x. apply (resolve_set_sub h (dn f) cs (adel (dcur f) cs) E).
      intros a c A. destruct TS as [KN _]. rewrite assoc_adel in A by eauto.
      destruct (String.eqb a (dcur f)); [discriminate|exact A].
Qed.

(** what an Add's write does to the nodes and paths that exist already *)
Definition nodes_kept (h h' : heap) : Prop :=
  (forall q x, resolve h 0 q = Some x -> resolve h' 0 q = Some x) /\
  (forall q x, x < List.length h -> resolve h' 0 q = Some x -> resolve h 0 q = Some x) /\
  (forall x, detached h x -> x < List.length h -> leaf_val (get_cont h' x) = leaf_val (get_cont h x)).

Lemma nodes_kept_same h h' : (forall x, get_cont h' x = get_cont h x) -> nodes_kept h h'.
Proof.
  intros E. split; [|split].
  - intros q x. rewrite (resolve_ext _ _ E). auto.
  - intros q x _. rewrite (resolve_ext _ _ E). auto.
  - intros x _ _. rewrite E. reflexivity.
Qed.

Lemma setleaf_nodes h t0 v p0 :
  t0 < List.length h -> is_branch_c (get_cont h t0) = false -> resolve h 0 p0 = Some t0 ->
  nodes_kept h (set_cont h t0 (CLeaf v)).
Proof.
  intros L B R0. split; [|split].
  - intros q x. rewrite resolve_set_nonbranch by auto. auto.
  - intros q x _. rewrite resolve_set_nonbranch by auto. auto.
  - intros x D _. assert (x <> t0) by (intros ->; eapply D; eauto). rewrite get_cont_set_neq by auto. reflexivity.
Qed.

Lemma alloc_nodes h t0 cs0 k r v pre :
  heap_ok h -> tree_shape h -> t0 < List.length h ->
  (get_cont h t0 = CNil /\ cs0 = [] \/ get_cont h t0 = CBranch cs0) -> assoc k cs0 = None ->
  resolve h 0 pre = Some t0 ->
  nodes_kept h (set_cont h t0 (CBranch (cs0 ++ [(k, List.length h)])) ++ new_chain (List.length h) r v).
Proof.
  intros HO TS L E0 A0 Rpre. assert (INJ := resolve_inj h HO TS).
  assert (L0 : 0 < List.length h) by (destruct HO; auto).
  split; [|split].
  - intros q x R. rewrite alloc_old_resolve; auto.
    intros q1 r1 -> X. rewrite resolve_app, X in R. cbn in R.
    destruct E0 as [[E _]|E]; rewrite E in R; [discriminate|]. rewrite A0 in R. discriminate.
  - intros q x Lx R. destruct (is_prefix (pre ++ [k]) q) eqn:IP.
    + exfalso. apply is_prefix_spec in IP. destruct IP as [r1 ->]. rewrite <- app_assoc in R. cbn [app] in R.
      assert (PRE' : resolve (set_cont h t0 (CBranch (cs0 ++ [(k, List.length h)])) ++ new_chain (List.length h) r v) 0 pre = Some t0).
      { rewrite alloc_old_resolve; auto.
        intros q1 r2 Eq X. rewrite (INJ _ _ _ X Rpre) in Eq. eapply app_cons_length_neq; eauto. }
      rewrite resolve_app, PRE' in R. cbn [resolve] in R. rewrite alloc_t0_cont in R by auto.
      rewrite (assoc_app_none _ _ _ A0) in R.
      rewrite (chain_resolve' r _ (List.length h) v r1 (length_set_cont _ _ _)) in R.
      destruct (is_prefix r1 r); [|discriminate]. inv R. lia.
    + rewrite alloc_old_resolve in R; auto.
      intros q1 r1 -> X. rewrite (INJ _ _ _ X Rpre) in IP.
      assert (is_prefix (pre ++ [k]) (pre ++ k :: r1) = true).
      { apply is_prefix_spec. exists r1. rewrite <- app_assoc. reflexivity. }
      congruence.
  - intros x D Lx. assert (x <> t0) by (intros ->; eapply D; eauto). rewrite alloc_old_cont by auto. reflexivity.
Qed.

(** * the invariant of the GetLeafValues in their window *)
Definition gv_inv (m : path -> option Z) (s : state) (ev : list (nat * cres)) : Prop :=
  forall j t p n, nth_error (thr s) j = Some t -> in_window t = Some (p, n) ->
    if evd ev j
    then In (j, XVal (leaf_val (get_cont (hp s) n))) ev /\ detached (hp s) n
    else leaf_val (get_cont (hp s) n) = m p /\
         (forall q, resolve (hp s) 0 q = Some n -> q = p) /\
         (nobody_in s -> resolve (hp s) 0 p = Some n).

Lemma root_attached h : ~ detached h 0.
Proof. intros D. apply (D []). reflexivity. Qed.

Lemma window_same b h t h' t' x :
  in_window t = Some x -> tstep_gen b h t = Some (h', t') ->
  (in_window t' = Some x /\ forall n, tpc t <> PHValRead n) \/
  (in_window t' = None /\ exists n, tpc t = PHValRead n).
Proof.
  intros W ST. pose proof (tstep_shape _ _ _ _ _ ST) as SH. unfold in_window in *.
  destruct t as [o p hs]. cbn [tpc top held] in *. destruct o; try discriminate.
  destruct p; try discriminate; unfold lockop_of in SH; cbn [tpc held] in SH.
  - destruct k; try discriminate. destruct hs as [|[n0 m0] hs].
    + destruct SH as [_ ->]. left. cbn. split; [auto|discriminate].
    + destruct SH as [n' [m' [hs' [_ [_ ->]]]]]. left. cbn. split; [auto|discriminate].
  - destruct SH as [_ [_ ->]]. left. cbn. split; [auto|discriminate].
  - destruct SH as [_ ->]. right. cbn. eauto.
Qed.

Lemma helped_complete h h' ev ts : forall j0 k t p n,
  nth_error ts k = Some t -> in_window t = Some (p, n) -> evd ev (j0 + k) = false ->
  resolve h' 0 p <> Some n -> In (j0 + k, XVal (leaf_val (get_cont h n))) (helped_from h h' ev j0 ts).
Proof.
  induction ts as [|t0 ts IH]; intros j0 k t p n E W EV NR; [destruct k; discriminate|].
  cbn. apply in_or_app. destruct k as [|k]; cbn in E.
  - inv E. left. rewrite Nat.add_0_r in *. unfold help_of. rewrite W, EV.
    destruct (onat_eqb (resolve h' 0 p) (Some n)) eqn:O; [apply onat_eqb_spec in O; contradiction|left; reflexivity].
  - right. replace (j0 + S k) with (S j0 + k) in * by lia. eapply IH; eauto.
Qed.

Lemma evd_helpers s s' ev t j :
  evd (helpers s s' ev t) j = true ->
  exists tj p n, nth_error (thr s) j = Some tj /\ in_window tj = Some (p, n) /\ evd ev j = false /\
                 resolve (hp s') 0 p <> Some n.
Proof.
  intros H. apply evd_In in H. destruct H as [r H].
  destruct (helped_In _ _ _ _ _ H) as [k [tk [p [n [Ek [W [EV [NR E]]]]]]]]. inv E. eauto 8.
Qed.

(** uniform facts about one step of a program without Leaf.Update *)
Lemma step_facts ops s i t s' :
  forallb no_hupd_op ops = true -> reach ops s -> nth_error (thr s) i = Some t -> step s i = Some s' ->
  (forall q x, x < List.length (hp s) -> resolve (hp s') 0 q = Some x -> resolve (hp s) 0 q = Some x) /\
  (forall x, detached (hp s) x -> x < List.length (hp s) ->
             leaf_val (get_cont (hp s') x) = leaf_val (get_cont (hp s) x)) /\
  (~ nobody_in s' -> forall x, leaf_val (get_cont (hp s') x) = leaf_val (get_cont (hp s) x)) /\
  (nobody_in s -> forall q x, resolve (hp s) 0 q = Some x -> resolve (hp s') 0 q = Some x).
Proof.
  intros Q R Et ST. pose proof (no_hupd_patched _ Q) as QP.
  assert (I := reach_Inv _ _ R). assert (I' := I). destruct I' as [HO [TO _]].
  assert (TI := reach_TInv _ _ QP R). destruct (reach_TInv _ _ QP R) as [_ [_ TS]].
  pose proof (Forall_nth_error _ _ _ _ TO Et) as Tt.
  pose proof (Forall_nth_error _ _ _ _ (reach_fam_ok _ _ R) Et) as Ft.
  destruct (no_hupd_top _ _ _ _ Q R Et) as [NU NDU].
  assert (R' : reach ops s') by (econstructor; eauto).
  assert (ST0 := ST). unfold step, step_gen in ST. rewrite Et in ST.
  destruct (tstep_gen false (hp s) t) as [[h' t']|] eqn:Ets; [|discriminate]. inv ST. cbn [hp thr] in *.
  (* somebody inside the tree after the step: who? *)
  assert (WHO : forall d td, nth_error (set_nth (thr s) i t') d = Some td -> in_delete (tpc td) = true ->
                 d <> i -> nth_error (thr s) d = Some td).
  { intros d td Ed _ D. rewrite nth_error_set_nth_neq in Ed by auto. exact Ed. }
  destruct (in_delete (tpc t)) eqn:ID.
  - destruct (del_thread_step _ _ _ _ _ TS ID Ets) as [LV SH]. split; [|split; [|split]].
    + intros q x _. apply SH.
    + intros x D _. apply LV. left. intros ->. eapply root_attached; eauto.
    + intros NNB x. apply LV. right.
      destruct (in_delete (tpc t')) eqn:ID'; [reflexivity|]. exfalso. apply NNB.
      intros d td Ed. cbn [thr] in Ed. destruct (in_delete (tpc td)) eqn:IDd; [|reflexivity]. exfalso.
      destruct (Nat.eq_dec d i) as [->|D].
      * erewrite nth_error_set_nth_eq in Ed by eauto. inv Ed. congruence.
      * pose proof (WHO _ _ Ed IDd D) as Ed0.
        destruct (delete_atomic_patched ops s i d t td R (not_eq_sym D) Et Ed0 ID) as [_ NR].
        eapply (NR MW). eapply in_delete_holds_root; eauto. eapply Forall_nth_error; eauto.
    + intros NB. rewrite (NB _ _ Et) in ID. discriminate.
  - assert (NUpc : forall n v, tpc t <> PHUpdWrite n v).
    { intros n v Pc. destruct Ft as [Ff _]. rewrite Pc in Ff. cbn in Ff.
      destruct (top t) eqn:Tp; try discriminate. eapply NU; reflexivity. }
    assert (NDpc : forall q, tpc t <> PDelCrit q).
    { intros q Pc. destruct Ft as [Ff _]. rewrite Pc in Ff. cbn in Ff.
      destruct (top t) eqn:Tp; try discriminate. eapply NDU; reflexivity. }
    assert (NK : nodes_kept (hp s) h' /\
                 ((forall x, get_cont h' x = get_cont (hp s) x) \/
                  (held t <> [] /\ is_handle_pc (tpc t) = false))).
    { destruct (tstep_cont_cases _ _ _ _ _ Ets ID NUpc NDpc)
        as [[LL SAME]|[[t0 [v [Pc [B ->]]]]|[t0 [k [r [v [cs0 [Pc [E0 [A0 ->]]]]]]]]]].
      - split; [apply nodes_kept_same; exact SAME|left; exact SAME].
      - destruct Ft as [Ff _]. rewrite Pc in Ff. cbn in Ff. destruct (top t) eqn:Tp; try discriminate.
        destruct (walk_pos_resolve s i t p t0 [] TI Et) as [pre [Ep Rp]].
        { unfold walk_pos. rewrite Tp, Pc. reflexivity. }
        destruct Tt as [_ [IL P]]. rewrite Pc in P. cbn in P. destruct P as [[r0 Hr] _].
        rewrite Hr in IL. inversion IL; subst. cbn in *.
        split; [eapply setleaf_nodes; eauto|right; rewrite Hr, Pc; split; [discriminate|reflexivity]].
      - destruct Ft as [Ff _]. rewrite Pc in Ff. cbn in Ff. destruct (top t) eqn:Tp; try discriminate.
        destruct (walk_pos_resolve s i t p t0 (k :: r) TI Et) as [pre [Ep Rp]].
        { unfold walk_pos. rewrite Tp, Pc. reflexivity. }
        destruct Tt as [_ [IL P]]. rewrite Pc in P. cbn in P. destruct P as [[r0 Hr] _].
        rewrite Hr in IL. inversion IL; subst. cbn in *.
        split; [eapply alloc_nodes; eauto|right; rewrite Hr, Pc; split; [discriminate|reflexivity]]. }
    destruct NK as [[UP [SH LV]] ALT]. split; [exact SH|]. split; [exact LV|]. split; [|intros _; exact UP].
    intros NNB x. destruct ALT as [SAME|[HELD NHP]]; [rewrite SAME; reflexivity|]. exfalso. apply NNB.
    intros d td Ed. cbn [thr] in Ed. destruct (in_delete (tpc td)) eqn:IDd; [|reflexivity]. exfalso.
    destruct (Nat.eq_dec d i) as [->|D].
    + erewrite nth_error_set_nth_eq in Ed by eauto. inv Ed.
      destruct (enter_delete _ _ _ _ _ Ets ID IDd) as [q [Pc _]].
      destruct Tt as [_ [_ P]]. rewrite Pc in P. cbn in P. contradiction.
    + pose proof (WHO _ _ Ed IDd D) as Ed0.
      destruct (delete_atomic_patched ops s d i td t R D Ed0 Et IDd) as [NH _].
      apply HELD. apply NH. exact NHP.
Qed.

Lemma window_lt hl t p n : thread_ok hl t -> in_window t = Some (p, n) -> n < hl.
Proof.
  intros [_ [IL P]] W. unfold in_window in W. destruct (top t); try discriminate.
  destruct (tpc t); try discriminate; cbn in P.
  - destruct k; try discriminate. inv W. apply P.
  - inv W. apply P.
  - inv W. rewrite P in IL. inversion IL; subst. assumption.
Qed.

Lemma window_enter b h t h' t' p n :
  fam_ok t -> in_window t = None -> in_window t' = Some (p, n) -> tstep_gen b h t = Some (h', t') ->
  top t = CGetVal p /\ tpc t = PGetRead n [] /\ h' = h.
Proof.
  intros [_ S0] W W' ST. pose proof (tstep_shape _ _ _ _ _ ST) as SH. pose proof (tstep_top _ _ _ _ _ ST) as TOP.
  unfold in_window in *. rewrite TOP in W'. destruct (top t) eqn:Tp; try discriminate.
  destruct t as [o pc0 hs]. cbn [tpc top held] in *. subst o.
  destruct (lockop_of (TH (CGetVal p0) pc0 hs)) eqn:LO.
  - destruct SH as [-> ->]. cbn [tpc] in W'.
    destruct pc0; cbn -[Nat.ltb hdelete set_cont new_chain] in *; try discriminate;
    repeat (first
              [ match goal with H : context [start_pc ?a ?b] |- _ => destruct b end
              | match goal with H : context [match get_cont ?a ?b with _ => _ end] |- _ => destruct (get_cont a b) end
              | match goal with H : context [match assoc ?a ?b with _ => _ end] |- _ => destruct (assoc a b) end
              | match goal with H : context [if Nat.ltb ?a ?b then _ else _] |- _ => destruct (Nat.ltb a b) end
              | match goal with H : context [if Nat.eqb ?a ?b then _ else _] |- _ => destruct (Nat.eqb a b) end
              | match goal with H : context [match query_visits ?a ?b with _ => _ end] |- _ => destruct (query_visits a b) end
              | match goal with H : context [if heads_all ?a then _ else _] |- _ => destruct (heads_all a) end
              | match goal with H : context [match strip_glob ?a with _ => _ end] |- _ => destruct (strip_glob a) end
              | match goal with H : context [match dtodo ?a with _ => _ end] |- _ => destruct (dtodo a) as [|[? ?] ?] end
              | match goal with H : context [match ?x with _ => _ end] |- _ => is_var x; destruct x end ];
            cbn -[Nat.ltb hdelete set_cont new_chain] in *; try discriminate).
    all: try (inv W'; auto; fail).
    all: specialize (S0 _ eq_refl); discriminate.
  - exfalso. destruct SH as [_ [_ ->]]. cbn [tpc] in W'. destruct pc0; cbn in *; try discriminate; qfin.
  - exfalso. destruct SH as [_ ->]. cbn [tpc] in W'. destruct pc0; cbn in *; try discriminate; qfin.
  - exfalso. destruct SH as [_ [_ ->]]. cbn [tpc] in W'. destruct pc0; cbn in *; try discriminate; qfin.
  - exfalso. destruct SH as [n0 [m0 [hs' [_ [_ ->]]]]]. cbn [tpc] in W'. destruct pc0; cbn in *; try discriminate; qfin.
Qed.

Lemma helpers_shape s s' ev t : helpers s s' ev t <> [] ->
  exists q del ls, top t = CDelete q /\ tpc t = PLRet del ls [].
Proof.
  unfold helpers. destruct (top t); try (intros X; contradiction). destruct (tpc t); try (intros X; contradiction).
  destruct fr; [eauto|intros X; contradiction].
Qed.

Lemma evd_nil i : evd [] i = false. Proof. reflexivity. Qed.

Lemma evd_single i j r : evd [(i, r)] j = Nat.eqb i j.
Proof. unfold evd. cbn. rewrite orb_false_r. reflexivity. Qed.

Definition is_exit (t : thread) : bool :=
  match top t, tpc t with CDelete _, PLRet _ _ [] => true | _, _ => false end.

Lemma helpers_exit s s' ev t :
  helpers s s' ev t = if is_exit t then helped_from (hp s) (hp s') ev 0 (thr s) else [].
Proof.
  unfold helpers, is_exit. destruct (top t); try reflexivity. destruct (tpc t); try reflexivity.
  destruct fr; reflexivity.
Qed.

Lemma is_exit_pc t : is_exit t = true -> exists q del ls, top t = CDelete q /\ tpc t = PLRet del ls [].
Proof.
  unfold is_exit. destruct (top t); try discriminate. destruct (tpc t); try discriminate.
  destruct fr; [eauto|discriminate].
Qed.

Lemma gv_step ops s log ev i t s' m m' :
  forallb no_hupd_op ops = true -> reach_lin_G ops s log ev ->
  nth_error (thr s) i = Some t -> step s i = Some s' ->
  sim_rel m s -> sim_rel m' s' -> gv_inv m s ev ->
  match lin_event_D (hp s) log i t with
  | Some r => spec_step_D m (top t) r m'
  | None => forall q, m' q = m q
  end ->
  gv_inv m' s' (ev_next s s' log ev i t).
Proof.
  intros Q RL Et ST SR SR' GV REL.
  pose proof (reach_log_reach _ _ _ (reach_lin_G_log _ _ _ _ RL)) as R.
  pose proof (no_hupd_patched _ Q) as QP.
  assert (I := reach_Inv _ _ R). assert (I' := I). destruct I' as [HO [TO _]].
  assert (TI := reach_TInv _ _ QP R). destruct (reach_TInv _ _ QP R) as [_ [_ TS]].
  pose proof (Forall_nth_error _ _ _ _ TO Et) as Tt.
  pose proof (Forall_nth_error _ _ _ _ (reach_fam_ok _ _ R) Et) as Ft.
  assert (R' : reach ops s') by (econstructor; eauto).
  destruct (step_facts ops s i t s' Q R Et ST) as [SHR [LVD [LVA UP]]].
  assert (ST0 := ST). unfold step, step_gen in ST. rewrite Et in ST.
  destruct (tstep_gen false (hp s) t) as [[h' t']|] eqn:Ets; [|discriminate].
  injection ST as ES. pose proof (tstep_top _ _ _ _ _ Ets) as TOP.
  assert (THR : thr s' = set_nth (thr s) i t') by (rewrite <- ES; reflexivity).
  assert (HP : hp s' = h') by (rewrite <- ES; reflexivity).
  clear ES. subst h'.
  (* the abstract state after the step *)
  assert (ABS : nobody_in s' -> forall q, m' q = absf (hp s') q).
  { intros NB. destruct SR' as [[_ [EQ _]]|[d [td [qd [Ed [ID _]]]]]]; [exact EQ|].
    rewrite (NB _ _ Ed) in ID. discriminate. }
  assert (OTHERS : forall d td, d <> i -> nth_error (thr s') d = Some td -> nth_error (thr s) d = Some td).
  { intros d td D Ed. rewrite THR, nth_error_set_nth_neq in Ed by auto. exact Ed. }
  assert (MINE : nth_error (thr s') i = Some t') by (rewrite THR; eapply nth_error_set_nth_eq; eauto).
  assert (MSAME : ~ nobody_in s' -> forall q, m' q = m q).
  { intros NNB. destruct (lin_event_D (hp s) log i t) as [r|] eqn:L; [|exact REL]. exfalso. apply NNB.
    intros d td Ed. destruct (in_delete (tpc td)) eqn:IDd; [|reflexivity]. exfalso.
    unfold lin_event_D in L. destruct (top t) eqn:Tp; try discriminate.
    - (* an Add at its linearization step is inside the tree *)
      pose proof (lin_event_inside _ _ _ _ _ _ Tt L) as HELD.
      destruct (Nat.eq_dec d i) as [->|D].
      + rewrite MINE in Ed. inv Ed.
        destruct (in_delete (tpc t)) eqn:ID.
        * destruct Ft as [Ff _]. rewrite Tp in Ff. destruct (tpc t); try discriminate ID; discriminate Ff.
        * destruct (enter_delete _ _ _ _ _ Ets ID IDd) as [q [Pc _]].
          destruct Tt as [_ [_ P]]. rewrite Pc in P. cbn in P. contradiction.
      + pose proof (OTHERS _ _ D Ed) as Ed0.
        destruct (delete_atomic_patched ops s d i td t R D Ed0 Et IDd) as [NH _].
        apply HELD. apply NH. unfold lin_event in L. rewrite Tp in L.
        destruct (tpc t); try discriminate L; reflexivity.
    - (* the last step of a Delete: nobody is inside afterwards *)
      destruct (tpc t) eqn:Pc; try discriminate L. destruct fr; try discriminate L.
      destruct (plret_exit _ _ _ _ _ _ _ Pc Ets) as [Pc' _].
      destruct (Nat.eq_dec d i) as [->|D].
      + rewrite MINE in Ed. inv Ed. rewrite Pc' in IDd. discriminate.
      + pose proof (OTHERS _ _ D Ed) as Ed0.
        assert (IDt : in_delete (tpc t) = true) by (rewrite Pc; reflexivity).
        destruct (delete_atomic_patched ops s i d t td R (not_eq_sym D) Et Ed0 IDt) as [_ NR].
        eapply (NR MW). eapply in_delete_holds_root; eauto. eapply Forall_nth_error; eauto. }
  (* nobody inside after the step, and the step is not the exit of a Delete: nobody inside before *)
  assert (NBB : is_exit t = false -> nobody_in s' -> nobody_in s).
  { intros HN NB d td Ed. destruct (in_delete (tpc td)) eqn:IDd; [|reflexivity]. exfalso.
    destruct (Nat.eq_dec d i) as [->|D].
    - rewrite Et in Ed. inv Ed.
      destruct (in_delete_next _ _ _ _ _ IDd Ets) as [ID'|[del [ls [Pc _]]]].
      + rewrite (NB _ _ MINE) in ID'. discriminate.
      + unfold is_exit in HN. destruct Ft as [Ff _]. rewrite Pc in Ff, HN. cbn in Ff.
        destruct (top td); try discriminate Ff. discriminate HN.
    - assert (Ed' : nth_error (thr s') d = Some td) by (rewrite THR, nth_error_set_nth_neq by auto; exact Ed).
      rewrite (NB _ _ Ed') in IDd. discriminate. }
  intros j tj p n Ej W.
  assert (DEC : nobody_in s' \/ ~ nobody_in s').
  { destruct SR' as [[NB _]|[d [td [qd [Ed [ID _]]]]]]; [left; exact NB|right].
    intros NB. rewrite (NB _ _ Ed) in ID. discriminate. }
  destruct (Nat.eq_dec j i) as [->|D].
  - (* the stepping thread *)
    rewrite MINE in Ej. inv Ej.
    assert (TG : exists pg, top t = CGetVal pg).
    { unfold in_window in W. rewrite TOP in W. destruct (top t); try discriminate. eauto. }
    destruct TG as [pg Tp].
    assert (LD : lin_event_D (hp s) log i t = None) by (unfold lin_event_D; rewrite Tp; reflexivity).
    rewrite LD in REL.
    assert (HE : helpers s s' ev t = []) by (unfold helpers; rewrite Tp; reflexivity).
    assert (IDt : in_delete (tpc t) = false).
    { destruct Ft as [Ff _]. rewrite Tp in Ff. destruct (tpc t); try reflexivity; discriminate Ff. }
    assert (NX : is_exit t = false) by (unfold is_exit; rewrite Tp; reflexivity).
    destruct (in_window t) as [[p0 n0]|] eqn:W0.
    + destruct (window_same _ _ _ _ _ _ W0 Ets) as [[W1 NR]|[W1 _]]; [|rewrite W1 in W; discriminate].
      rewrite W1 in W. inv W.
      assert (LG : lin_event_G (hp s) log ev i t = None).
      { unfold lin_event_G. rewrite Tp. unfold in_window in W0. rewrite Tp in W0.
        destruct (tpc t) eqn:Pc; try discriminate W0; try reflexivity. exfalso. eapply NR; reflexivity. }
      unfold ev_next. rewrite HE, LG. cbn [app]. rewrite app_nil_r.
      specialize (GV i t p n Et W0).
      pose proof (window_lt _ _ _ _ Tt W0) as Ln.
      destruct (evd ev i).
      * destruct GV as [HIn DT]. split.
        -- rewrite (LVD n DT Ln). exact HIn.
        -- intros q Rq. apply (DT q). apply SHR; auto.
      * destruct GV as [A [B' B]].
        assert (B2 : nobody_in s' -> resolve (hp s') 0 p = Some n).
        { intros NB. apply UP; [apply NBB; auto|]. apply B. apply NBB; auto. }
        split; [|split; [|exact B2]].
        -- destruct DEC as [NB|NNB].
           ++ rewrite (ABS NB). unfold absf. rewrite (B2 NB). reflexivity.
           ++ rewrite (LVA NNB), (MSAME NNB). exact A.
        -- intros q Rq. apply B'. apply SHR; auto.
    + (* entering the window *)
      destruct (window_enter _ _ _ _ _ _ _ Ft W0 W Ets) as [Tp' [Pc EH]].
      rewrite Tp in Tp'. inv Tp'.
      assert (LG : lin_event_G (hp s) log ev i t = None) by (unfold lin_event_G; rewrite Tp, Pc; reflexivity).
      unfold ev_next. rewrite HE, LG. cbn [app]. rewrite app_nil_r.
      assert (EV : evd ev i = false).
      { destruct (evd ev i) eqn:E; [|reflexivity]. exfalso. apply evd_In in E. destruct E as [r H].
        destruct (event_post_G _ _ _ _ RL i t r Et H) as [RS|[Wr|IW]].
        - rewrite Pc in RS. apply RS. reflexivity.
        - destruct (written_In _ _ _ _ _ (reach_lin_G_log _ _ _ _ RL) Et Wr) as [pa [va [Tpa _]]]. congruence.
        - rewrite W0 in IW. contradiction. }
      rewrite EV.
      destruct (walk_pos_resolve s i t p n [] TI Et) as [pre [Ep Rp]].
      { unfold walk_pos. rewrite Tp, Pc. reflexivity. }
      rewrite app_nil_r in Ep. subst pre. rewrite EH.
      assert (NB : nobody_in s).
      { intros d td Ed. destruct (in_delete (tpc td)) eqn:IDd; [|reflexivity]. exfalso.
        destruct (Nat.eq_dec d i) as [->|Dd]; [rewrite Et in Ed; inv Ed; congruence|].
        destruct (delete_atomic_patched ops s d i td t R Dd Ed Et IDd) as [NH _].
        destruct Tt as [_ [_ P]]. rewrite Pc in P, NH. cbn in P. destruct P as [[r0 Hr] _].
        rewrite NH in Hr by reflexivity. discriminate. }
      assert (EQ : forall q, m q = absf (hp s) q).
      { destruct SR as [[_ [EQ _]]|[d [td [qd [Ed [ID _]]]]]]; [exact EQ|]. rewrite (NB _ _ Ed) in ID. discriminate. }
      split; [|split].
      * rewrite REL, EQ. unfold absf. rewrite Rp. reflexivity.
      * intros q Rq. eapply (resolve_inj (hp s) HO TS); eauto.
      * intros _. exact Rp.
  - (* another thread *)
    pose proof (OTHERS _ _ D Ej) as Ej0.
    pose proof (window_lt _ _ _ _ (Forall_nth_error _ _ _ _ TO Ej0) W) as Ln.
    specialize (GV j tj p n Ej0 W).
    unfold ev_next. rewrite !evd_app.
    assert (SELF : evd (match lin_event_G (hp s) log ev i t with Some r => [(i, r)] | None => [] end) j = false).
    { destruct (lin_event_G (hp s) log ev i t); [rewrite evd_single; apply Nat.eqb_neq; auto|reflexivity]. }
    rewrite SELF, orb_false_r.
    destruct (evd ev j) eqn:EVj.
    + cbn [orb]. destruct GV as [HIn DT]. split.
      * apply in_or_app. left. rewrite (LVD n DT Ln). exact HIn.
      * intros q Rq. apply (DT q). apply SHR; auto.
    + cbn [orb]. destruct GV as [A [B' B]].
      rewrite helpers_exit. destruct (is_exit t) eqn:EX.
      * (* the last step of a Delete *)
        destruct (is_exit_pc _ EX) as [qd [del [ls [Tpd Pcd]]]].
        assert (IDt : in_delete (tpc t) = true) by (rewrite Pcd; reflexivity).
        destruct (del_thread_step _ _ _ _ _ TS IDt Ets) as [LV0 _].
        assert (NBs' : nobody_in s').
        { destruct DEC as [NB|NNB]; [exact NB|]. exfalso. apply NNB.
          intros d td Ed. destruct (in_delete (tpc td)) eqn:IDd; [|reflexivity]. exfalso.
          destruct (plret_exit _ _ _ _ _ _ _ Pcd Ets) as [Pc' _].
          destruct (Nat.eq_dec d i) as [->|Dd].
          - rewrite MINE in Ed. inv Ed. rewrite Pc' in IDd. discriminate.
          - pose proof (OTHERS _ _ Dd Ed) as Ed0.
            destruct (delete_atomic_patched ops s i d t td R (not_eq_sym Dd) Et Ed0 IDt) as [_ NR].
            eapply (NR MW). eapply in_delete_holds_root; eauto. eapply Forall_nth_error; eauto. }
        destruct (onat_eqb (resolve (hp s') 0 p) (Some n)) eqn:O.
        -- apply onat_eqb_spec in O.
           assert (NH : evd (helped_from (hp s) (hp s') ev 0 (thr s)) j = false).
           { destruct (evd (helped_from (hp s) (hp s') ev 0 (thr s)) j) eqn:E; [|reflexivity]. exfalso.
             assert (E2 : evd (helpers s s' ev t) j = true) by (rewrite helpers_exit, EX; exact E).
             destruct (evd_helpers _ _ _ _ _ E2) as [tj2 [p2 [n2 [E3 [W2 [_ NR]]]]]].
             rewrite Ej0 in E3. inv E3. rewrite W in W2. inv W2. contradiction. }
           rewrite NH. split; [|split].
           ++ rewrite (ABS NBs'). unfold absf. rewrite O. reflexivity.
           ++ intros q Rq. apply B'. apply SHR; auto.
           ++ intros _. exact O.
        -- assert (NR : resolve (hp s') 0 p <> Some n).
           { intros X. apply onat_eqb_spec in X. congruence. }
           pose proof (helped_complete (hp s) (hp s') ev (thr s) 0 j tj p n Ej0 W EVj NR) as HI. cbn in HI.
           assert (HE : evd (helped_from (hp s) (hp s') ev 0 (thr s)) j = true) by (apply evd_In; eauto).
           rewrite HE.
           assert (N0 : n <> 0).
           { intros ->. assert (p = []) by (symmetry; apply B'; reflexivity). subst p. apply NR. reflexivity. }
           split.
           ++ apply in_or_app. right. apply in_or_app. left.
              replace (leaf_val (get_cont (hp s') n)) with (leaf_val (get_cont (hp s) n))
                by (symmetry; apply LV0; left; exact N0).
              exact HI.
           ++ intros q Rq. apply NR. rewrite <- (B' q); [exact Rq|apply SHR; auto].
      * (* any other step *)
        cbn [evd existsb].
        assert (B2 : nobody_in s' -> resolve (hp s') 0 p = Some n).
        { intros NB. apply UP; [apply NBB; auto|]. apply B. apply NBB; auto. }
        split; [|split; [|exact B2]].
        -- destruct DEC as [NB|NNB].
           ++ rewrite (ABS NB). unfold absf. rewrite (B2 NB). reflexivity.
           ++ rewrite (LVA NNB), (MSAME NNB). exact A.
        -- intros q Rq. apply B'. apply SHR; auto.
Qed.

(** * the simulation with GetLeafValue *)

Lemma run_helped ops m0 l m H :
  spec_run_G m0 l m ->
  (forall e, In e H -> exists p, nth (fst e) ops (CGetVal []) = CGetVal p /\ snd e = XVal (m p)) ->
  spec_run_G m0 (l ++ ev_ops ops H) m.
Proof.
  intros SR. induction H as [|e H IH] using rev_ind; intros ALL.
  - cbn. rewrite app_nil_r. exact SR.
  - unfold ev_ops. rewrite map_app, app_assoc. cbn [map]. eapply srg_snoc.
    + apply IH. intros e0 H0. apply ALL. apply in_or_app. left. exact H0.
    + destruct (ALL e) as [p [E1 E2]]; [apply in_or_app; right; left; reflexivity|].
      rewrite E1, E2. right. exists p. auto.
Qed.

Theorem lin_simulation_G ops s log ev :
  forallb no_hupd_op ops = true -> reach_lin_G ops s log ev ->
  exists m, spec_run_G (fun _ => None) (ev_ops ops ev) m /\ sim_rel m s /\ gv_inv m s ev.
Proof.
  intros Q R. induction R as [|s i s' t log ev R [m [SR [SIM GV]]] Et ST].
  - exists (fun _ => None). split; [constructor; reflexivity|]. split; [apply sim_rel_init|].
    intros j t p n Ej W. cbn in Ej. rewrite nth_error_map in Ej. destruct (nth_error ops j); inv Ej.
    unfold in_window in W. cbn in W. destruct c; discriminate.
  - pose proof (reach_lin_G_log _ _ _ _ R) as RL. pose proof (reach_log_reach _ _ _ RL) as Rs.
    pose proof (no_hupd_patched _ Q) as QP.
    destruct (reach_Inv _ _ Rs) as [HO [TO _]].
    pose proof (Forall_nth_error _ _ _ _ TO Et) as Tt.
    pose proof (sim_step ops s log i t s' m Q RL Et ST SIM) as STEP.
    assert (TopEq : forall j tj, nth_error (thr s) j = Some tj -> nth j ops (CGetVal []) = top tj).
    { intros j tj Ej. apply nth_error_nth. eapply nth_error_top; eauto. }
    (* the abstract state after the step and its relation to the one before *)
    assert (X : exists m', sim_rel m' s' /\
              match lin_event_D (hp s) log i t with
              | Some r => spec_step_D m (top t) r m'
              | None => forall q, m' q = m q
              end).
    { destruct (lin_event_D (hp s) log i t) as [r|]; destruct STEP as [m' [A B]]; exists m'; auto. }
    destruct X as [m' [SIM' REL]].
    pose proof (gv_step ops s log ev i t s' m m' Q R Et ST SIM SIM' GV REL) as GV'.
    exists m'. split; [|split; [exact SIM'|exact GV']].
    unfold ev_next, ev_ops. rewrite !map_app. fold (ev_ops ops ev). fold (ev_ops ops (helpers s s' ev t)).
    (* the helped GetLeafValues read the abstract state before the step *)
    assert (SRH : spec_run_G (fun _ => None) (ev_ops ops ev ++ ev_ops ops (helpers s s' ev t)) m).
    { apply run_helped; [exact SR|]. intros e He.
      destruct (helped_In _ _ _ _ _ He) as [j [tj [p [n [Ej [W [EV [_ ->]]]]]]]]. cbn [fst snd].
      exists p. split.
      - rewrite (TopEq _ _ Ej). unfold in_window in W. destruct (top tj); try discriminate.
        destruct (tpc tj); try discriminate; try (destruct k; try discriminate); inv W; reflexivity.
      - specialize (GV j tj p n Ej W). rewrite EV in GV. destruct GV as [A _]. rewrite A. reflexivity. }
    rewrite app_assoc.
    unfold lin_event_G. destruct (top t) eqn:Tp;
      try (unfold lin_event_D in REL; rewrite Tp in REL).
    + (* Add *)
      unfold lin_event_D. rewrite Tp. destruct (lin_event (hp s) log i t) as [r|].
      * cbn [map fst snd]. eapply srg_snoc; [exact SRH|]. rewrite (TopEq _ _ Et), Tp. left. exact REL.
      * cbn [map]. rewrite app_nil_r. eapply spec_run_G_ext; [|exact SRH]. intros q. symmetry. apply REL.
    + (* GetLeafValue *)
      assert (SAMEm : spec_run_G (fun _ => None) (ev_ops ops ev ++ ev_ops ops (helpers s s' ev t)) m').
      { eapply spec_run_G_ext; [|exact SRH]. intros q. symmetry. apply REL. }
      destruct (tpc t) eqn:Pc; try (cbn [map]; rewrite app_nil_r; exact SAMEm).
      * (* Get's walk: a miss *)
        destruct p0 as [|k r0]; [cbn [map]; rewrite app_nil_r; exact SAMEm|].
        assert (MISS : match get_cont (hp s) t0 with CBranch cs => assoc k cs = None | _ => True end ->
                       spec_run_G (fun _ => None)
                         ((ev_ops ops ev ++ ev_ops ops (helpers s s' ev t)) ++ map (fun e => (nth (fst e) ops (CGetVal []), snd e)) [(i, XVal None)]) m').
        { intros M. cbn [map fst snd]. eapply srg_snoc; [exact SRH|]. rewrite (TopEq _ _ Et), Tp.
          right. exists p. split; [reflexivity|]. split; [|exact REL].
          (* the thread is inside the tree: nobody deletes *)
          assert (NB : nobody_in s).
          { intros d td Ed. destruct (in_delete (tpc td)) eqn:IDd; [|reflexivity]. exfalso.
            destruct (Nat.eq_dec d i) as [->|Dd]; [rewrite Et in Ed; inv Ed; rewrite Pc in IDd; discriminate|].
            destruct (delete_atomic_patched ops s d i td t Rs Dd Ed Et IDd) as [NH _].
            destruct Tt as [_ [_ P]]. rewrite Pc in P, NH. cbn in P. destruct P as [[rr Hr] _].
            rewrite NH in Hr by reflexivity. discriminate. }
          destruct SIM as [[_ [EQ _]]|[d [td [qd [Ed [ID _]]]]]]; [|rewrite (NB _ _ Ed) in ID; discriminate].
          rewrite EQ. rewrite (get_miss_point ops s i t p t0 k r0 Rs Et Tp Pc M). reflexivity. }
        destruct (get_cont (hp s) t0) as [| |cs] eqn:E; try (apply MISS; exact I).
        destruct (assoc k cs) eqn:A; [cbn [map]; rewrite app_nil_r; exact SAMEm|]. apply MISS. reflexivity.
      * (* the Value read *)
        destruct (evd ev i) eqn:EV; [cbn [map]; rewrite app_nil_r; exact SAMEm|].
        cbn [map fst snd]. eapply srg_snoc; [exact SRH|]. rewrite (TopEq _ _ Et), Tp.
        right. exists p. split; [reflexivity|]. split; [|exact REL].
        assert (W : in_window t = Some (p, n)) by (unfold in_window; rewrite Tp, Pc; reflexivity).
        specialize (GV i t p n Et W). rewrite EV in GV. destruct GV as [A _]. rewrite A. reflexivity.
    + unfold lin_event_D. rewrite Tp. cbn [map]. rewrite app_nil_r. eapply spec_run_G_ext; [|exact SRH]. intros ?; symmetry; apply REL.
    + (* Delete *)
      unfold lin_event_D. rewrite Tp.
      destruct (tpc t) eqn:Pc; try (cbn [map]; rewrite app_nil_r; eapply spec_run_G_ext; [|exact SRH]; intros ?; symmetry; apply REL).
      match goal with H : context [match ?f with [] => _ | _ :: _ => _ end] |- _ => destruct f end;
        [|cbn [map]; rewrite app_nil_r; eapply spec_run_G_ext; [|exact SRH]; intros ?; symmetry; apply REL].
      cbn [map fst snd]. eapply srg_snoc; [exact SRH|]. rewrite (TopEq _ _ Et), Tp. left. exact REL.
    + unfold lin_event_D. rewrite Tp. cbn [map]. rewrite app_nil_r. eapply spec_run_G_ext; [|exact SRH]. intros ?; symmetry; apply REL.
    + unfold lin_event_D. rewrite Tp. cbn [map]. rewrite app_nil_r. eapply spec_run_G_ext; [|exact SRH]. intros ?; symmetry; apply REL.
    + unfold lin_event_D. rewrite Tp. cbn [map]. rewrite app_nil_r. eapply spec_run_G_ext; [|exact SRH]. intros ?; symmetry; apply REL.
Qed.

(** * every returned Add / GetLeafValue / Delete has its event, exactly once, in real-time order *)

Definition point_op_G (o : cop) : bool :=
  match o with CAdd _ _ | CGetVal _ | CDelete _ => true | _ => false end.

Lemma ev_next_incl s s' log ev i t e : In e ev -> In e (ev_next s s' log ev i t).
Proof. intros H. unfold ev_next. apply in_or_app. left. exact H. Qed.

Lemma ev_next_self s s' log ev i t r :
  lin_event_G (hp s) log ev i t = Some r -> In (i, r) (ev_next s s' log ev i t).
Proof. intros L. unfold ev_next. rewrite L. apply in_or_app. right. apply in_or_app. right. left. reflexivity. Qed.

Theorem lin_complete_G ops s log ev :
  forallb no_hupd_op ops = true -> reach_lin_G ops s log ev -> forall i t r,
  nth_error (thr s) i = Some t -> point_op_G (top t) = true -> res_of (tpc t) = Some r -> In (i, r) ev.
Proof.
  intros Q R. induction R as [|s j s' tj log ev R IH Ej ST]; intros i t r Et PO RS.
  - cbn in Et. rewrite nth_error_map in Et. destruct (nth_error ops i); inv Et. discriminate.
  - pose proof (reach_lin_G_log _ _ _ _ R) as RL. pose proof (reach_log_reach _ _ _ RL) as Rs.
    assert (ST0 := ST). unfold step, step_gen in ST. rewrite Ej in ST.
    destruct (tstep_gen false (hp s) tj) as [[h' tj']|] eqn:Ets; [|discriminate].
    injection ST as ES. assert (THR : thr s' = set_nth (thr s) j tj') by (rewrite <- ES; reflexivity). clear ES.
    rewrite THR in Et.
    destruct (Nat.eq_dec j i) as [->|D].
    + erewrite nth_error_set_nth_eq in Et by eauto. inv Et.
      pose proof (Forall_nth_error _ _ _ _ (reach_fam_ok _ _ Rs) Ej) as FO.
      pose proof (tstep_top _ _ _ _ _ Ets) as TOP. rewrite TOP in PO.
      destruct (top tj) eqn:Tp; try discriminate PO.
      * (* Add *)
        destruct (enters_res_D _ _ log i _ _ _ _ FO ltac:(rewrite Tp; reflexivity) Ets RS) as [R0|[L|[-> Wr]]].
        -- apply ev_next_incl. eapply IH; eauto. rewrite Tp. reflexivity.
        -- apply ev_next_self. unfold lin_event_G. rewrite Tp. exact L.
        -- apply ev_next_incl. destruct (written_In _ _ _ _ _ RL Ej Wr) as [p1 [v1 [_ H1]]].
           (* an Add that has written has its successful event *)
           clear - R H1 Q. revert i p1 v1 H1. induction R as [|s j s' t log ev R IH Et ST]; intros i p1 v1 H1; [destruct H1|].
           destruct (is_write (hp s) t) as [[p0 v0]|] eqn:W; [|apply ev_next_incl; eauto].
           apply in_app_or in H1. destruct H1 as [H1|[H1|[]]]; [apply ev_next_incl; eauto|]. inv H1.
           destruct (write_lin_D _ log i _ _ _ W) as [L|Wr].
           ++ apply ev_next_self. unfold lin_event_G. rewrite (is_write_top _ _ _ _ W). exact L.
           ++ apply ev_next_incl. destruct (written_In _ _ _ _ _ (reach_lin_G_log _ _ _ _ R) Et Wr) as [p2 [v2 [_ H2]]]. eauto.
      * (* GetLeafValue *)
        destruct (res_of (tpc tj)) as [r0|] eqn:R0.
        { rewrite (res_closed _ _ _ _ _ _ R0 Ets) in RS. inv RS. apply ev_next_incl. eapply IH; eauto. rewrite Tp. reflexivity. }
        pose proof (tstep_shape _ _ _ _ _ Ets) as SH. destruct FO as [Ff S0]. rewrite Tp in Ff.
        destruct (lin_simulation_G _ _ _ _ Q R) as [m [_ [_ GV]]].
        destruct tj as [o pc0 hs]. cbn [tpc top held] in *. subst o.
        destruct pc0 as [| | | | | | | | | | | tg pg | kk | | nv | | | | | | | | | | | | | | | | | | |]; cbn in Ff; try discriminate Ff; try discriminate R0;
          unfold lockop_of in SH; cbn [tpc held] in SH.
        -- destruct SH as [_ ->]. cbn in RS. rewrite (S0 _ eq_refl) in RS. cbn in RS. discriminate.
        -- destruct SH as [_ [_ ->]]. cbn in RS. discriminate.
        -- (* Get's read *)
           destruct SH as [_ ->]. cbn [tpc] in RS. apply ev_next_self. unfold lin_event_G. cbn [top tpc].
           destruct pg as [|k r0]; [cbn in RS; discriminate|]. cbn in RS.
           destruct (get_cont (hp s) tg) as [| |cs]; cbn in RS; try (inv RS; reflexivity).
           destruct (assoc k cs); cbn in RS; [discriminate|inv RS; reflexivity].
        -- destruct kk as [rk|nk]; [cbn in R0; discriminate|].
           destruct hs as [|[n0 m0] hs]; [destruct SH as [_ ->]|destruct SH as [n' [m' [hs' [_ [_ ->]]]]]];
             cbn in RS; discriminate.
        -- destruct SH as [_ [_ ->]]. cbn in RS. discriminate.
        -- (* the Value read *)
           destruct SH as [_ ->]. cbn in RS. inv RS.
           assert (W : in_window (TH (CGetVal p) (PHValRead nv) hs) = Some (p, nv)) by reflexivity.
           specialize (GV i _ p nv Ej W).
           destruct (evd ev i) eqn:EV.
           ++ apply ev_next_incl. apply GV.
           ++ apply ev_next_self. unfold lin_event_G. cbn [top tpc]. rewrite EV. reflexivity.
      * (* Delete *)
        destruct (enters_res_D _ _ log i _ _ _ _ FO ltac:(rewrite Tp; reflexivity) Ets RS) as [R0|[L|[-> Wr]]].
        -- apply ev_next_incl. eapply IH; eauto. rewrite Tp. reflexivity.
        -- apply ev_next_self. unfold lin_event_G. rewrite Tp. exact L.
        -- destruct (written_In _ _ _ _ _ RL Ej Wr) as [p1 [v1 [X _]]]. congruence.
    + rewrite nth_error_set_nth_neq in Et by auto. apply ev_next_incl. eapply IH; eauto.
Qed.

Lemma helped_from_idx h h' ev ts : forall j0 e, In e (helped_from h h' ev j0 ts) -> j0 <= fst e.
Proof.
  induction ts as [|t ts IH]; intros j0 e H; [destruct H|]. cbn in H. apply in_app_or in H. destruct H as [H|H].
  - destruct (help_of_In _ _ _ _ _ _ H) as [p [n [_ [_ [_ ->]]]]]. cbn. lia.
  - specialize (IH _ _ H). lia.
Qed.

Lemma helped_from_nodup h h' ev ts : forall j0, NoDup (map fst (helped_from h h' ev j0 ts)).
Proof.
  induction ts as [|t ts IH]; intros j0; cbn; [constructor|]. rewrite map_app.
  unfold help_of at 1. destruct (in_window t) as [[p n]|]; [|apply IH].
  destruct (evd ev j0); [apply IH|]. destruct (onat_eqb (resolve h' 0 p) (Some n)); [apply IH|].
  cbn. constructor; [|apply IH]. intros H. apply in_map_iff in H. destruct H as [e [E H]].
  pose proof (helped_from_idx _ _ _ _ _ _ H). lia.
Qed.

Lemma no_second_G ops s log ev i t :
  forallb no_hupd_op ops = true -> reach_lin_G ops s log ev -> nth_error (thr s) i = Some t ->
  evd ev i = true -> lin_event_G (hp s) log ev i t = None.
Proof.
  intros Q R Et EV. pose proof (reach_lin_G_log _ _ _ _ R) as RL.
  apply evd_In in EV. destruct EV as [r H]. assert (EV : evd ev i = true) by (apply evd_In; eauto).
  destruct (event_post_G _ _ _ _ R i t r Et H) as [RS|[Wr|IW]].
  - unfold lin_event_G. destruct (top t) eqn:Tp; try (eapply no_second_D; eauto; fail).
    destruct (tpc t); try reflexivity; cbn in RS; try contradiction.
  - unfold lin_event_G. destruct (written_In _ _ _ _ _ RL Et Wr) as [p [v [Tp _]]]. rewrite Tp.
    eapply no_second_D; eauto.
  - unfold in_window in IW. unfold lin_event_G. destruct (top t); try contradiction.
    destruct (tpc t); try contradiction; try reflexivity. rewrite EV. reflexivity.
Qed.

Theorem lin_unique_G ops s log ev :
  forallb no_hupd_op ops = true -> reach_lin_G ops s log ev -> NoDup (map fst ev).
Proof.
  intros Q R. induction R as [|s i s' t log ev R IH Et ST]; [constructor|].
  unfold ev_next. rewrite !map_app.
  assert (HN : NoDup (map fst (helpers s s' ev t))).
  { rewrite helpers_exit. destruct (is_exit t); [apply helped_from_nodup|constructor]. }
  assert (HD : forall j, In j (map fst ev) -> In j (map fst (helpers s s' ev t)) -> False).
  { intros j H1 H2. apply in_map_iff in H2. destruct H2 as [e [<- He]].
    destruct (helped_In _ _ _ _ _ He) as [j [tj [p [n [_ [_ [EV [_ ->]]]]]]]]. cbn in H1.
    apply in_map_iff in H1. destruct H1 as [[j' r'] [E H1]]. cbn in E. subst j'.
    assert (evd ev j = true) by (apply evd_In; eauto). congruence. }
  assert (SELF : forall r, lin_event_G (hp s) log ev i t = Some r ->
                   ~ In i (map fst ev) /\ ~ In i (map fst (helpers s s' ev t))).
  { intros r L. split.
    - intros H. apply in_map_iff in H. destruct H as [[i' r'] [E H]]. cbn in E. subst i'.
      assert (EV : evd ev i = true) by (apply evd_In; eauto).
      rewrite (no_second_G _ _ _ _ _ _ Q R Et EV) in L. discriminate.
    - intros H. apply in_map_iff in H. destruct H as [e [E He]].
      destruct (helped_In _ _ _ _ _ He) as [j [tj [p [n [Ej [W [_ [_ ->]]]]]]]]. cbn in E. subst j.
      rewrite Et in Ej. inv Ej.
      assert (NE : helpers s s' ev tj <> []) by (intros X; rewrite X in He; destruct He).
      destruct (helpers_shape _ _ _ _ NE) as [q [del [ls [Tp _]]]].
      unfold in_window in W. rewrite Tp in W. discriminate. }
  (* assemble *)
  assert (ND2 : NoDup (map fst ev ++ map fst (helpers s s' ev t))).
  { clear SELF. revert HN HD. generalize (map fst (helpers s s' ev t)) as l2. generalize IH. generalize (map fst ev) as l1.
    induction l1 as [|a l1 IHl]; intros N1 l2 N2 DJ; [exact N2|]. cbn. inversion N1 as [|a' l' NA NL]; subst. constructor.
    - intros H. apply in_app_or in H. destruct H as [H|H]; [contradiction|]. apply (DJ a); [left; reflexivity|exact H].
    - apply IHl; auto. intros j G1 G2. apply (DJ j); [right; exact G1|exact G2]. }
  destruct (lin_event_G (hp s) log ev i t) as [r|] eqn:L.
  - destruct (SELF r eq_refl) as [S1 S2]. cbn [map fst]. rewrite app_assoc.
    apply NoDup_app_intro_single; [exact ND2|]. intros H. apply in_app_or in H. destruct H; contradiction.
  - cbn [map]. rewrite app_nil_r. exact ND2.
Qed.

Lemma event_started_G ops s log ev :
  forallb no_hupd_op ops = true -> reach_lin_G ops s log ev ->
  forall i t r o, nth_error (thr s) i = Some t -> In (i, r) ev -> tpc t <> PStart o.
Proof.
  intros Q R i t r o Et H Pc.
  destruct (event_post_G _ _ _ _ R i t r Et H) as [RS|[W|IW]].
  - rewrite Pc in RS. apply RS. reflexivity.
  - destruct (written_In _ _ _ _ _ (reach_lin_G_log _ _ _ _ R) Et W) as [p [v [_ Hl]]].
    destruct (reach_cp_D _ _ _ Q (reach_lin_G_log _ _ _ _ R) i t Et) as [C0 _]. eapply C0; eauto.
  - unfold in_window in IW. rewrite Pc in IW. destruct (top t); contradiction.
Qed.

(** real-time order *)
Inductive run_lin_G (ops : list cop) :
  state * list (nat * path * Z) * list (nat * cres) ->
  state * list (nat * path * Z) * list (nat * cres) -> Prop :=
| rlg_refl c : run_lin_G ops c c
| rlg_more c s i s' t log ev :
    run_lin_G ops c (s, log, ev) -> nth_error (thr s) i = Some t -> step s i = Some s' ->
    run_lin_G ops c (s',
      (match is_write (hp s) t with Some (p, v) => log ++ [(i, p, v)] | None => log end),
      ev_next s s' log ev i t).

Lemma run_lin_G_reach ops s1 log1 ev1 s2 log2 ev2 :
  reach_lin_G ops s1 log1 ev1 -> run_lin_G ops (s1, log1, ev1) (s2, log2, ev2) -> reach_lin_G ops s2 log2 ev2.
Proof.
  intros R H. remember (s1, log1, ev1) as c1. remember (s2, log2, ev2) as c2.
  revert s2 log2 ev2 Heqc2. induction H as [c|c s i s' t log ev H IH Et ST]; intros s2 log2 ev2 E2.
  - subst c. inv E2. exact R.
  - inv E2. eapply rlg_step; eauto.
Qed.

Lemma run_lin_G_prefix ops c1 c2 : run_lin_G ops c1 c2 -> exists rest, snd c2 = snd c1 ++ rest.
Proof.
  induction 1 as [c|c s i s' t log ev H [rest IH] Et ST]; [exists []; rewrite app_nil_r; auto|].
  cbn in *. unfold ev_next. rewrite IH. eexists. rewrite <- app_assoc. reflexivity.
Qed.

Theorem lin_real_time_G ops s1 log1 ev1 s2 log2 ev2 a ta ra b tb o rb :
  forallb no_hupd_op ops = true ->
  reach_lin_G ops s1 log1 ev1 -> run_lin_G ops (s1, log1, ev1) (s2, log2, ev2) ->
  nth_error (thr s1) a = Some ta -> point_op_G (top ta) = true -> tpc ta = PDone ra ->
  nth_error (thr s1) b = Some tb -> tpc tb = PStart o ->
  In (b, rb) ev2 ->
  exists l1 l2 l3, ev2 = l1 ++ (a, ra) :: l2 ++ (b, rb) :: l3.
Proof.
  intros Q R1 RUN Ea PO Da Eb Sb Hb.
  destruct (run_lin_G_prefix _ _ _ RUN) as [rest E]. cbn in E. subst ev2.
  assert (Ha : In (a, ra) ev1).
  { eapply lin_complete_G; eauto. rewrite Da. reflexivity. }
  assert (Nb : ~ In (b, rb) ev1).
  { intros H. eapply (event_started_G _ _ _ _ Q R1 b tb rb o); eauto. }
  apply in_app_or in Hb. destruct Hb as [Hb|Hb]; [contradiction|].
  apply in_split in Ha. destruct Ha as [l1 [l2 ->]].
  apply in_split in Hb. destruct Hb as [l3 [l4 ->]].
  exists l1, (l2 ++ l3), l4. rewrite <- !app_assoc. cbn. reflexivity.
Qed.

(** the packaged statement: all point operations *)
Theorem linearizable_point_ops ops s log ev :
  forallb no_hupd_op ops = true -> reach_lin_G ops s log ev ->
  (exists m, spec_run_G (fun _ => None) (ev_ops ops ev) m /\
             (nobody_in s -> forall q, m q = absf (hp s) q)) /\
  NoDup (map fst ev) /\
  (forall i t r, nth_error (thr s) i = Some t -> point_op_G (top t) = true ->
                 res_of (tpc t) = Some r -> In (i, r) ev).
Proof.
  intros Q R. split; [|split; [eapply lin_unique_G; eauto|eapply lin_complete_G; eauto]].
  destruct (lin_simulation_G _ _ _ _ Q R) as [m [SR [SIM _]]]. exists m. split; [exact SR|].
  intros NB. destruct SIM as [[_ [EQ _]]|[d [td [qd [Ed [ID _]]]]]]; [exact EQ|].
  rewrite (NB _ _ Ed) in ID. discriminate.
Qed.

(** * Non-vacuity: an instrumented scheduler, and a GetLeafValue that is helped *)
Fixpoint run_G (c : state * list (nat * path * Z) * list (nat * cres)) (sch : list nat)
  : state * list (nat * path * Z) * list (nat * cres) :=
  match sch with
  | [] => c
  | i :: sch' =>
      let '(s, log, ev) := c in
      match nth_error (thr s) i, step s i with
      | Some t, Some s' =>
          run_G (s', (match is_write (hp s) t with Some (p, v) => log ++ [(i, p, v)] | None => log end),
                 ev_next s s' log ev i t) sch'
      | _, _ => run_G c sch'
      end
  end.

Lemma run_G_reach ops sch : forall s log ev,
  reach_lin_G ops s log ev ->
  reach_lin_G ops (fst (fst (run_G (s, log, ev) sch))) (snd (fst (run_G (s, log, ev) sch))) (snd (run_G (s, log, ev) sch)).
Proof.
  induction sch as [|i sch IH]; intros s log ev R; [exact R|]. cbn [run_G].
  destruct (nth_error (thr s) i) as [t|] eqn:Et; [|apply IH; exact R].
  destruct (step s i) as [s'|] eqn:ST; [|apply IH; exact R].
  apply IH. eapply rlg_step; eauto.
Qed.

Open Scope string_scope.
Open Scope list_scope.

(** both Adds; GetLeafValue(a/b) gets its node and releases the tree; the whole
    Delete of a/[*]; only then the Value read: it still answers 1, and its event
    stands BEFORE the Delete's although the read happened after it *)
Definition help_ex_sched : list nat :=
  repeat 0 40 ++ repeat 1 40 ++ repeat 4 11 ++ repeat 2 60 ++ repeat 4 10 ++ repeat 3 40.

Example help_example :
  let c := run_G (init_state del_ex_ops, [], []) help_ex_sched in
  (map tpc (thr (fst (fst c))), snd c)
  = ([PDone (XAdd true); PDone (XAdd true); PDone (XPaths [["a"; "b"]; ["a"; "c"]]);
      PDone (XAdd true); PDone (XVal (Some 1%Z))],
     [(0, XAdd true); (1, XAdd true); (4, XVal (Some 1%Z));
      (2, XPaths [["a"; "b"]; ["a"; "c"]]); (3, XAdd true)]).
Proof. vm_compute. reflexivity. Qed.

Example help_example_reach :
  let c := run_G (init_state del_ex_ops, [], []) help_ex_sched in
  reach_lin_G del_ex_ops (fst (fst c)) (snd (fst c)) (snd c).
Proof. apply run_G_reach. constructor. Qed.

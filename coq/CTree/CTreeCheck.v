(** Correspondence evaluator and executable property checker for C09.

    A case is the list of operations the harness applied to one real
    [ctree.Tree] together with what the implementation returned, projected:
    unordered results are compared as sorted lists, node handles as
    absent / leaf v / branch.  [check_case] replays the operations
    (a) on the model of CTreeModel.v -- correspondence -- and
    (b) on the flat prefix-free map of CTreeSpec -- the property itself applied
    to the implementation's own answers. *)
From Gnmi Require Import Base.Prelude CTree.CTreeModel.
Open Scope Z_scope.

Inductive cnd := CAll | CLt (k : Z) | CGe (k : Z).

Definition cnd_eval (c : cnd) (v : Z) : bool :=
  match c with
  | CAll => true
  | CLt k => Z.ltb v k
  | CGe k => Z.leb k v
  end.

Inductive op :=
| OAdd (p : path) (v : Z)
| OGet (p : path)
| OGetLeaf (p : path)
| OGetLeafValue (p : path)
| OQuery (q : path)
| OWalk
| OWalkSorted
| ODelete (q : path) (c : cnd)
| OWalkDeleted (q : path) (c : cnd)
| OChildren (p : path)
| OIsBranch (p : path)
| OQueryErr (q : path).   (* Query whose visitor fails at its first call: is an error returned? *)

Inductive nkind := KAbsent | KLeaf (v : Z) | KBranch.

Inductive obs :=
| RAdd (ok : bool)
| RKind (k : nkind)
| RLeaves (l : list (path * Z))
| RPaths (l : list path)
| RVals (l : list Z)
| RNames (o : option (list string))
| RBool (b : bool)
| RPanic.   (* the implementation panicked; equal to nothing *)

(** ** canonical forms *)

Definition leaf_leb (a b : path * Z) : bool :=
  if path_eqb (fst a) (fst b) then Z.leb (snd a) (snd b) else path_ltb (fst a) (fst b).

Definition sort_leaves (l : list (path * Z)) := isort leaf_leb l.
Definition sort_paths (l : list path) := isort path_leb l.
Definition sort_vals (l : list Z) := isort Z.leb l.
Definition sort_names (l : list string) := isort String.leb l.

Definition canon (o : op) (r : obs) : obs :=
  match o, r with
  | OWalkSorted, _ => r
  | _, RLeaves l => RLeaves (sort_leaves l)
  | _, RPaths l => RPaths (sort_paths l)
  | _, RVals l => RVals (sort_vals l)
  | _, RNames (Some l) => RNames (Some (sort_names l))
  | _, _ => r
  end.

Fixpoint list_eqb {A} (e : A -> A -> bool) (a b : list A) : bool :=
  match a, b with
  | [], [] => true
  | x :: a', y :: b' => e x y && list_eqb e a' b'
  | _, _ => false
  end.

Definition leaf_eqb (a b : path * Z) := path_eqb (fst a) (fst b) && Z.eqb (snd a) (snd b).

Definition nkind_eqb (a b : nkind) : bool :=
  match a, b with
  | KAbsent, KAbsent => true
  | KLeaf x, KLeaf y => Z.eqb x y
  | KBranch, KBranch => true
  | _, _ => false
  end.

Definition obs_eqb (a b : obs) : bool :=
  match a, b with
  | RAdd x, RAdd y => Bool.eqb x y
  | RKind x, RKind y => nkind_eqb x y
  | RLeaves x, RLeaves y => list_eqb leaf_eqb x y
  | RPaths x, RPaths y => list_eqb path_eqb x y
  | RVals x, RVals y => list_eqb Z.eqb x y
  | RNames None, RNames None => true
  | RNames (Some x), RNames (Some y) => list_eqb String.eqb x y
  | RBool x, RBool y => Bool.eqb x y
  | _, _ => false
  end.

(** ** the model side *)

Definition kind_of (o : option (node Z)) : nkind :=
  match o with
  | None => KAbsent
  | Some (Leaf v) => KLeaf v
  | Some (Branch _) => KBranch
  end.

Definition mstep (t : tree Z) (o : op) : tree Z * obs :=
  match o with
  | OAdd p v =>
      match add t p v with
      | Some t' => (t', RAdd true)
      | None => (t, RAdd false)
      end
  | OGet p => (t, RKind (kind_of (get t p)))
  | OGetLeaf p => (t, RKind (kind_of (get t p)))   (* GetLeaf is Get with the pointer cast to a Leaf handle *)
  | OGetLeafValue p =>
      (t, RKind (match lookup t p with Some v => KLeaf v | None => KAbsent end))
  | OQuery q => (t, RLeaves (query t q))
  | OWalk => (t, RLeaves (walk t))
  | OWalkSorted => (t, RLeaves (walk_sorted t))
  | ODelete q c =>
      let r := delete_cond t q (cnd_eval c) in (fst r, RPaths (map fst (snd r)))
  | OWalkDeleted q c =>
      let r := delete_cond t q (cnd_eval c) in (fst r, RVals (map snd (snd r)))
  | OChildren p => (t, RNames (children_at t p))
  | OIsBranch p => (t, RBool (is_branch_at t p))
  | OQueryErr q => (t, RBool (match query t q with [] => false | _ :: _ => true end))
  end.

(** ** the specification side: a flat map, no stored path a prefix of another *)

Definition flat := list (path * Z).

Fixpoint flookup (f : flat) (p : path) : option Z :=
  match f with
  | [] => None
  | (q, v) :: f' => if path_eqb p q then Some v else flookup f' p
  end.

Definition fremove (f : flat) (p : path) : flat :=
  filter (fun qv => negb (path_eqb (fst qv) p)) f.

Definition fconflict (f : flat) (p : path) : bool :=
  existsb (fun qv => strict_prefix (fst qv) p || strict_prefix p (fst qv)) f.

Definition fbranch (f : flat) (p : path) : bool :=
  existsb (fun qv => strict_prefix p (fst qv)) f.

Definition fselect (f : flat) (q : path) (c : cnd) : flat :=
  filter (fun pv => qmatch q (fst pv) && cnd_eval c (snd pv)) f.

Definition fkeep (f : flat) (q : path) (c : cnd) : flat :=
  filter (fun pv => negb (qmatch q (fst pv) && cnd_eval c (snd pv))) f.

Fixpoint dedup (l : list string) : list string :=
  match l with
  | [] => []
  | x :: l' => if existsb (String.eqb x) l' then dedup l' else x :: dedup l'
  end.

Definition fchildren (f : flat) (p : path) : list string :=
  dedup (flat_map (fun qv =>
           if strict_prefix p (fst qv)
           then match skipn (List.length p) (fst qv) with k :: _ => [k] | [] => [] end
           else []) f).

Definition fkind (f : flat) (p : path) : nkind :=
  match flookup f p with
  | Some v => KLeaf v
  | None => if fbranch f p then KBranch else KAbsent
  end.

Definition fstep (f : flat) (o : op) : flat * obs :=
  match o with
  | OAdd p v =>
      if fconflict f p then (f, RAdd false) else ((p, v) :: fremove f p, RAdd true)
  | OGet p => (f, RKind (fkind f p))
  | OGetLeaf p =>
      (* documented contract: the leaf if the path points to a leaf, nil otherwise *)
      (f, RKind (match flookup f p with Some v => KLeaf v | None => KAbsent end))
  | OGetLeafValue p =>
      (f, RKind (match flookup f p with Some v => KLeaf v | None => KAbsent end))
  | OQuery q => (f, RLeaves (fselect f q CAll))
  | OWalk => (f, RLeaves f)
  | OWalkSorted => (f, RLeaves (sort_leaves f))
  | ODelete q c => (fkeep f q c, RPaths (map fst (fselect f q c)))
  | OWalkDeleted q c => (fkeep f q c, RVals (map snd (fselect f q c)))
  | OChildren p =>
      (f, RNames (if fbranch f p then Some (fchildren f p) else None))
  | OIsBranch p => (f, RBool (fbranch f p))
  | OQueryErr q => (f, RBool (match fselect f q CAll with [] => false | _ :: _ => true end))
  end.

(** ** known findings (narrow classes; see /verif/known_findings.json)

    KF 1: GetLeaf on a path that addresses a branch returns a non-nil handle
    (the spec says absent, the implementation says branch). *)
Definition known_class (f : flat) (o : op) (r : obs) : N :=
  match o, r with
  | OGetLeaf p, RKind KBranch => if fbranch f p then 1%N else 0%N
  | _, _ => 0%N
  end.

(** ** verdicts

    tag 1: implementation differs from the model (correspondence);
    tag 2: implementation differs from the specification (property fails);
    tag 10+k: property fails inside known-finding class k. *)

Fixpoint check_from (i : nat) (t : tree Z) (f : flat) (c : list (op * obs))
  : list (nat * N) :=
  match c with
  | [] => []
  | (o, r) :: c' =>
      let '(t', rm) := mstep t o in
      let '(f', rf) := fstep f o in
      let r' := canon o r in
      let v1 := if obs_eqb r' (canon o rm) then [] else [(i, 1%N)] in
      let v2 := if obs_eqb r' (canon o rf) then []
                else match known_class f o r with
                     | 0%N => [(i, 2%N)]
                     | k => [(i, (10 + k)%N)]
                     end in
      v1 ++ v2 ++ check_from (S i) t' f' c'
  end.

Definition check_case (c : list (op * obs)) : list (nat * N) :=
  check_from 0 None [] c.

Fixpoint check_all_from (i : nat) (cs : list (list (op * obs))) : list (nat * nat * N) :=
  match cs with
  | [] => []
  | c :: cs' => map (fun sn => (i, fst sn, snd sn)) (check_case c) ++ check_all_from (S i) cs'
  end.

Definition check_all (cs : list (list (op * obs))) : list (nat * nat * N) :=
  check_all_from 0 cs.

(** Delete over the concurrent model (the code as of repo commit 3480f62: every
    visited node is write-locked): the effect of a whole Delete on the
    abstraction "value stored at a path" is exactly the flat specification's
    delete -- every stored path the query selects is removed, nothing else
    changes, the returned paths are exactly the removed ones -- although the
    removal happens leaf by leaf over many steps, interleaved with the steps of
    all other threads. *)
From Gnmi Require Import Base.Prelude CTree.CTreeModel CTree.CTreeConc CTree.CTreeConcProofs
  CTree.CTreeConcLin CTree.CTreeConcAbs.
From Coq Require Import Arith Lia.
Open Scope nat_scope.

Local Arguments do_rel : simpl never.
Local Arguments do_rlock : simpl never.
Local Arguments do_req : simpl never.
Local Arguments do_acq : simpl never.
Local Arguments set_cont : simpl never.
Local Arguments hdelete : simpl never.
Local Arguments new_chain : simpl never.

(** * what a query selects, one path element at a time (internalDelete's view) *)
Lemma qmatch_nil q : qmatch q [] = heads_all q && is_nil (strip_glob q).
Proof.
  destruct q as [|k r]; [reflexivity|]. cbn. destruct (is_glob k); [|reflexivity].
  destruct r; reflexivity.
Qed.

Lemma qmatch_cons q a rest :
  qmatch q (a :: rest) =
  if heads_all q then qmatch (strip_glob q) rest
  else match q with k :: r => String.eqb k a && qmatch r rest | [] => false end.
Proof.
  destruct q as [|k r]; [destruct rest; reflexivity|]. cbn. destruct (is_glob k); [|reflexivity].
  destruct r; [destruct rest; reflexivity|reflexivity].
Qed.

(** * paths of Delete's frames *)
Definition cpath (fr : list dframe) : path := map dcur (rev fr).

Lemma cpath_cons f fr : cpath (f :: fr) = cpath fr ++ [dcur f].
Proof. unfold cpath. cbn. rewrite map_app. reflexivity. Qed.

Lemma is_prefix_longer (P : path) a s : is_prefix (P ++ a :: s) P = false.
Proof.
  destruct (is_prefix (P ++ a :: s) P) eqn:E; [|reflexivity].
  apply is_prefix_spec in E. destruct E as [r E]. rewrite <- app_assoc in E.
  exfalso. eapply app_cons_length_neq. exact E.
Qed.

Lemma prefix_diverge (P : path) k k' s rest :
  k <> k' -> is_prefix (P ++ k' :: s) (P ++ k :: rest) = false.
Proof.
  intros D. destruct (is_prefix (P ++ k' :: s) (P ++ k :: rest)) eqn:E; [|reflexivity].
  apply is_prefix_spec in E. destruct E as [r E]. rewrite <- app_assoc in E.
  apply app_inv_head in E. cbn in E. inv E. contradiction.
Qed.

Lemma assoc_not_in {A} k (l : list (string * A)) : ~ In k (keys l) -> assoc k l = None.
Proof.
  induction l as [|[a c] l IH]; cbn; [reflexivity|]. intros N.
  destruct (String.eqb_spec k a) as [->|D]; [exfalso; apply N; auto|]. apply IH. intros H. apply N. auto.
Qed.

Lemma absf_branch h p n cs : resolve h 0 p = Some n -> get_cont h n = CBranch cs -> absf h p = None.
Proof. intros R E. unfold absf. rewrite R, E. reflexivity. Qed.

Lemma absf_below h p n a rest :
  resolve h 0 p = Some n ->
  match get_cont h n with CBranch cs => assoc a cs = None | _ => True end ->
  absf h (p ++ a :: rest) = None.
Proof.
  intros R E. unfold absf. rewrite resolve_app, R. cbn.
  destruct (get_cont h n) as [| |cs]; try reflexivity. rewrite E. reflexivity.
Qed.

(** * the invariant of a Delete between taking and releasing the root lock *)
Section DI.
Variable m0 : path -> option Z.    (* the content when the root lock was taken *)
Variable Q : path.                 (* the query of the call *)

(** frame [f] for the node at path [P]; [inprog]: child [dcur f] is being processed *)
Definition frame_inv (h : heap) (P : path) (inprog : bool) (f : dframe) : Prop :=
  resolve h 0 P = Some (dn f) /\
  (exists cs, get_cont h (dn f) = CBranch cs /\
              forall k c, In (k, c) (dtodo f) -> assoc k cs = Some c) /\
  NoDup (keys (dtodo f)) /\
  (inprog = true -> ~ In (dcur f) (keys (dtodo f))) /\
  m0 P = None /\
  (forall k, In k (keys (dtodo f)) -> forall rest, qmatch Q (P ++ k :: rest) = qmatch (dq f) rest) /\
  (forall k, In k (keys (dtodo f)) -> forall rest, absf h (P ++ k :: rest) = m0 (P ++ k :: rest)) /\
  (forall k rest, ~ In k (keys (dtodo f)) -> (inprog = true -> k <> dcur f) ->
     qmatch Q (P ++ k :: rest) = true -> absf h (P ++ k :: rest) = None) /\
  (forall l, In l (dacc f) -> m0 (P ++ l) <> None /\ qmatch Q (P ++ l) = true) /\
  (forall k rest, ~ In k (keys (dtodo f)) -> (inprog = true -> k <> dcur f) ->
     qmatch Q (P ++ k :: rest) = true -> m0 (P ++ k :: rest) <> None -> In (k :: rest) (dacc f)).

Fixpoint frames_inv (h : heap) (fr : list dframe) : Prop :=
  match fr with
  | [] => True
  | f :: fr' => frame_inv h (cpath fr') true f /\ frames_inv h fr'
  end.

(** about to work on node [n] at path [P] with query [qn]: its subtree is untouched *)
Definition node_inv (h : heap) (P : path) (n : nat) (qn : path) : Prop :=
  resolve h 0 P = Some n /\
  (forall rest, qmatch Q (P ++ rest) = qmatch qn rest) /\
  (forall rest, absf h (P ++ rest) = m0 (P ++ rest)).

(** the node at path [P] is done *)
Definition ret_inv (h : heap) (P : path) (del : bool) (ls : list path) : Prop :=
  (forall l, In l ls -> m0 (P ++ l) <> None /\ qmatch Q (P ++ l) = true) /\
  (forall rest, qmatch Q (P ++ rest) = true -> m0 (P ++ rest) <> None -> In rest ls) /\
  (if del
   then (forall rest, rest <> [] -> absf h (P ++ rest) = None) /\
        (absf h P <> None -> qmatch Q P = true)
   else forall rest, qmatch Q (P ++ rest) = true -> absf h (P ++ rest) = None).

Definition glob_inv (h : heap) : Prop :=
  (forall p, absf h p = None \/ absf h p = m0 p) /\
  (forall p, m0 p <> None -> absf h p = None -> qmatch Q p = true).

Definition del_inv (h : heap) (p : pc) : Prop :=
  glob_inv h /\
  match p with
  | PLVisit n qn fr | PLEnter n qn fr | PLCAcq n qn fr =>
      node_inv h (cpath fr) n qn /\ frames_inv h fr
  | PLNext (f :: fr) => frame_inv h (cpath fr) false f /\ frames_inv h fr
  | PLRet del ls fr => ret_inv h (cpath fr) del ls /\ frames_inv h fr
  | PLBack del ls (f :: fr) => ret_inv h (cpath (f :: fr)) del ls /\ frames_inv h (f :: fr)
  | _ => False
  end.

(** ** steps that leave every node's content alone *)
Lemma frame_inv_same h h' P b f :
  (forall n, get_cont h' n = get_cont h n) -> frame_inv h P b f -> frame_inv h' P b f.
Proof.
  intros E (F1 & F2 & F3 & F4 & F5 & F6 & F7 & F8 & F9 & F10).
  unfold frame_inv. rewrite (resolve_ext _ _ E), E.
  split; [exact F1|]. split; [exact F2|]. split; [exact F3|]. split; [exact F4|]. split; [exact F5|].
  split; [exact F6|]. split; [intros; rewrite (absf_same _ _ E); auto|].
  split; [intros; rewrite (absf_same _ _ E); auto|]. split; [exact F9|exact F10].
Qed.

Lemma frames_inv_same h h' fr :
  (forall n, get_cont h' n = get_cont h n) -> frames_inv h fr -> frames_inv h' fr.
Proof.
  intros E. induction fr as [|f fr IH]; cbn; [auto|]. intros [A B]. split; [eapply frame_inv_same; eauto|auto].
Qed.

Lemma node_inv_same h h' P n qn :
  (forall n, get_cont h' n = get_cont h n) -> node_inv h P n qn -> node_inv h' P n qn.
Proof.
  intros E (N1 & N2 & N3). split; [rewrite (resolve_ext _ _ E); auto|].
  split; [exact N2|]. intros; rewrite (absf_same _ _ E); auto.
Qed.

Lemma ret_inv_same h h' P del ls :
  (forall n, get_cont h' n = get_cont h n) -> ret_inv h P del ls -> ret_inv h' P del ls.
Proof.
  intros E (R1 & R2 & R3). split; [exact R1|]. split; [exact R2|]. destruct del.
  - destruct R3 as [A B]. split; intros; rewrite !(absf_same _ _ E) in *; auto.
  - intros; rewrite (absf_same _ _ E); auto.
Qed.

Lemma del_inv_same h h' p :
  (forall n, get_cont h' n = get_cont h n) -> del_inv h p -> del_inv h' p.
Proof.
  intros E [[G1 G2] D]. split.
  - split; intros; rewrite !(absf_same _ _ E) in *; auto.
  - destruct p; try contradiction.
    + destruct D as [N FI]. split; [eapply node_inv_same; eauto|eapply frames_inv_same; eauto].
    + destruct fr as [|f fr]; [contradiction|]. destruct D as [A B].
      split; [eapply frame_inv_same; eauto|eapply frames_inv_same; eauto].
    + destruct D as [N FI]. split; [eapply node_inv_same; eauto|eapply frames_inv_same; eauto].
    + destruct D as [N FI]. split; [eapply node_inv_same; eauto|eapply frames_inv_same; eauto].
    + destruct D as [N FI]. split; [eapply ret_inv_same; eauto|eapply frames_inv_same; eauto].
    + destruct fr as [|f fr]; [contradiction|]. destruct D as [N FI].
      split; [eapply ret_inv_same; eauto|eapply frames_inv_same; eauto].
Qed.

(** ** Delete's own critical sections *)

Lemma ret_none h P n qn :
  node_inv h P n qn ->
  (forall rest, qmatch qn rest = true -> absf h (P ++ rest) = None) ->
  ret_inv h P false [].
Proof.
  intros (N1 & N2 & N3) NM. split; [intros l []|]. split.
  - intros rest M NN. exfalso. apply NN. rewrite <- N3. apply NM. rewrite <- N2. exact M.
  - intros rest M. apply NM. rewrite <- N2. exact M.
Qed.

Lemma visit_step h n qn fr :
  heap_ok h -> tree_shape h -> glob_inv h -> node_inv h (cpath fr) n qn -> frames_inv h fr ->
  fst (local_step h (PLVisit n qn fr)) = h /\ del_inv h (snd (local_step h (PLVisit n qn fr))).
Proof.
  intros HO TS G N FI. assert (N' := N). destruct N' as (N1 & N2 & N3).
  remember (cpath fr) as P eqn:EP.
  assert (ATP : absf h P = m0 P) by (rewrite <- (app_nil_r P) at 1 2; apply N3).
  cbn [local_step]. destruct (heads_all qn) eqn:HA.
  - destruct (get_cont h n) as [|v|cs] eqn:E; cbn [fst snd].
    + split; [reflexivity|]. split; [exact G|]. rewrite <- EP. split; [|exact FI].
      eapply ret_none; [exact N|]. intros [|a rest] _.
      * rewrite app_nil_r. unfold absf. rewrite N1, E. reflexivity.
      * apply (absf_below h P n); auto. rewrite E. exact I.
    + destruct (strip_glob qn) as [|b q'] eqn:SG; cbn [fst snd].
      * split; [reflexivity|]. split; [exact G|]. rewrite <- EP. split; [|exact FI].
        assert (MP : qmatch Q P = true).
        { rewrite <- (app_nil_r P). rewrite N2, qmatch_nil, HA, SG. reflexivity. }
        assert (LF : forall rest, rest <> [] -> absf h (P ++ rest) = None).
        { intros [|a rest] NE; [contradiction|]. apply (absf_below h P n); auto. rewrite E. exact I. }
        split; [|split].
        -- intros l [<-|[]]. rewrite app_nil_r. split; [|exact MP].
           rewrite <- ATP. unfold absf. rewrite N1, E. discriminate.
        -- intros rest M NN. destruct rest as [|a rest]; [left; reflexivity|].
           exfalso. apply NN. rewrite <- N3. apply LF. discriminate.
        -- split; [exact LF|]. intros _. exact MP.
      * split; [reflexivity|]. split; [exact G|]. rewrite <- EP. split; [|exact FI].
        eapply ret_none; [exact N|]. intros [|a rest] M.
        -- rewrite qmatch_nil, HA, SG in M. discriminate.
        -- apply (absf_below h P n); auto. rewrite E. exact I.
    + (* a branch, every child selected *)
      split; [reflexivity|]. split; [exact G|]. rewrite <- EP. split; [|exact FI].
      assert (ND : NoDup (keys cs)) by (destruct TS as [KN _]; eauto).
      unfold frame_inv. cbn [dn dq dcur dtodo dacc].
      split; [exact N1|]. split; [exists cs; split; [exact E|intros k c H; apply assoc_In_iff; auto]|].
      split; [exact ND|]. split; [discriminate|].
      split; [rewrite <- ATP; eapply absf_branch; eauto|].
      split; [intros k _ rest; rewrite N2, qmatch_cons, HA; reflexivity|].
      split; [intros k _ rest; apply N3|].
      split; [intros k rest NI _ _; apply (absf_below h P n); auto; rewrite E; apply assoc_not_in; auto|].
      split; [intros l []|].
      intros k rest NI _ _ NN. exfalso. apply NN. rewrite <- N3.
      apply (absf_below h P n); auto. rewrite E. apply assoc_not_in; auto.
  - assert (NOLEAF : qmatch qn [] = false) by (rewrite qmatch_nil, HA; reflexivity).
    destruct qn as [|k r]; [discriminate|].
    assert (CONS : forall a rest, qmatch (k :: r) (a :: rest) = String.eqb k a && qmatch r rest).
    { intros a rest. rewrite qmatch_cons, HA. reflexivity. }
    destruct (get_cont h n) as [|v|cs] eqn:E; cbn [fst snd].
    + split; [reflexivity|]. split; [exact G|]. rewrite <- EP. split; [|exact FI].
      eapply ret_none; [exact N|]. intros [|a rest] M; [congruence|].
      apply (absf_below h P n); auto. rewrite E. exact I.
    + split; [reflexivity|]. split; [exact G|]. rewrite <- EP. split; [|exact FI].
      eapply ret_none; [exact N|]. intros [|a rest] M; [congruence|].
      apply (absf_below h P n); auto. rewrite E. exact I.
    + destruct (assoc k cs) as [c|] eqn:A; cbn [fst snd].
      * (* a branch, one child selected *)
        split; [reflexivity|]. split; [exact G|]. rewrite <- EP. split; [|exact FI].
        unfold frame_inv. cbn [dn dq dcur dtodo dacc keys map fst].
        split; [exact N1|].
        split; [exists cs; split; [exact E|intros k0 c0 [H|[]]; inv H; exact A]|].
        split; [constructor; [intros []|constructor]|]. split; [discriminate|].
        split; [rewrite <- ATP; eapply absf_branch; eauto|].
        split; [intros k0 [<-|[]] rest; rewrite N2, CONS, String.eqb_refl; reflexivity|].
        split; [intros k0 _ rest; apply N3|].
        split.
        { intros k0 rest NI _ M. rewrite N2, CONS in M. apply andb_true_iff in M. destruct M as [M _].
          apply String.eqb_eq in M. subst k0. exfalso. apply NI. left. reflexivity. }
        split; [intros l []|].
        intros k0 rest NI _ M _. rewrite N2, CONS in M. apply andb_true_iff in M. destruct M as [M _].
        apply String.eqb_eq in M. subst k0. exfalso. apply NI. left. reflexivity.
      * split; [reflexivity|]. split; [exact G|]. rewrite <- EP. split; [|exact FI].
        eapply ret_none; [exact N|]. intros [|a rest] M; [congruence|].
        rewrite CONS in M. apply andb_true_iff in M. destruct M as [M _]. apply String.eqb_eq in M. subst a.
        apply (absf_below h P n); auto. rewrite E. exact A.
Qed.

Lemma next_step h f fr :
  glob_inv h -> frame_inv h (cpath fr) false f -> frames_inv h fr ->
  fst (local_step h (PLNext (f :: fr))) = h /\ del_inv h (snd (local_step h (PLNext (f :: fr)))).
Proof.
  intros G (F1 & (cs & E & F2) & F3 & F4 & F5 & F6 & F7 & F8 & F9 & F10) FI.
  remember (cpath fr) as P eqn:EP. cbn [local_step].
  destruct (dtodo f) as [|[k c] todo] eqn:TD; cbn [fst snd].
  - (* all children done: return *)
    split; [reflexivity|]. split; [exact G|]. rewrite <- EP. split; [|exact FI].
    rewrite E. split; [exact F9|]. split.
    + intros [|k rest] M NN.
      * rewrite app_nil_r in NN. contradiction.
      * apply F10; auto. discriminate.
    + destruct cs as [|kc cs']; cbn [is_nil].
      * split.
        -- intros [|k rest] NE; [contradiction|]. apply (absf_below h P (dn f)); auto. rewrite E. reflexivity.
        -- intros NN. exfalso. apply NN. eapply absf_branch; eauto.
      * intros [|k rest] M.
        -- rewrite app_nil_r. eapply absf_branch; eauto.
        -- apply F8; auto. discriminate.
  - (* next child *)
    cbn [map fst] in *. apply NoDup_cons_iff in F3. destruct F3 as [NI ND].
    split; [reflexivity|]. split; [exact G|]. rewrite cpath_cons. cbn [dcur]. rewrite <- EP. split.
    + split.
      * rewrite resolve_app, F1. cbn. rewrite E. rewrite (F2 k c) by (left; reflexivity). reflexivity.
      * split; intros rest; rewrite <- app_assoc; cbn [app]; [apply F6|apply F7]; left; reflexivity.
    + cbn [frames_inv]. rewrite <- EP. split; [|exact FI].
      unfold frame_inv. cbn [dn dq dcur dtodo dacc].
      split; [exact F1|]. split; [exists cs; split; [exact E|intros k0 c0 H; apply F2; right; exact H]|].
      split; [exact ND|]. split; [intros _; exact NI|]. split; [exact F5|].
      split; [intros k0 H; apply F6; right; exact H|].
      split; [intros k0 H; apply F7; right; exact H|].
      split.
      { intros k0 rest N0 D0 M.
        apply F8; [intros [<-|H]; [apply D0; reflexivity|contradiction]|discriminate|exact M]. }
      split; [exact F9|].
      intros k0 rest N0 D0 M NN.
      apply F10; [intros [<-|H]; [apply D0; reflexivity|contradiction]|discriminate|exact M|exact NN].
Qed.

(** the frames below the one whose node loses a child *)
Lemma frames_inv_shrink h h' X n0 Pn0 k :
  heap_ok h -> tree_shape h ->
  (forall q, absf h' q = if is_prefix X q then None else absf h q) ->
  (forall p, is_prefix X p = false -> resolve h' 0 p = resolve h 0 p) ->
  (forall n, n <> n0 -> get_cont h' n = get_cont h n) ->
  resolve h 0 Pn0 = Some n0 -> X = Pn0 ++ [k] ->
  forall fr s, s <> [] -> X = cpath fr ++ s -> frames_inv h fr -> frames_inv h' fr.
Proof.
  intros HO TS A B C R0 EX. induction fr as [|g fr IH]; intros s NE EQ; cbn [frames_inv]; [auto|].
  intros [(F1 & (cs & E & F2) & F3 & F4 & F5 & F6 & F7 & F8 & F9 & F10) FI].
  rewrite cpath_cons, <- app_assoc in EQ. cbn [app] in EQ.
  split; [|eapply (IH (dcur g :: s)); eauto; discriminate].
  remember (cpath fr) as Pg eqn:EP.
  assert (NP : is_prefix X Pg = false) by (rewrite EQ; apply is_prefix_longer).
  assert (DN : dn g <> n0).
  { intros EN. rewrite EN in F1. pose proof (resolve_inj h HO TS _ _ _ F1 R0) as EE. subst Pn0. rewrite EX in EQ.
    apply app_inv_head in EQ. inv EQ. contradiction. }
  unfold frame_inv. rewrite (B _ NP).
  split; [exact F1|]. split; [exists cs; split; [rewrite (C _ DN); exact E|exact F2]|]. split; [exact F3|]. split; [exact F4|]. split; [exact F5|].
  split; [exact F6|]. split.
  { intros k' Hk rest. rewrite A, EQ. rewrite prefix_diverge; [apply F7; auto|].
    intros ->. apply (F4 eq_refl). exact Hk. }
  split.
  { intros k' rest N0 D0 M. rewrite A. destruct (is_prefix X (Pg ++ k' :: rest)); [reflexivity|]. apply F8; auto. }
  split; [exact F9|exact F10].
Qed.

Lemma glob_inv_shrink h h' X :
  (forall q, absf h' q = if is_prefix X q then None else absf h q) ->
  (forall rest, rest <> [] -> absf h (X ++ rest) = None) -> (absf h X <> None -> qmatch Q X = true) ->
  glob_inv h -> glob_inv h'.
Proof.
  intros A R3a R3b [G1 G2]. split.
  - intros p. rewrite A. destruct (is_prefix X p); auto.
  - intros p NN Z. rewrite A in Z. destruct (is_prefix X p) eqn:IP; [|auto].
    destruct (absf h p) as [v|] eqn:AP; [|apply G2; auto].
    apply is_prefix_spec in IP. destruct IP as [rest ->].
    destruct rest as [|a rest].
    + rewrite app_nil_r in *. apply R3b. congruence.
    + rewrite R3a in AP by discriminate. discriminate.
Qed.

Lemma back_step h del ls f fr :
  heap_ok h -> tree_shape h -> glob_inv h ->
  ret_inv h (cpath (f :: fr)) del ls -> frames_inv h (f :: fr) ->
  del_inv (fst (local_step h (PLBack del ls (f :: fr)))) (snd (local_step h (PLBack del ls (f :: fr)))).
Proof.
  intros HO TS G (R1 & R2 & R3) [(F1 & (cs & E & F2) & F3 & F4 & F5 & F6 & F7 & F8 & F9 & F10) FI].
  rewrite cpath_cons in *. remember (cpath fr) as P eqn:EP. set (k := dcur f) in *.
  cbn [local_step fst snd]. rewrite E.
  (* what does not depend on the heap *)
  assert (A9 : forall l, In l (dacc f ++ map (cons k) ls) -> m0 (P ++ l) <> None /\ qmatch Q (P ++ l) = true).
  { intros l H. apply in_app_or in H. destruct H as [H|H]; [apply F9; auto|].
    apply in_map_iff in H. destruct H as [l' [<- H]]. specialize (R1 _ H).
    rewrite <- app_assoc in R1. exact R1. }
  assert (A10 : forall k0 rest, ~ In k0 (keys (dtodo f)) -> qmatch Q (P ++ k0 :: rest) = true ->
                  m0 (P ++ k0 :: rest) <> None -> In (k0 :: rest) (dacc f ++ map (cons k) ls)).
  { intros k0 rest N0 M NN. apply in_or_app. destruct (String.eqb_spec k0 k) as [->|D].
    - right. apply in_map. apply R2; rewrite <- app_assoc; auto.
    - left. apply F10; auto. }
  destruct del.
  - (* the child is unlinked *)
    destruct R3 as [R3a R3b].
    set (h' := set_cont h (dn f) (CBranch (adel k cs))).
    assert (A : forall q, absf h' q = if is_prefix (P ++ [k]) q then None else absf h q).
    { intros q. apply absf_adel; auto. }
    assert (ND : NoDup (keys cs)) by (destruct TS as [KN _]; eauto).
    assert (B : forall p, is_prefix (P ++ [k]) p = false -> resolve h' 0 p = resolve h 0 p).
    { intros p NP. apply adel_old_resolve; auto. intros q1 r1 -> X.
      pose proof (resolve_inj h HO TS _ _ _ X F1) as EE. subst q1.
      assert (is_prefix (P ++ [k]) (P ++ k :: r1) = true).
      { apply is_prefix_spec. exists r1. rewrite <- app_assoc. reflexivity. }
      congruence. }
    assert (Ln : dn f < List.length h).
    { destruct (Nat.lt_ge_cases (dn f) (List.length h)); auto. rewrite get_cont_oob in E by auto. discriminate. }
    split; [eapply glob_inv_shrink; eauto|]. rewrite <- EP. split.
    + unfold frame_inv. cbn [dn dq dcur dtodo dacc]. fold k.
      rewrite B by (apply (is_prefix_longer P k [])).
      split; [exact F1|]. split.
      { exists (adel k cs). split; [apply get_cont_set_eq; auto|].
        intros k0 c0 H. rewrite assoc_adel by auto.
        destruct (String.eqb_spec k0 k) as [->|D]; [|apply F2; auto].
        exfalso. apply (F4 eq_refl). apply in_map_iff. exists (k, c0). auto. }
      split; [exact F3|]. split; [discriminate|]. split; [exact F5|]. split; [exact F6|]. split.
      { intros k0 H rest. rewrite A. rewrite prefix_diverge; [apply F7; auto|].
        intros ->. apply (F4 eq_refl). exact H. }
      split.
      { intros k0 rest N0 _ M. rewrite A. destruct (is_prefix (P ++ [k]) (P ++ k0 :: rest)) eqn:IP; [reflexivity|].
        apply F8; auto. intros _ ->.
        assert (is_prefix (P ++ [k]) (P ++ k :: rest) = true).
        { apply is_prefix_spec. exists rest. rewrite <- app_assoc. reflexivity. }
        congruence. }
      split; [exact A9|]. intros k0 rest N0 _. apply A10; auto.
    + assert (C : forall n, n <> dn f -> get_cont h' n = get_cont h n).
      { intros n D. apply get_cont_set_neq; auto. }
      apply (frames_inv_shrink h h' (P ++ [k]) (dn f) P k HO TS A B C F1 eq_refl fr [k]);
        [discriminate|rewrite EP; reflexivity|exact FI].
  - (* the child stays *)
    split; [exact G|]. rewrite <- EP. split; [|exact FI].
    unfold frame_inv. cbn [dn dq dcur dtodo dacc]. fold k.
    split; [exact F1|]. split; [exists cs; auto|]. split; [exact F3|]. split; [discriminate|].
    split; [exact F5|]. split; [exact F6|]. split; [exact F7|]. split.
    { intros k0 rest N0 _ M. destruct (String.eqb_spec k0 k) as [->|D]; [|apply F8; auto].
      specialize (R3 rest). rewrite <- app_assoc in R3. apply R3. exact M. }
    split; [exact A9|]. intros k0 rest N0 _. apply A10; auto.
Qed.

End DI.

(** ** the Delete thread's own steps keep the invariant *)

Lemma in_delete_next b h t h' t' :
  in_delete (tpc t) = true -> tstep_gen b h t = Some (h', t') ->
  in_delete (tpc t') = true \/
  (exists del ls, tpc t = PLRet del ls [] /\ tpc t' = PUnwind (UDone (XPaths ls))).
Proof.
  intros D ST. pose proof (tstep_shape _ _ _ _ _ ST) as SH.
  destruct t as [o p hs]. cbn [tpc top held] in *.
  destruct p; try discriminate D; unfold lockop_of in SH; cbn [tpc held] in SH.
  - destruct SH as [_ ->]. cbn [tpc]. left. cbn [local_step].
    destruct (heads_all q).
    + destruct (get_cont h n); cbn; auto. destruct (strip_glob q); cbn; auto.
    + destruct q as [|k r]; cbn; auto. destruct (get_cont h n) as [| |cs]; cbn; auto.
      destruct (assoc k cs); cbn; auto.
  - destruct SH as [_ ->]. cbn [tpc]. left. destruct fr as [|f fr]; cbn; auto.
    destruct (dtodo f) as [|[k c] rest]; cbn; auto.
  - destruct SH as [_ ->]. left. reflexivity.
  - destruct SH as [_ [_ ->]]. left. reflexivity.
  - destruct fr as [|f fr].
    + destruct SH as [_ ->]. right. exists del, ls. split; reflexivity.
    + destruct SH as [n' [m' [hs' [_ [_ ->]]]]]. left. reflexivity.
  - destruct SH as [_ ->]. cbn [tpc]. left. destruct fr as [|f fr]; cbn; auto.
Qed.

Lemma del_step m0 Q b h t h' t' :
  heap_ok h -> tree_shape h ->
  del_inv m0 Q h (tpc t) -> tstep_gen b h t = Some (h', t') -> in_delete (tpc t') = true ->
  del_inv m0 Q h' (tpc t').
Proof.
  intros HO TS D ST D'. pose proof (tstep_shape _ _ _ _ _ ST) as SH.
  destruct t as [o p hs]. cbn [tpc top held] in *.
  destruct p; try (destruct D as [_ []]; fail); unfold lockop_of in SH; cbn [tpc held] in SH.
  - (* internalDelete on a node *)
    destruct SH as [-> ->]. cbn [tpc]. destruct D as [G [N FI]].
    destruct (visit_step m0 Q h n q fr HO TS G N FI) as [E V]. rewrite E. exact V.
  - destruct fr as [|f fr]; [destruct D as [_ []]|].
    destruct SH as [-> ->]. cbn [tpc]. destruct D as [G [N FI]].
    destruct (next_step m0 Q h f fr G N FI) as [E V]. rewrite E. exact V.
  - destruct SH as [-> ->]. cbn [tpc after_lock]. eapply del_inv_same; [|exact D].
    intros; apply get_cont_upd_mu; auto.
  - destruct SH as [_ [-> ->]]. cbn [tpc after_lock]. eapply del_inv_same; [|exact D].
    intros; apply get_cont_upd_mu; auto.
  - destruct fr as [|f fr].
    + destruct SH as [_ ->]. cbn in D'. discriminate.
    + destruct SH as [n' [m' [hs' [_ [-> ->]]]]]. cbn [tpc after_lock].
      eapply (del_inv_same m0 Q h); [intros; destruct m'; apply get_cont_upd_mu; auto|]. exact D.
  - destruct fr as [|f fr]; [destruct D as [_ []]|].
    destruct SH as [-> ->]. cbn [tpc]. destruct D as [G [N FI]].
    apply back_step; auto.
Qed.

(** taking the root lock establishes it *)
Lemma del_inv_init h Q : del_inv (absf h) Q h (PLVisit 0 Q []).
Proof.
  split; [split; [auto|intros p NN Z; contradiction]|].
  split; [|exact I]. split; [reflexivity|]. split; reflexivity.
Qed.

(** releasing it: the whole effect *)
Lemma del_inv_final m0 Q h del ls :
  0 < List.length h -> del_inv m0 Q h (PLRet del ls []) ->
  (forall p, absf (fst (local_step h (PLRet del ls []))) p = if qmatch Q p then None else m0 p) /\
  (forall p, In p ls <-> (m0 p <> None /\ qmatch Q p = true)).
Proof.
  intros L [[G1 G2] [(R1 & R2 & R3) _]]. cbn [cpath rev map app] in *. split.
  - intros p. cbn [local_step fst]. destruct del.
    + destruct R3 as [R3a R3b]. rewrite absf_clear_root by auto.
      destruct (qmatch Q p) eqn:M; [reflexivity|].
      destruct (m0 p) as [v|] eqn:Mp; [|reflexivity]. exfalso.
      destruct (absf h p) as [w|] eqn:Ap.
      * destruct p as [|a p].
        -- rewrite R3b in M by congruence. discriminate.
        -- rewrite (R3a (a :: p)) in Ap by discriminate. discriminate.
      * rewrite G2 in M; congruence.
    + destruct (qmatch Q p) eqn:M; [apply R3; auto|].
      destruct (G1 p) as [Z|Z]; [|exact Z].
      destruct (m0 p) as [v|] eqn:Mp; [|exact Z]. rewrite G2 in M; congruence.
  - intros p. split; [apply R1|]. intros [NN M]. apply R2; auto.
Qed.

(** ** the other threads' steps while a Delete holds the root lock *)
Lemma outside_step_cont hl b h t h' t' :
  thread_ok hl t -> (is_handle_pc (tpc t) = false -> held t = []) ->
  (forall n v, tpc t <> PHUpdWrite n v) ->
  tstep_gen b h t = Some (h', t') -> forall n, get_cont h' n = get_cont h n.
Proof.
  intros [_ [_ P]] NH NU ST. pose proof (tstep_shape _ _ _ _ _ ST) as SH.
  destruct (lockop_of t) eqn:LO.
  - destruct SH as [-> _]. intros n0.
    destruct t as [o p hs]. cbn [tpc top held] in *.
    destruct p; cbn [is_handle_pc] in NH; try (specialize (NH eq_refl); subst hs);
      cbn -[Nat.ltb hdelete set_cont new_chain] in *; try discriminate; try reflexivity;
      try (destruct P as [[r0 Hr] _]; discriminate);
      try (exfalso; eapply NU; reflexivity);
    repeat (first
              [ match goal with |- context [match get_cont ?a ?b with _ => _ end] => destruct (get_cont a b) end
              | match goal with |- context [match assoc ?a ?b with _ => _ end] => destruct (assoc a b) end
              | match goal with |- context [match query_visits ?a ?b with _ => _ end] => destruct (query_visits a b) end
              | match goal with |- context [if heads_all ?a then _ else _] => destruct (heads_all a) end
              | match goal with |- context [match strip_glob ?a with _ => _ end] => destruct (strip_glob a) end
              | match goal with |- context [match dtodo ?a with _ => _ end] => destruct (dtodo a) as [|[? ?] ?] end
              | match goal with |- context [match ?x with _ => _ end] => is_var x; destruct x end ];
            cbn -[Nat.ltb hdelete set_cont new_chain] in *; try discriminate; try reflexivity).
    + destruct P as [_ [n1 [r1 [X _]]]]. discriminate.
    + destruct P as [_ [X _]]. contradiction.
  - destruct SH as [_ [-> _]]. intros; apply get_cont_upd_mu; auto.
  - destruct SH as [-> _]. intros; apply get_cont_upd_mu; auto.
  - destruct SH as [_ [-> _]]. intros; apply get_cont_upd_mu; auto.
  - destruct SH as [n [m [hs [_ [-> _]]]]]. intros; destruct m; apply get_cont_upd_mu; auto.
Qed.

(** * Delete refines the flat specification's delete *)

Definition tpc_of (s : state) (i : nat) : option pc :=
  match nth_error (thr s) i with Some t => Some (tpc t) | None => None end.

Lemma steps_reach ops s1 s2 : reach ops s1 -> steps s1 s2 -> reach ops s2.
Proof.
  intros R H. induction H as [s|s1 s i s' H IH ST]; [exact R|].
  eapply reach_step; [apply IH; exact R|exact ST].
Qed.

Lemma no_hupd_patched ops : forallb no_hupd_op ops = true -> forallb patched_op ops = true.
Proof.
  intros Q. rewrite forallb_forall in *. intros o Ho. specialize (Q o Ho). destruct o; auto; discriminate.
Qed.

(** the state of thread [d]'s Delete: inside with its invariant, or past it *)
Definition del_phase (m0 : path -> option Z) (q : path) (s : state) (d : nat) : Prop :=
  exists td, nth_error (thr s) d = Some td /\
    ((in_delete (tpc td) = true /\ del_inv m0 q (hp s) (tpc td)) \/ res_of (tpc td) <> None).

Lemma del_phase_step ops m0 q s d i s' :
  forallb no_hupd_op ops = true -> reach ops s -> del_phase m0 q s d -> step s i = Some s' ->
  del_phase m0 q s' d.
Proof.
  intros Q R [td [Ed PH]] ST. pose proof (no_hupd_patched _ Q) as QP.
  destruct (reach_Inv _ _ R) as [HO [TO _]]. destruct (reach_TInv _ _ QP R) as [_ [_ TS]].
  assert (ST0 := ST). unfold step, step_gen in ST.
  destruct (nth_error (thr s) i) as [ti|] eqn:Ei; [|discriminate].
  destruct (tstep_gen false (hp s) ti) as [[h' ti']|] eqn:Ets; [|discriminate]. inv ST.
  unfold del_phase. cbn [thr hp]. destruct (Nat.eq_dec i d) as [->|D].
  - rewrite Ed in Ei. inv Ei. exists ti'. split; [eapply nth_error_set_nth_eq; eauto|].
    destruct PH as [[ID DI]|RS].
    + destruct (in_delete_next _ _ _ _ _ ID Ets) as [ID'|[del [ls [_ E']]]].
      * left. split; [exact ID'|]. eapply del_step; eauto.
      * right. rewrite E'. discriminate.
    + right. destruct (res_of (tpc ti)) as [r|] eqn:E0; [|contradiction].
      rewrite (res_closed _ _ _ _ _ _ E0 Ets). discriminate.
  - exists td. split; [rewrite nth_error_set_nth_neq; auto|].
    destruct PH as [[ID DI]|RS]; [|right; exact RS]. left. split; [exact ID|].
    eapply del_inv_same; [|exact DI].
    destruct (delete_atomic_patched ops s d i td ti R (not_eq_sym D) Ed Ei ID) as [NH _].
    eapply outside_step_cont; eauto.
    + eapply Forall_nth_error; eauto.
    + intros n v Pc. destruct (Forall_nth_error _ _ _ _ (reach_fam_ok _ _ R) Ei) as [F _].
      rewrite Pc in F. cbn in F.
      pose proof (nth_error_top _ _ _ _ R Ei) as O. rewrite forallb_forall in Q.
      specialize (Q _ (nth_error_In _ _ O)). destruct (top ti); discriminate.
Qed.

(** A whole Delete(q) -- from the step that takes the root lock in state [s1]
    to its last critical section in state [s2], with any steps of any threads
    in between -- removes exactly the stored paths that [q] selects, leaves every
    other stored path with its value, and returns exactly the removed paths.
    (Programs of Add / GetLeafValue / Query / Walk / Leaf.Value / Delete.) *)
Theorem delete_refines_spec ops s1 d t1 q s1' s2 t2 del ls s2' :
  forallb no_hupd_op ops = true -> reach ops s1 ->
  nth_error (thr s1) d = Some t1 -> tpc t1 = PLDelAcq q -> step s1 d = Some s1' ->
  steps s1' s2 ->
  nth_error (thr s2) d = Some t2 -> tpc t2 = PLRet del ls [] -> step s2 d = Some s2' ->
  (forall p, absf (hp s2') p = if qmatch q p then None else absf (hp s1) p) /\
  (forall p, In p ls <-> (absf (hp s1) p <> None /\ qmatch q p = true)) /\
  tpc_of s2' d = Some (PUnwind (UDone (XPaths ls))).
Proof.
  intros Q R1 E1 P1 ST1 STS E2 P2 ST2.
  set (m0 := absf (hp s1)).
  assert (R1' : reach ops s1') by (econstructor; eauto).
  (* at s1' *)
  assert (PH1 : del_phase m0 q s1' d).
  { unfold step, step_gen in ST1. rewrite E1 in ST1.
    destruct (tstep_gen false (hp s1) t1) as [[h' t1']|] eqn:Ets; [|discriminate]. inv ST1.
    pose proof (tstep_shape _ _ _ _ _ Ets) as SH. unfold lockop_of in SH. rewrite P1 in SH.
    destruct SH as [_ [-> ->]]. eexists.
    split; [eapply nth_error_set_nth_eq; eauto|]. left. cbn [tpc hp after_lock].
    split; [reflexivity|]. eapply del_inv_same; [|apply del_inv_init].
    intros; apply get_cont_upd_mu; auto. }
  assert (PH2 : reach ops s2 /\ del_phase m0 q s2 d).
  { clear E2 P2 ST2. induction STS as [|sa s i s' STS IH ST]; [auto|].
    destruct IH as [Ra PHa]; auto. split; [econstructor; eauto|]. eapply del_phase_step; eauto. }
  destruct PH2 as [R2 [td [Ed PH]]]. rewrite E2 in Ed. inv Ed.
  destruct PH as [[_ DI]|RS]; [|rewrite P2 in RS; cbn in RS; contradiction].
  rewrite P2 in DI. destruct (reach_Inv _ _ R2) as [[L0 _] _].
  destruct (del_inv_final m0 q (hp s2) del ls L0 DI) as [A B].
  unfold step, step_gen in ST2. rewrite E2 in ST2.
  destruct (tstep_gen false (hp s2) td) as [[h' t2']|] eqn:Ets; [|discriminate]. inv ST2.
  pose proof (tstep_shape _ _ _ _ _ Ets) as SH. unfold lockop_of in SH. rewrite P2 in SH.
  destruct SH as [-> ->]. cbn [hp]. split; [exact A|]. split; [exact B|].
  unfold tpc_of. cbn [thr]. erewrite nth_error_set_nth_eq by eauto. cbn [tpc local_step snd visit_override].
  reflexivity.
Qed.

(** * Pruning: every reachable branch has a stored leaf below it

    (what makes "Add finds a branch at its path" a conflict of the flat
    specification).  While a Delete is at work the nodes on its way down -- the
    prefixes of one path -- are exempt. *)
Definition full_at (h : heap) (p : path) : Prop := exists s, s <> [] /\ absf h (p ++ s) <> None.

Definition exm (X : option path) (p : path) : bool :=
  match X with Some x => is_prefix p x | None => false end.

Definition nn (h : heap) : Prop := forall n, 0 < n -> n < List.length h -> get_cont h n <> CNil.

Definition bfp (h : heap) (X : option path) : Prop :=
  nn h /\
  forall p n cs, resolve h 0 p = Some n -> get_cont h n = CBranch cs -> exm X p = false -> full_at h p.

Lemma bfp_weaken h X X' : (forall p, exm X p = true -> exm X' p = true) -> bfp h X -> bfp h X'.
Proof.
  intros W [N B]. split; [exact N|]. intros p n cs R E EX. eapply B; eauto.
  destruct (exm X p) eqn:EE; [rewrite (W _ EE) in EX; discriminate|reflexivity].
Qed.

Lemma bfp_same h h' X :
  List.length h' = List.length h -> (forall n, get_cont h' n = get_cont h n) -> bfp h X -> bfp h' X.
Proof.
  intros L E [N B]. split.
  - intros n H0 H1. rewrite E. apply N; auto. rewrite <- L. exact H1.
  - intros p n cs R En EX. rewrite (resolve_ext _ _ E) in R. rewrite E in En.
    destruct (B p n cs R En EX) as [s [NE A]]. exists s. split; [exact NE|]. rewrite (absf_same _ _ E). exact A.
Qed.

Lemma is_prefix_trans (a b c : path) : is_prefix a b = true -> is_prefix b c = true -> is_prefix a c = true.
Proof.
  intros H1 H2. apply is_prefix_spec in H1. apply is_prefix_spec in H2. destruct H1 as [s1 ->]. destruct H2 as [s2 ->].
  apply is_prefix_spec. exists (s1 ++ s2). rewrite app_assoc. reflexivity.
Qed.

Lemma is_prefix_app (a s : path) : is_prefix a (a ++ s) = true.
Proof. apply is_prefix_spec. eauto. Qed.

Lemma prefix_comparable (a b c : path) :
  is_prefix a c = true -> is_prefix b c = true -> is_prefix a b = true \/ is_prefix b a = true.
Proof.
  revert b c. induction a as [|x a IH]; intros b c H1 H2; [left; reflexivity|].
  destruct b as [|y b]; [right; reflexivity|]. destruct c as [|z c]; [discriminate|].
  cbn in *. apply andb_true_iff in H1. apply andb_true_iff in H2. destruct H1 as [E1 H1]. destruct H2 as [E2 H2].
  apply String.eqb_eq in E1. apply String.eqb_eq in E2. subst. rewrite String.eqb_refl. cbn. eapply IH; eauto.
Qed.

Lemma is_prefix_antisym (a b : path) : is_prefix a b = true -> is_prefix b a = true -> a = b.
Proof.
  intros H1 H2. apply is_prefix_spec in H1. apply is_prefix_spec in H2. destruct H1 as [s1 E1]. destruct H2 as [s2 E2].
  rewrite E1 in E2. rewrite <- app_assoc in E2. rewrite <- (app_nil_r a) in E2 at 1. apply app_inv_head in E2.
  symmetry in E2. apply app_eq_nil in E2. destruct E2 as [-> _]. rewrite app_nil_r in E1. auto.
Qed.

(** terminalAdd's store *)
Lemma bfp_set_leaf h t0 v p0 :
  heap_ok h -> tree_shape h -> t0 < List.length h -> is_branch_c (get_cont h t0) = false ->
  resolve h 0 p0 = Some t0 -> bfp h None -> bfp (set_cont h t0 (CLeaf v)) None.
Proof.
  intros HO TS L B R0 [N BF]. split.
  - intros n H0 H1. rewrite length_set_cont in H1. destruct (Nat.eq_dec n t0) as [->|D].
    + rewrite get_cont_set_eq by auto. discriminate.
    + rewrite get_cont_set_neq by auto. apply N; auto.
  - intros p n cs R E _. rewrite resolve_set_nonbranch in R by auto.
    assert (D : n <> t0) by (intros ->; rewrite get_cont_set_eq in E by auto; discriminate).
    rewrite get_cont_set_neq in E by auto.
    destruct (BF p n cs R E eq_refl) as [s [NE A]]. exists s. split; [exact NE|].
    rewrite (absf_set_leaf_at h t0 v p0) by auto. unfold upd. destruct (path_eqb (p ++ s) p0); [discriminate|exact A].
Qed.

(** slowAdd's insertion of a fresh chain *)
Lemma bfp_alloc h t0 cs0 k r v pre :
  heap_ok h -> tree_shape h -> t0 < List.length h ->
  (get_cont h t0 = CNil /\ cs0 = [] \/ get_cont h t0 = CBranch cs0) -> assoc k cs0 = None ->
  resolve h 0 pre = Some t0 -> bfp h None ->
  bfp (set_cont h t0 (CBranch (cs0 ++ [(k, List.length h)])) ++ new_chain (List.length h) r v) None.
Proof.
  intros HO TS L E0 A0 Rpre [N BF].
  set (L0 := List.length h) in *.
  set (h' := set_cont h t0 (CBranch (cs0 ++ [(k, L0)])) ++ new_chain L0 r v).
  assert (AB : forall q, absf h' q = upd (absf h) (pre ++ k :: r) v q) by (apply absf_alloc; auto).
  assert (INJ := resolve_inj h HO TS).
  assert (NEW : absf h' (pre ++ k :: r) = Some v) by (rewrite AB; unfold upd; rewrite path_eqb_refl; reflexivity).
  assert (MONO : forall q, absf h q <> None -> absf h' q <> None).
  { intros q A. rewrite AB. unfold upd. destruct (path_eqb q (pre ++ k :: r)); [discriminate|exact A]. }
  assert (OLD : forall n, n < L0 -> n <> t0 -> get_cont h' n = get_cont h n).
  { intros n Ln D. apply alloc_old_cont; auto. }
  assert (AT : get_cont h' t0 = CBranch (cs0 ++ [(k, L0)])) by (apply alloc_t0_cont; auto).
  assert (CH : forall i, i <= List.length r ->
            is_branch_c (get_cont h' (L0 + i)) = negb (Nat.eqb i (List.length r)) /\
            (i = List.length r -> get_cont h' (L0 + i) = CLeaf v)).
  { intros i Li. unfold h'. apply chain_content'; auto. apply length_set_cont. }
  assert (LL : List.length h' = L0 + S (List.length r)).
  { unfold h'. rewrite app_length, length_set_cont, length_new_chain. reflexivity. }
  assert (PRE' : resolve h' 0 pre = Some t0).
  { unfold h'. rewrite alloc_old_resolve; auto; [destruct HO; auto|].
    intros q1 r1 Eq X. rewrite (INJ _ _ _ X Rpre) in Eq. eapply app_cons_length_neq; eauto. }
  split.
  - intros n H0 H1. rewrite LL in H1. destruct (Nat.lt_ge_cases n L0) as [Ln|Ln].
    + destruct (Nat.eq_dec n t0) as [->|D]; [rewrite AT; discriminate|].
      rewrite OLD by auto. apply N; auto.
    + destruct (CH (n - L0)) as [X Y]; [lia|].
      replace (L0 + (n - L0)) with n in * by lia.
      destruct (Nat.eqb_spec (n - L0) (List.length r)) as [E|E].
      * rewrite Y by auto. discriminate.
      * cbn in X. destruct (get_cont h' n); try discriminate.
  - intros p n cs R E _.
    destruct (is_prefix (pre ++ [k]) p) eqn:IP.
    + (* inside the fresh chain: its leaf is below *)
      apply is_prefix_spec in IP. destruct IP as [r1 ->]. rewrite <- app_assoc in R. cbn [app] in R.
      rewrite resolve_app, PRE' in R. cbn [resolve] in R. rewrite AT in R.
      rewrite (assoc_app_none _ _ _ A0) in R. unfold h' in R.
      rewrite (chain_resolve' r _ L0 v r1 (length_set_cont _ _ _)) in R.
      destruct (is_prefix r1 r) eqn:IPr; [|discriminate]. injection R as Rn. subst n.
      apply is_prefix_spec in IPr. destruct IPr as [s Es].
      destruct s as [|x s].
      * exfalso. rewrite app_nil_r in Es. subst r1.
        destruct (CH (List.length r) (le_n _)) as [_ Y]. fold h' in E. rewrite Y in E by reflexivity. discriminate.
      * exists (x :: s). split; [discriminate|].
        replace (((pre ++ [k]) ++ r1) ++ x :: s) with (pre ++ k :: r)
          by (rewrite Es, <- !app_assoc; reflexivity).
        rewrite NEW. discriminate.
    + assert (NH : forall q1 r1, p = q1 ++ k :: r1 -> resolve h 0 q1 <> Some t0).
      { intros q1 r1 -> X. rewrite (INJ _ _ _ X Rpre) in IP.
        assert (is_prefix (pre ++ [k]) (pre ++ k :: r1) = true).
        { apply is_prefix_spec. exists r1. rewrite <- app_assoc. reflexivity. }
        congruence. }
      assert (Rq : resolve h' 0 p = resolve h 0 p) by (apply alloc_old_resolve; auto; destruct HO; auto).
      rewrite Rq in R.
      assert (Ln : n < L0) by (eapply (resolve_lt h HO p 0 n); [destruct HO; auto|exact R]).
      destruct (Nat.eq_dec n t0) as [->|D].
      * (* the node that got the new child *)
        rewrite (INJ _ _ _ R Rpre). exists (k :: r). split; [discriminate|]. rewrite NEW. discriminate.
      * rewrite OLD in E by auto. destruct (BF p n cs R E eq_refl) as [s [NE A]].
        exists s. split; [exact NE|]. apply MONO. exact A.
Qed.

(** ** ... and Delete's own steps *)
Definition ex_below (fr : list dframe) : option path :=
  match fr with [] => None | _ :: fr' => Some (cpath fr') end.

Definition exempt (p : pc) : option path :=
  match p with
  | PLVisit _ _ fr | PLEnter _ _ fr | PLCAcq _ _ fr | PLNext fr => ex_below fr
  | PLRet true _ fr | PLBack true _ fr => Some (cpath fr)
  | PLRet false _ fr | PLBack false _ fr => ex_below fr
  | _ => None
  end.

Lemma exm_below_le fr p : exm (ex_below fr) p = true -> exm (Some (cpath fr)) p = true.
Proof.
  destruct fr as [|g fr]; cbn [ex_below exm]; [discriminate|]. intros H. rewrite cpath_cons.
  eapply is_prefix_trans; [exact H|apply is_prefix_app].
Qed.

Lemma prefix_snoc (p X : path) a :
  is_prefix p (X ++ [a]) = true -> is_prefix p X = true \/ p = X ++ [a].
Proof.
  intros H. apply is_prefix_spec in H. destruct H as [s E].
  destruct s as [|x s0] using rev_ind.
  - right. rewrite app_nil_r in E. auto.
  - left. rewrite app_assoc in E. apply app_inj_tail in E. destruct E as [E _].
    apply is_prefix_spec. eauto.
Qed.

(** a node Delete leaves with children still in it is full *)
Lemma bfp_pop m0 Q h f fr cs :
  heap_ok h -> frame_inv m0 Q h (cpath fr) false f -> get_cont h (dn f) = CBranch cs -> cs <> [] ->
  bfp h (Some (cpath fr)) -> bfp h (ex_below fr).
Proof.
  intros HO (F1 & _) E NE [N BF]. split; [exact N|]. set (P := cpath fr) in *.
  intros p n cs2 R E2 EX. destruct (is_prefix p P) eqn:IP; [|eapply BF; eauto].
  assert (p = P).
  { destruct fr as [|g fr']; cbn in EX.
    - unfold P, cpath in IP. cbn in IP. destruct p; [reflexivity|discriminate].
    - unfold P in IP. rewrite cpath_cons in IP. destruct (prefix_snoc _ _ _ IP) as [H|H]; [congruence|].
      unfold P. rewrite cpath_cons. exact H. }
  subst p. destruct cs as [|[k c] cs']; [contradiction|].
  assert (Rc : resolve h 0 (P ++ [k]) = Some c).
  { rewrite resolve_app, F1. cbn. rewrite E. cbn. rewrite String.eqb_refl. reflexivity. }
  destruct HO as [_ HO']. pose proof (HO' _ _ E) as F. inversion F as [|x l [L1 L2] _]; subst. cbn in L1, L2.
  destruct (get_cont h c) as [|w|ds] eqn:Ec.
  - exfalso. eapply (N c); eauto. lia.
  - exists [k]. split; [discriminate|]. unfold absf. rewrite Rc, Ec. discriminate.
  - destruct (BF (P ++ [k]) c ds Rc Ec) as [s [NEs A]]; [apply (is_prefix_longer P k [])|].
    exists (k :: s). split; [discriminate|]. rewrite <- app_assoc in A. exact A.
Qed.

(** unlinking a child whose subtree is empty *)
Lemma bfp_unlink h n cs k P :
  heap_ok h -> tree_shape h -> resolve h 0 P = Some n -> get_cont h n = CBranch cs ->
  bfp h (Some (P ++ [k])) -> bfp (set_cont h n (CBranch (adel k cs))) (Some P).
Proof.
  intros HO TS R0 E [N BF]. set (h' := set_cont h n (CBranch (adel k cs))).
  assert (INJ := resolve_inj h HO TS).
  assert (ND : NoDup (keys cs)) by (destruct TS as [KN _]; eauto).
  assert (Ln : n < List.length h).
  { destruct (Nat.lt_ge_cases n (List.length h)); auto. rewrite get_cont_oob in E by auto. discriminate. }
  assert (A : forall q, absf h' q = if is_prefix (P ++ [k]) q then None else absf h q).
  { intros q. apply absf_adel; auto. }
  assert (B : forall p, is_prefix (P ++ [k]) p = false -> resolve h' 0 p = resolve h 0 p).
  { intros p NP. apply adel_old_resolve; auto. intros q1 r1 -> X.
    pose proof (INJ _ _ _ X R0) as EE. subst q1.
    assert (is_prefix (P ++ [k]) (P ++ k :: r1) = true).
    { apply is_prefix_spec. exists r1. rewrite <- app_assoc. reflexivity. }
    congruence. }
  split.
  - intros m H0 H1. unfold h' in *. rewrite length_set_cont in H1. destruct (Nat.eq_dec m n) as [->|D].
    + rewrite get_cont_set_eq by auto. discriminate.
    + rewrite get_cont_set_neq by auto. apply N; auto.
  - intros p m cs2 R E2 EX. cbn in EX.
    destruct (is_prefix (P ++ [k]) p) eqn:IP.
    + (* below the removed edge nothing is reachable *)
      exfalso. apply is_prefix_spec in IP. destruct IP as [r1 ->]. rewrite <- app_assoc in R. cbn [app] in R.
      rewrite resolve_app in R. rewrite B in R by (apply (is_prefix_longer P k [])). rewrite R0 in R.
      cbn [resolve] in R. unfold h' in R. rewrite get_cont_set_eq in R by auto.
      rewrite assoc_adel in R by auto. rewrite String.eqb_refl in R. discriminate.
    + rewrite B in R by auto.
      assert (D : m <> n).
      { intros ->. rewrite (INJ _ _ _ R R0) in EX. rewrite is_prefix_refl in EX. discriminate. }
      unfold h' in E2. rewrite get_cont_set_neq in E2 by auto.
      assert (EX' : is_prefix p (P ++ [k]) = false).
      { destruct (is_prefix p (P ++ [k])) eqn:IP2; [|reflexivity].
        destruct (prefix_snoc _ _ _ IP2) as [H|H]; [congruence|]. subst p.
        rewrite is_prefix_refl in IP. discriminate. }
      destruct (BF p m cs2 R E2 EX') as [s [NEs As]]. exists s. split; [exact NEs|].
      rewrite A. destruct (is_prefix (P ++ [k]) (p ++ s)) eqn:IP3; [|exact As].
      destruct (prefix_comparable _ _ _ IP3 (is_prefix_app p s)); congruence.
Qed.

Lemma bfp_del_step m0 Q b h t h' t' :
  heap_ok h -> tree_shape h ->
  del_inv m0 Q h (tpc t) -> bfp h (exempt (tpc t)) ->
  tstep_gen b h t = Some (h', t') -> in_delete (tpc t') = true ->
  bfp h' (exempt (tpc t')).
Proof.
  intros HO TS D BF ST D'. pose proof (tstep_shape _ _ _ _ _ ST) as SH.
  destruct t as [o p hs]. cbn [tpc top held] in *.
  destruct p; try (destruct D as [_ []]; fail); unfold lockop_of in SH; cbn [tpc held] in SH.
  - destruct SH as [-> ->]. cbn [tpc exempt] in *. cbn [local_step].
    destruct (heads_all q).
    + destruct (get_cont h n); cbn [fst snd visit_override exempt].
      * exact BF.
      * destruct (strip_glob q); cbn [fst snd visit_override exempt]; [|exact BF].
        eapply bfp_weaken; [apply exm_below_le|exact BF].
      * eapply bfp_weaken; [apply exm_below_le|exact BF].
    + destruct q as [|k r]; cbn [fst snd visit_override exempt]; [exact BF|].
      destruct (get_cont h n) as [| |cs]; cbn [fst snd visit_override exempt]; try exact BF.
      destruct (assoc k cs); cbn [fst snd visit_override exempt]; [|exact BF].
      eapply bfp_weaken; [apply exm_below_le|exact BF].
  - destruct fr as [|f fr]; [destruct D as [_ []]|].
    destruct SH as [-> ->]. cbn [tpc exempt] in *. destruct D as [G [FI FS]].
    assert (FI' := FI). destruct FI' as (F1 & (cs & E & F2) & _).
    cbn [local_step]. destruct (dtodo f) as [|[k c] rest]; cbn [fst snd visit_override exempt ex_below].
    + rewrite E. destruct cs as [|kc cs']; cbn [is_nil exempt]; [exact BF|].
      eapply bfp_pop; eauto. discriminate.
    + exact BF.
  - destruct SH as [-> ->]. cbn [tpc after_lock exempt] in *.
    eapply bfp_same; [| |exact BF]; [apply length_upd_node|intros; apply get_cont_upd_mu; auto].
  - destruct SH as [_ [-> ->]]. cbn [tpc after_lock exempt] in *.
    eapply bfp_same; [| |exact BF]; [apply length_upd_node|intros; apply get_cont_upd_mu; auto].
  - destruct fr as [|f fr].
    + destruct SH as [_ ->]. cbn in D'. discriminate.
    + destruct SH as [n' [m' [hs' [_ [-> ->]]]]]. cbn [tpc after_lock] in *.
      assert (EQ : exempt (PLBack del ls (f :: fr)) = exempt (PLRet del ls (f :: fr))) by (destruct del; reflexivity).
      rewrite EQ.
      eapply bfp_same; [| |exact BF]; [destruct m'; apply length_upd_node|intros; destruct m'; apply get_cont_upd_mu; auto].
  - destruct fr as [|f fr]; [destruct D as [_ []]|].
    destruct SH as [-> ->]. cbn [tpc] in *. destruct D as [G [RI [FI FS]]].
    destruct FI as (F1 & (cs & E & F2) & _).
    cbn [local_step fst snd visit_override exempt ex_below]. destruct del; cbn [exempt ex_below] in *.
    + rewrite E. rewrite cpath_cons in BF. eapply bfp_unlink; eauto.
    + exact BF.
Qed.

Lemma bfp_del_exit h del ls :
  0 < List.length h -> bfp h (exempt (PLRet del ls [])) -> bfp (fst (local_step h (PLRet del ls []))) None.
Proof.
  intros L [N BF]. cbn [local_step fst]. destruct del; [|split; [exact N|exact BF]]. split.
  - intros n H0 H1. rewrite length_set_cont in H1. rewrite get_cont_set_neq by lia. apply N; auto.
  - intros p n cs R E _. exfalso. destruct p as [|a p]; cbn in R.
    + inv R. rewrite get_cont_set_eq in E by auto. discriminate.
    + rewrite get_cont_set_eq in R by auto. discriminate.
Qed.

(** * The fresh chain of an inserting Add stays private also in programs with Delete *)

Lemma tstep_top b h t h' t' : tstep_gen b h t = Some (h', t') -> top t' = top t.
Proof.
  intros ST. pose proof (tstep_shape _ _ _ _ _ ST) as SH.
  destruct (lockop_of t); repeat match goal with
                                 | H : _ /\ _ |- _ => destruct H
                                 | H : exists _, _ |- _ => destruct H
                                 end; subst; reflexivity.
Qed.

Lemma cp_ok_same h h' log i t :
  (forall n, get_cont h' n = get_cont h n) -> cp_ok h log i t -> cp_ok h' log i t.
Proof.
  intros E [C0 C1]. split; [exact C0|]. intros p v t0 p' Tp H W.
  destruct (C1 p v t0 p' Tp H W) as [n [pn [sfx [l [Hn [Rn [NE [Rl [Rt El]]]]]]]]].
  exists n, pn, sfx, l. rewrite !(resolve_ext _ _ E), E. auto 10.
Qed.

Lemma walk_pos_rooted hl t x : thread_ok hl t -> walk_pos t = Some x -> rooted (held t).
Proof.
  intros [_ [_ P]] W. unfold walk_pos in W. destruct (top t); try discriminate;
    destruct (tpc t); try discriminate; cbn in P;
    try (destruct P as [_ [_ [_ P]]]; exact P); try (destruct P as [_ P]; exact P).
Qed.

Lemma not_quiet_is_delete t :
  fam_ok t -> (forall n v, top t <> CHUpdate n v) -> (forall q, top t <> CDeleteUnlocked q) ->
  quiet_pc (tpc t) = false -> exists q, top t = CDelete q.
Proof.
  intros [F S0] NU ND Q. destruct (tpc t) eqn:Pc; try discriminate Q; cbn in F;
    try (destruct (top t); try discriminate; eauto; fail).
  1: { assert (EO := S0 _ eq_refl). subst o. cbn in Q. destruct (top t) eqn:Tp; try discriminate; eauto.
       - exfalso. eapply ND. reflexivity.
       - exfalso. eapply NU. reflexivity. }
  all: destruct (top t); try discriminate; exfalso; first [eapply ND; reflexivity|eapply NU; reflexivity].
Qed.

Lemma no_hupd_top ops s i t :
  forallb no_hupd_op ops = true -> reach ops s -> nth_error (thr s) i = Some t ->
  (forall n v, top t <> CHUpdate n v) /\ (forall q, top t <> CDeleteUnlocked q).
Proof.
  intros Q R Et. pose proof (nth_error_top _ _ _ _ R Et) as O. rewrite forallb_forall in Q.
  specialize (Q _ (nth_error_In _ _ O)). split; intros; intros E; rewrite E in Q; discriminate.
Qed.

Theorem reach_cp_D ops s log :
  forallb no_hupd_op ops = true -> reach_log ops s log ->
  forall i t, nth_error (thr s) i = Some t -> cp_ok (hp s) log i t.
Proof.
  intros Q R. pose proof (no_hupd_patched _ Q) as QP.
  induction R as [|s j s' tj log R IH Ej ST]; intros i t Et.
  - cbn in Et. rewrite nth_error_map in Et. destruct (nth_error ops i); inv Et. split.
    + intros o _ p v [].
    + intros p v t0 p' _ [].
  - pose proof (reach_log_reach _ _ _ R) as Rs.
    assert (I := reach_Inv _ _ Rs). assert (I' := I). destruct I' as [HO [TO _]].
    assert (TI := reach_TInv _ _ QP Rs). assert (TI' := TI). destruct TI' as [[_ [_ WO]] _].
    pose proof (reach_val_ok _ _ Rs) as VO. pose proof (reach_Excl _ _ Rs) as EX.
    assert (ST0 := ST). unfold step, step_gen in ST. rewrite Ej in ST.
    destruct (tstep_gen false (hp s) tj) as [[h' tj']|] eqn:Ets; [|discriminate]. inv ST. cbn [hp thr] in *.
    pose proof (Forall_nth_error _ _ _ _ TO Ej) as Tj.
    pose proof (Forall_nth_error _ _ _ _ (reach_fam_ok _ _ Rs) Ej) as Fj.
    destruct (no_hupd_top _ _ _ _ Q Rs Ej) as [NU NDU].
    destruct (quiet_pc (tpc tj)) eqn:Qj.
    + (* an Add / Get / Query / handle read moves *)
      destruct (Nat.eq_dec j i) as [->|D].
      * erewrite nth_error_set_nth_eq in Et by eauto. inv Et.
        eapply cp_own; eauto.
        -- apply (Forall_nth_error _ _ _ _ WO Ej).
        -- apply (Forall_nth_error _ _ _ _ VO Ej).
        -- eapply tstep_cont_mono; eauto.
      * rewrite nth_error_set_nth_neq in Et by auto.
        assert (C : cp_ok h' log i t) by (eapply (cp_other_gen s log i j t tj); eauto).
        destruct (is_write (hp s) tj) as [[p0 v0]|]; [|exact C].
        destruct C as [C0 C1]. split.
        -- intros o Pc p v H. apply in_app_or in H. destruct H as [H|[H|[]]]; [eapply C0; eauto|].
           inv H. contradiction.
        -- intros p v t0 p' Tp H W. apply in_app_or in H. destruct H as [H|[H|[]]]; [eapply C1; eauto|].
           inv H. contradiction.
    + (* a Delete moves: it writes nothing into the log *)
      destruct (not_quiet_is_delete tj Fj NU NDU Qj) as [qd Td].
      assert (W : is_write (hp s) tj = None) by (unfold is_write; rewrite Td; reflexivity).
      rewrite W. destruct (Nat.eq_dec j i) as [->|D].
      * erewrite nth_error_set_nth_eq in Et by eauto. inv Et. split.
        -- intros o Pc. exfalso. eapply step_not_start; eauto.
        -- intros p v t0 p' Tp. rewrite (tstep_top _ _ _ _ _ Ets), Td in Tp. discriminate.
      * rewrite nth_error_set_nth_neq in Et by auto. specialize (IH i t Et).
        destruct (in_delete (tpc tj)) eqn:ID.
        -- (* inside the tree: nobody else is *)
           destruct IH as [C0 C1]. split; [exact C0|]. intros p v t0 p' Tp H Wk. exfalso.
           destruct (C1 p v t0 p' Tp H Wk) as [n [_ [_ [_ [Hn _]]]]].
           pose proof (Forall_nth_error _ _ _ _ TO Et) as Ti.
           destruct (walk_pos_rooted _ _ _ Ti Wk) as [E0|[m Hm]]; [rewrite E0 in Hn; destruct Hn|].
           eapply (excl_pair s j i tj t 0 m); eauto.
           eapply in_delete_holds_root; eauto.
        -- eapply cp_ok_same; [|exact IH].
           eapply outside_step_cont; eauto.
           ++ intros _. destruct Tj as [_ [_ P]]. destruct Fj as [Ff _]. rewrite Td in Ff.
              destruct (tpc tj); try discriminate Qj; try discriminate ID; cbn in P; auto;
                cbn in Ff; discriminate.
           ++ intros n v Pc. destruct Fj as [Ff _]. rewrite Pc, Td in Ff. discriminate.
Qed.

(** * Forward simulation to the flat specification: Add and Delete *)

Lemma lin_event_inside hl h log i t r :
  thread_ok hl t -> lin_event h log i t = Some r -> held t <> [].
Proof.
  intros [_ [_ P]] L. unfold lin_event in L. destruct (top t); try discriminate;
    destruct (tpc t); try discriminate; cbn in P;
    first [destruct P as [[rr Hr] _]; rewrite Hr; discriminate|rewrite P; discriminate].
Qed.

(** the query in Delete's first program counters is the query of the call *)
Definition dtop_ok (t : thread) : Prop :=
  match tpc t with PLDel q | PLDelAcq q => top t = CDelete q | _ => True end.

Lemma tstep_dtop_ok b h t h' t' :
  fam_ok t -> dtop_ok t -> tstep_gen b h t = Some (h', t') -> dtop_ok t'.
Proof.
  intros [F S0] DT ST. pose proof (tstep_shape _ _ _ _ _ ST) as SH.
  destruct t as [o p hs]. unfold dtop_ok in *. cbn [tpc top held] in *.
  destruct (lockop_of (TH o p hs)) eqn:LO.
  - destruct SH as [_ ->]. cbn [tpc top].
    destruct p; cbn -[Nat.ltb hdelete set_cont new_chain] in *; try discriminate; auto;
    try (rewrite (S0 _ eq_refl));
    repeat (first
              [ match goal with |- context [start_pc ?a ?b] => destruct b end
              | match goal with |- context [match get_cont ?a ?b with _ => _ end] => destruct (get_cont a b) end
              | match goal with |- context [match assoc ?a ?b with _ => _ end] => destruct (assoc a b) end
              | match goal with |- context [if Nat.ltb ?a ?b then _ else _] => destruct (Nat.ltb a b) end
              | match goal with |- context [if Nat.eqb ?a ?b then _ else _] => destruct (Nat.eqb a b) end
              | match goal with |- context [match query_visits ?a ?b with _ => _ end] => destruct (query_visits a b) end
              | match goal with |- context [if heads_all ?a then _ else _] => destruct (heads_all a) end
              | match goal with |- context [match strip_glob ?a with _ => _ end] => destruct (strip_glob a) end
              | match goal with |- context [match dtodo ?a with _ => _ end] => destruct (dtodo a) as [|[? ?] ?] end
              | match goal with |- context [match ?x with _ => _ end] => is_var x; destruct x end ];
            cbn -[Nat.ltb hdelete set_cont new_chain] in *; try discriminate; auto).
  - destruct SH as [_ [_ ->]]. cbn [tpc top]. destruct p; cbn in *; try discriminate; auto; qfin.
  - destruct SH as [_ ->]. cbn [tpc top]. destruct p; cbn in *; try discriminate; auto; qfin.
  - destruct SH as [_ [_ ->]]. cbn [tpc top]. destruct p; cbn in *; try discriminate; auto; qfin.
  - destruct SH as [n [m [hs' [_ [_ ->]]]]]. cbn [tpc top]. destruct p; cbn in *; try discriminate; auto; qfin.
Qed.

Lemma reach_dtop_ok ops s : reach ops s -> Forall dtop_ok (thr s).
Proof.
  induction 1 as [|s i s' R IH ST].
  - cbn. apply Forall_forall. intros t Ht. apply in_map_iff in Ht. destruct Ht as [o [<- _]]. exact I.
  - pose proof (reach_fam_ok _ _ R) as FO. unfold step, step_gen in ST.
    destruct (nth_error (thr s) i) as [t|] eqn:Et; [|discriminate].
    destruct (tstep_gen false (hp s) t) as [[h' t']|] eqn:Ets; [|discriminate]. inv ST. cbn [thr].
    apply Forall_forall. intros t0 H0. apply In_set_nth in H0. destruct H0 as [->|H0].
    + eapply tstep_dtop_ok; [| |exact Ets]; eapply Forall_nth_error; eauto.
    + rewrite Forall_forall in IH. auto.
Qed.

(** which steps change the content of a node (no Delete at work, no Leaf.Update) *)
Lemma tstep_cont_cases b h t h' t' :
  tstep_gen b h t = Some (h', t') -> in_delete (tpc t) = false ->
  (forall n v, tpc t <> PHUpdWrite n v) -> (forall q, tpc t <> PDelCrit q) ->
  (List.length h' = List.length h /\ forall n, get_cont h' n = get_cont h n) \/
  (exists t0 v, tpc t = PAddTCrit t0 v /\ is_branch_c (get_cont h t0) = false /\ h' = set_cont h t0 (CLeaf v)) \/
  (exists t0 k r v cs0, tpc t = PAddSlow t0 k r v /\
     (get_cont h t0 = CNil /\ cs0 = [] \/ get_cont h t0 = CBranch cs0) /\ assoc k cs0 = None /\
     h' = set_cont h t0 (CBranch (cs0 ++ [(k, List.length h)])) ++ new_chain (List.length h) r v).
Proof.
  intros ST ID NU ND. pose proof (tstep_shape _ _ _ _ _ ST) as SH.
  destruct (lockop_of t) eqn:LO.
  - destruct SH as [-> _]. destruct t as [o p hs]. cbn [tpc top held] in *.
    destruct p; try discriminate ID; try (left; split; [reflexivity|reflexivity]);
      cbn -[set_cont new_chain hdelete].
    + destruct (get_cont h t) eqn:E; cbn -[set_cont]; [| |left; split; reflexivity].
      * right; left. exists t, v. rewrite E. auto.
      * right; left. exists t, v. rewrite E. auto.
    + left. destruct (get_cont h t) as [| |cs]; cbn; [split; reflexivity|split; reflexivity|].
      destruct (assoc k cs); split; reflexivity.
    + destruct (get_cont h t) as [| |cs] eqn:E; cbn -[set_cont new_chain].
      * right; right. exists t, k, r, v, []. rewrite E. cbn [app]. auto 6.
      * left. split; reflexivity.
      * destruct (assoc k cs) eqn:A; cbn -[set_cont new_chain]; [left; split; reflexivity|].
        right; right. exists t, k, r, v, cs. rewrite E. auto 6.
    + left. destruct p as [|k r]; cbn; [split; reflexivity|].
      destruct (get_cont h t) as [| |cs]; cbn; try (split; reflexivity). destruct (assoc k cs); split; reflexivity.
    + left. destruct k; split; reflexivity.
    + exfalso. eapply NU; reflexivity.
    + exfalso. eapply ND; reflexivity.
    + left. destruct (query_visits (get_cont h t) q); split; reflexivity.
    + left. destruct fr as [|[|[[c pre0] q0] todo] fr]; split; reflexivity.
  - destruct SH as [_ [-> _]]. left. split; [apply length_upd_node|intros; apply get_cont_upd_mu; auto].
  - destruct SH as [-> _]. left. split; [apply length_upd_node|intros; apply get_cont_upd_mu; auto].
  - destruct SH as [_ [-> _]]. left. split; [apply length_upd_node|intros; apply get_cont_upd_mu; auto].
  - destruct SH as [n [m [hs [_ [-> _]]]]]. left. split; [destruct m; apply length_upd_node|intros; destruct m; apply get_cont_upd_mu; auto].
Qed.

(** ** Add's linearization step in programs with Delete *)

Theorem add_failure_point_branch_at_D ops s i t p v t0 v' cs :
  forallb patched_op ops = true -> reach ops s -> bfp (hp s) None ->
  nth_error (thr s) i = Some t -> top t = CAdd p v -> tpc t = PAddTCrit t0 v' ->
  get_cont (hp s) t0 = CBranch cs ->
  exists q, strict_prefix p q = true /\ absf (hp s) q <> None.
Proof.
  intros QP R [_ BF] Et Tp Pc E.
  destruct (walk_pos_resolve s i t p t0 [] (reach_TInv _ _ QP R) Et) as [pre [Ep Rp]].
  { unfold walk_pos. rewrite Tp, Pc. reflexivity. }
  rewrite app_nil_r in Ep. subst pre.
  destruct (BF p t0 cs Rp E eq_refl) as [sf [NE A]].
  exists (p ++ sf). split; [|exact A].
  unfold strict_prefix. apply andb_true_iff. split.
  - apply is_prefix_spec. eauto.
  - apply negb_true_iff. apply path_eqb_neq. destruct sf; [contradiction|]. apply app_cons_length_neq.
Qed.

Theorem add_rewalk_store_is_noop_D ops s log i t p v t0 v' :
  forallb no_hupd_op ops = true -> reach_log ops s log ->
  nth_error (thr s) i = Some t -> top t = CAdd p v -> tpc t = PAddTCrit t0 v' ->
  In (i, p, v) log ->
  get_cont (hp s) t0 = CLeaf v /\ absf (hp s) p = Some v.
Proof.
  intros Q R Et Tp Pc H.
  destruct (reach_cp_D _ _ _ Q R i t Et) as [_ C1].
  destruct (C1 p v t0 [] Tp H) as [n [pn [sfx [l [_ [_ [_ [_ [Rt El]]]]]]]]].
  { unfold walk_pos. rewrite Tp, Pc. reflexivity. }
  cbn in Rt. inv Rt. split; [exact El|].
  destruct (walk_pos_resolve s i t p l [] (reach_TInv _ _ (no_hupd_patched _ Q) (reach_log_reach _ _ _ R)) Et)
    as [pre [Ep Rp]].
  { unfold walk_pos. rewrite Tp, Pc. reflexivity. }
  rewrite app_nil_r in Ep. subst pre. unfold absf. rewrite Rp, El. reflexivity.
Qed.

Lemma lin_step_sim_add_D ops s log i t s' p v :
  forallb no_hupd_op ops = true -> reach_log ops s log -> bfp (hp s) None ->
  nth_error (thr s) i = Some t -> top t = CAdd p v -> step s i = Some s' ->
  match lin_event (hp s) log i t with
  | Some r => spec_step (absf (hp s)) (top t) r (absf (hp s'))
  | None => forall q, absf (hp s') q = absf (hp s) q
  end.
Proof.
  intros Q RL BF Et Tp ST. pose proof (reach_log_reach _ _ _ RL) as R.
  pose proof (no_hupd_patched _ Q) as QP.
  pose proof (reach_TInv _ _ QP R) as TI. pose proof (reach_val_ok _ _ R) as VO.
  pose proof (Forall_nth_error _ _ _ _ VO Et) as V.
  pose proof (Forall_nth_error _ _ _ _ (reach_fam_ok _ _ R) Et) as [Ff _]. rewrite Tp in Ff.
  pose proof (step_abs_effect s i s' t TI VO ST Et) as EF.
  assert (EFF : (is_write (hp s) t = None /\ forall q, absf (hp s') q = absf (hp s) q) \/
                (exists p v, is_write (hp s) t = Some (p, v) /\ top t = CAdd p v /\
                             forall q, absf (hp s') q = upd (absf (hp s)) p v q)).
  { destruct EF as [W E|p9 v9 W Tp9 E|n v9 Pc _|D _]; [left; auto|right; eauto| |].
    - rewrite Pc in Ff. discriminate.
    - destruct (tpc t); try discriminate D; discriminate Ff. }
  clear EF.
  unfold lin_event. rewrite Tp.
    destruct (tpc t) eqn:Pc;
      try (destruct EFF as [[_ E]|[p9 [v9 [W _]]]]; [exact E|];
           unfold is_write in W; rewrite Tp, Pc in W; discriminate).
    + (* terminalAdd *)
      unfold val_ok in V. rewrite Pc, Tp in V. cbn in V. subst v0.
      destruct (is_branch_c (get_cont (hp s) t0)) eqn:B.
      * right; left. exists p, v. split; [auto|]. split; [auto|]. split.
        -- destruct (get_cont (hp s) t0) as [| |cs] eqn:E; try discriminate.
           destruct (add_failure_point_branch_at_D ops s i t p v t0 v cs QP R BF Et Tp Pc E) as [q [H N]].
           exists q. auto.
        -- destruct EFF as [[_ E]|[p9 [v9 [W _]]]]; [exact E|].
           unfold is_write in W. rewrite Tp, Pc, B in W. discriminate.
      * destruct (written log i) eqn:Wr.
        -- destruct (written_In _ _ _ _ _ RL Et Wr) as [p1 [v1 [Tp1 H1]]]. rewrite Tp in Tp1. inv Tp1.
           destruct (add_rewalk_store_is_noop_D ops s log i t p1 v1 t0 v1 Q RL Et Tp Pc H1) as [_ A].
           destruct EFF as [[_ E]|[p9 [v9 [W [Tp0 E]]]]]; [exact E|]. try rewrite Tp in Tp0. inv Tp0.
           intros q. rewrite E. unfold upd. destruct (path_eqb_spec q p9) as [->|]; auto.
        -- left. exists p, v. split; [auto|]. split; [auto|].
           eapply add_success_point; eauto.
    + (* intermediateAdd's read *)
      destruct (get_cont (hp s) t0) as [|w|cs] eqn:E.
      * destruct EFF as [[_ E']|[p9 [v9 [W _]]]]; [exact E'|]. unfold is_write in W. rewrite Tp, Pc in W. discriminate.
      * right; left. exists p, v. split; [auto|]. split; [auto|]. split.
        -- destruct (add_failure_point_leaf_above ops s i t p v t0 k r v0 R Et Tp (or_introl Pc)) as [q [H N]]; [eauto|].
           exists q. auto.
        -- destruct EFF as [[_ E']|[p9 [v9 [W _]]]]; [exact E'|]. unfold is_write in W. rewrite Tp, Pc in W. discriminate.
      * destruct EFF as [[_ E']|[p9 [v9 [W _]]]]; [exact E'|]. unfold is_write in W. rewrite Tp, Pc in W. discriminate.
    + (* slowAdd *)
      unfold val_ok in V. rewrite Pc, Tp in V. cbn in V. subst v0.
      destruct (walk_pos_resolve s i t p t0 (k :: r) TI Et) as [pre [Ep Rp]].
      { unfold walk_pos. rewrite Tp, Pc. reflexivity. }
      assert (INS : match get_cont (hp s) t0 with
                    | CNil => True | CBranch cs => assoc k cs = None | CLeaf _ => False end ->
                    spec_step (absf (hp s)) (CAdd p v) (XAdd true) (absf (hp s'))).
      { intros C. left. exists p, v. split; [auto|]. split; [auto|]. split.
        - subst p. eapply conflict_free_insert; eauto.
        - destruct EFF as [[W _]|[p9 [v9 [W [Tp0 E']]]]].
          + unfold is_write in W. rewrite Tp, Pc in W.
            destruct (get_cont (hp s) t0) as [| |cs]; try discriminate; try contradiction.
            rewrite C in W. discriminate.
          + try rewrite Tp in Tp0. inv Tp0. exact E'. }
      destruct (get_cont (hp s) t0) as [|w|cs] eqn:E.
      * apply INS. exact I.
      * right; left. exists p, v. split; [auto|]. split; [auto|]. split.
        -- destruct (add_failure_point_leaf_above ops s i t p v t0 k r v R Et Tp (or_intror Pc)) as [q [H N]]; [eauto|].
           exists q. auto.
        -- destruct EFF as [[_ E']|[p9 [v9 [W _]]]]; [exact E'|].
           unfold is_write in W. rewrite Tp, Pc, E in W. discriminate.
      * destruct (assoc k cs) eqn:A.
        -- destruct EFF as [[_ E']|[p9 [v9 [W _]]]]; [exact E'|].
           unfold is_write in W. rewrite Tp, Pc, E, A in W. discriminate.
        -- apply INS; auto.
Qed.

(** ** the specification with Delete, and the simulation *)

Definition lin_event_D (h : heap) (log : list (nat * path * Z)) (i : nat) (t : thread) : option cres :=
  match top t with
  | CAdd _ _ => lin_event h log i t
  | CDelete _ => match tpc t with PLRet _ ls [] => Some (XPaths ls) | _ => None end
  | _ => None
  end.

(** one sequential step of the flat prefix-free map: Add as in [spec_step];
    Delete(q) removes exactly the stored paths [q] selects and returns them *)
Definition spec_step_D (m : path -> option Z) (o : cop) (r : cres) (m' : path -> option Z) : Prop :=
  (exists p v, o = CAdd p v /\ r = XAdd true /\ conflict_free m p /\ forall q, m' q = upd m p v q) \/
  (exists p v, o = CAdd p v /\ r = XAdd false /\ conflicting m p /\ forall q, m' q = m q) \/
  (exists q ls, o = CDelete q /\ r = XPaths ls /\
                (forall p, In p ls <-> (m p <> None /\ qmatch q p = true)) /\
                forall p, m' p = if qmatch q p then None else m p).

Inductive spec_run_D : (path -> option Z) -> list (cop * cres) -> (path -> option Z) -> Prop :=
| srd_nil m m' : (forall q, m' q = m q) -> spec_run_D m [] m'
| srd_snoc m l m1 o r m2 : spec_run_D m l m1 -> spec_step_D m1 o r m2 -> spec_run_D m (l ++ [(o, r)]) m2.

Lemma spec_step_D_ext m1 m2 o r m' m'' :
  (forall q, m1 q = m2 q) -> (forall q, m' q = m'' q) -> spec_step_D m1 o r m' -> spec_step_D m2 o r m''.
Proof.
  intros E E' [[p [v [-> [-> [C U]]]]]|[[p [v [-> [-> [C U]]]]]|[q [ls [-> [-> [L U]]]]]]].
  - left. exists p, v. repeat split; auto.
    + intros q H. rewrite <- E. apply C; auto.
    + intros q. rewrite <- E', U. unfold upd. rewrite E. reflexivity.
  - right; left. exists p, v. repeat split; auto.
    + destruct C as [q [H N]]. exists q. split; auto. rewrite <- E. exact N.
    + intros q. rewrite <- E', U. apply E.
  - right; right. exists q, ls. split; [reflexivity|]. split; [reflexivity|]. split.
    + intros p. rewrite <- E. apply L.
    + intros p. rewrite <- E', U, E. reflexivity.
Qed.

Lemma spec_run_D_ext m l m1 m2 : (forall q, m1 q = m2 q) -> spec_run_D m l m1 -> spec_run_D m l m2.
Proof.
  intros E R. destruct R as [m m' H|m l m1' o r m2' R S].
  - constructor. intros q. rewrite <- E. apply H.
  - econstructor; [exact R|]. eapply spec_step_D_ext; [reflexivity|exact E|exact S].
Qed.

Lemma spec_to_D m o r m' : spec_step m o r m' -> (forall p, o <> CGetVal p) -> spec_step_D m o r m'.
Proof.
  intros [A|[B|[p [-> _]]]] N; [left; exact A|right; left; exact B|exfalso; eapply N; reflexivity].
Qed.

Inductive reach_lin_D (ops : list cop) : state -> list (nat * path * Z) -> list (nat * cres) -> Prop :=
| rld_init : reach_lin_D ops (init_state ops) [] []
| rld_step s i s' t log ev :
    reach_lin_D ops s log ev -> nth_error (thr s) i = Some t -> step s i = Some s' ->
    reach_lin_D ops s'
      (match is_write (hp s) t with Some (p, v) => log ++ [(i, p, v)] | None => log end)
      (match lin_event_D (hp s) log i t with Some r => ev ++ [(i, r)] | None => ev end).

Lemma reach_lin_D_log ops s log ev : reach_lin_D ops s log ev -> reach_log ops s log.
Proof. induction 1; [constructor|econstructor; eauto]. Qed.

Lemma reach_reach_lin_D ops s : reach ops s -> exists log ev, reach_lin_D ops s log ev.
Proof.
  induction 1 as [|s i s' R [log [ev IH]] ST]; [exists [], []; constructor|].
  unfold step, step_gen in ST. destruct (nth_error (thr s) i) as [t|] eqn:Et; [|discriminate].
  eexists. eexists. eapply (rld_step ops s i s' t); eauto. unfold step, step_gen. rewrite Et. exact ST.
Qed.

Definition nobody_in (s : state) : Prop :=
  forall d td, nth_error (thr s) d = Some td -> in_delete (tpc td) = false.

(** the abstract state [m] that goes with a concrete state: the stored content,
    or -- while a Delete is at work -- the content when it took the root lock *)
Definition sim_rel (m : path -> option Z) (s : state) : Prop :=
  (nobody_in s /\ (forall q, m q = absf (hp s) q) /\ bfp (hp s) None) \/
  (exists d td qd, nth_error (thr s) d = Some td /\ in_delete (tpc td) = true /\ top td = CDelete qd /\
     del_inv m qd (hp s) (tpc td) /\ bfp (hp s) (exempt (tpc td))).

Lemma lin_event_D_none_outside hl h log i t :
  thread_ok hl t -> held t = [] -> lin_event_D h log i t = None.
Proof.
  intros TO H0. unfold lin_event_D. destruct (top t); auto.
  - destruct (lin_event h log i t) eqn:L; [|reflexivity]. exfalso. eapply lin_event_inside; eauto.
  - destruct TO as [_ [_ P]]. destruct (tpc t); auto. destruct fr; auto. cbn in P.
    destruct P as [_ [n [r [X _]]]]. rewrite H0 in X. discriminate.
Qed.

Lemma enter_delete b h t h' t' :
  tstep_gen b h t = Some (h', t') -> in_delete (tpc t) = false -> in_delete (tpc t') = true ->
  exists q, tpc t = PLDelAcq q /\ tpc t' = PLVisit 0 q [] /\
            List.length h' = List.length h /\ forall n, get_cont h' n = get_cont h n.
Proof.
  intros ST ID ID'. pose proof (tstep_shape _ _ _ _ _ ST) as SH.
  destruct t as [o p hs]. cbn [tpc top held] in *.
  destruct (lockop_of (TH o p hs)) eqn:LO.
  - exfalso. destruct SH as [_ ->]. cbn [tpc] in ID'.
    destruct p; cbn -[Nat.ltb hdelete set_cont new_chain] in *; try discriminate;
    repeat (first
              [ match goal with H : context [start_pc ?a ?b] |- _ => destruct b end
              | match goal with H : context [match get_cont ?a ?b with _ => _ end] |- _ => destruct (get_cont a b) end
              | match goal with H : context [match assoc ?a ?b with _ => _ end] |- _ => destruct (assoc a b) end
              | match goal with H : context [if Nat.ltb ?a ?b then _ else _] |- _ => destruct (Nat.ltb a b) end
              | match goal with H : context [if Nat.eqb ?a ?b then _ else _] |- _ => destruct (Nat.eqb a b) end
              | match goal with H : context [match query_visits ?a ?b with _ => _ end] |- _ => destruct (query_visits a b) end
              | match goal with H : context [match ?x with _ => _ end] |- _ => is_var x; destruct x end ];
            cbn -[Nat.ltb hdelete set_cont new_chain] in *; try discriminate).
  - exfalso. destruct SH as [_ [_ ->]]. cbn [tpc] in ID'. destruct p; cbn in *; try discriminate; qfin.
  - exfalso. destruct SH as [_ ->]. cbn [tpc] in ID'. destruct p; cbn in *; try discriminate; qfin.
  - destruct SH as [_ [-> ->]]. cbn [tpc] in ID'. destruct p; cbn in *; try discriminate; qfin.
    inv LO. exists q. repeat split; auto; [apply length_upd_node|intros; apply get_cont_upd_mu; auto].
  - exfalso. destruct SH as [n [m [hs' [_ [_ ->]]]]]. cbn [tpc] in ID'. destruct p; cbn in *; try discriminate; qfin.
Qed.

Lemma plret_exit b h t h' t' del ls :
  tpc t = PLRet del ls [] -> tstep_gen b h t = Some (h', t') ->
  tpc t' = PUnwind (UDone (XPaths ls)) /\ h' = fst (local_step h (PLRet del ls [])).
Proof.
  intros Pc ST. pose proof (tstep_shape _ _ _ _ _ ST) as SH. unfold lockop_of in SH. rewrite Pc in SH.
  destruct SH as [-> ->]. split; reflexivity.
Qed.

Lemma sim_step ops s log i t s' m :
  forallb no_hupd_op ops = true -> reach_log ops s log ->
  nth_error (thr s) i = Some t -> step s i = Some s' -> sim_rel m s ->
  match lin_event_D (hp s) log i t with
  | Some r => exists m', spec_step_D m (top t) r m' /\ sim_rel m' s'
  | None => exists m', (forall q, m' q = m q) /\ sim_rel m' s'
  end.
Proof.
  intros Q RL Et ST SR. pose proof (reach_log_reach _ _ _ RL) as R.
  pose proof (no_hupd_patched _ Q) as QP.
  assert (I := reach_Inv _ _ R). assert (I' := I). destruct I' as [HO [TO _]].
  destruct (reach_TInv _ _ QP R) as [_ [_ TS]].
  pose proof (Forall_nth_error _ _ _ _ TO Et) as Tt.
  pose proof (Forall_nth_error _ _ _ _ (reach_fam_ok _ _ R) Et) as Ft.
  pose proof (Forall_nth_error _ _ _ _ (reach_dtop_ok _ _ R) Et) as Dt.
  destruct (no_hupd_top _ _ _ _ Q R Et) as [NU NDU].
  assert (NUpc : forall n v, tpc t <> PHUpdWrite n v).
  { intros n v Pc. destruct Ft as [Ff _]. rewrite Pc in Ff. cbn in Ff.
    destruct (top t) eqn:Tp; try discriminate. eapply NU; reflexivity. }
  assert (NDpc : forall q, tpc t <> PDelCrit q).
  { intros q Pc. destruct Ft as [Ff _]. rewrite Pc in Ff. cbn in Ff.
    destruct (top t) eqn:Tp; try discriminate. eapply NDU; reflexivity. }
  assert (ST0 := ST). unfold step, step_gen in ST. rewrite Et in ST.
  destruct (tstep_gen false (hp s) t) as [[h' t']|] eqn:Ets; [|discriminate]. inv ST.
  pose proof (tstep_top _ _ _ _ _ Ets) as TOP.
  destruct SR as [[NB [EQ BF]]|[d [td [qd [Ed [ID [Td [DI BFd]]]]]]]].
  - (* no Delete at work *)
    pose proof (NB _ _ Et) as IDt.
    destruct (in_delete (tpc t')) eqn:ID'.
    + (* a Delete takes the root lock *)
      destruct (enter_delete _ _ _ _ _ Ets IDt ID') as [q [Pc [Pc' [LL SAME]]]].
      unfold dtop_ok in Dt. rewrite Pc in Dt.
      unfold lin_event_D. rewrite Dt, Pc.
      exists (absf (hp s)). split; [intros q0; symmetry; apply EQ|]. right.
      exists i, t', q. cbn [thr hp]. split; [eapply nth_error_set_nth_eq; eauto|].
      split; [exact ID'|]. split; [congruence|]. rewrite Pc'. split.
      * eapply del_inv_same; [exact SAME|apply del_inv_init].
      * cbn [exempt ex_below]. eapply bfp_same; eauto.
    + (* everybody stays outside *)
      assert (NB' : nobody_in (ST h' (set_nth (thr s) i t'))).
      { intros j tj Ej. cbn [thr] in Ej. destruct (Nat.eq_dec i j) as [<-|D].
        - erewrite nth_error_set_nth_eq in Ej by eauto. inv Ej. exact ID'.
        - rewrite nth_error_set_nth_neq in Ej by auto. eapply NB; eauto. }
      assert (BF' : (top t = top t) -> bfp h' None).
      { intros _. destruct (tstep_cont_cases _ _ _ _ _ Ets IDt NUpc NDpc)
          as [[LL SAME]|[[t0 [v [Pc [B ->]]]]|[t0 [k [r [v [cs0 [Pc [E0 [A0 ->]]]]]]]]]].
        - eapply bfp_same; eauto.
        - destruct Ft as [Ff _]. rewrite Pc in Ff. cbn in Ff. destruct (top t) eqn:Tp; try discriminate.
          destruct (walk_pos_resolve s i t p t0 [] (reach_TInv _ _ QP R) Et) as [pre [Ep Rp]].
          { unfold walk_pos. rewrite Tp, Pc. reflexivity. }
          destruct Tt as [_ [IL P]]. rewrite Pc in P. cbn in P. destruct P as [[r0 Hr] _].
          rewrite Hr in IL. inversion IL; subst. cbn in *.
          eapply bfp_set_leaf; eauto.
        - destruct Ft as [Ff _]. rewrite Pc in Ff. cbn in Ff. destruct (top t) eqn:Tp; try discriminate.
          destruct (walk_pos_resolve s i t p t0 (k :: r) (reach_TInv _ _ QP R) Et) as [pre [Ep Rp]].
          { unfold walk_pos. rewrite Tp, Pc. reflexivity. }
          destruct Tt as [_ [IL P]]. rewrite Pc in P. cbn in P. destruct P as [[r0 Hr] _].
          rewrite Hr in IL. inversion IL; subst. cbn in *.
          eapply bfp_alloc; eauto. }
      specialize (BF' eq_refl).
      assert (OTHER : (forall p v, top t <> CAdd p v) ->
                exists m', (forall q, m' q = m q) /\ sim_rel m' (ST h' (set_nth (thr s) i t'))).
      { intros NA.
        assert (SAME : forall n, get_cont h' n = get_cont (hp s) n).
        { destruct (tstep_cont_cases _ _ _ _ _ Ets IDt NUpc NDpc)
            as [[LL SAME]|[[t0 [v [Pc [B ->]]]]|[t0 [k [r [v [cs0 [Pc [E0 [A0 ->]]]]]]]]]]; [exact SAME| |];
            exfalso; destruct Ft as [Ff _]; rewrite Pc in Ff; cbn in Ff;
            destruct (top t) eqn:Tp; try discriminate; eapply NA; reflexivity. }
        exists m. split; [reflexivity|]. left. split; [exact NB'|]. split; [|exact BF'].
        intros q. cbn [hp]. rewrite (absf_same _ _ SAME). apply EQ. }
      destruct (top t) as [p v| | | | | |] eqn:Tp.
      * (* Add *)
        pose proof (lin_step_sim_add_D ops s log i t _ p v Q RL BF Et Tp ST0) as SIM.
        unfold lin_event_D. rewrite Tp. cbn [hp] in SIM.
        destruct (lin_event (hp s) log i t) as [r|].
        -- exists (absf h'). split.
           ++ eapply spec_step_D_ext; [intros q; symmetry; apply EQ|reflexivity|].
              rewrite Tp in SIM. apply spec_to_D; [exact SIM|discriminate].
           ++ left. split; [exact NB'|]. split; [reflexivity|exact BF'].
        -- exists (absf h'). split; [intros q; rewrite SIM; symmetry; apply EQ|].
           left. split; [exact NB'|]. split; [reflexivity|exact BF'].
      * unfold lin_event_D. rewrite Tp. apply OTHER. discriminate.
      * unfold lin_event_D. rewrite Tp. apply OTHER. discriminate.
      * unfold lin_event_D. rewrite Tp.
        destruct (tpc t) eqn:Pc; try (apply OTHER; discriminate).
        destruct fr; try (apply OTHER; discriminate). discriminate IDt.
      * unfold lin_event_D. rewrite Tp. apply OTHER. discriminate.
      * unfold lin_event_D. rewrite Tp. apply OTHER. discriminate.
      * unfold lin_event_D. rewrite Tp. apply OTHER. discriminate.
  - (* a Delete is at work *)
    pose proof (Forall_nth_error _ _ _ _ TO Ed) as Td0.
    destruct (Nat.eq_dec i d) as [->|D].
    + (* its own step *)
      rewrite Ed in Et. inv Et.
      destruct (in_delete_next _ _ _ _ _ ID Ets) as [ID'|[del [ls [Pc Pc']]]].
      * assert (EV : lin_event_D (hp s) log d t = None).
        { unfold lin_event_D. rewrite Td. destruct (tpc t) eqn:Pc; auto. destruct fr; auto.
          destruct (plret_exit _ _ _ _ _ _ _ Pc Ets) as [X _]. rewrite X in ID'. discriminate. }
        rewrite EV. exists m. split; [reflexivity|]. right.
        exists d, t', qd. cbn [thr hp]. split; [eapply nth_error_set_nth_eq; eauto|].
        split; [exact ID'|]. split; [congruence|]. split.
        -- eapply del_step; eauto.
        -- eapply bfp_del_step; eauto.
      * (* its last critical section: the linearization point *)
        unfold lin_event_D. rewrite Td, Pc.
        destruct (plret_exit _ _ _ _ _ _ _ Pc Ets) as [_ ->].
        rewrite Pc in DI, BFd. destruct HO as [L0 HO'].
        destruct (del_inv_final m qd (hp s) del ls L0 DI) as [A B].
        exists (absf (fst (local_step (hp s) (PLRet del ls [])))). split.
        -- right; right. exists qd, ls. split; [reflexivity|]. split; [reflexivity|]. split; [exact B|exact A].
        -- left. cbn [hp thr]. split; [|split; [reflexivity|apply bfp_del_exit; auto]].
           intros j tj Ej. cbn [thr] in Ej. destruct (Nat.eq_dec d j) as [<-|Dj].
           ++ erewrite nth_error_set_nth_eq in Ej by eauto. inv Ej. rewrite Pc'. reflexivity.
           ++ rewrite nth_error_set_nth_neq in Ej by auto.
              destruct (in_delete (tpc tj)) eqn:IDj; [|reflexivity]. exfalso.
              destruct (delete_atomic_patched ops s d j t tj R Dj Ed Ej ID) as [_ NR].
              eapply (NR MW). eapply in_delete_holds_root; eauto. eapply Forall_nth_error; eauto.
    + (* somebody else's step: nothing stored changes, nobody is linearized *)
      destruct (delete_atomic_patched ops s d i td t R (not_eq_sym D) Ed Et ID) as [NH NR].
      assert (IDt : in_delete (tpc t) = false).
      { destruct (in_delete (tpc t)) eqn:IDt; [|reflexivity]. exfalso.
        eapply (NR MW). eapply in_delete_holds_root; eauto. }
      assert (EV : lin_event_D (hp s) log i t = None).
      { destruct (is_handle_pc (tpc t)) eqn:HP.
        - destruct Ft as [Ff _]. unfold lin_event_D.
          destruct (tpc t); try discriminate HP; cbn in Ff; destruct (top t); try discriminate; reflexivity.
        - eapply lin_event_D_none_outside; eauto. }
      rewrite EV. exists m. split; [reflexivity|]. right.
      assert (SAME : List.length h' = List.length (hp s) /\ forall n, get_cont h' n = get_cont (hp s) n).
      { destruct (tstep_cont_cases _ _ _ _ _ Ets IDt NUpc NDpc)
          as [X|[[t0 [v [Pc [B ->]]]]|[t0 [k [r [v [cs0 [Pc [E0 [A0 ->]]]]]]]]]]; [exact X| |];
          exfalso; destruct Tt as [_ [_ P]]; rewrite Pc in P, NH; cbn in P; destruct P as [[r0 Hr] _];
          rewrite NH in Hr by reflexivity; discriminate. }
      destruct SAME as [LL SAME].
      exists d, td, qd. cbn [thr hp]. split; [rewrite nth_error_set_nth_neq; auto|].
      split; [exact ID|]. split; [exact Td|]. split.
      * eapply del_inv_same; eauto.
      * eapply bfp_same; eauto.
Qed.

Lemma sim_rel_init ops : sim_rel (fun _ => None) (init_state ops).
Proof.
  left. split; [|split].
  - intros d td Ed. cbn in Ed. rewrite nth_error_map in Ed. destruct (nth_error ops d); inv Ed. reflexivity.
  - intros q. symmetry. apply absf_init.
  - split.
    + intros n H0 H1. cbn in H1. lia.
    + intros p n cs R E _. exfalso. destruct p as [|a p]; cbn in R.
      * inv R. discriminate.
      * discriminate.
Qed.

(** Forward simulation with Delete: the linearization events of any run of
    Add / GetLeafValue / Query / Walk / Leaf.Value / Delete calls -- Add's as
    before, Delete's at its last critical section -- in the order in which they
    happen and with the answers the calls return, form a run of the sequential
    flat specification from the empty map; whenever no Delete holds the root
    lock, that run ends in the content of the current heap. *)
Theorem lin_simulation_D ops s log ev :
  forallb no_hupd_op ops = true -> reach_lin_D ops s log ev ->
  exists m, spec_run_D (fun _ => None) (ev_ops ops ev) m /\ sim_rel m s.
Proof.
  intros Q R. induction R as [|s i s' t log ev R [m [SR SIM]] Et ST].
  - exists (fun _ => None). split; [constructor; reflexivity|apply sim_rel_init].
  - pose proof (sim_step ops s log i t s' m Q (reach_lin_D_log _ _ _ _ R) Et ST SIM) as STEP.
    destruct (lin_event_D (hp s) log i t) as [r|].
    + destruct STEP as [m' [SS SIM']]. exists m'. split; [|exact SIM'].
      unfold ev_ops. rewrite map_app. cbn [map fst snd].
      eapply srd_snoc; [exact SR|].
      assert (TopEq : nth i ops (CGetVal []) = top t).
      { apply nth_error_nth. eapply nth_error_top; eauto.
        eapply reach_log_reach. eapply reach_lin_D_log; eauto. }
      rewrite TopEq. exact SS.
    + destruct STEP as [m' [EQ SIM']]. exists m'. split; [|exact SIM'].
      eapply spec_run_D_ext; [|exact SR]. intros q. symmetry. apply EQ.
Qed.

Corollary lin_simulation_D_content ops s log ev :
  forallb no_hupd_op ops = true -> reach_lin_D ops s log ev -> nobody_in s ->
  exists m, spec_run_D (fun _ => None) (ev_ops ops ev) m /\ forall q, m q = absf (hp s) q.
Proof.
  intros Q R NB. destruct (lin_simulation_D _ _ _ _ Q R) as [m [SR [[_ [EQ _]]|[d [td [qd [Ed [ID _]]]]]]]].
  - exists m. auto.
  - rewrite (NB _ _ Ed) in ID. discriminate.
Qed.

(** * Every returned Add / Delete has exactly one linearization event, in real-time order *)

Definition point_op_D (o : cop) : bool :=
  match o with CAdd _ _ | CDelete _ => true | _ => false end.

Lemma enters_res_D b h log i t h' t' r :
  fam_ok t -> point_op_D (top t) = true ->
  tstep_gen b h t = Some (h', t') -> res_of (tpc t') = Some r ->
  res_of (tpc t) = Some r \/ lin_event_D h log i t = Some r \/
  (r = XAdd true /\ written log i = true).
Proof.
  intros FO PO ST RS. unfold lin_event_D. destruct (top t) eqn:Tp; try discriminate PO.
  - eapply enters_res; eauto. rewrite Tp. reflexivity.
  - destruct FO as [F S0]. rewrite Tp in F. pose proof (tstep_shape _ _ _ _ _ ST) as SH.
    destruct t as [o p hs]. cbn [tpc top held] in *. subst o.
    destruct p; cbn in F; try discriminate F; unfold lockop_of in SH; cbn [tpc held] in SH.
    + destruct SH as [_ ->]. cbn in RS. rewrite (S0 _ eq_refl) in RS. cbn in RS. discriminate.
    + exfalso. unfold tstep_gen in ST. cbn in ST. discriminate.
    + left. destruct k; try discriminate F. destruct hs as [|[n m] hs].
      * destruct SH as [_ ->]. exact RS.
      * destruct SH as [n' [m' [hs' [_ [_ ->]]]]]. exact RS.
    + destruct SH as [_ ->]. cbn in RS. discriminate.
    + destruct SH as [_ [_ ->]]. cbn in RS. discriminate.
    + exfalso. destruct SH as [_ ->]. cbn [tpc] in RS. cbn [local_step] in RS.
      destruct (heads_all q0).
      * destruct (get_cont h n); cbn in RS; try discriminate. destruct (strip_glob q0); cbn in RS; discriminate.
      * destruct q0 as [|k r0]; cbn in RS; try discriminate. destruct (get_cont h n) as [| |cs]; cbn in RS; try discriminate.
        destruct (assoc k cs); cbn in RS; discriminate.
    + exfalso. destruct SH as [_ ->]. cbn [tpc] in RS. destruct fr as [|f fr]; cbn in RS; try discriminate.
      destruct (dtodo f) as [|[k c] rest]; cbn in RS; discriminate.
    + destruct SH as [_ ->]. cbn in RS. discriminate.
    + destruct SH as [_ [_ ->]]. cbn in RS. discriminate.
    + destruct fr as [|f fr].
      * destruct SH as [_ ->]. cbn in RS. inv RS. right; left. reflexivity.
      * destruct SH as [n' [m' [hs' [_ [_ ->]]]]]. cbn in RS. discriminate.
    + exfalso. destruct SH as [_ ->]. cbn [tpc] in RS. destruct fr as [|f fr]; cbn in RS; discriminate.
Qed.

Lemma write_lin_D h log i t p v :
  is_write h t = Some (p, v) -> lin_event_D h log i t = Some (XAdd true) \/ written log i = true.
Proof.
  intros W. pose proof (is_write_top _ _ _ _ W) as Tp. unfold lin_event_D. rewrite Tp.
  eapply write_lin; eauto.
Qed.

Lemma lin_post_D b h log i t h' t' r :
  lin_event_D h log i t = Some r -> tstep_gen b h t = Some (h', t') ->
  res_of (tpc t') = Some r \/ exists p v, is_write h t = Some (p, v).
Proof.
  unfold lin_event_D. intros L ST. destruct (top t) eqn:Tp; try discriminate L.
  - eapply lin_post; eauto.
  - destruct (tpc t) eqn:Pc; try discriminate L. destruct fr; try discriminate L. inv L.
    destruct (plret_exit _ _ _ _ _ _ _ Pc ST) as [X _]. rewrite X. left. reflexivity.
Qed.

Lemma no_second_D ops s log i t :
  forallb no_hupd_op ops = true -> reach_log ops s log -> nth_error (thr s) i = Some t ->
  (res_of (tpc t) <> None \/ written log i = true) -> lin_event_D (hp s) log i t = None.
Proof.
  intros Q R Et [RS|Wr].
  - unfold lin_event_D, lin_event. destruct (top t); auto; destruct (tpc t); auto; try (exfalso; apply RS; reflexivity);
      cbn in RS; try contradiction.
  - destruct (written_In _ _ _ _ _ R Et Wr) as [p [v [Tp H]]].
    destruct (reach_cp_D _ _ _ Q R i t Et) as [_ C1].
    unfold lin_event_D, lin_event. rewrite Tp. destruct (tpc t) eqn:Pc; auto.
    + destruct (C1 p v t0 [] Tp H) as [n [pn [sfx [l [_ [_ [_ [_ [Rt El]]]]]]]]].
      { unfold walk_pos. rewrite Tp, Pc. reflexivity. }
      cbn in Rt. inv Rt. rewrite El. cbn. rewrite Wr. reflexivity.
    + destruct (C1 p v t0 (k :: r) Tp H) as [n [pn [sfx [l [_ [_ [_ [_ [Rt El]]]]]]]]].
      { unfold walk_pos. rewrite Tp, Pc. reflexivity. }
      cbn in Rt. destruct (get_cont (hp s) t0); try discriminate. reflexivity.
    + destruct (C1 p v t0 (k :: r) Tp H) as [n [pn [sfx [l [_ [_ [_ [_ [Rt El]]]]]]]]].
      { unfold walk_pos. rewrite Tp, Pc. reflexivity. }
      cbn in Rt. destruct (get_cont (hp s) t0) as [| |cs]; try discriminate.
      destruct (assoc k cs); [reflexivity|discriminate].
Qed.

(** an Add that has written has its (successful) event *)
Lemma written_event_D ops s log ev :
  reach_lin_D ops s log ev -> forall i p v, In (i, p, v) log -> In (i, XAdd true) ev.
Proof.
  induction 1 as [|s j s' t log ev R IH Et ST]; intros i p v H; [destruct H|].
  assert (GROW : forall e, In e ev ->
            In e (match lin_event_D (hp s) log j t with Some r => ev ++ [(j, r)] | None => ev end)).
  { intros e He. destruct (lin_event_D (hp s) log j t); [apply in_or_app; auto|auto]. }
  destruct (is_write (hp s) t) as [[p0 v0]|] eqn:W; [|apply GROW; eauto].
  apply in_app_or in H. destruct H as [H|[H|[]]]; [apply GROW; eauto|]. inv H.
  destruct (write_lin_D _ log i _ _ _ W) as [L|Wr].
  - rewrite L. apply in_or_app. right. left. reflexivity.
  - apply GROW. destruct (written_In _ _ _ _ _ (reach_lin_D_log _ _ _ _ R) Et Wr) as [p1 [v1 [_ H1]]]. eauto.
Qed.

(** every Add / GetLeafValue that has its answer has the corresponding event *)
Theorem lin_complete_D ops s log ev :
  reach_lin_D ops s log ev -> forall i t r,
  nth_error (thr s) i = Some t -> point_op_D (top t) = true -> res_of (tpc t) = Some r -> In (i, r) ev.
Proof.
  induction 1 as [|s j s' tj log ev R IH Ej ST]; intros i t r Et PO RS.
  - cbn in Et. rewrite nth_error_map in Et. destruct (nth_error ops i); inv Et. discriminate.
  - assert (GROW : forall e, In e ev ->
              In e (match lin_event_D (hp s) log j tj with Some r => ev ++ [(j, r)] | None => ev end)).
    { intros e He. destruct (lin_event_D (hp s) log j tj); [apply in_or_app; auto|auto]. }
    pose proof (reach_log_reach _ _ _ (reach_lin_D_log _ _ _ _ R)) as Rs.
    assert (ST0 := ST). unfold step, step_gen in ST. rewrite Ej in ST.
    destruct (tstep_gen false (hp s) tj) as [[h' tj']|] eqn:Ets; [|discriminate]. inv ST. cbn [thr] in Et.
    destruct (Nat.eq_dec j i) as [->|D].
    + erewrite nth_error_set_nth_eq in Et by eauto. inv Et.
      pose proof (Forall_nth_error _ _ _ _ (reach_fam_ok _ _ Rs) Ej) as FO.
      assert (Tt : top t = top tj).
      { pose proof (tstep_shape _ _ _ _ _ Ets) as SH.
        destruct (lockop_of tj); repeat match goal with
                                        | H : _ /\ _ |- _ => destruct H
                                        | H : exists _, _ |- _ => destruct H
                                        end; subst; reflexivity. }
      rewrite Tt in PO.
      destruct (enters_res_D _ _ log i _ _ _ _ FO PO Ets RS) as [R0|[L|[-> Wr]]].
      * apply GROW. eapply IH; eauto.
      * rewrite L. apply in_or_app. right. left. reflexivity.
      * apply GROW. destruct (written_In _ _ _ _ _ (reach_lin_D_log _ _ _ _ R) Ej Wr) as [p1 [v1 [_ H1]]].
        eapply written_event_D; eauto.
    + rewrite nth_error_set_nth_neq in Et by auto. apply GROW. eapply IH; eauto.
Qed.

(** a thread that has an event is past its linearization point *)
Lemma event_post_D ops s log ev :
  forallb no_hupd_op ops = true -> reach_lin_D ops s log ev ->
  forall i t r, nth_error (thr s) i = Some t -> In (i, r) ev ->
  res_of (tpc t) <> None \/ written log i = true.
Proof.
  intros Q R. induction R as [|s j s' tj log ev R IH Ej ST]; intros i t r Et H; [destruct H|].
  assert (WG : forall k, written log k = true ->
            written (match is_write (hp s) tj with Some (p, v) => log ++ [(j, p, v)] | None => log end) k = true).
  { intros k W. destruct (is_write (hp s) tj) as [[p v]|]; [apply written_app; auto|auto]. }
  assert (ST0 := ST). unfold step, step_gen in ST. rewrite Ej in ST.
  destruct (tstep_gen false (hp s) tj) as [[h' tj']|] eqn:Ets; [|discriminate]. inv ST. cbn [thr] in Et.
  destruct (Nat.eq_dec j i) as [->|D].
  - erewrite nth_error_set_nth_eq in Et by eauto. inv Et.
    assert (OLD : In (i, r) ev -> res_of (tpc t) <> None \/
              written (match is_write (hp s) tj with Some (p, v) => log ++ [(i, p, v)] | None => log end) i = true).
    { intros H0. destruct (IH i tj r Ej H0) as [RS|W]; [|right; auto].
      left. destruct (res_of (tpc tj)) as [r0|] eqn:E0; [|contradiction].
      rewrite (res_closed _ _ _ _ _ _ E0 Ets). discriminate. }
    destruct (lin_event_D (hp s) log i tj) as [r0|] eqn:L; [|auto].
    apply in_app_or in H. destruct H as [H|[H|[]]]; [auto|]. inv H.
    destruct (lin_post_D _ _ _ _ _ _ _ _ L Ets) as [RS|[p [v W]]].
    + left. rewrite RS. discriminate.
    + right. rewrite W. apply written_self.
  - rewrite nth_error_set_nth_neq in Et by auto.
    assert (H0 : In (i, r) ev).
    { destruct (lin_event_D (hp s) log j tj); [|exact H].
      apply in_app_or in H. destruct H as [H|[H|[]]]; [exact H|]. inv H. contradiction. }
    destruct (IH i t r Et H0) as [RS|W]; [left; exact RS|right; auto].
Qed.

(** no call is linearized twice *)
Theorem lin_unique_D ops s log ev :
  forallb no_hupd_op ops = true -> reach_lin_D ops s log ev -> NoDup (map fst ev).
Proof.
  intros Q R. induction R as [|s j s' tj log ev R IH Ej ST]; [constructor|].
  destruct (lin_event_D (hp s) log j tj) as [r|] eqn:L; [|exact IH].
  rewrite map_app. cbn. apply NoDup_app_intro_single; [exact IH|].
  intros H. apply in_map_iff in H. destruct H as [[j' r0] [E H]]. cbn in E. subst j'.
  pose proof (event_post_D _ _ _ _ Q R j tj r0 Ej H) as P.
  rewrite (no_second_D _ _ _ _ _ Q (reach_lin_D_log _ _ _ _ R) Ej P) in L. discriminate.
Qed.

(** a call that has an event has been invoked *)
Lemma event_started_D ops s log ev :
  forallb no_hupd_op ops = true -> reach_lin_D ops s log ev ->
  forall i t r o, nth_error (thr s) i = Some t -> In (i, r) ev -> tpc t <> PStart o.
Proof.
  intros Q R i t r o Et H Pc.
  destruct (event_post_D _ _ _ _ Q R i t r Et H) as [RS|W].
  - rewrite Pc in RS. apply RS. reflexivity.
  - destruct (written_In _ _ _ _ _ (reach_lin_D_log _ _ _ _ R) Et W) as [p [v [_ Hl]]].
    destruct (reach_cp_D _ _ _ Q (reach_lin_D_log _ _ _ _ R) i t Et) as [C0 _]. eapply C0; eauto.
Qed.

(** ** real-time order: continuing a run only appends events *)
Inductive run_lin_D (ops : list cop) :
  state * list (nat * path * Z) * list (nat * cres) ->
  state * list (nat * path * Z) * list (nat * cres) -> Prop :=
| rld_refl c : run_lin_D ops c c
| rld_more c s i s' t log ev :
    run_lin_D ops c (s, log, ev) -> nth_error (thr s) i = Some t -> step s i = Some s' ->
    run_lin_D ops c (s',
      (match is_write (hp s) t with Some (p, v) => log ++ [(i, p, v)] | None => log end),
      (match lin_event_D (hp s) log i t with Some r => ev ++ [(i, r)] | None => ev end)).

Lemma run_lin_D_reach ops s1 log1 ev1 s2 log2 ev2 :
  reach_lin_D ops s1 log1 ev1 -> run_lin_D ops (s1, log1, ev1) (s2, log2, ev2) -> reach_lin_D ops s2 log2 ev2.
Proof.
  intros R H. remember (s1, log1, ev1) as c1. remember (s2, log2, ev2) as c2.
  revert s2 log2 ev2 Heqc2. induction H as [c|c s i s' t log ev H IH Et ST]; intros s2 log2 ev2 E2.
  - subst c. inv E2. exact R.
  - inv E2. eapply rld_step; eauto.
Qed.

Lemma run_lin_D_prefix ops c1 c2 : run_lin_D ops c1 c2 -> exists rest, snd c2 = snd c1 ++ rest.
Proof.
  induction 1 as [c|c s i s' t log ev H [rest IH] Et ST]; [exists []; rewrite app_nil_r; auto|].
  cbn in *. destruct (lin_event_D (hp s) log i t) as [r|].
  - exists (rest ++ [(i, r)]). rewrite IH, app_assoc. reflexivity.
  - exists rest. exact IH.
Qed.

(** if call a has returned when call b has not yet been invoked, then a is
    linearized before b *)
Theorem lin_real_time_D ops s1 log1 ev1 s2 log2 ev2 a ta ra b tb o rb :
  forallb no_hupd_op ops = true ->
  reach_lin_D ops s1 log1 ev1 -> run_lin_D ops (s1, log1, ev1) (s2, log2, ev2) ->
  nth_error (thr s1) a = Some ta -> point_op_D (top ta) = true -> tpc ta = PDone ra ->
  nth_error (thr s1) b = Some tb -> tpc tb = PStart o ->
  In (b, rb) ev2 ->
  exists l1 l2 l3, ev2 = l1 ++ (a, ra) :: l2 ++ (b, rb) :: l3.
Proof.
  intros Q R1 RUN Ea PO Da Eb Sb Hb.
  destruct (run_lin_D_prefix _ _ _ RUN) as [rest E]. cbn in E. subst ev2.
  assert (Ha : In (a, ra) ev1).
  { eapply lin_complete_D; eauto. rewrite Da. reflexivity. }
  assert (Nb : ~ In (b, rb) ev1).
  { intros H. eapply (event_started_D _ _ _ _ Q R1 b tb rb o); eauto. }
  apply in_app_or in Hb. destruct Hb as [Hb|Hb]; [contradiction|].
  apply in_split in Ha. destruct Ha as [l1 [l2 ->]].
  apply in_split in Hb. destruct Hb as [l3 [l4 ->]].
  exists l1, (l2 ++ l3), l4. rewrite <- !app_assoc. cbn. reflexivity.
Qed.


(** * Quiescent serializability with Delete

    When no Delete holds the root lock -- in particular when every call has
    returned -- the stored content is what the flat specification computes by
    executing the Add and Delete calls that have taken effect one after the
    other in the order of their linearization events, each with the answer it
    actually returned; every returned Add / Delete is in that sequence exactly
    once ([lin_complete_D], [lin_unique_D]) and the sequence respects real time
    ([lin_real_time_D]).  GetLeafValue / Query / Walk / Leaf.Value change
    nothing and can be put anywhere. *)
Theorem quiescent_serializable_D ops s log ev :
  forallb no_hupd_op ops = true -> reach_lin_D ops s log ev ->
  (forall i t, nth_error (thr s) i = Some t -> is_done (tpc t) = true) ->
  exists m, spec_run_D (fun _ => None) (ev_ops ops ev) m /\ (forall q, m q = absf (hp s) q) /\
            NoDup (map fst ev) /\
            (forall i t r, nth_error (thr s) i = Some t -> point_op_D (top t) = true ->
                           tpc t = PDone r -> In (i, r) ev).
Proof.
  intros Q R DONE.
  assert (NB : nobody_in s).
  { intros d td Ed. specialize (DONE _ _ Ed). destruct (tpc td); try discriminate. reflexivity. }
  destruct (lin_simulation_D_content _ _ _ _ Q R NB) as [m [SR EQ]].
  exists m. split; [exact SR|]. split; [exact EQ|]. split; [eapply lin_unique_D; eauto|].
  intros i t r Et PO Pc. eapply lin_complete_D; eauto. rewrite Pc. reflexivity.
Qed.

(** * Non-vacuity: a Delete interleaved with an Add and a GetLeafValue *)
Open Scope string_scope.
Open Scope list_scope.

Definition del_ex_ops : list cop :=
  [CAdd ["a"; "b"] 1%Z; CAdd ["a"; "c"] 2%Z; CDelete ["a"; "*"]; CAdd ["d"] 3%Z; CGetVal ["a"; "b"]].

(** both Adds complete; GetLeafValue(a/b) gets its node and releases the tree;
    Delete of a/[*] takes the root lock and removes a/b ... *)
Definition del_ex_sched1 : list nat :=
  repeat 0 40 ++ repeat 1 40 ++ repeat 4 11 ++ repeat 2 14.
(** ... then Add(d) starts and blocks, GetLeafValue reads its (unlinked) leaf,
    Delete goes on with a/c, prunes a and the root, and everybody finishes *)
Definition del_ex_sched2 : list nat :=
  del_ex_sched1 ++ [4; 3; 3; 4] ++ repeat 2 40 ++ repeat 3 40 ++ repeat 4 10.

Example delete_example_hyps :
  forallb no_hupd_op del_ex_ops = true /\ reach del_ex_ops (run_sched (init_state del_ex_ops) del_ex_sched2).
Proof. split; [reflexivity|apply reach_run_sched]. Qed.

(** in the middle of the Delete the stored content is neither the old nor the new one *)
Example delete_example_mid :
  let s := run_sched (init_state del_ex_ops) del_ex_sched1 in
  (map (fun t => in_delete (tpc t)) (thr s), map (absf (hp s)) [["a"; "b"]; ["a"; "c"]; ["d"]])
  = ([false; false; true; false; false], [None; Some 2%Z; None]).
Proof. vm_compute. reflexivity. Qed.

Example delete_example_end :
  let s := run_sched (init_state del_ex_ops) del_ex_sched2 in
  (map tpc (thr s), map (absf (hp s)) [["a"; "b"]; ["a"; "c"]; ["d"]; []])
  = ([PDone (XAdd true); PDone (XAdd true); PDone (XPaths [["a"; "b"]; ["a"; "c"]]);
      PDone (XAdd true); PDone (XVal (Some 1%Z))],
     [None; None; Some 3%Z; None]).
Proof. vm_compute. reflexivity. Qed.

(** the sequential witness of that run: Add a/b, Add a/c, Delete a/[*], Add d *)
Example delete_example_witness :
  spec_run_D (fun _ => None)
    [(CAdd ["a"; "b"] 1%Z, XAdd true); (CAdd ["a"; "c"] 2%Z, XAdd true);
     (CDelete ["a"; "*"], XPaths [["a"; "b"]; ["a"; "c"]]); (CAdd ["d"] 3%Z, XAdd true)]
    (upd (fun p => if qmatch ["a"; "*"] p then None
                   else upd (upd (fun _ => None) ["a"; "b"] 1%Z) ["a"; "c"] 2%Z p) ["d"] 3%Z).
Proof.
  change ([(CAdd ["a"; "b"] 1%Z, XAdd true); (CAdd ["a"; "c"] 2%Z, XAdd true);
          (CDelete ["a"; "*"], XPaths [["a"; "b"]; ["a"; "c"]]); (CAdd ["d"] 3%Z, XAdd true)])
    with (((([] ++ [(CAdd ["a"; "b"] 1%Z, XAdd true)]) ++ [(CAdd ["a"; "c"] 2%Z, XAdd true)]) ++
          [(CDelete ["a"; "*"], XPaths [["a"; "b"]; ["a"; "c"]])]) ++ [(CAdd ["d"] 3%Z, XAdd true)]).
  eapply srd_snoc; [eapply srd_snoc; [eapply srd_snoc; [eapply srd_snoc; [apply srd_nil; reflexivity|]|]|]|].
  - left. exists ["a"; "b"], 1%Z. split; [reflexivity|]. split; [reflexivity|].
    split; [intros q _; reflexivity|reflexivity].
  - left. exists ["a"; "c"], 2%Z. split; [reflexivity|]. split; [reflexivity|]. split; [|reflexivity].
    intros q [H|H]; unfold upd; destruct (path_eqb_spec q ["a"; "b"]) as [->|NE]; auto; cbn in H; discriminate.
  - right; right. exists ["a"; "*"], [["a"; "b"]; ["a"; "c"]]. split; [reflexivity|]. split; [reflexivity|].
    split; [|reflexivity]. intros p. unfold upd. split.
    + intros [<-|[<-|[]]]; cbn; split; auto; discriminate.
    + intros [NN M]. destruct (path_eqb_spec p ["a"; "c"]) as [E1|N1]; [right; left; auto|].
      destruct (path_eqb_spec p ["a"; "b"]) as [E2|N2]; [left; auto|]. contradiction.
  - left. exists ["d"], 3%Z. split; [reflexivity|]. split; [reflexivity|]. split; [|reflexivity].
    intros q _. destruct (qmatch ["a"; "*"] q) eqn:M; [reflexivity|]. unfold upd.
    destruct (path_eqb_spec q ["a"; "c"]) as [E1|N1]; [subst q; cbn in M; discriminate|].
    destruct (path_eqb_spec q ["a"; "b"]) as [E2|N2]; [subst q; cbn in M; discriminate|reflexivity].
Qed.

(** * Query / Walk in programs with Delete

    A Query holds the root read lock from its first to its last critical
    section, so no Delete is at work while it traverses the tree. *)

Lemma q_ok_same h h' t : (forall n, get_cont h' n = get_cont h n) -> q_ok h t -> q_ok h' t.
Proof.
  intros E. unfold q_ok, item_ok. destruct (tpc t); auto; rewrite ?(resolve_ext _ _ E);
    intros H; try destruct H as [R H]; try split; auto;
    (eapply Forall_impl; [|exact H]; intros l Hl; eapply Forall_impl; [|exact Hl];
     intros it; cbn; rewrite (resolve_ext _ _ E); auto).
Qed.

Lemma resolve_to_root h : heap_ok h -> forall p, resolve h 0 p = Some 0 -> p = [].
Proof.
  intros HO [|a p] R; [reflexivity|]. exfalso.
  pose proof (resolve_gt h HO (a :: p) 0 0) as G. specialize (G ltac:(discriminate) R). lia.
Qed.

Theorem reach_q_ok_D ops s :
  forallb no_hupd_op ops = true -> reach ops s -> Forall (q_ok (hp s)) (thr s).
Proof.
  intros Q R. pose proof (no_hupd_patched _ Q) as QP.
  induction R as [|s j s' R IH ST].
  - cbn. apply Forall_forall. intros t Ht. apply in_map_iff in Ht. destruct Ht as [o [<- _]]. exact I.
  - assert (I := reach_Inv _ _ R). assert (I' := I). destruct I' as [HO [TO _]].
    destruct (reach_TInv _ _ QP R) as [_ [_ [KN _]]].
    assert (R' : reach ops s') by (econstructor; eauto).
    assert (ST0 := ST). unfold step, step_gen in ST.
    destruct (nth_error (thr s) j) as [tj|] eqn:Ej; [|discriminate].
    destruct (tstep_gen false (hp s) tj) as [[h' tj']|] eqn:Ets; [|discriminate]. inv ST. cbn [hp thr].
    pose proof (Forall_nth_error _ _ _ _ TO Ej) as Tj.
    pose proof (Forall_nth_error _ _ _ _ (reach_fam_ok _ _ R) Ej) as Fj.
    destruct (no_hupd_top _ _ _ _ Q R Ej) as [NU NDU].
    destruct (quiet_pc (tpc tj)) eqn:Qj.
    + pose proof (tstep_cont_mono _ _ _ _ _ Tj Qj Ets) as CM.
      apply Forall_forall. intros t0 H0. apply In_set_nth in H0. destruct H0 as [->|H0].
      * eapply q_ok_step; eauto. apply (Forall_nth_error _ _ _ _ IH Ej).
      * rewrite Forall_forall in IH. eapply q_ok_mono; eauto.
    + destruct (not_quiet_is_delete tj Fj NU NDU Qj) as [qd Td].
      apply Forall_forall. intros t0 H0. apply In_set_nth in H0. destruct H0 as [->|H0].
      * (* the Delete thread itself is no Query *)
        pose proof (tstep_fam_ok _ _ _ _ _ Fj Ets) as [Ff _].
        rewrite (tstep_top _ _ _ _ _ Ets), Td in Ff.
        unfold q_ok. destruct (tpc tj'); auto; discriminate Ff.
      * apply In_nth_error in H0. destruct H0 as [i Ei].
        pose proof (Forall_nth_error _ _ _ _ IH Ei) as QO.
        destruct (Nat.eq_dec i j) as [->|D].
        { rewrite Ej in Ei. inv Ei. unfold q_ok. destruct Fj as [Ff _]. rewrite Td in Ff.
          destruct (tpc t0); auto; discriminate Ff. }
        destruct (in_delete (tpc tj)) eqn:ID.
        -- (* a Delete inside the tree: the Query holds nothing *)
           destruct (delete_atomic_patched ops s j i tj t0 R (not_eq_sym D) Ej Ei ID) as [NH _].
           pose proof (Forall_nth_error _ _ _ _ TO Ei) as [_ [_ P]].
           unfold q_ok in *. destruct (tpc t0) eqn:Pc; auto; cbn in NH; specialize (NH eq_refl);
             rewrite NH in P; cbn in P.
           ++ destruct P as [[_ [_ [Z _]]] F2]. inversion F2; subst. destruct QO as [Rp _].
              rewrite (Z eq_refl) in *. rewrite (resolve_to_root _ HO _ Rp). split; [reflexivity|constructor].
           ++ destruct P as [[[r0 X] _] _]. discriminate.
           ++ destruct P as [_ F2]. inversion F2; subst. constructor.
           ++ destruct P as [_ F2]. inversion F2; subst. constructor.
        -- eapply q_ok_same; [|exact QO]. eapply outside_step_cont; eauto.
           ++ intros _. destruct Tj as [_ [_ P]]. destruct Fj as [Ff _]. rewrite Td in Ff.
              destruct (tpc tj); try discriminate Qj; try discriminate ID; cbn in P; auto;
                cbn in Ff; discriminate.
           ++ intros n v Pc. destruct Fj as [Ff _]. rewrite Pc, Td in Ff. discriminate.
Qed.

(** soundness: what a Query / Walk reports is stored, with that value, at the
    moment of the report *)
Theorem query_reports_present_D ops s i t t0 pre q acc fr v :
  forallb no_hupd_op ops = true -> reach ops s ->
  nth_error (thr s) i = Some t -> tpc t = PQRead t0 pre q acc fr ->
  query_visits (get_cont (hp s) t0) q = Some v ->
  absf (hp s) pre = Some v /\
  (exists s', step s i = Some s' /\
     exists t', nth_error (thr s') i = Some t' /\ tpc t' = PQVisit pre v acc ([] :: fr)).
Proof.
  intros Q R Et Pc QV.
  pose proof (Forall_nth_error _ _ _ _ (reach_q_ok_D _ _ Q R) Et) as X.
  unfold q_ok in X. rewrite Pc in X. destruct X as [Rp _]. split.
  - unfold absf. rewrite Rp. unfold query_visits in QV.
    destruct (get_cont (hp s) t0); try discriminate.
    destruct q as [|k0 [|? ?]]; try discriminate.
    + inv QV. reflexivity.
    + destruct (is_glob k0); try discriminate. inv QV. reflexivity.
  - assert (LO : lockop_of t = LNone) by (unfold lockop_of; rewrite Pc; reflexivity).
    unfold step, step_gen. rewrite Et. unfold tstep_gen. rewrite LO, Pc. cbn. rewrite QV. cbn.
    eexists. split; [reflexivity|]. cbn [thr]. eexists. split.
    + erewrite nth_error_set_nth_eq by eauto. reflexivity.
    + reflexivity.
Qed.

(** runs all of whose states satisfy [P] *)
Inductive steps_all (P : state -> Prop) : state -> state -> Prop :=
| sa_refl s : P s -> steps_all P s s
| sa_more s1 s i s' : steps_all P s1 s -> step s i = Some s' -> P s' -> steps_all P s1 s'.

(** completeness: a leaf that the query selects and that is stored in every
    state from the invocation of the Query / Walk to its return is reported *)
Theorem query_reports_all_D ops s1 s2 i t1 t2 q acc pth :
  forallb no_hupd_op ops = true -> reach ops s1 ->
  steps_all (fun s => absf (hp s) pth <> None) s1 s2 ->
  nth_error (thr s1) i = Some t1 -> tpc t1 = PStart (CQuery q None) ->
  nth_error (thr s2) i = Some t2 -> tpc t2 = PDone (XLeaves acc) ->
  qmatch q pth = true -> In pth (map fst acc).
Proof.
  intros Q R1 RUN E1 P1 E2 P2 M.
  set (S0 := fun p => p = pth).
  assert (QP := no_hupd_patched _ Q).
  assert (G : reach ops s2 /\
              exists t, nth_error (thr s2) i = Some t /\ top t = CQuery q None /\ cov_pc S0 q (tpc t)).
  { clear E2 P2. induction RUN as [s ST0|s1 s j s' RUN IH ST PS].
    - split; [exact R1|]. exists t1. split; [exact E1|]. split.
      + destruct (Forall_nth_error _ _ _ _ (reach_fam_ok _ _ R1) E1) as [_ S1]. symmetry. apply S1. exact P1.
      + rewrite P1. intros p _ _. exact I.
    - destruct (IH R1 E1) as [R [t [Et [Tp CV]]]].
      split; [econstructor; eauto|].
      destruct (reach_TInv _ _ QP R) as [_ [_ [KN _]]].
      assert (PSs : absf (hp s) pth <> None).
      { clear - RUN. destruct RUN; auto. }
      assert (ST0 := ST). unfold step, step_gen in ST.
      destruct (nth_error (thr s) j) as [tj|] eqn:Ej; [|discriminate].
      destruct (tstep_gen false (hp s) tj) as [[h' tj']|] eqn:Ets; [|discriminate]. inv ST. cbn [hp thr].
      destruct (Nat.eq_dec j i) as [->|D].
      + rewrite Et in Ej. inv Ej. exists tj'. split; [eapply nth_error_set_nth_eq; eauto|].
        split; [rewrite (tstep_top _ _ _ _ _ Ets); exact Tp|].
        eapply cov_step; eauto.
        * apply (Forall_nth_error _ _ _ _ (reach_q_ok_D _ _ Q R) Et).
        * apply (Forall_nth_error _ _ _ _ (reach_fam_ok _ _ R) Et).
        * intros p ->. apply absf_leaf_at. exact PSs.
      + exists t. split; [rewrite nth_error_set_nth_neq by auto; exact Et|auto]. }
  destruct G as [_ [t [Et [_ CV]]]]. rewrite E2 in Et. inv Et. rewrite P2 in CV.
  apply (CV pth); [reflexivity|exact M].
Qed.

(** ** no leaf is reported twice (all programs with the current Delete) *)
Definition incomp (a b : path) : Prop := is_prefix a b = false /\ is_prefix b a = false.

Definition pre_of (it : qitem) : path := snd (fst it).

Definition pending (p : pc) : list path :=
  match p with
  | PQEnter _ pre _ _ fr | PQRead _ pre _ _ fr | PQVisit pre _ _ fr => pre :: map pre_of (List.concat fr)
  | PQNext _ fr => map pre_of (List.concat fr)
  | _ => []
  end.

Definition acc_of (p : pc) : list (path * Z) :=
  match p with
  | PQEnter _ _ _ acc _ | PQRead _ _ _ acc _ | PQVisit _ _ acc _ | PQNext acc _ => acc
  | PDone (XLeaves acc) | PUnwind (UDone (XLeaves acc)) | PHRel (XLeaves acc) => acc
  | _ => []
  end.

Definition uq (p : pc) : Prop :=
  NoDup (map fst (acc_of p)) /\
  (forall a x, In a (map fst (acc_of p)) -> In x (pending p) -> is_prefix x a = false) /\
  ForallOrdPairs incomp (pending p).

Lemma FOP_app {A} (R : A -> A -> Prop) l1 l2 :
  ForallOrdPairs R l1 -> ForallOrdPairs R l2 -> (forall x y, In x l1 -> In y l2 -> R x y) ->
  ForallOrdPairs R (l1 ++ l2).
Proof.
  induction l1 as [|a l1 IH]; intros F1 F2 C; [exact F2|].
  inversion F1 as [|a' l' Fa F1']; subst. cbn. constructor.
  - apply Forall_app. split; [exact Fa|]. apply Forall_forall. intros y Hy. apply C; [left; reflexivity|exact Hy].
  - apply IH; auto. intros x y Hx Hy. apply C; [right; exact Hx|exact Hy].
Qed.

Lemma FOP_map_snoc (pre : path) ks : NoDup ks -> ForallOrdPairs incomp (map (fun k => pre ++ [k]) ks).
Proof.
  induction 1 as [|k ks NI ND IH]; cbn; constructor; [|exact IH].
  apply Forall_forall. intros y Hy. apply in_map_iff in Hy. destruct Hy as [k' [<- Hk']].
  assert (D : k <> k') by (intros ->; contradiction).
  split; apply (prefix_diverge pre); auto.
Qed.

Lemma snoc_prefix_of (pre x : path) k : is_prefix (pre ++ [k]) x = true -> is_prefix pre x = true.
Proof. intros H. eapply is_prefix_trans; [apply is_prefix_app|exact H]. Qed.

Lemma incomp_snoc (pre x : path) k : incomp pre x -> incomp (pre ++ [k]) x.
Proof.
  intros [H1 H2]. split.
  - destruct (is_prefix (pre ++ [k]) x) eqn:E; [|reflexivity]. rewrite (snoc_prefix_of _ _ _ E) in H1. discriminate.
  - destruct (is_prefix x (pre ++ [k])) eqn:E; [|reflexivity].
    destruct (prefix_snoc _ _ _ E) as [H|H]; [congruence|]. subst x. rewrite is_prefix_app in H1. discriminate.
Qed.

Lemma qi_pres c pre qr :
  (forall cs, c = CBranch cs -> NoDup (keys cs)) ->
  exists ks, NoDup ks /\ map pre_of (query_items c pre qr) = map (fun k => pre ++ [k]) ks.
Proof.
  intros ND. unfold query_items.
  assert (ALL : forall cs (r' : path), map pre_of (map (fun kc : string * nat => ((snd kc, pre ++ [fst kc], r') : qitem)) cs)
                             = map (fun k => pre ++ [k]) (keys cs)).
  { intros cs r'. rewrite !map_map. reflexivity. }
  destruct qr as [|k r].
  - destruct c as [| |cs]; try (exists []; split; [constructor|reflexivity]).
    exists (keys cs). split; [apply ND; reflexivity|apply ALL].
  - destruct (is_glob k).
    + destruct c as [| |cs]; try (exists []; split; [constructor|reflexivity]).
      exists (keys cs). split; [apply ND; reflexivity|apply ALL].
    + destruct c as [| |cs]; try (exists []; split; [constructor|reflexivity]).
      destruct (assoc k cs); [|exists []; split; [constructor|reflexivity]].
      exists [k]. split; [constructor; [intros []|constructor]|reflexivity].
Qed.

Lemma uq_step b h t h' t' :
  keys_nodup h -> fam_ok t -> uq (tpc t) -> tstep_gen b h t = Some (h', t') -> uq (tpc t').
Proof.
  intros KN [FA S1] U ST. pose proof (tstep_shape _ _ _ _ _ ST) as SH.
  assert (TRIV : forall p, acc_of p = [] -> pending p = [] -> uq p).
  { intros p A P. unfold uq. rewrite A, P. split; [constructor|]. split; [intros a x []|constructor]. }
  destruct t as [o p hs]. cbn [top tpc held] in *.
  destruct (lockop_of (TH o p hs)) eqn:LO.
  - destruct SH as [_ ->]. cbn [tpc].
    destruct p; cbn -[Nat.ltb hdelete set_cont new_chain] in *; try discriminate;
      try (apply TRIV; reflexivity).
    + (* PStart *) destruct o0; cbn -[Nat.ltb]; try (apply TRIV; reflexivity).
      * split; [constructor|]. split; [intros a x []|]. constructor; [constructor|constructor].
      * destruct (Nat.ltb n (List.length h)); apply TRIV; reflexivity.
      * destruct (Nat.ltb n (List.length h)); apply TRIV; reflexivity.
    + destruct (get_cont h t); apply TRIV; reflexivity.
    + destruct (get_cont h t) as [| |cs]; try (apply TRIV; reflexivity). destruct (assoc k cs); apply TRIV; reflexivity.
    + destruct (get_cont h t) as [| |cs]; cbn -[set_cont new_chain]; try (apply TRIV; reflexivity).
      destruct (assoc k cs); apply TRIV; reflexivity.
    + destruct p as [|k r]; [apply TRIV; reflexivity|]. destruct (get_cont h t) as [| |cs]; try (apply TRIV; reflexivity).
      destruct (assoc k cs); apply TRIV; reflexivity.
    + destruct k; cbn; [|apply TRIV; reflexivity]. destruct r; try (apply TRIV; reflexivity).
      destruct U as [U1 _]. split; [exact U1|]. split; [intros a x _ []|constructor].
    + (* PQRead *)
      destruct U as [U1 [U2 U3]]. cbn [acc_of pending] in *.
      destruct (query_visits (get_cont h t) q) eqn:QV; cbn [snd visit_override tpc]; unfold uq;
        cbn [acc_of pending List.concat app].
      * split; [exact U1|]. split; [exact U2|exact U3].
      * destruct (qi_pres (get_cont h t) pre q) as [ks [NDk Ek]].
        { intros cs E. eapply KN; eauto. }
        rewrite map_app, Ek. inversion U3 as [|x l Fx F3]; subst.
        split; [exact U1|]. split.
        -- intros a x Ha Hx. apply in_app_or in Hx. destruct Hx as [Hx|Hx].
           ++ apply in_map_iff in Hx. destruct Hx as [k [<- _]].
              destruct (is_prefix (pre ++ [k]) a) eqn:E; [|reflexivity].
              pose proof (U2 a pre Ha (or_introl eq_refl)) as X. rewrite (snoc_prefix_of _ _ _ E) in X. discriminate.
           ++ apply U2; auto. right. exact Hx.
        -- apply FOP_app; [apply FOP_map_snoc; exact NDk|exact F3|].
           intros x y Hx Hy. apply in_map_iff in Hx. destruct Hx as [k [<- _]].
           apply incomp_snoc. rewrite Forall_forall in Fx. apply Fx. exact Hy.
    + (* PQVisit *)
      destruct U as [U1 [U2 U3]]. cbn [acc_of pending] in *.
      inversion U3 as [|x l Fx F3]; subst.
      assert (NEXT : uq (PQNext (acc ++ [(pre, v)]) fr)).
      { cbn [uq acc_of pending]. unfold uq. cbn [acc_of pending]. rewrite map_app. cbn [map fst]. split.
        - apply NoDup_app_intro_single; [exact U1|]. intros Hin.
          pose proof (U2 pre pre Hin (or_introl eq_refl)) as X. rewrite is_prefix_refl in X. discriminate.
        - split; [|exact F3]. intros a x Ha Hx. apply in_app_or in Ha. destruct Ha as [Ha|[<-|[]]].
          + apply U2; auto. right. exact Hx.
          + rewrite Forall_forall in Fx. destruct (Fx _ Hx) as [_ H2]. exact H2. }
      destruct o as [| |q0 [k|]| | | |]; cbn; try exact NEXT.
      destruct (Nat.eqb (List.length acc) k); [apply TRIV; reflexivity|exact NEXT].
    + (* PQNext *)
      destruct U as [U1 [U2 U3]]. cbn [acc_of pending] in *.
      destruct fr as [|[|[[c pre0] q0] todo] fr]; cbn [snd visit_override tpc].
      * split; [exact U1|]. split; [intros a x _ []|constructor].
      * split; [exact U1|]. split; [exact U2|exact U3].
      * split; [exact U1|]. split; [exact U2|exact U3].
    + destruct (heads_all q).
      * destruct (get_cont h n); try (apply TRIV; reflexivity). destruct (strip_glob q); apply TRIV; reflexivity.
      * destruct q as [|k r]; try (apply TRIV; reflexivity). destruct (get_cont h n) as [| |cs]; try (apply TRIV; reflexivity).
        destruct (assoc k cs); apply TRIV; reflexivity.
    + destruct fr as [|f fr]; try (apply TRIV; reflexivity). destruct (dtodo f) as [|[k c] rest]; apply TRIV; reflexivity.
    + destruct fr as [|f fr]; apply TRIV; reflexivity.
    + destruct fr as [|f fr]; apply TRIV; reflexivity.
  - destruct SH as [_ [_ ->]]. cbn [tpc]. destruct p; cbn in *; try discriminate; try (apply TRIV; reflexivity);
      try exact U; try (destruct p; apply TRIV; reflexivity);
      try (destruct fr as [|[|? ?] ?]; cbn in *; discriminate); try (destruct fr; cbn in *; discriminate);
      try (destruct hs; cbn in *; discriminate); try (destruct p; cbn in *; discriminate).
  - destruct SH as [_ ->]. cbn [tpc]. destruct p; cbn in *; try discriminate; try (apply TRIV; reflexivity);
      try exact U; try (destruct p; apply TRIV; reflexivity);
      try (destruct fr as [|[|? ?] ?]; cbn in *; discriminate); try (destruct fr; cbn in *; discriminate);
      try (destruct hs; cbn in *; discriminate); try (destruct p; cbn in *; discriminate).
  - destruct SH as [_ [_ ->]]. cbn [tpc]. destruct p; cbn in *; try discriminate; try (apply TRIV; reflexivity);
      try exact U;
      try (destruct fr as [|[|? ?] ?]; cbn in *; discriminate); try (destruct fr; cbn in *; discriminate);
      try (destruct hs; cbn in *; discriminate); try (destruct p; cbn in *; discriminate).
  - destruct SH as [n [m [hs' [_ [_ ->]]]]]. cbn [tpc]. destruct p; cbn in *; try discriminate; try (apply TRIV; reflexivity);
      try exact U;
      repeat (match goal with
              | |- context [match ?x with _ => _ end] => is_var x; destruct x
              | H : context [match ?x with _ => _ end] |- _ => is_var x; destruct x
              end; cbn in *; try discriminate; try (apply TRIV; reflexivity); try exact U).
Qed.

Theorem reach_uq ops s :
  forallb patched_op ops = true -> reach ops s -> Forall (fun t => uq (tpc t)) (thr s).
Proof.
  intros QP R. induction R as [|s j s' R IH ST].
  - cbn. apply Forall_forall. intros t Ht. apply in_map_iff in Ht. destruct Ht as [o [<- _]].
    cbn. split; [constructor|]. split; [intros a x []|constructor].
  - destruct (reach_TInv _ _ QP R) as [_ [_ [KN _]]].
    unfold step, step_gen in ST.
    destruct (nth_error (thr s) j) as [tj|] eqn:Ej; [|discriminate].
    destruct (tstep_gen false (hp s) tj) as [[h' tj']|] eqn:Ets; [|discriminate]. inv ST. cbn [hp thr].
    apply Forall_forall. intros t0 H0. apply In_set_nth in H0. destruct H0 as [->|H0].
    + eapply uq_step; eauto.
      * apply (Forall_nth_error _ _ _ _ (reach_fam_ok _ _ R) Ej).
      * apply (Forall_nth_error _ _ _ _ IH Ej).
    + rewrite Forall_forall in IH. auto.
Qed.

(** a Query / Walk reports no path twice *)
Theorem query_reports_once ops s i t acc :
  forallb patched_op ops = true -> reach ops s ->
  nth_error (thr s) i = Some t -> tpc t = PDone (XLeaves acc) -> NoDup (map fst acc).
Proof.
  intros QP R Et Pc. pose proof (Forall_nth_error _ _ _ _ (reach_uq _ _ QP R) Et) as [U _].
  rewrite Pc in U. exact U.
Qed.

(** non-vacuity: a Query parked in its visitor keeps a Delete waiting at the root
    and reports both leaves; the Delete removes a/b afterwards *)
Definition qd_ex_ops : list cop :=
  [CAdd ["a"; "b"] 1%Z; CAdd ["a"; "c"] 2%Z; CQuery ["a"; "*"] None; CDelete ["a"; "b"]].
Definition qd_ex_sched1 : list nat := repeat 0 40 ++ repeat 1 40 ++ repeat 2 9 ++ repeat 3 5.
Definition qd_ex_sched2 : list nat := qd_ex_sched1 ++ repeat 2 40 ++ repeat 3 40.

Example query_delete_example :
  (let s := run_sched (init_state qd_ex_ops) qd_ex_sched1 in
   map (fun t => (tpc t, held t)) (thr s)
   = [(PDone (XAdd true), []); (PDone (XAdd true), []);
      (PQVisit ["a"; "b"] 1 [] [[]; [(3, ["a"; "c"], [])]; []], [(2, MR); (1, MR); (0, MR)]);
      (PLDelAcq ["a"; "b"], [])]) /\
  (let s := run_sched (init_state qd_ex_ops) qd_ex_sched2 in
   (map tpc (thr s), map (absf (hp s)) [["a"; "b"]; ["a"; "c"]])
   = ([PDone (XAdd true); PDone (XAdd true);
       PDone (XLeaves [(["a"; "b"], 1%Z); (["a"; "c"], 2%Z)]); PDone (XPaths [["a"; "b"]])],
      [None; Some 2%Z])).
Proof. split; vm_compute; reflexivity. Qed.

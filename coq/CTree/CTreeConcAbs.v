(** Abstraction of the concurrent ctree model to a flat map and what every
    step does to it (towards linearizability of the point operations,
    quiescent serializability and query stability over the LTS). *)
From Gnmi Require Import Base.Prelude CTree.CTreeModel CTree.CTreeConc CTree.CTreeConcProofs
  CTree.CTreeConcLin.
From Coq Require Import Arith Lia.
Open Scope nat_scope.

Local Arguments do_rel : simpl never.
Local Arguments do_rlock : simpl never.
Local Arguments do_req : simpl never.
Local Arguments do_acq : simpl never.
Local Arguments set_cont : simpl never.
Local Arguments hdelete : simpl never.
Local Arguments new_chain : simpl never.

(** * The abstraction: the leaf value stored at a path (ignoring all locks) *)
Definition absf (h : heap) (p : path) : option Z :=
  match resolve h 0 p with
  | Some n => match get_cont h n with CLeaf v => Some v | _ => None end
  | None => None
  end.

(** * resolve *)

Lemma resolve_app h p1 : forall n p2,
  resolve h n (p1 ++ p2) = match resolve h n p1 with Some m => resolve h m p2 | None => None end.
Proof.
  induction p1 as [|k r IH]; intros n p2; cbn; [reflexivity|].
  destruct (get_cont h n) as [| |cs]; auto. destruct (assoc k cs); auto.
Qed.

Lemma resolve_snoc_inv h p k n c :
  resolve h n (p ++ [k]) = Some c ->
  exists m cs, resolve h n p = Some m /\ get_cont h m = CBranch cs /\ assoc k cs = Some c.
Proof.
  rewrite resolve_app. destruct (resolve h n p) as [m|]; [|discriminate]. cbn.
  destruct (get_cont h m) as [| |cs] eqn:E; try discriminate.
  destruct (assoc k cs) as [c'|] eqn:A; [|discriminate]. intros X; inv X. eauto.
Qed.

(** along a resolved path ids strictly increase *)
Lemma resolve_ge h : heap_ok h -> forall p n m, resolve h n p = Some m -> n <= m.
Proof.
  intros [_ HO]. induction p as [|k r IH]; intros n m R; cbn in R; [inv R; auto|].
  destruct (get_cont h n) as [| |cs] eqn:E; try discriminate.
  destruct (assoc k cs) as [c|] eqn:A; [|discriminate].
  specialize (HO _ _ E). rewrite Forall_forall in HO. destruct (HO _ (assoc_In _ _ _ A)) as [L _].
  specialize (IH _ _ R). cbn in L. lia.
Qed.

Lemma resolve_gt h : heap_ok h -> forall p n m, p <> [] -> resolve h n p = Some m -> n < m.
Proof.
  intros HO p n m NE R. destruct p as [|k r]; [contradiction|]. cbn in R.
  destruct (get_cont h n) as [| |cs] eqn:E; try discriminate.
  destruct (assoc k cs) as [c|] eqn:A; [|discriminate].
  pose proof (resolve_ge h HO _ _ _ R). destruct HO as [_ HO].
  specialize (HO _ _ E). rewrite Forall_forall in HO. destruct (HO _ (assoc_In _ _ _ A)) as [L _].
  cbn in L. lia.
Qed.

(** * Tree shape: names are unique within a branch, every node has one parent *)
Definition keys_nodup (h : heap) : Prop :=
  forall n cs, get_cont h n = CBranch cs -> NoDup (keys cs).

Definition uniq_parent (h : heap) : Prop :=
  forall n1 n2 cs1 cs2 k1 k2 c,
    get_cont h n1 = CBranch cs1 -> In (k1, c) cs1 ->
    get_cont h n2 = CBranch cs2 -> In (k2, c) cs2 -> n1 = n2 /\ k1 = k2.

Definition tree_shape (h : heap) : Prop := keys_nodup h /\ uniq_parent h.

Lemma assoc_In_iff {A} (l : list (string * A)) k c :
  NoDup (keys l) -> (assoc k l = Some c <-> In (k, c) l).
Proof. intros ND. split; [apply assoc_In|apply In_assoc; auto]. Qed.

(** every node is reached by at most one path *)
Lemma resolve_inj h :
  heap_ok h -> tree_shape h ->
  forall p1 p2 n, resolve h 0 p1 = Some n -> resolve h 0 p2 = Some n -> p1 = p2.
Proof.
  intros HO [KN UP]. induction p1 as [|k1 r1 IH] using rev_ind; intros p2 n R1 R2.
  - cbn in R1. inv R1. destruct p2 as [|k r]; [reflexivity|].
    assert (0 < 0) by (eapply resolve_gt; eauto; discriminate). lia.
  - destruct (resolve_snoc_inv _ _ _ _ _ R1) as [m1 [cs1 [Rm1 [E1 A1]]]].
    destruct p2 as [|k2 r2 _] using rev_ind.
    + cbn in R2. inv R2.
      assert (0 < 0) by (eapply resolve_gt; eauto; destruct r1; discriminate). lia.
    + destruct (resolve_snoc_inv _ _ _ _ _ R2) as [m2 [cs2 [Rm2 [E2 A2]]]].
      destruct (UP _ _ _ _ _ _ _ E1 (assoc_In _ _ _ A1) E2 (assoc_In _ _ _ A2)) as [-> ->].
      f_equal. eapply IH; eauto.
Qed.

(** ** tree shape is preserved *)

Lemma get_cont_set h n c m :
  get_cont (set_cont h n c) m =
  if Nat.eqb m n && Nat.ltb n (List.length h) then c else get_cont h m.
Proof.
  destruct (Nat.eqb_spec m n) as [->|D]; cbn [andb].
  - destruct (Nat.ltb_spec n (List.length h)).
    + apply get_cont_set_eq; auto.
    + rewrite !get_cont_oob; auto. rewrite length_set_cont; auto.
  - apply get_cont_set_neq; auto.
Qed.

Lemma ts_same h h' : (forall n, get_cont h' n = get_cont h n) -> tree_shape h -> tree_shape h'.
Proof.
  intros E [KN UP]. split.
  - intros n cs H. rewrite E in H. eauto.
  - intros n1 n2 cs1 cs2 k1 k2 c H1 I1 H2 I2. rewrite E in H1, H2. eauto.
Qed.

(** replacing a node's content by something with fewer (or no) children *)
Lemma ts_set_shrink h n c :
  tree_shape h ->
  (forall cs', c = CBranch cs' ->
     NoDup (keys cs') /\ exists cs, get_cont h n = CBranch cs /\ incl cs' cs) ->
  tree_shape (set_cont h n c).
Proof.
  intros [KN UP] Hc.
  assert (G : forall m cs', get_cont (set_cont h n c) m = CBranch cs' ->
              NoDup (keys cs') /\ exists cs, get_cont h m = CBranch cs /\ incl cs' cs).
  { intros m cs' H. rewrite get_cont_set in H.
    destruct (Nat.eqb_spec m n) as [->|D]; cbn [andb] in H.
    - destruct (Nat.ltb n (List.length h)); [apply Hc; auto|].
      split; [eauto|]. exists cs'. split; [auto|apply incl_refl].
    - split; [eauto|]. exists cs'. split; [auto|apply incl_refl]. }
  split.
  - intros m cs' H. apply (G _ _ H).
  - intros n1 n2 cs1 cs2 k1 k2 c0 H1 I1 H2 I2.
    destruct (G _ _ H1) as [_ [d1 [E1 J1]]]. destruct (G _ _ H2) as [_ [d2 [E2 J2]]].
    eapply UP; eauto.
Qed.

Lemma keys_app {A} (l1 l2 : list (string * A)) : keys (l1 ++ l2) = keys l1 ++ keys l2.
Proof. apply map_app. Qed.

Lemma get_cont_chain base r v i :
  get_cont (new_chain base r v) i =
  match nth_error (new_chain base r v) i with Some x => cont x | None => CNil end.
Proof. reflexivity. Qed.

Lemma ts_alloc h t0 cs0 k r v :
  heap_ok h -> tree_shape h -> t0 < List.length h ->
  (get_cont h t0 = CNil /\ cs0 = [] \/ get_cont h t0 = CBranch cs0) ->
  assoc k cs0 = None ->
  tree_shape (set_cont h t0 (CBranch (cs0 ++ [(k, List.length h)])) ++ new_chain (List.length h) r v).
Proof.
  intros HO [KN UP] Lt E0 A.
  set (h' := set_cont h t0 (CBranch (cs0 ++ [(k, List.length h)])) ++ new_chain (List.length h) r v).
  (* contents of h' *)
  assert (C1 : forall n, n < List.length h -> n <> t0 -> get_cont h' n = get_cont h n).
  { intros n L D. unfold h'. rewrite get_cont_app_l by (rewrite length_set_cont; auto).
    apply get_cont_set_neq; auto. }
  assert (C2 : get_cont h' t0 = CBranch (cs0 ++ [(k, List.length h)])).
  { unfold h'. rewrite get_cont_app_l by (rewrite length_set_cont; auto). apply get_cont_set_eq; auto. }
  assert (C3 : forall n cs, List.length h <= n -> get_cont h' n = CBranch cs ->
                            exists k', cs = [(k', S n)]).
  { intros n cs L H. unfold h', get_cont in H.
    rewrite nth_error_app2 in H by (rewrite length_set_cont; auto). rewrite length_set_cont in H.
    change (get_cont (new_chain (List.length h) r v) (n - List.length h) = CBranch cs) in H.
    destruct (new_chain_branch _ _ _ _ _ H) as [k' [-> _]]. exists k'. do 3 f_equal. lia. }
  assert (OLD : forall n cs, get_cont h n = CBranch cs ->
                             n < List.length h /\ Forall (fun kc : string * nat => n < snd kc /\ snd kc < List.length h) cs).
  { intros n cs H. split; [|apply HO; auto].
    destruct (Nat.lt_ge_cases n (List.length h)); auto. rewrite get_cont_oob in H by auto. discriminate. }
  assert (ND0 : NoDup (keys cs0)).
  { destruct E0 as [[_ ->]|E0]; [constructor|eauto]. }
  assert (F0 : Forall (fun kc : string * nat => t0 < snd kc /\ snd kc < List.length h) cs0).
  { destruct E0 as [[_ ->]|E0]; [constructor|apply HO; auto]. }
  (* classify an edge of h' *)
  assert (EDGE : forall n cs k' c, get_cont h' n = CBranch cs -> In (k', c) cs ->
            (n < List.length h /\ c < List.length h /\
             exists cs1, get_cont h n = CBranch cs1 /\ In (k', c) cs1) \/
            (n = t0 /\ c = List.length h /\ k' = k) \/
            (List.length h <= n /\ c = S n)).
  { intros n cs k' c H I. destruct (Nat.lt_ge_cases n (List.length h)) as [L|L].
    - destruct (Nat.eq_dec n t0) as [->|D].
      + rewrite C2 in H. inv H. apply in_app_or in I. destruct I as [I|[I|[]]].
        * left. rewrite Forall_forall in F0. destruct (F0 _ I) as [_ Lc]. cbn in Lc.
          split; [auto|]. split; [auto|]. destruct E0 as [[_ ->]|E0]; [destruct I|eauto].
        * inv I. right; left. auto.
      + rewrite C1 in H by auto. left. destruct (OLD _ _ H) as [_ F]. rewrite Forall_forall in F.
        destruct (F _ I) as [_ Lc]. cbn in Lc. split; [auto|]. split; [auto|]. eauto.
    - destruct (C3 _ _ L H) as [k'' ->]. destruct I as [I|[]]. inv I. right; right. auto. }
  split.
  - intros n cs H. destruct (Nat.lt_ge_cases n (List.length h)) as [L|L].
    + destruct (Nat.eq_dec n t0) as [->|D].
      * rewrite C2 in H. inv H. rewrite keys_app. cbn. apply NoDup_app_intro_single; auto.
        apply assoc_None. exact A.
      * rewrite C1 in H by auto. eauto.
    + destruct (C3 _ _ L H) as [k' ->]. cbn. constructor; [intros []|constructor].
  - intros n1 n2 cs1 cs2 k1 k2 c H1 I1 H2 I2.
    destruct (EDGE _ _ _ _ H1 I1) as [[L1 [Lc1 [d1 [E1 J1]]]]|[[-> [-> ->]]|[L1 ->]]];
      destruct (EDGE _ _ _ _ H2 I2) as [[L2 [Lc2 [d2 [E2 J2]]]]|[[-> [Ec ->]]|[L2 Ec]]];
      try lia; auto.
    + eapply UP; eauto.
    + split; [lia|]. assert (n1 = n2) by lia. subst n2. rewrite H1 in H2. inv H2.
      destruct (C3 _ _ L1 H1) as [k' ->]. destruct I1 as [I1|[]]. destruct I2 as [I2|[]]. congruence.
Qed.

Lemma tstep_tree_shape b h t h' t' :
  heap_ok h -> thread_ok (List.length h) t -> patched_pc (tpc t) = true ->
  tree_shape h -> tstep_gen b h t = Some (h', t') -> tree_shape h'.
Proof.
  intros HO [_ [IL P]] PA TS ST. pose proof (tstep_shape _ _ _ _ _ ST) as SH.
  destruct (lockop_of t) eqn:LO.
  - destruct SH as [-> _]. destruct t as [o p hs]. cbn [tpc held top] in *.
    destruct p; cbn -[set_cont new_chain hdelete] in *; try discriminate; auto.
    + (* terminalAdd *)
      destruct (get_cont h t); cbn -[set_cont]; auto; apply ts_set_shrink; auto; discriminate.
    + destruct (get_cont h t) as [| |cs]; cbn; auto. destruct (assoc k cs); auto.
    + (* slowAdd *)
      assert (Lt : t < List.length h) by (destruct P as [[r0 ->] _]; inv IL; auto).
      destruct (get_cont h t) as [| |cs] eqn:E; cbn -[set_cont new_chain]; auto.
      * apply (ts_alloc h t [] k r v); auto.
      * destruct (assoc k cs) eqn:A; cbn -[set_cont new_chain]; auto.
        apply (ts_alloc h t cs k r v); auto.
    + destruct p as [|k r]; cbn; auto. destruct (get_cont h t) as [| |cs]; cbn; auto.
      destruct (assoc k cs); auto.
    + destruct k; auto.
    + apply ts_set_shrink; auto; discriminate.
    + destruct (query_visits (get_cont h t) q); auto.
    + destruct fr as [|[|[[c pre0] q0] todo] fr]; auto.
    + destruct (heads_all q).
      * destruct (get_cont h n); auto. destruct (strip_glob q); auto.
      * destruct q as [|k r]; auto. destruct (get_cont h n) as [| |cs]; auto. destruct (assoc k cs); auto.
    + destruct fr as [|f fr]; auto. destruct (dtodo f) as [|[k c] rest]; auto.
    + destruct fr as [|f fr]; auto. destruct del; cbn -[set_cont]; auto.
      apply ts_set_shrink; auto; discriminate.
    + destruct fr as [|f fr]; auto. destruct del; cbn -[set_cont]; auto.
      destruct (get_cont h (dn f)) as [| |cs] eqn:E; cbn -[set_cont]; auto.
      apply ts_set_shrink; auto. intros cs' X. inv X. split.
      * apply NoDup_keys_adel. destruct TS as [KN _]. eauto.
      * exists cs. split; [auto|apply incl_adel].
  - destruct SH as [_ [-> _]]. eapply ts_same; [|exact TS]. intros; apply get_cont_upd_mu; auto.
  - destruct SH as [-> _]. eapply ts_same; [|exact TS]. intros; apply get_cont_upd_mu; auto.
  - destruct SH as [_ [-> _]]. eapply ts_same; [|exact TS]. intros; apply get_cont_upd_mu; auto.
  - destruct SH as [n [m [hs [_ [-> _]]]]]. eapply ts_same; [|exact TS].
    intros; destruct m; apply get_cont_upd_mu; auto.
Qed.

(** invariant of every reachable state of a program of the current code *)
Definition TInv (s : state) : Prop :=
  WInv s /\ Forall (fun t => patched_pc (tpc t) = true) (thr s) /\ tree_shape (hp s).

Lemma reach_TInv ops s : forallb patched_op ops = true -> reach ops s -> TInv s.
Proof.
  intros Q R. split; [apply (reach_WInv _ _ R)|]. split; [apply (reach_patched _ _ Q R)|].
  induction R as [|s i s' R IH ST].
  - split.
    + intros n cs H. destruct n as [|[|n]]; cbn in H; discriminate.
    + intros n1 n2 cs1 cs2 k1 k2 c H1. destruct n1 as [|[|n1]]; cbn in H1; discriminate.
  - pose proof (reach_Inv _ _ R) as [HO [TO _]]. pose proof (reach_patched _ _ Q R) as PP.
    unfold step, step_gen in ST.
    destruct (nth_error (thr s) i) as [t|] eqn:Et; [|discriminate].
    destruct (tstep_gen false (hp s) t) as [[h' t']|] eqn:Ets; [|discriminate]. inv ST. cbn [hp].
    eapply tstep_tree_shape; eauto.
    + eapply Forall_nth_error; eauto.
    + apply (Forall_nth_error _ _ _ _ PP Et).
Qed.

(** * What the heap updates of the model do to the abstraction *)

Definition upd (m : path -> option Z) (p : path) (v : Z) : path -> option Z :=
  fun q => if path_eqb q p then Some v else m q.

Lemma resolve_ext h h' : (forall n, get_cont h' n = get_cont h n) ->
  forall p n, resolve h' n p = resolve h n p.
Proof.
  intros E. induction p as [|k r IH]; intros n; cbn; [reflexivity|]. rewrite E.
  destruct (get_cont h n) as [| |cs]; auto. destruct (assoc k cs); auto.
Qed.

Lemma absf_same h h' : (forall n, get_cont h' n = get_cont h n) -> forall p, absf h' p = absf h p.
Proof. intros E p. unfold absf. rewrite (resolve_ext h h' E). destruct (resolve h 0 p); auto. rewrite E. auto. Qed.

Definition is_branch_c (c : content) : bool := match c with CBranch _ => true | _ => false end.

(** overwriting a node that has no children by something without children
    changes no path *)
Lemma resolve_set_nonbranch h t0 c :
  is_branch_c (get_cont h t0) = false -> is_branch_c c = false ->
  forall p n, resolve (set_cont h t0 c) n p = resolve h n p.
Proof.
  intros B1 B2. induction p as [|k r IH]; intros n; cbn; [reflexivity|].
  rewrite get_cont_set. destruct (Nat.eqb_spec n t0) as [->|D]; cbn [andb].
  - destruct (Nat.ltb t0 (List.length h)).
    + destruct c; try discriminate; destruct (get_cont h t0); try discriminate; auto.
    + destruct (get_cont h t0) as [| |cs]; auto. destruct (assoc k cs); auto.
  - destruct (get_cont h n) as [| |cs]; auto. destruct (assoc k cs); auto.
Qed.

(** terminalAdd / Leaf.Update on a leaf: exactly the paths leading to that node change *)
Lemma absf_set_leaf h t0 v :
  t0 < List.length h -> is_branch_c (get_cont h t0) = false ->
  forall q, absf (set_cont h t0 (CLeaf v)) q =
            match resolve h 0 q with
            | Some n => if Nat.eqb n t0 then Some v else absf h q
            | None => absf h q
            end.
Proof.
  intros L B q. unfold absf. rewrite resolve_set_nonbranch by auto.
  destruct (resolve h 0 q) as [n|]; auto. rewrite get_cont_set.
  destruct (Nat.eqb_spec n t0) as [->|D]; cbn [andb]; auto.
  destruct (Nat.ltb_spec t0 (List.length h)); [auto|lia].
Qed.

Lemma path_eqb_sym p q : path_eqb p q = path_eqb q p.
Proof.
  destruct (path_eqb_spec p q) as [->|D]; [rewrite path_eqb_refl; auto|].
  destruct (path_eqb_spec q p); [congruence|auto].
Qed.

(** ... which, in a tree, is exactly one path *)
Lemma absf_set_leaf_at h t0 v p :
  heap_ok h -> tree_shape h -> t0 < List.length h -> is_branch_c (get_cont h t0) = false ->
  resolve h 0 p = Some t0 ->
  forall q, absf (set_cont h t0 (CLeaf v)) q = upd (absf h) p v q.
Proof.
  intros HO TS L B R q. rewrite absf_set_leaf by auto. unfold upd.
  destruct (resolve h 0 q) as [n|] eqn:Rq.
  - destruct (Nat.eqb_spec n t0) as [->|D].
    + rewrite (resolve_inj h HO TS _ _ _ Rq R). rewrite path_eqb_refl. reflexivity.
    + destruct (path_eqb_spec q p) as [->|]; auto. congruence.
  - destruct (path_eqb_spec q p) as [->|]; auto. congruence.
Qed.

(** ** insertion of a fresh chain (slowAdd) *)

Lemma chain_resolve r : forall (pfx : heap) v r',
  resolve (pfx ++ new_chain (List.length pfx) r v) (List.length pfx) r' =
  if is_prefix r' r then Some (List.length pfx + List.length r') else None.
Proof.
  induction r as [|a r0 IH]; intros pfx v r'.
  - destruct r' as [|k' r'']; cbn; [f_equal; lia|].
    unfold get_cont. rewrite nth_error_app2 by auto. rewrite Nat.sub_diag. reflexivity.
  - destruct r' as [|k' r'']; [cbn; f_equal; lia|].
    change (new_chain (List.length pfx) (a :: r0) v)
      with (HN (CBranch [(a, S (List.length pfx))]) 0 false 0 :: new_chain (S (List.length pfx)) r0 v).
    cbn [resolve]. unfold get_cont at 1. rewrite nth_error_app2 by auto. rewrite Nat.sub_diag.
    cbn [nth_error cont assoc fst snd is_prefix].
    destruct (String.eqb k' a) eqn:Ek; cbn [andb]; [|reflexivity].
    specialize (IH (pfx ++ [HN (CBranch [(a, S (List.length pfx))]) 0 false 0]) v r'').
    rewrite app_length in IH. cbn [List.length] in IH. rewrite Nat.add_1_r in IH.
    rewrite <- app_assoc in IH. cbn [app] in IH. rewrite IH.
    destruct (is_prefix r'' r0); [f_equal; cbn; lia|reflexivity].
Qed.

Lemma chain_content r : forall (pfx : heap) v i,
  i <= List.length r ->
  is_branch_c (get_cont (pfx ++ new_chain (List.length pfx) r v) (List.length pfx + i)) =
  negb (Nat.eqb i (List.length r)) /\
  (i = List.length r ->
   get_cont (pfx ++ new_chain (List.length pfx) r v) (List.length pfx + i) = CLeaf v).
Proof.
  induction r as [|a r0 IH]; intros pfx v i Li.
  - cbn in Li. assert (i = 0) by lia. subst i. rewrite Nat.add_0_r.
    unfold get_cont. rewrite nth_error_app2 by auto. rewrite Nat.sub_diag. cbn. auto.
  - change (new_chain (List.length pfx) (a :: r0) v)
      with (HN (CBranch [(a, S (List.length pfx))]) 0 false 0 :: new_chain (S (List.length pfx)) r0 v).
    destruct i as [|i].
    + rewrite Nat.add_0_r. unfold get_cont. rewrite nth_error_app2 by auto. rewrite Nat.sub_diag.
      cbn. split; [reflexivity|discriminate].
    + specialize (IH (pfx ++ [HN (CBranch [(a, S (List.length pfx))]) 0 false 0]) v i).
      rewrite app_length in IH. cbn [List.length] in IH. rewrite Nat.add_1_r in IH.
      rewrite <- app_assoc in IH. cbn [app] in IH.
      replace (List.length pfx + S i) with (S (List.length pfx) + i) by lia.
      cbn [List.length] in *. destruct IH as [I1 I2]; [lia|]. split.
      * rewrite I1. reflexivity.
      * intros X. apply I2. lia.
Qed.

Lemma chain_resolve' r (pfx : heap) L0 v r' :
  List.length pfx = L0 ->
  resolve (pfx ++ new_chain L0 r v) L0 r' =
  if is_prefix r' r then Some (L0 + List.length r') else None.
Proof. intros <-. apply chain_resolve. Qed.

Lemma chain_content' r (pfx : heap) L0 v i :
  List.length pfx = L0 -> i <= List.length r ->
  is_branch_c (get_cont (pfx ++ new_chain L0 r v) (L0 + i)) = negb (Nat.eqb i (List.length r)) /\
  (i = List.length r -> get_cont (pfx ++ new_chain L0 r v) (L0 + i) = CLeaf v).
Proof. intros <-. apply chain_content. Qed.

Lemma resolve_lt h : heap_ok h -> forall q n m,
  n < List.length h -> resolve h n q = Some m -> m < List.length h.
Proof.
  intros [_ HO]. induction q as [|a q IH]; intros n m L R; cbn in R; [inv R; auto|].
  destruct (get_cont h n) as [| |cs] eqn:E; try discriminate.
  destruct (assoc a cs) as [c|] eqn:A; [|discriminate].
  specialize (HO _ _ E). rewrite Forall_forall in HO. destruct (HO _ (assoc_In _ _ _ A)) as [_ Lc].
  eapply IH; eauto.
Qed.

Lemma assoc_app_neq {A} a k (l : list (string * A)) c :
  a <> k -> assoc a (l ++ [(k, c)]) = assoc a l.
Proof.
  intros D. induction l as [|kc l IH]; cbn.
  - destruct (String.eqb_spec a k); [contradiction|reflexivity].
  - destruct (String.eqb a (fst kc)); auto.
Qed.

Lemma app_cons_length_neq {A} (l : list A) x s : l <> l ++ x :: s.
Proof.
  intros E. assert (List.length l = List.length (l ++ x :: s)) by (rewrite <- E; auto).
  rewrite app_length in H. cbn in H. lia.
Qed.

Section Alloc.
Variables (h : heap) (t0 : nat) (cs0 : list (string * nat)) (k : string) (r : path) (v : Z) (pre : path).
Hypothesis HO : heap_ok h.
Hypothesis TS : tree_shape h.
Hypothesis Lt : t0 < List.length h.
Hypothesis E0 : get_cont h t0 = CNil /\ cs0 = [] \/ get_cont h t0 = CBranch cs0.
Hypothesis A0 : assoc k cs0 = None.
Hypothesis Rpre : resolve h 0 pre = Some t0.

Let L := List.length h.
Let h' := set_cont h t0 (CBranch (cs0 ++ [(k, L)])) ++ new_chain L r v.

Lemma alloc_old_cont n : n < L -> n <> t0 -> get_cont h' n = get_cont h n.
Proof.
  intros Ln D. unfold h'. rewrite get_cont_app_l by (rewrite length_set_cont; auto).
  apply get_cont_set_neq; auto.
Qed.

Lemma alloc_t0_cont : get_cont h' t0 = CBranch (cs0 ++ [(k, L)]).
Proof. unfold h'. rewrite get_cont_app_l by (rewrite length_set_cont; auto). apply get_cont_set_eq; auto. Qed.

Lemma alloc_F0 : Forall (fun kc : string * nat => t0 < snd kc /\ snd kc < L) cs0.
Proof. destruct E0 as [[_ ->]|E]; [constructor|apply HO; auto]. Qed.

(** a walk that never takes the new edge is unchanged *)
Lemma alloc_old_resolve : forall q n,
  n < L -> (forall q1 r1, q = q1 ++ k :: r1 -> resolve h n q1 <> Some t0) ->
  resolve h' n q = resolve h n q.
Proof.
  induction q as [|a q IH]; intros n Ln NH; cbn; [reflexivity|].
  destruct (Nat.eq_dec n t0) as [->|D].
  - assert (a <> k).
    { intros ->. apply (NH [] q); reflexivity. }
    rewrite alloc_t0_cont. rewrite assoc_app_neq by auto.
    destruct E0 as [[E ->]|E]; rewrite E; cbn; [reflexivity|].
    destruct (assoc a cs0) as [c|] eqn:Aa; [|reflexivity].
    pose proof alloc_F0 as F. rewrite E in *. rewrite Forall_forall in F.
    destruct (F _ (assoc_In _ _ _ Aa)) as [_ Lc]. cbn in Lc.
    apply IH; auto. intros q1 r1 -> X. apply (NH (a :: q1) r1); [reflexivity|].
    cbn. rewrite E, Aa. exact X.
  - rewrite alloc_old_cont by auto.
    destruct (get_cont h n) as [| |cs] eqn:E; auto.
    destruct (assoc a cs) as [c|] eqn:Aa; [|reflexivity].
    destruct HO as [_ HO']. specialize (HO' _ _ E). rewrite Forall_forall in HO'.
    destruct (HO' _ (assoc_In _ _ _ Aa)) as [_ Lc]. cbn in Lc.
    apply IH; auto. intros q1 r1 -> X. apply (NH (a :: q1) r1); [reflexivity|].
    cbn. rewrite E, Aa. exact X.
Qed.

Lemma alloc_chain_eq : h' = set_cont h t0 (CBranch (cs0 ++ [(k, L)])) ++
                            new_chain (List.length (set_cont h t0 (CBranch (cs0 ++ [(k, L)])))) r v.
Proof. unfold h'. rewrite length_set_cont. reflexivity. Qed.

Theorem absf_alloc : forall q, absf h' q = upd (absf h) (pre ++ k :: r) v q.
Proof.
  intros q. unfold upd.
  assert (INJ := resolve_inj h HO TS).
  assert (PRE' : resolve h' 0 pre = Some t0).
  { rewrite alloc_old_resolve; auto; [destruct HO; auto|].
    intros q1 r1 Eq X. rewrite (INJ _ _ _ X Rpre) in Eq. eapply app_cons_length_neq; eauto. }
  destruct (is_prefix (pre ++ [k]) q) eqn:IP.
  - apply is_prefix_spec in IP. destruct IP as [r1 ->]. rewrite <- app_assoc. cbn [app].
    (* through the new edge into the chain *)
    assert (Rh : resolve h 0 (pre ++ k :: r1) = None).
    { rewrite resolve_app, Rpre. cbn. destruct E0 as [[E _]|E]; rewrite E; [reflexivity|].
      rewrite A0. reflexivity. }
    assert (Rh' : resolve h' 0 (pre ++ k :: r1) =
                  if is_prefix r1 r then Some (L + List.length r1) else None).
    { rewrite resolve_app, PRE'. cbn [resolve]. rewrite alloc_t0_cont.
      rewrite (assoc_app_none _ _ _ A0). unfold h'.
      apply chain_resolve'. apply length_set_cont. }
    unfold absf. rewrite Rh, Rh'.
    destruct (path_eqb_spec (pre ++ k :: r1) (pre ++ k :: r)) as [Eq|Ne].
    + apply app_inv_head in Eq. inv Eq.
      assert (IPr : is_prefix r r = true) by (apply is_prefix_spec; exists []; rewrite app_nil_r; auto).
      rewrite IPr. unfold h'.
      destruct (chain_content' r (set_cont h t0 (CBranch (cs0 ++ [(k, L)]))) L v (List.length r)
                  (length_set_cont _ _ _) (le_n _)) as [_ C].
      rewrite C by reflexivity. reflexivity.
    + destruct (is_prefix r1 r) eqn:IPr; [|reflexivity].
      apply is_prefix_spec in IPr. destruct IPr as [s Es].
      assert (Ls : List.length r1 < List.length r).
      { destruct s as [|x s]; [rewrite app_nil_r in Es; subst; contradiction|].
        rewrite Es, app_length. cbn. lia. }
      unfold h'.
      destruct (chain_content' r (set_cont h t0 (CBranch (cs0 ++ [(k, L)]))) L v (List.length r1)
                  (length_set_cont _ _ _)) as [B _]; [lia|].
      destruct (Nat.eqb_spec (List.length r1) (List.length r)); [lia|]. cbn in B.
      match goal with
      | |- match ?c with _ => _ end = None => destruct c; try discriminate; reflexivity
      end.
  - (* never takes the new edge *)
    assert (NH : forall q1 r1, q = q1 ++ k :: r1 -> resolve h 0 q1 <> Some t0).
    { intros q1 r1 -> X. rewrite (INJ _ _ _ X Rpre) in IP.
      assert (is_prefix (pre ++ [k]) (pre ++ k :: r1) = true).
      { apply is_prefix_spec. exists r1. rewrite <- app_assoc. reflexivity. }
      congruence. }
    assert (Rq : resolve h' 0 q = resolve h 0 q) by (apply alloc_old_resolve; auto; destruct HO; auto).
    destruct (path_eqb_spec q (pre ++ k :: r)) as [->|Ne].
    { exfalso. apply (NH pre r eq_refl Rpre). }
    unfold absf. rewrite Rq. destruct (resolve h 0 q) as [m|] eqn:Rm; [|reflexivity].
    assert (Lm : m < L).
    { eapply (resolve_lt h HO q 0 m); [destruct HO; auto|exact Rm]. }
    destruct (Nat.eq_dec m t0) as [->|D].
    + rewrite alloc_t0_cont. destruct E0 as [[E _]|E]; rewrite E; reflexivity.
    + rewrite alloc_old_cont by auto. reflexivity.
Qed.
End Alloc.

(** ** removal of one child (Delete's [delete(b, k)]) and clearing the root *)

Section Adel.
Variables (h : heap) (n : nat) (cs : list (string * nat)) (k : string) (pn : path).
Hypothesis HO : heap_ok h.
Hypothesis TS : tree_shape h.
Hypothesis En : get_cont h n = CBranch cs.
Hypothesis Rn : resolve h 0 pn = Some n.

Let h' := set_cont h n (CBranch (adel k cs)).

Lemma adel_Ln : n < List.length h.
Proof.
  destruct (Nat.lt_ge_cases n (List.length h)); auto. rewrite get_cont_oob in En by auto. discriminate.
Qed.

Lemma adel_other m : m <> n -> get_cont h' m = get_cont h m.
Proof. intros D. unfold h'. apply get_cont_set_neq; auto. Qed.

Lemma adel_at : get_cont h' n = CBranch (adel k cs).
Proof. unfold h'. apply get_cont_set_eq. apply adel_Ln. Qed.

Lemma adel_old_resolve : forall q s,
  (forall q1 r1, q = q1 ++ k :: r1 -> resolve h s q1 <> Some n) ->
  resolve h' s q = resolve h s q.
Proof.
  induction q as [|a q IH]; intros s NH; cbn; [reflexivity|].
  destruct (Nat.eq_dec s n) as [->|D].
  - assert (a <> k) by (intros ->; apply (NH [] q); reflexivity).
    rewrite adel_at, En. rewrite assoc_adel by (destruct TS as [KN _]; eauto).
    destruct (String.eqb_spec a k); [contradiction|].
    destruct (assoc a cs) as [c|] eqn:Aa; [|reflexivity].
    apply IH. intros q1 r1 -> X. apply (NH (a :: q1) r1); [reflexivity|].
    cbn. rewrite En, Aa. exact X.
  - rewrite adel_other by auto.
    destruct (get_cont h s) as [| |ds] eqn:E; auto.
    destruct (assoc a ds) as [c|] eqn:Aa; [|reflexivity].
    apply IH. intros q1 r1 -> X. apply (NH (a :: q1) r1); [reflexivity|].
    cbn. rewrite E, Aa. exact X.
Qed.

Theorem absf_adel : forall q,
  absf h' q = if is_prefix (pn ++ [k]) q then None else absf h q.
Proof.
  intros q. assert (INJ := resolve_inj h HO TS).
  assert (PN' : resolve h' 0 pn = Some n).
  { rewrite adel_old_resolve; auto.
    intros q1 r1 Eq X. rewrite (INJ _ _ _ X Rn) in Eq. eapply app_cons_length_neq; eauto. }
  destruct (is_prefix (pn ++ [k]) q) eqn:IP.
  - apply is_prefix_spec in IP. destruct IP as [r1 ->]. rewrite <- app_assoc. cbn [app].
    unfold absf. rewrite resolve_app, PN'. cbn [resolve]. rewrite adel_at.
    rewrite assoc_adel by (destruct TS as [KN _]; eauto). rewrite String.eqb_refl. reflexivity.
  - assert (NH : forall q1 r1, q = q1 ++ k :: r1 -> resolve h 0 q1 <> Some n).
    { intros q1 r1 -> X. rewrite (INJ _ _ _ X Rn) in IP.
      assert (is_prefix (pn ++ [k]) (pn ++ k :: r1) = true).
      { apply is_prefix_spec. exists r1. rewrite <- app_assoc. reflexivity. }
      congruence. }
    unfold absf. rewrite adel_old_resolve by auto.
    destruct (resolve h 0 q) as [m|]; [|reflexivity].
    destruct (Nat.eq_dec m n) as [->|D].
    + rewrite adel_at, En. reflexivity.
    + rewrite adel_other by auto. reflexivity.
Qed.
End Adel.

Lemma absf_clear_root h q : 0 < List.length h -> absf (set_cont h 0 CNil) q = None.
Proof.
  intros L. unfold absf. destruct q as [|a q]; cbn.
  - rewrite get_cont_set_eq by auto. reflexivity.
  - rewrite get_cont_set_eq by auto. reflexivity.
Qed.

(** * What every step does to the abstraction *)

(** the value an Add carries in its program counter is the value of its call *)
Definition pc_val (p : pc) : option Z :=
  match p with
  | PAddEnter _ _ v | PAddTAcq _ v | PAddTCrit _ v | PAddIRead _ _ _ v | PAddIRel _ _ _ v
  | PAddUpg _ _ _ v | PAddUAcq _ _ _ v | PAddSlow _ _ _ v => Some v
  | _ => None
  end.

Definition val_ok (t : thread) : Prop :=
  match tpc t with
  | PStart o => o = top t
  | p => match pc_val p, top t with
         | Some v', CAdd _ v => v' = v
         | Some _, _ => False
         | None, _ => True
         end
  end.

Lemma tstep_val_ok b h t h' t' : val_ok t -> tstep_gen b h t = Some (h', t') -> val_ok t'.
Proof.
  intros V ST. pose proof (tstep_shape _ _ _ _ _ ST) as SH.
  destruct t as [o p hs]. unfold val_ok in *. cbn [tpc top held] in *.
  destruct (lockop_of (TH o p hs)) eqn:LO.
  - destruct SH as [_ ->]. cbn [tpc top].
    destruct p; cbn -[Nat.ltb hdelete set_cont new_chain] in *; try discriminate; auto;
    repeat (first
              [ match goal with |- context [start_pc ?a ?b] => destruct b end
              | match goal with |- context [match get_cont ?a ?b with _ => _ end] => destruct (get_cont a b) end
              | match goal with |- context [match assoc ?a ?b with _ => _ end] => destruct (assoc a b) end
              | match goal with |- context [if Nat.ltb ?a ?b then _ else _] => destruct (Nat.ltb a b) end
              | match goal with |- context [if Nat.eqb ?a ?b then _ else _] => destruct (Nat.eqb a b) end
              | match goal with |- context [match query_visits ?a ?b with _ => _ end] => destruct (query_visits a b) end
              | match goal with |- context [if heads_all ?a then _ else _] => destruct (heads_all a) end
              | match goal with |- context [match strip_glob ?a with _ => _ end] => destruct (strip_glob a) end
              | match goal with |- context [match dtodo ?a with _ => _ end] => destruct (dtodo a) as [|[? ?] ?] end
              | match goal with |- context [match ?x with _ => _ end] => is_var x; destruct x end ];
            cbn -[Nat.ltb hdelete set_cont new_chain] in *; subst; try discriminate; try contradiction; auto).
  - destruct SH as [_ [_ ->]]. cbn [tpc top]. destruct p; cbn in *; try discriminate; auto; qfin.
  - destruct SH as [_ ->]. cbn [tpc top]. destruct p; cbn in *; try discriminate; auto; qfin.
  - destruct SH as [_ [_ ->]]. cbn [tpc top]. destruct p; cbn in *; try discriminate; auto; qfin.
  - destruct SH as [n [m [hs' [_ [_ ->]]]]]. cbn [tpc top]. destruct p; cbn in *; try discriminate; auto; qfin.
Qed.

Lemma reach_val_ok ops s : reach ops s -> Forall val_ok (thr s).
Proof.
  induction 1 as [|s i s' R IH ST].
  - cbn. apply Forall_forall. intros t Ht. apply in_map_iff in Ht. destruct Ht as [o [<- _]].
    unfold val_ok. cbn. reflexivity.
  - unfold step, step_gen in ST.
    destruct (nth_error (thr s) i) as [t|] eqn:Et; [|discriminate].
    destruct (tstep_gen false (hp s) t) as [[h' t']|] eqn:Ets; [|discriminate]. inv ST. cbn [thr].
    apply Forall_forall. intros t0 H0. apply In_set_nth in H0. destruct H0 as [->|H0].
    + eapply tstep_val_ok; [|exact Ets]. apply (Forall_nth_error _ _ _ _ IH Et).
    + rewrite Forall_forall in IH. auto.
Qed.

Lemma absf_shrink_node h n cs cs' :
  get_cont h n = CBranch cs -> (forall a c, assoc a cs' = Some c -> assoc a cs = Some c) ->
  forall q, absf (set_cont h n (CBranch cs')) q = absf h q \/ absf (set_cont h n (CBranch cs')) q = None.
Proof.
  intros En SUB.
  assert (Ln : n < List.length h).
  { destruct (Nat.lt_ge_cases n (List.length h)); auto. rewrite get_cont_oob in En by auto. discriminate. }
  assert (R : forall q s, resolve (set_cont h n (CBranch cs')) s q = resolve h s q \/
                          resolve (set_cont h n (CBranch cs')) s q = None).
  { induction q as [|a q IH]; intros s; cbn; [auto|].
    destruct (Nat.eq_dec s n) as [->|D].
    - rewrite get_cont_set_eq by auto. rewrite En.
      destruct (assoc a cs') as [c|] eqn:A; [|auto]. rewrite (SUB _ _ A). apply IH.
    - rewrite get_cont_set_neq by auto. destruct (get_cont h s) as [| |ds]; auto.
      destruct (assoc a ds); auto. }
  intros q. unfold absf. destruct (R q 0) as [E|E]; rewrite E; [|auto].
  destruct (resolve h 0 q) as [m|]; [|auto]. destruct (Nat.eq_dec m n) as [->|D].
  - rewrite get_cont_set_eq by auto. rewrite En. auto.
  - rewrite get_cont_set_neq by auto. auto.
Qed.

(** [is_write h t = Some (p, v)]: the next step of thread [t] is the write step
    of Add(p, v) (see [ae_add]) *)
Definition is_write (h : heap) (t : thread) : option (path * Z) :=
  match top t, tpc t with
  | CAdd p v, PAddTCrit t0 _ =>
      if is_branch_c (get_cont h t0) then None else Some (p, v)
  | CAdd p v, PAddSlow t0 k _ _ =>
      match get_cont h t0 with
      | CNil => Some (p, v)
      | CBranch cs => match assoc k cs with None => Some (p, v) | Some _ => None end
      | CLeaf _ => None
      end
  | _, _ => None
  end.

(** the effect of one step of thread [t] on the abstraction *)
Inductive abs_effect (h h' : heap) (t : thread) : Prop :=
| ae_none : is_write h t = None -> (forall q, absf h' q = absf h q) -> abs_effect h h' t
| ae_add p v :
    (* the write step of Add(p, v): terminalAdd's store, or slowAdd's insertion
       of the new chain (which already carries the value) *)
    is_write h t = Some (p, v) -> top t = CAdd p v ->
    (forall q, absf h' q = upd (absf h) p v q) -> abs_effect h h' t
| ae_hupd n v :
    (* Leaf.Update through a handle: the path leading to that node, if any *)
    tpc t = PHUpdWrite n v ->
    (is_branch_c (get_cont h n) = false ->
     forall q, absf h' q = match resolve h 0 q with
                           | Some m => if Nat.eqb m n then Some v else absf h q
                           | None => absf h q
                           end) -> abs_effect h h' t
| ae_remove :
    (* a step of Delete: leaves disappear, nothing else changes *)
    in_delete (tpc t) = true -> (forall q, absf h' q = absf h q \/ absf h' q = None) ->
    abs_effect h h' t.

Lemma walk_pos_resolve s i t p t0 p' :
  TInv s -> nth_error (thr s) i = Some t -> walk_pos t = Some (p, t0, p') ->
  exists pre, p = pre ++ p' /\ resolve (hp s) 0 pre = Some t0.
Proof.
  intros [[_ [_ WO]] _] E W.
  pose proof (Forall_nth_error _ _ _ _ WO E) as Wt. unfold walk_ok in Wt.
  destruct (tpc t) eqn:P;
    try (rewrite W in Wt; destruct Wt as [pre9 [ns9 [Ep [Rp _]]]]; exists pre9; auto).
  unfold walk_pos in W. rewrite P in W. destruct (top t); discriminate.
Qed.

Ltac iw :=
  unfold is_write;
  match goal with Pc : tpc _ = _ |- _ => rewrite Pc end;
  match goal with
  | Tp : top _ = _ |- _ => rewrite Tp
  | |- _ => destruct (top _)
  end; try reflexivity; cbn -[set_cont];
  repeat match goal with
         | H : get_cont _ _ = _ |- _ => rewrite H
         | H : assoc _ _ = _ |- _ => rewrite H
         end; reflexivity.

Theorem step_abs_effect s i s' t :
  TInv s -> Forall val_ok (thr s) -> step s i = Some s' -> nth_error (thr s) i = Some t ->
  abs_effect (hp s) (hp s') t.
Proof.
  intros TI VO ST Et. assert (TI' := TI). destruct TI' as [[I [EX WO]] [PP TS]].
  destruct I as [HO [TO AC]].
  unfold step, step_gen in ST. rewrite Et in ST.
  destruct (tstep_gen false (hp s) t) as [[h' t']|] eqn:Ets; [|discriminate]. inv ST. cbn [hp].
  pose proof (Forall_nth_error _ _ _ _ TO Et) as [SO [IL P]].
  pose proof (Forall_nth_error _ _ _ _ PP Et) as PA. cbn in PA.
  pose proof (Forall_nth_error _ _ _ _ VO Et) as V.
  pose proof (tstep_shape _ _ _ _ _ Ets) as SH.
  set (h := hp s) in *.
  assert (SAME : forall h2, is_write h t = None ->
                            (forall n, get_cont h2 n = get_cont h n) -> abs_effect h h2 t).
  { intros h2 W E. apply ae_none; [exact W|]. apply absf_same. exact E. }
  assert (LKW : lockop_of t <> LNone -> is_write h t = None).
  { intros NL. unfold is_write. destruct (top t); try reflexivity.
    destruct (tpc t) eqn:Pc; try reflexivity; exfalso; apply NL; unfold lockop_of; rewrite Pc; reflexivity. }
  destruct (lockop_of t) eqn:LO.
  - destruct SH as [-> _].
    destruct (tpc t) eqn:Pc; cbn -[set_cont new_chain hdelete] in *; try discriminate;
      try (apply SAME; [iw|reflexivity]).
    + (* terminalAdd *)
      destruct (top t) as [pa va| | | | | |] eqn:Tp; unfold val_ok in V; rewrite Pc, Tp in V; cbn in V;
        try contradiction. subst v.
      destruct (walk_pos_resolve s i t pa t0 [] TI Et) as [pre [Ep Rp]].
      { unfold walk_pos. rewrite Tp, Pc. reflexivity. }
      rewrite app_nil_r in Ep. subst pre.
      assert (Lt : t0 < List.length h) by (destruct P as [[r0 Hr] _]; rewrite Hr in IL; inv IL; auto).
      destruct (get_cont h t0) eqn:E; cbn -[set_cont].
      * eapply ae_add; [iw|exact Tp|]. apply absf_set_leaf_at; auto. rewrite E. reflexivity.
      * eapply ae_add; [iw|exact Tp|]. apply absf_set_leaf_at; auto. rewrite E. reflexivity.
      * apply SAME; [iw|reflexivity].
    + destruct (get_cont h t0) as [| |cs]; cbn; try (apply SAME; [iw|reflexivity]).
      destruct (assoc k cs); apply SAME; [iw|reflexivity].
    + (* slowAdd *)
      destruct (top t) as [pa va| | | | | |] eqn:Tp; unfold val_ok in V; rewrite Pc, Tp in V; cbn in V;
        try contradiction. subst v.
      destruct (walk_pos_resolve s i t pa t0 (k :: r) TI Et) as [pre [Ep Rp]].
      { unfold walk_pos. rewrite Tp, Pc. reflexivity. }
      assert (Lt : t0 < List.length h) by (destruct P as [[r0 Hr] _]; rewrite Hr in IL; inv IL; auto).
      destruct (get_cont h t0) as [| |cs] eqn:E; cbn -[set_cont new_chain].
      * eapply ae_add; [iw|exact Tp|]. subst pa.
        apply (absf_alloc h t0 [] k r va pre); auto.
      * apply SAME; [iw|reflexivity].
      * destruct (assoc k cs) eqn:A; cbn -[set_cont new_chain]; [apply SAME; [iw|reflexivity]|].
        eapply ae_add; [iw|exact Tp|]. subst pa.
        apply (absf_alloc h t0 cs k r va pre); auto.
    + destruct p as [|k r]; cbn; try (apply SAME; [iw|reflexivity]).
      destruct (get_cont h t0) as [| |cs]; cbn; try (apply SAME; [iw|reflexivity]).
      destruct (assoc k cs); apply SAME; [iw|reflexivity].
    + destruct k; apply SAME; [iw|reflexivity].
    + (* Leaf.Update *)
      apply (ae_hupd h _ t n v Pc). intros B q.
      assert (Ln : n < List.length h) by (rewrite P in IL; inv IL; auto).
      apply absf_set_leaf; auto.
    + destruct (query_visits (get_cont h t0) q); apply SAME; [iw|reflexivity].
    + destruct fr as [|[|[[c pre0] q0] todo] fr]; apply SAME; [iw|reflexivity].
    + destruct (heads_all q).
      * destruct (get_cont h n); try (apply SAME; [iw|reflexivity]). destruct (strip_glob q); apply SAME; [iw|reflexivity].
      * destruct q as [|k r]; try (apply SAME; [iw|reflexivity]).
        destruct (get_cont h n) as [| |cs]; try (apply SAME; [iw|reflexivity]).
        destruct (assoc k cs); apply SAME; [iw|reflexivity].
    + destruct fr as [|f fr]; try (apply SAME; [iw|reflexivity]).
      destruct (dtodo f) as [|[k c] rest]; apply SAME; [iw|reflexivity].
    + destruct fr as [|f fr]; try (apply SAME; [iw|reflexivity]).
      destruct del; cbn -[set_cont]; [|apply SAME; [iw|reflexivity]].
      apply ae_remove; [rewrite Pc; reflexivity|]. intros q. right.
      apply absf_clear_root. apply HO.
    + destruct fr as [|f fr]; try (apply SAME; [iw|reflexivity]).
      destruct del; cbn -[set_cont]; [|apply SAME; [iw|reflexivity]].
      destruct (get_cont h (dn f)) as [| |cs] eqn:E; cbn -[set_cont]; try (apply SAME; [iw|reflexivity]).
      apply ae_remove; [rewrite Pc; reflexivity|].
      apply (absf_shrink_node h (dn f) cs (adel (dcur f) cs) E).
      intros a c A. destruct TS as [KN _]. rewrite assoc_adel in A by eauto.
      destruct (String.eqb a (dcur f)); [discriminate|exact A].
  - destruct SH as [_ [-> _]]. apply SAME; [apply LKW; rewrite LO; discriminate|]. intros; apply get_cont_upd_mu; auto.
  - destruct SH as [-> _]. apply SAME; [apply LKW; rewrite LO; discriminate|]. intros; apply get_cont_upd_mu; auto.
  - destruct SH as [_ [-> _]]. apply SAME; [apply LKW; rewrite LO; discriminate|]. intros; apply get_cont_upd_mu; auto.
  - destruct SH as [n [m [hs [_ [-> _]]]]]. apply SAME; [apply LKW; rewrite LO; discriminate|].
    intros; destruct m; apply get_cont_upd_mu; auto.
Qed.

